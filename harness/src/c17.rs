//! C17: summary fields (head bbox, hhea/vhea + hmtx/vmtx, maxp, loca format, OS/2 derived fields).
//!
//! Everything is reached through the public API: a root `fontir`/`fontbe` context is populated with a
//! generated glyph set (glyf fragments built with write-fonts, IR glyphs carrying advances and
//! codepoints) and the REAL work items are executed in pipeline order:
//!   create_glyf_loca_work  (compute_composite_bboxes/bbox_of_composite, GlyfLocaBuilder → loca format)
//!   create_head_work       (indexToLocFormat)
//!   create_metric_and_limit_work (MetricsBuilder, MaxBuilder, update_composite_limits, head bbox)
//!   create_vertical_metrics_work (MetricsBuilder twin)
//!   create_os2_work        (x_avg_char_width, first/last char, unicode/codepage ranges, max context)
//! One line per case: the glyph data as stored in the fragments + every summary field produced.
use crate::rng::Rng;
use crate::sexp::S;
use crate::Args;
use fontbe::orchestration::{Context as BeContext, Glyph as BeGlyph, WorkId as BeWorkId};
use fontdrasil::coords::NormalizedLocation;
use fontdrasil::orchestration::Access;
use fontdrasil::types::GlyphName;
use fontir::ir;
use fontir::orchestration::Context as FeContext;
use kurbo::{Affine, BezPath};
use std::collections::{HashMap, HashSet};
use write_fonts::tables::glyf::{
    Anchor, Bbox, Component, ComponentFlags, CompositeGlyph, Glyph as RawGlyph, SimpleGlyph, Transform,
};
use write_fonts::types::{F2Dot14, GlyphId16};

#[derive(Clone, Debug)]
pub struct Comp {
    pub gid: u16,
    pub dx: i16,
    pub dy: i16,
    /// xx, yx, xy, yy in units of 1/4 (exact in F2Dot14 and in f64 products to any depth we generate)
    pub q: [i32; 4],
}

#[derive(Clone, Debug)]
pub enum Shape {
    Empty,
    /// contours of (x, y, on_curve); each contour: first point on-curve, never two off-curve in a row
    Simple(Vec<Vec<(i16, i16, bool)>>),
    Composite(Vec<Comp>),
}

#[derive(Clone, Debug)]
pub struct G {
    pub width: f64,
    pub height: Option<f64>,
    pub vorg: Option<f64>,
    pub cps: Vec<u32>,
    pub shape: Shape,
}

#[derive(Clone, Debug)]
pub struct Case {
    pub upem: u16,
    pub asc: f64,
    pub desc: f64,
    pub vertical: bool,
    pub glyphs: Vec<G>,
    /// source-assigned OS/2 ulUnicodeRange bits (`openTypeOS2UnicodeRanges`), normally absent
    pub assigned_ur: Option<Vec<u32>>,
}

const MARKERS: [u32; 30] = [
    0xDE, 0x13D, 0x411, 0x405, 0x255C, 0x386, 0xBD, 0x221A, 0x130, 0x5D0, 0x631, 0x157, 0x20AB, 0xE45,
    0x30A8, 0x3105, 0x3131, 0x592E, 0xACF4, 0x2665, 0xFE, 0x255A, 0xC5, 0xE9, 0xF5, 0x2030, 0x2211,
    0x2524, 0x7E, 0x7D,
];

fn gen_cp(rng: &mut Rng) -> u32 {
    match rng.below(10) {
        0 | 1 | 2 => rng.range(0x20, 0x7E) as u32,
        3 => rng.range(0xA0, 0x24F) as u32,
        4 | 5 => *rng.pick(&MARKERS),
        6 => rng.range(0, 0xFFFF) as u32,
        7 => rng.range(0x10000, 0x10FFFF) as u32,
        8 => *rng.pick(&[0u32, 0xFFFF, 0x10000, 0xFFFE, 0xD7FF, 0xD800, 0xDFFF, 0xE000, 0x1F02F, 0x10FFFF, 0x2FA1F, 0x2FA20]),
        _ => rng.range(0x370, 0x3200) as u32,
    }
}

fn gen_coord(rng: &mut Rng, wild: bool) -> i16 {
    if wild && rng.chance(1, 6) {
        rng.range(-12000, 12000) as i16
    } else {
        rng.range(-300, 1300) as i16
    }
}

fn gen_simple(rng: &mut Rng, wild: bool) -> Shape {
    let n_contours = 1 + rng.below(3);
    let mut cs = vec![];
    for _ in 0..n_contours {
        let n_pts = 3 + rng.below(5);
        let mut pts: Vec<(i16, i16, bool)> = vec![];
        let mut prev_off = false;
        for k in 0..n_pts {
            let off = k > 0 && k + 1 < n_pts && !prev_off && rng.chance(1, 3);
            // avoid accidental duplicates of the previous point (from_bezpath may drop closing duplicates)
            let mut p = (gen_coord(rng, wild), gen_coord(rng, wild));
            while pts.iter().any(|q| (q.0, q.1) == p) {
                p = (gen_coord(rng, wild), gen_coord(rng, wild));
            }
            pts.push((p.0, p.1, !off));
            prev_off = off;
        }
        cs.push(pts);
    }
    Shape::Simple(cs)
}

pub fn gen_case(rng: &mut Rng) -> Case {
    let cap = if rng.chance(1, 3) { 40 } else { 12 };
    let n = 1 + rng.below(cap);
    let wild = rng.chance(1, 4);
    let upem = *rng.pick(&[1000u16, 2048, 1000, 16384]);
    let asc = rng.range(600, 1000) as f64;
    let desc = -(rng.range(100, 400) as f64);
    let vertical = rng.chance(1, 3);
    // acyclic by construction: composites only reference glyphs of smaller `level`; gid order is independent
    let mut level: Vec<usize> = (0..n).collect();
    rng.shuffle(&mut level);
    let mut by_level: Vec<usize> = (0..n).collect();
    by_level.sort_by_key(|g| level[*g]);
    let mut shapes: Vec<Option<Shape>> = vec![None; n];
    let mut depth: Vec<usize> = vec![0; n];
    let p_comp = *rng.pick(&[0usize, 2, 4, 6]);
    for (k, &g) in by_level.iter().enumerate() {
        let lower: Vec<usize> = by_level[..k].iter().copied().filter(|h| depth[*h] < 4).collect();
        let roll = rng.below(10);
        if roll < p_comp && !lower.is_empty() {
            let ncap = if rng.chance(1, 5) { 5 } else { 2 };
            let nc = 1 + rng.below(ncap);
            let mut comps = vec![];
            let mut d = 0;
            for _ in 0..nc {
                // prefer deep children sometimes, to reach depth 4
                let h = if rng.chance(1, 2) {
                    { let md = lower.iter().map(|h| depth[*h]).max().unwrap(); let deep: Vec<usize> = lower.iter().copied().filter(|h| depth[*h] == md).collect(); *rng.pick(&deep) }
                } else {
                    *rng.pick(&lower)
                };
                d = d.max(depth[h] + 1);
                let q = match rng.below(6) {
                    0 | 1 | 2 => [4, 0, 0, 4],
                    3 => [*rng.pick(&[-4, 2, 6, 7, -2]), 0, 0, *rng.pick(&[4, 2, -4, 6])],
                    4 => [0, 4, -4, 0],
                    _ => [rng.range(-7, 7) as i32, rng.range(-7, 7) as i32, rng.range(-7, 7) as i32, rng.range(-7, 7) as i32],
                };
                comps.push(Comp { gid: h as u16, dx: rng.range(-400, 800) as i16, dy: rng.range(-400, 800) as i16, q });
            }
            depth[g] = d;
            shapes[g] = Some(Shape::Composite(comps));
        } else if roll == 9 || (g == 0 && rng.chance(1, 2)) {
            shapes[g] = Some(Shape::Empty);
        } else {
            shapes[g] = Some(gen_simple(rng, wild));
        }
    }
    // advances
    let mono = rng.chance(1, 6);
    let mono_w = rng.range(0, 1200) as f64;
    let tail = if rng.chance(1, 3) { 1 + rng.below(n) } else { 0 };
    let tail_w = if rng.chance(1, 4) { 0.0 } else { rng.range(1, 1200) as f64 };
    let big = rng.chance(1, 12);
    let ascii_block = rng.chance(1, 4);
    let reject_mode = rng.chance(1, 25);
    let mut glyphs = vec![];
    for g in 0..n {
        let mut width = if mono {
            mono_w
        } else if rng.chance(1, 8) {
            0.0
        } else if big && rng.chance(1, 2) {
            rng.range(30000, 65535) as f64
        } else {
            rng.range(1, 2000) as f64
        };
        if g >= n - tail {
            width = tail_w;
        }
        if rng.chance(1, 20) {
            width += 0.5;
        }
        // fractional advances on either side of the rounding boundary (a width in (0, 1/2) is a zero advance in hmtx)
        if rng.chance(1, 25) {
            width += *rng.pick(&[0.25, 0.75, 0.375]);
        }
        // rarely an advance the code must reject (944e88e): negative, or beyond u16 after rounding
        if reject_mode && rng.chance(1, 6) {
            width = *rng.pick(&[-1.0, -0.5, -0.75, 65535.5, 65536.0, 70000.0, 65535.25, -300.0]);
        }
        let mut height = if rng.chance(1, 2) { Some(rng.range(0, 2000) as f64) } else { None };
        if reject_mode && rng.chance(1, 10) {
            height = Some(*rng.pick(&[-1.0, 65535.5, 70000.0, 65535.0, -0.5]));
        }
        let vorg = if rng.chance(1, 2) { Some(rng.range(-200, 1200) as f64) } else { None };
        let mut cps = vec![];
        let ncp = *rng.pick(&[0usize, 1, 1, 1, 2, 3]);
        for _ in 0..ncp {
            cps.push(gen_cp(rng));
        }
        if ascii_block && g == n / 2 {
            cps.extend(0x20u32..0x7E);
        }
        glyphs.push(G { width, height, vorg, cps, shape: shapes[g].clone().unwrap() });
    }
    Case { upem, asc, desc, vertical, glyphs, assigned_ur: None }
}

fn name_of(i: usize) -> GlyphName {
    GlyphName::new(format!("g{i:03}"))
}

fn raw_glyph(shape: &Shape) -> RawGlyph {
    match shape {
        Shape::Empty => RawGlyph::Empty,
        Shape::Simple(cs) => {
            let mut path = BezPath::new();
            for c in cs {
                path.move_to((c[0].0 as f64, c[0].1 as f64));
                let mut k = 1;
                while k < c.len() {
                    if c[k].2 {
                        path.line_to((c[k].0 as f64, c[k].1 as f64));
                        k += 1;
                    } else {
                        // off-curve followed by an on-curve (generator guarantees k+1 exists and is on)
                        path.quad_to((c[k].0 as f64, c[k].1 as f64), (c[k + 1].0 as f64, c[k + 1].1 as f64));
                        k += 2;
                    }
                }
                path.close_path();
            }
            RawGlyph::Simple(SimpleGlyph::from_bezpath(&path).expect("simple glyph"))
        }
        Shape::Composite(comps) => {
            let mk = |c: &Comp| {
                Component::new(
                    GlyphId16::new(c.gid),
                    Anchor::Offset { x: c.dx, y: c.dy },
                    Transform {
                        xx: F2Dot14::from_f32(c.q[0] as f32 / 4.0),
                        yx: F2Dot14::from_f32(c.q[1] as f32 / 4.0),
                        xy: F2Dot14::from_f32(c.q[2] as f32 / 4.0),
                        yy: F2Dot14::from_f32(c.q[3] as f32 / 4.0),
                    },
                    ComponentFlags { round_xy_to_grid: true, ..Default::default() },
                )
            };
            // as fontbe does: bbox is a placeholder until compute_composite_bboxes runs
            let mut it = comps.iter();
            let mut cg = CompositeGlyph::new(mk(it.next().unwrap()), Bbox::default());
            for c in it {
                cg.add_component(mk(c), Bbox::default());
            }
            RawGlyph::Composite(cg)
        }
    }
}

fn s_bbox(b: Option<Bbox>) -> S {
    S::opt(b.map(|b| S::list([S::int(b.x_min), S::int(b.y_min), S::int(b.x_max), S::int(b.y_max)])))
}

fn words(bytes: &[u8]) -> S {
    S::list(bytes.chunks(2).map(|c| S::int(u16::from_be_bytes([c[0], *c.get(1).unwrap_or(&0)]) as i64)))
}

/// The glyph data exactly as stored in the fragment (what the summary fields summarise).
fn s_shape(g: &RawGlyph) -> S {
    match g {
        RawGlyph::Empty => S::list([S::atom("e")]),
        RawGlyph::Simple(s) => {
            let mut v = vec![S::atom("s")];
            for c in &s.contours {
                v.push(S::list(c.iter().map(|p| S::list([S::int(p.x), S::int(p.y), S::int(p.on_curve as i64)]))));
            }
            S::L(v)
        }
        RawGlyph::Composite(c) => {
            let mut v = vec![S::atom("c")];
            for comp in c.components() {
                let Anchor::Offset { x, y } = comp.anchor else { panic!("anchor") };
                v.push(S::list([
                    S::int(comp.glyph.to_u16() as i64),
                    S::int(x),
                    S::int(y),
                    S::f32(comp.transform.xx.to_f32()),
                    S::f32(comp.transform.yx.to_f32()),
                    S::f32(comp.transform.xy.to_f32()),
                    S::f32(comp.transform.yy.to_f32()),
                ]));
            }
            S::L(v)
        }
    }
}

fn err_word(e: &fontbe::error::Error) -> S {
    let d = format!("{e:?}");
    S::atom(d.split(|c: char| !c.is_alphanumeric()).next().unwrap_or("err").to_string())
}

pub fn run_case(case: &Case) -> Vec<S> {
    let n = case.glyphs.len();
    let default_loc = NormalizedLocation::new();
    // ---- IR side
    let fe_root = FeContext::new_root(Default::default(), None);
    let fe = fe_root.copy_for_work(Access::All, Access::All);
    let mut sm = ir::StaticMetadata::new(
        case.upem,
        HashMap::new(),
        vec![],
        vec![],
        HashSet::from([default_loc.clone()]),
        None,
        0.0,
        None,
        case.vertical,
    )
    .expect("static metadata");
    sm.misc.unicode_range_bits = case.assigned_ur.as_ref().map(|v| v.iter().copied().collect());
    fe.static_metadata.set(sm);
    let mut gm = ir::GlobalMetricsBuilder::new();
    gm.populate_defaults(&default_loc, case.upem, None, Some(case.asc), Some(case.desc), None);
    let gm = gm.build(&fontdrasil::types::Axes::default()).expect("global metrics");
    let gmi = gm.at(&default_loc);
    let (typo_asc, typo_desc) = (gmi.os2_typo_ascender.into_inner(), gmi.os2_typo_descender.into_inner());
    fe.global_metrics.set(gm);
    let mut order = ir::GlyphOrder::new();
    for i in 0..n {
        order.insert(name_of(i));
    }
    fe.glyph_order.set(order);
    for (i, g) in case.glyphs.iter().enumerate() {
        let inst = ir::GlyphInstance {
            width: g.width,
            height: g.height,
            vertical_origin: g.vorg,
            contours: vec![],
            components: match &g.shape {
                Shape::Composite(cs) => cs.iter().map(|c| ir::Component::new(name_of(c.gid as usize), Affine::IDENTITY)).collect(),
                _ => vec![],
            },
        };
        let glyph = ir::Glyph::new(
            name_of(i),
            true,
            g.cps.iter().copied().collect(),
            HashMap::from([(default_loc.clone(), inst)]),
        )
        .expect("ir glyph");
        fe.glyphs.set(glyph);
    }
    // ---- BE side
    let be_root = BeContext::new_root(Default::default(), None, None, None, false, &fe_root);
    let be = be_root.copy_for_work(Access::All, Access::All);
    for (i, g) in case.glyphs.iter().enumerate() {
        be.glyphs.set_unconditionally(BeGlyph { name: name_of(i), data: raw_glyph(&g.shape) });
    }
    let mut fields = vec![
        S::k1("upem", S::int(case.upem as i64)),
        S::k1("asc", S::f64(typo_asc)),
        S::k1("desc", S::f64(typo_desc)),
        S::k1("vertical", S::usize(case.vertical as usize)),
    ];
    if let Some(bits) = &case.assigned_ur {
        fields.push(S::k1("assigned_ur", S::list(bits.iter().map(|b| S::int(*b as i64)))));
    }
    let mut works: Vec<(&str, Box<fontbe::orchestration::BeWork>)> = vec![
        ("glyf", fontbe::glyphs::create_glyf_loca_work()),
        ("head", fontbe::head::create_head_work()),
        ("hmtx", fontbe::metrics_and_limits::create_metric_and_limit_work()),
    ];
    if case.vertical {
        works.push(("vmtx", fontbe::vertical_metrics::create_vertical_metrics_work()));
    }
    works.push(("os2", fontbe::os2::create_os2_work()));
    // a panic inside one work item is reported as `(err (<work> panic <message>))` together with the glyph
    // data, so the driver can tell an overflow that belongs to property C19 from a genuine failure
    let mut err = S::atom("none");
    for (what, w) in &works {
        let r = std::panic::catch_unwind(std::panic::AssertUnwindSafe(|| w.exec(&be)));
        match r {
            Ok(Ok(())) => {}
            Ok(Err(e)) => {
                err = S::list([S::atom(*what), err_word(&e)]);
                break;
            }
            Err(p) => {
                let msg = p.downcast_ref::<String>().cloned()
                    .or_else(|| p.downcast_ref::<&str>().map(|s| s.to_string()))
                    .unwrap_or_default();
                err = S::list([S::atom(*what), S::atom("panic"), S::str(&msg)]);
                break;
            }
        }
    }
    // glyph data as stored (after composite bboxes were filled in)
    let frags: Vec<_> = (0..n).map(|i| be.glyphs.get(&BeWorkId::GlyfFragment(name_of(i)).into())).collect();
    fields.push(S::k1(
        "glyphs",
        S::list(case.glyphs.iter().zip(&frags).map(|(g, f)| {
            let mut cps = g.cps.clone();
            cps.sort();
            cps.dedup();
            S::list([
                S::f64(g.width),
                S::opt(g.height.map(S::f64)),
                S::opt(g.vorg.map(S::f64)),
                S::list(cps.iter().map(|c| S::int(*c as i64))),
                s_shape(&f.data),
            ])
        })),
    ));
    let mut im = vec![S::k1("err", err.clone())];
    im.push(S::k1("bboxes", S::list(frags.iter().map(|f| s_bbox(f.data.bbox())))));
    if err == S::atom("none") {
        im.push(S::k1("sizes", S::list(frags.iter().map(|f| S::usize(f.to_bytes().len())))));
    }
    if err == S::atom("none") {
        let loca_fmt = {
            let f: write_fonts::tables::loca::LocaFormat = (*be.loca_format.get().as_ref()).into();
            f as u8
        };
        im.push(S::k1("locafmt", S::int(loca_fmt as i64)));
        let loca = be.loca.get();
        let raw = loca.get();
        let offs: Vec<S> = if loca_fmt == 0 {
            raw.chunks(2).map(|c| S::int(u16::from_be_bytes([c[0], c[1]]) as i64)).collect()
        } else {
            raw.chunks(4).map(|c| S::int(u32::from_be_bytes([c[0], c[1], c[2], c[3]]) as i64)).collect()
        };
        im.push(S::k1("loca", S::list(offs)));
        im.push(S::k1("glyflen", S::usize(be.glyf.get().get().len())));
        let head = be.head.get();
        im.push(S::kv("head", [
            S::int(head.x_min), S::int(head.y_min), S::int(head.x_max), S::int(head.y_max),
            S::int(head.index_to_loc_format),
        ]));
        let hhea = be.hhea.get();
        im.push(S::kv("hhea", [
            S::int(hhea.advance_width_max.to_u16() as i64),
            S::int(hhea.min_left_side_bearing.to_i16()),
            S::int(hhea.min_right_side_bearing.to_i16()),
            S::int(hhea.x_max_extent.to_i16()),
            S::int(hhea.number_of_h_metrics as i64),
        ]));
        im.push(S::k1("hmtx", words(be.hmtx.get().get())));
        if case.vertical {
            let vhea = be.vhea.get();
            im.push(S::kv("vhea", [
                S::int(vhea.advance_height_max.to_u16() as i64),
                S::int(vhea.min_top_side_bearing.to_i16()),
                S::int(vhea.min_bottom_side_bearing.to_i16()),
                S::int(vhea.y_max_extent.to_i16()),
                S::int(vhea.number_of_long_ver_metrics as i64),
            ]));
            im.push(S::k1("vmtx", words(be.vmtx.get().get())));
        }
        let maxp = be.maxp.get();
        im.push(S::kv("maxp", [
            S::int(maxp.num_glyphs as i64),
            S::int(maxp.max_points.unwrap() as i64),
            S::int(maxp.max_contours.unwrap() as i64),
            S::int(maxp.max_composite_points.unwrap() as i64),
            S::int(maxp.max_composite_contours.unwrap() as i64),
            S::int(maxp.max_component_elements.unwrap() as i64),
            S::int(maxp.max_component_depth.unwrap() as i64),
        ]));
        let os2 = be.os2.get();
        im.push(S::kv("os2", [
            S::int(os2.x_avg_char_width),
            S::int(os2.us_first_char_index as i64),
            S::int(os2.us_last_char_index as i64),
            S::int(os2.ul_unicode_range_1 as i64),
            S::int(os2.ul_unicode_range_2 as i64),
            S::int(os2.ul_unicode_range_3 as i64),
            S::int(os2.ul_unicode_range_4 as i64),
            S::int(os2.ul_code_page_range_1.unwrap_or(0) as i64),
            S::int(os2.ul_code_page_range_2.unwrap_or(0) as i64),
            S::int(os2.us_max_context.unwrap_or(0) as i64),
        ]));
    }
    fields.push(S::kv("impl", im));
    fields
}

/// Directed cases: the points the theorems' hypotheses exclude, run on the real code every time.
///  0  mean advance 16384.499 (257 x 16384 + 256 x 16385): the binary32 division used until d188b11 gave 16385
///  1  the same on a realistic CJK-like set: 19621 x 1000 + 1186 x 500 (mean 971.49998, old code 972)
///  2  composite whose components are all empty glyphs (nbspace -> space): stored box (0,0,0,0) takes part
///     in hhea minima / head bbox
///  3  no codepoints at all: first/last char index = (0xFFFF, 0)
///  4  doubling chain, 4 * 2^14 points at depth 14: rejected with OutOfBounds since 944e88e
///     (before: unchecked u16 `+` in update_composite_limits)
///  5  unchecked i16 `-` in vertical_metrics: vertical_origin - yMax = -40000 (still panics; C19)
///  6  advance width -1: rejected with OutOfBounds since 944e88e (before: clamped to 0)
///  7  second side bearing clamp: advance 40000, xMax 100 (C19)
///  8  source-assigned Unicode range bit 200 (UFO openTypeOS2UnicodeRanges is a list of u8): index 6 of a
///     4-word array in apply_unicode_range (still panics; C15)
///  9  explicit advance height 70000 in a vertical font: rejected with OutOfBounds since 944e88e
pub const N_DIRECTED: usize = 10;

fn tri(x: i16, y: i16) -> Shape {
    Shape::Simple(vec![vec![(x, y, true), (x + 100, y, true), (x, y + 100, true)]])
}

fn plain(width: f64, cps: Vec<u32>, shape: Shape) -> G {
    G { width, height: Some(1000.0), vorg: Some(800.0), cps, shape }
}

pub fn directed_case(i: usize) -> Case {
    let base = |glyphs: Vec<G>| Case { upem: 1000, asc: 800.0, desc: -200.0, vertical: false, glyphs, assigned_ur: None };
    let ident = |gid: u16| Comp { gid, dx: 0, dy: 0, q: [4, 0, 0, 4] };
    match i % N_DIRECTED {
        0 => {
            let mut g = vec![];
            for k in 0..513 {
                g.push(plain(if k < 257 { 16384.0 } else { 16385.0 }, if k == 1 { vec![0x41] } else { vec![] }, Shape::Empty));
            }
            let mut c = base(g);
            c.upem = 16384;
            c
        }
        1 => {
            let mut g = vec![];
            for k in 0..(19621 + 1186) {
                g.push(plain(if k < 19621 { 1000.0 } else { 500.0 }, if k == 1 { vec![0x4E00] } else { vec![] }, Shape::Empty));
            }
            base(g)
        }
        2 => base(vec![
            plain(500.0, vec![], tri(50, 0)),
            plain(250.0, vec![0x20], Shape::Empty),
            plain(250.0, vec![0xA0], Shape::Composite(vec![ident(1)])),
            plain(600.0, vec![0x41], tri(60, 10)),
        ]),
        3 => base(vec![plain(500.0, vec![], tri(50, 0)), plain(600.0, vec![], tri(60, 10))]),
        4 => {
            let mut g = vec![plain(500.0, vec![0x41], Shape::Simple(vec![vec![(0, 0, true), (100, 0, true), (100, 100, true), (0, 100, true)]]))];
            for k in 1..=14u16 {
                g.push(plain(500.0, vec![], Shape::Composite(vec![ident(k - 1), ident(k - 1)])));
            }
            base(g)
        }
        5 => {
            let mut c = base(vec![G { width: 500.0, height: Some(1000.0), vorg: Some(-20000.0), cps: vec![0x41], shape: tri(0, 19900) }]);
            c.vertical = true;
            c
        }
        6 => base(vec![plain(-1.0, vec![0x41], tri(0, 0))]),
        7 => base(vec![plain(40000.0, vec![0x41], tri(0, 0))]),
        8 => {
            let mut c = base(vec![plain(500.0, vec![0x41], tri(0, 0))]);
            c.assigned_ur = Some(vec![0, 200]);
            c
        }
        _ => {
            let mut c = base(vec![G { width: 500.0, height: Some(70000.0), vorg: Some(800.0), cps: vec![0x41], shape: tri(0, 0) }]);
            c.vertical = true;
            c
        }
    }
}

/// One-off replay through the whole compiler (`vharness c17x probe`): a UFO with `space` (empty),
/// `nbspace` (component of `space`) and `A` (triangle with xMin 50); prints head/hhea of the built font.
fn probe_empty_composite(extra_fontinfo: &str) {
    use write_fonts::read::{FontRef, TableProvider};
    let dir = crate::e2e::build::tmpdir("c17probe");
    let ufo = dir.path().join("P.ufo");
    let gl = ufo.join("glyphs");
    std::fs::create_dir_all(&gl).unwrap();
    let head = "<?xml version=\"1.0\" encoding=\"UTF-8\"?>\n<!DOCTYPE plist PUBLIC \"-//Apple//DTD PLIST 1.0//EN\" \"http://www.apple.com/DTDs/PropertyList-1.0.dtd\">\n<plist version=\"1.0\">\n";
    std::fs::write(ufo.join("metainfo.plist"), format!("{head}<dict><key>creator</key><string>verif</string><key>formatVersion</key><integer>3</integer></dict></plist>")).unwrap();
    std::fs::write(ufo.join("fontinfo.plist"), format!("{head}<dict><key>familyName</key><string>Probe</string><key>styleName</key><string>Regular</string><key>unitsPerEm</key><integer>1000</integer><key>ascender</key><integer>800</integer><key>descender</key><integer>-200</integer>{extra_fontinfo}</dict></plist>")).unwrap();
    std::fs::write(ufo.join("layercontents.plist"), format!("{head}<array><array><string>public.default</string><string>glyphs</string></array></array></plist>")).unwrap();
    std::fs::write(gl.join("contents.plist"), format!("{head}<dict><key>A</key><string>A_.glif</string><key>space</key><string>space.glif</string><key>nbspace</key><string>nbspace.glif</string></dict></plist>")).unwrap();
    std::fs::write(gl.join("A_.glif"), "<?xml version=\"1.0\" encoding=\"UTF-8\"?>\n<glyph name=\"A\" format=\"2\"><advance width=\"600\"/><unicode hex=\"0041\"/><outline><contour><point x=\"50\" y=\"10\" type=\"line\"/><point x=\"150\" y=\"10\" type=\"line\"/><point x=\"50\" y=\"110\" type=\"line\"/></contour></outline></glyph>").unwrap();
    std::fs::write(gl.join("space.glif"), "<?xml version=\"1.0\" encoding=\"UTF-8\"?>\n<glyph name=\"space\" format=\"2\"><advance width=\"250\"/><unicode hex=\"0020\"/></glyph>").unwrap();
    std::fs::write(gl.join("nbspace.glif"), "<?xml version=\"1.0\" encoding=\"UTF-8\"?>\n<glyph name=\"nbspace\" format=\"2\"><advance width=\"250\"/><unicode hex=\"00A0\"/><outline><component base=\"space\"/></outline></glyph>").unwrap();
    match crate::e2e::build::compile(&ufo, &Default::default()) {
        Err(e) => println!("probe: build failed: {e}"),
        Ok(bytes) => {
            let f = FontRef::new(&bytes).unwrap();
            let (hd, hh, mx) = (f.head().unwrap(), f.hhea().unwrap(), f.maxp().unwrap());
            println!("probe: numGlyphs={} head=({} {} {} {}) hhea advMax={} minLsb={} minRsb={} xMaxExtent={} nhm={}",
                mx.num_glyphs(), hd.x_min(), hd.y_min(), hd.x_max(), hd.y_max(), hh.advance_width_max().to_u16(),
                hh.min_left_side_bearing().to_i16(), hh.min_right_side_bearing().to_i16(), hh.x_max_extent().to_i16(),
                hh.number_of_h_metrics());
            let glyf = f.glyf().unwrap();
            let loca = f.loca(None).unwrap();
            for g in 0..mx.num_glyphs() {
                let gl = loca.get_glyf(write_fonts::types::GlyphId::new(g as u32), &glyf).unwrap();
                match gl {
                    None => println!("  gid {g}: empty"),
                    Some(gl) => println!("  gid {g}: contours={} bbox=({} {} {} {})", gl.number_of_contours(), gl.x_min(), gl.y_min(), gl.x_max(), gl.y_max()),
                }
            }
        }
    }
}

pub fn run_directed(args: &Args) {
    if args.rest.iter().any(|a| a == "probe") {
        probe_empty_composite("");
        return;
    }
    if args.rest.iter().any(|a| a == "probe-ur") {
        // UFO fontinfo with a Unicode-range bit outside 0..127 (norad's Bitlist is an unvalidated Vec<u8>)
        probe_empty_composite("<key>openTypeOS2UnicodeRanges</key><array><integer>0</integer><integer>200</integer></array>");
        return;
    }
    crate::run_cases("c17x", args, move |i| {
        if std::env::var("C17_DEBUG").is_ok() {
            std::panic::set_hook(Box::new(|info| eprintln!("{info}")));
        }
        run_case(&directed_case(i))
    });
}

pub fn run(args: &Args) {
    let seed = args.seed;
    crate::run_cases("c17", args, move |i| {
        let mut rng = Rng::for_case(seed, "c17", i);
        let case = gen_case(&mut rng);
        run_case(&case)
    });
}
