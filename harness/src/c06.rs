//! C06: glyph set, glyph order, cmap, post names.
//!
//!   c06       pure: random lib.plist `public.glyphOrder` values (absent / not an array / arrays with duplicates,
//!             unknown names, non-string entries, .notdef missing or misplaced) + random glyph sets
//!             -> the REAL private `ufo2fontir::source::glyph_order` (hook `verif_glyph_order`).
//!   c06glyphs pure: generated .glyphs (format 3) files with a `glyphOrder` custom parameter
//!             -> the REAL `glyphs_reader::Font::load` (private `make_glyph_order`) -> `font.glyph_order`.
//!   c06e2e    generated single-master UFO sources (declared order, skipExportGlyphs, several codepoints per glyph,
//!             non-export glyphs used as components, .notdef present/absent/misplaced/non-export,
//!             public.postscriptNames, production names on/off, prefer-simple-glyphs on/off)
//!             -> real `fontc::generate_font` -> post names / cmap / glyf components / maxp dumped.
use crate::e2e::{build, design, dump, write};
use crate::rng::Rng;
use crate::sexp::S;
use crate::Args;
use fontdrasil::types::GlyphName;
use std::collections::{BTreeMap, HashSet};

// ------------------------------------------------------------------------------------------ c06 (pure)

/// Name pool: ASCII case mix, prefixes of each other, suffix digits, `.notdef`, non-ASCII names whose
/// UTF-8 byte order, UTF-16 order and code point order are distinguishable (U+FF21 vs U+1D49C).
const POOL: [&str; 24] = [
    ".notdef", "a", "b", "c", "A", "B", "Z", "a.alt", "a.0", "a.1", "aa", "ab", "_u", "zero", "space", ".null",
    "e", "e.0", "\u{e9}", "\u{ff21}", "\u{1d49c}", "a-b", "uni0041", "z",
];
const UNKNOWN: [&str; 5] = ["nosuch", "ghost", ".notdef.x", "A.missing", "\u{1d49d}"];

#[derive(Clone, Debug)]
pub enum Entry {
    Str(String),
    Int(i64),
}

#[derive(Clone, Debug)]
pub enum Declared {
    Absent,
    NotArray,
    Array(Vec<Entry>),
}

pub fn gen_names(rng: &mut Rng) -> Vec<String> {
    let k = match rng.below(10) { 0 => 0, 1 => 1, _ => 2 + rng.below(12) };
    let mut pool: Vec<&str> = POOL.to_vec();
    rng.shuffle(&mut pool);
    let mut names: Vec<String> = pool[..k.min(pool.len())].iter().map(|s| s.to_string()).collect();
    // .notdef present in about half of the non-empty sets
    if k > 0 && rng.chance(1, 3) && !names.iter().any(|n| n == ".notdef") {
        names[0] = ".notdef".into();
    }
    names.sort();
    names
}

pub fn gen_declared(rng: &mut Rng, names: &[String]) -> Declared {
    match rng.below(10) {
        0 => return Declared::Absent,
        1 => return Declared::NotArray,
        _ => {}
    }
    let mut v: Vec<Entry> = vec![];
    let mut own: Vec<String> = names.to_vec();
    rng.shuffle(&mut own);
    let keep = rng.below(own.len() + 1);
    for n in own.iter().take(keep) {
        v.push(Entry::Str(n.clone()));
    }
    // unknown names, duplicates, non-string entries
    for _ in 0..rng.below(3) {
        let at = rng.below(v.len() + 1);
        v.insert(at, Entry::Str(rng.pick(&UNKNOWN).to_string()));
    }
    if !v.is_empty() {
        for _ in 0..rng.below(3) {
            let dup = v[rng.below(v.len())].clone();
            let at = rng.below(v.len() + 1);
            v.insert(at, dup);
        }
    }
    if rng.chance(1, 6) {
        let at = rng.below(v.len() + 1);
        v.insert(at, Entry::Int(rng.range(-3, 99)));
    }
    // .notdef: force first / force somewhere in the middle / leave as is
    if names.iter().any(|n| n == ".notdef") {
        match rng.below(4) {
            0 => {
                v.retain(|e| !matches!(e, Entry::Str(s) if s == ".notdef"));
                v.insert(0, Entry::Str(".notdef".into()));
            }
            1 => {
                v.retain(|e| !matches!(e, Entry::Str(s) if s == ".notdef"));
                let at = if v.is_empty() { 0 } else { 1 + rng.below(v.len()) };
                v.insert(at, Entry::Str(".notdef".into()));
            }
            2 => v.retain(|e| !matches!(e, Entry::Str(s) if s == ".notdef")),
            _ => {}
        }
    }
    Declared::Array(v)
}

pub fn lib_xml(d: &Declared) -> String {
    let mut s = String::from("<?xml version=\"1.0\" encoding=\"UTF-8\"?>\n<plist version=\"1.0\">\n<dict>\n<key>com.example.other</key><integer>1</integer>\n");
    match d {
        Declared::Absent => {}
        Declared::NotArray => s.push_str("<key>public.glyphOrder</key><string>a</string>\n"),
        Declared::Array(v) => {
            s.push_str("<key>public.glyphOrder</key><array>");
            for e in v {
                match e {
                    Entry::Str(n) => { s.push_str("<string>"); s.push_str(&write::xml_escape(n)); s.push_str("</string>"); }
                    Entry::Int(i) => s.push_str(&format!("<integer>{i}</integer>")),
                }
            }
            s.push_str("</array>\n");
        }
    }
    s.push_str("</dict>\n</plist>\n");
    s
}

fn declared_sexp(d: &Declared) -> S {
    match d {
        Declared::Absent => S::atom("absent"),
        Declared::NotArray => S::atom("notarray"),
        Declared::Array(v) => S::list(v.iter().map(|e| match e {
            Entry::Str(n) => S::list([S::atom("s"), S::str(n)]),
            Entry::Int(i) => S::list([S::atom("i"), S::int(*i)]),
        })),
    }
}

pub fn run(args: &Args) {
    let seed = args.seed;
    crate::run_cases("c06", args, move |i| {
        let mut rng = Rng::for_case(seed, "c06", i);
        let names = gen_names(&mut rng);
        let declared = gen_declared(&mut rng, &names);
        let xml = lib_xml(&declared);
        let set: HashSet<GlyphName> = names.iter().map(|n| GlyphName::new(n.as_str())).collect();
        let out = match ufo2fontir::source::verif_glyph_order(&xml, &set) {
            Ok(order) => S::kv("impl", [S::k1("order", S::list(order.names().map(|n| S::str(n.as_str()))))]),
            Err(_) => S::kv("impl", [S::k1("err", S::atom("error"))]),
        };
        vec![
            S::k1("names", S::list(names.iter().map(|n| S::str(n)))),
            S::k1("declared", declared_sexp(&declared)),
            out,
        ]
    });
}

// ------------------------------------------------------------------------------------------ c06glyphs (pure)

fn glyphs_quote(s: &str) -> String {
    // always quote; the pool has no quotes or backslashes
    format!("\"{s}\"")
}

/// A minimal Glyphs 3 file: `file` = glyph names in file order; `custom` = glyphOrder custom parameter.
pub fn glyphs_file(file: &[String], custom: &Option<Vec<String>>) -> String {
    let mut s = String::from("{\n.appVersion = \"3260\";\n.formatVersion = 3;\n");
    if let Some(c) = custom {
        s.push_str("customParameters = (\n{\nname = glyphOrder;\nvalue = (\n");
        s.push_str(&c.iter().map(|n| glyphs_quote(n)).collect::<Vec<_>>().join(",\n"));
        s.push_str("\n);\n}\n);\n");
    }
    s.push_str("familyName = \"Verif\";\nfontMaster = (\n{\nid = m01;\nname = Regular;\n}\n);\nglyphs = (\n");
    let gl: Vec<String> = file.iter().map(|n| {
        format!("{{\nglyphname = {};\nlayers = (\n{{\nlayerId = m01;\nwidth = 600;\n}}\n);\n}}", glyphs_quote(n))
    }).collect();
    s.push_str(&gl.join(",\n"));
    s.push_str("\n);\nunitsPerEm = 1000;\nversionMajor = 1;\nversionMinor = 0;\n}\n");
    s
}

pub fn run_glyphs(args: &Args) {
    let seed = args.seed;
    crate::run_cases("c06glyphs", args, move |i| {
        let mut rng = Rng::for_case(seed, "c06glyphs", i);
        // ASCII names only (the .glyphs text format is written by hand here)
        let pool: Vec<&str> = POOL.iter().copied().filter(|n| n.is_ascii()).collect();
        let mut file: Vec<String> = { let mut p = pool.clone(); rng.shuffle(&mut p); p[..1 + rng.below(10)].iter().map(|s| s.to_string()).collect() };
        if rng.chance(1, 3) && !file.iter().any(|n| n == ".notdef") {
            let at = rng.below(file.len() + 1);
            file.insert(at, ".notdef".into());
        }
        let custom = if rng.chance(1, 5) { None } else {
            let mut own = file.clone();
            rng.shuffle(&mut own);
            let keep = rng.below(own.len() + 1);
            let mut v: Vec<String> = own[..keep].to_vec();
            for _ in 0..rng.below(3) { let at = rng.below(v.len() + 1); v.insert(at, rng.pick(&["nosuch", "ghost", "A.missing"]).to_string()); }
            if !v.is_empty() { for _ in 0..rng.below(3) { let d = v[rng.below(v.len())].clone(); let at = rng.below(v.len() + 1); v.insert(at, d); } }
            Some(v)
        };
        let tmp = build::tmpdir("c06glyphs");
        let path = tmp.path().join("t.glyphs");
        std::fs::write(&path, glyphs_file(&file, &custom)).unwrap();
        let out = match glyphs_reader::Font::load(&path) {
            Ok(font) => S::kv("impl", [S::k1("order", S::list(font.glyph_order.iter().map(|n| S::str(n.as_str()))))]),
            Err(e) => S::kv("impl", [S::k1("err", S::str(&format!("{e}")))]),
        };
        vec![
            S::k1("file", S::list(file.iter().map(|n| S::str(n)))),
            S::k1("custom", S::opt(custom.as_ref().map(|c| S::list(c.iter().map(|n| S::str(n)))))),
            out,
        ]
    });
}

// ------------------------------------------------------------------------------------------ c06e2e

const E2E_EXTRA: [&str; 8] = ["A", "Z", "a.alt", "e.0", "e.1", "c.0", "_u", "zero"];

fn square(x0: i64, y0: i64, w: i64) -> Vec<design::Pt> {
    use design::{Pt, PtType};
    [(x0, y0), (x0 + w, y0), (x0 + w, y0 + w), (x0, y0 + w)]
        .iter().map(|(x, y)| Pt { x: *x as f64, y: *y as f64, typ: PtType::Line }).collect()
}

pub struct E2ECase {
    pub d: design::Design,
    pub flags: u32,
    pub route_ds: bool,
    pub psnames: Option<Vec<(String, String)>>,
    pub conflict: bool,
}

/// `collide`: production names drawn from a handful of colliding targets (`dup`, `dup.1`, `dup.2` …) for most glyphs,
/// so that the de-duplication of post names meets literal `name.N` glyphs before and after the duplicates.
pub fn gen_e2e(rng: &mut Rng, collide: bool) -> E2ECase {
    use design::*;
    // glyph names: a prefix of a..p, some extras, .notdef in ~half
    let n_base = 3 + rng.below(7);
    let mut names: Vec<String> = GLYPH_NAMES[..n_base].iter().map(|s| s.to_string()).collect();
    for x in E2E_EXTRA.iter() {
        if rng.chance(1, 4) { names.push(x.to_string()); }
    }
    if rng.chance(1, 2) { names.push(".notdef".into()); }
    rng.shuffle(&mut names);

    // export flags first (components want to know)
    let mut skip: Vec<String> = names.iter().filter(|_| rng.chance(1, 4)).cloned().collect();
    // .notdef non-export only rarely (excluded point of the theorems: probed)
    if !rng.chance(1, 6) { skip.retain(|n| n != ".notdef"); }
    // derived-name collision probe: a non-export glyph named like a derivative
    if rng.chance(1, 8) {
        for x in ["e.0", "c.0"] {
            if names.iter().any(|n| n == x) && !skip.iter().any(|n| n == x) { skip.push(x.to_string()); }
        }
    }
    let mut glyphs: BTreeMap<String, GlyphDef> = BTreeMap::new();
    let mut done: Vec<String> = vec![];
    for (gi, n) in names.iter().enumerate() {
        let mut g = GlyphDef { advance: (300 + 10 * gi) as f64, ..Default::default() };
        let kind = if done.is_empty() { 0 } else { rng.below(10) };
        match kind {
            0..=4 => g.contours.push(square(50 + 7 * gi as i64, 10 * gi as i64, 100 + 3 * gi as i64)),
            5 => {} // empty
            _ => {
                // composite; prefer non-export bases half of the time
                let ne: Vec<String> = done.iter().filter(|x| skip.contains(x)).cloned().collect();
                for k in 0..1 + rng.below(2) {
                    let base = if !ne.is_empty() && rng.chance(1, 2) { rng.pick(&ne).clone() } else { rng.pick(&done).clone() };
                    g.components.push(Comp { base, t: [1.0, 0.0, 0.0, 1.0, (20 * k as i64 + rng.range(-50, 200)) as f64, rng.range(-50, 200) as f64] });
                }
                if rng.chance(1, 10) {
                    g.components.push(Comp { base: "missing.glyph".into(), t: [1.0, 0.0, 0.0, 1.0, 0.0, 0.0] });
                }
                if kind >= 8 {
                    // mixed contour + component
                    g.contours.push(square(400 + 5 * gi as i64, 300, 60 + gi as i64));
                }
            }
        }
        glyphs.insert(n.clone(), g);
        done.push(n.clone());
    }
    // skip list may also name glyphs that do not exist
    if rng.chance(1, 6) { skip.push("nosuch".into()); }

    // codepoints: 0..3 per glyph (also on non-export glyphs), BMP + supplementary planes, all distinct
    let mut cps: BTreeMap<String, Vec<u32>> = BTreeMap::new();
    let mut next_bmp = 0x41u32;
    let mut next_sup = 0x1F600u32;
    for n in names.iter() {
        let k = match rng.below(6) { 0 => 0, 1 | 2 | 3 => 1, 4 => 2, _ => 3 };
        let mut v = vec![];
        for _ in 0..k {
            if rng.chance(1, 4) { v.push(next_sup); next_sup += 1 + rng.below(3) as u32; }
            else { v.push(next_bmp); next_bmp += 1 + rng.below(40) as u32; }
        }
        if !v.is_empty() { cps.insert(n.clone(), v); }
    }
    // a non-export glyph may claim the codepoint of an exported glyph (no conflict: it is not in the font)
    let exported: Vec<String> = names.iter().filter(|n| !skip.contains(n)).cloned().collect();
    let nonexp: Vec<String> = names.iter().filter(|n| skip.contains(n)).cloned().collect();
    if !nonexp.is_empty() && rng.chance(1, 3) {
        if let Some(cp) = exported.iter().filter_map(|n| cps.get(n)).flatten().next().copied() {
            cps.entry(rng.pick(&nonexp).clone()).or_default().push(cp);
        }
    }
    // excluded point: two exported glyphs claim one codepoint
    let mut conflict = false;
    if exported.len() >= 2 && rng.chance(1, 25) {
        let with: Vec<&String> = exported.iter().filter(|n| cps.contains_key(*n)).collect();
        if let Some(src) = with.first() {
            let cp = cps[*src][0];
            if let Some(other) = exported.iter().find(|n| n != src) {
                let e = cps.entry(other.clone()).or_default();
                if !e.contains(&cp) { e.push(cp); conflict = true; }
            }
        }
    }

    // declared order
    let glyph_order = if rng.chance(1, 6) { None } else {
        let mut own = names.clone();
        rng.shuffle(&mut own);
        let keep = match rng.below(3) { 0 => own.len(), _ => rng.below(own.len() + 1) };
        let mut v: Vec<String> = own[..keep].to_vec();
        for _ in 0..rng.below(2) { let at = rng.below(v.len() + 1); v.insert(at, rng.pick(&["nosuch", "ghost"]).to_string()); }
        if !v.is_empty() { for _ in 0..rng.below(3) { let d = v[rng.below(v.len())].clone(); let at = rng.below(v.len() + 1); v.insert(at, d); } }
        if names.iter().any(|n| n == ".notdef") {
            match rng.below(4) {
                0 => { v.retain(|n| n != ".notdef"); v.insert(0, ".notdef".into()); }
                1 => { v.retain(|n| n != ".notdef"); let at = if v.is_empty() { 0 } else { 1 + rng.below(v.len()) }; v.insert(at, ".notdef".into()); }
                2 => v.retain(|n| n != ".notdef"),
                _ => {}
            }
        }
        Some(v)
    };

    // public.postscriptNames (only read when production names are on)
    let psnames = if collide || rng.chance(1, 3) {
        let mut m: Vec<(String, String)> = vec![];
        let mut cands: Vec<String> = names.iter().filter(|n| *n != ".notdef").cloned().collect();
        rng.shuffle(&mut cands);
        let targets: &[&str] = if collide { &["dup", "dup", "dup", "dup.1", "dup.2", "dup.1.1", "d-u-p", "e", "e.1"] }
            else { &["uni0061", "uni0062", "u1F600", "a", "b", "x-y", "dup", "dup", "dup.1", "e.0", "a b", "A"] };
        let k = if collide { 3 + rng.below(5) } else { rng.below(5) };
        for n in cands.iter().take(k) {
            m.push((n.clone(), rng.pick(targets).to_string()));
        }
        // sometimes also an entry for a glyph that does not exist
        if rng.chance(1, 4) { m.push(("nosuch".into(), "uniFFFF".into())); }
        m.sort();
        Some(m)
    } else { None };

    let flags: u32 = *rng.pick(&[0b1000_0100u32, 0b1000_0100, 0b0000_0100, 0b1000_0000, 0b1000_0000, 0]);
    let route_ds = rng.chance(1, 3);

    let mut d = Design { family: "Verif Test".into(), upem: 1000, ..Default::default() };
    // a designspace needs at least one axis; the single master sits at its default
    if route_ds {
        d.axes.push(AxisDef { tag: "wght".into(), name: "Weight".into(), min: 100.0, default: 400.0, max: 900.0, map: vec![] });
    }
    d.masters.push(Master {
        name: "M0".into(), style: "Regular".into(), loc: if route_ds { vec![400.0] } else { vec![] }, glyphs,
        info: vec![("ascender".into(), 800.0), ("descender".into(), -200.0), ("xHeight".into(), 500.0), ("capHeight".into(), 700.0)],
        ..Default::default()
    });
    d.glyph_order = glyph_order;
    d.skip_export = skip;
    d.codepoints = cps;
    if let Some(m) = &psnames {
        let mut v = String::from("<dict>");
        for (k, t) in m { v.push_str(&format!("<key>{}</key><string>{}</string>", write::xml_escape(k), write::xml_escape(t))); }
        v.push_str("</dict>");
        d.lib_extra.push(("public.postscriptNames".into(), v));
    }
    E2ECase { d, flags, route_ds, psnames, conflict }
}

/// Directed probes: every hypothesis the proofs forced, at the excluded point, as a minimal source.
pub const N_PROBES: usize = 13;

pub fn gen_probe(i: usize) -> E2ECase {
    use design::*;
    let simple = |k: i64| GlyphDef { advance: 500.0, contours: vec![square(50 + 10 * k, 0, 100 + 10 * k)], ..Default::default() };
    let comp = |bases: &[&str], contour: bool| GlyphDef {
        advance: 600.0,
        contours: if contour { vec![square(400, 300, 80)] } else { vec![] },
        components: bases.iter().enumerate().map(|(k, b)| Comp { base: b.to_string(), t: [1.0, 0.0, 0.0, 1.0, 30.0 * k as f64, 10.0] }).collect(),
        ..Default::default()
    };
    let mut glyphs: BTreeMap<String, GlyphDef> = BTreeMap::new();
    let mut order: Option<Vec<&str>> = None;
    let mut skip: Vec<&str> = vec![];
    let mut cps: Vec<(&str, Vec<u32>)> = vec![];
    let mut flags = 0b1000_0100u32;
    let mut route_ds = false;
    let mut psnames: Option<Vec<(String, String)>> = None;
    let mut conflict = false;
    let abc = |glyphs: &mut BTreeMap<String, GlyphDef>| { for (k, n) in ["a", "b", "c"].iter().enumerate() { glyphs.insert(n.to_string(), simple(k as i64)); } };
    match i {
        0 => { abc(&mut glyphs); order = Some(vec!["b", "a", "b", "a"]); cps = vec![("a", vec![0x61]), ("b", vec![0x62]), ("c", vec![0x63])]; }
        1 => { abc(&mut glyphs); order = Some(vec!["nosuch", "c", "ghost", "a"]); cps = vec![("a", vec![0x61])]; }
        2 => { glyphs.insert(".notdef".into(), simple(0)); glyphs.insert("a".into(), simple(1)); skip = vec![".notdef"]; cps = vec![("a", vec![0x61])]; }
        3 => { abc(&mut glyphs); cps = vec![("a", vec![0x41]), ("b", vec![0x41])]; conflict = true; }
        4 => { abc(&mut glyphs); glyphs.insert("x".into(), simple(3)); skip = vec!["x"]; cps = vec![("a", vec![0x41]), ("x", vec![0x41, 0x78])]; }
        5 | 6 => {
            glyphs.insert("a".into(), simple(0)); glyphs.insert("e".into(), comp(&["a"], true)); glyphs.insert("e.0".into(), simple(2));
            skip = vec!["e.0"]; cps = vec![("a", vec![0x61]), ("e", vec![0x65])];
            flags = if i == 5 { 0b1000_0000 } else { 0b1000_0100 };
        }
        7 => { abc(&mut glyphs); glyphs.insert(".notdef".into(), simple(4)); order = Some(vec!["a", ".notdef", "b"]); cps = vec![("a", vec![0x61])]; }
        8 => { abc(&mut glyphs); order = Some(vec!["c", "b", "a"]); cps = vec![("c", vec![0x63, 0x1F600])]; }
        9 => { glyphs.insert(".notdef".into(), simple(0)); glyphs.insert("a".into(), comp(&[".notdef"], false)); skip = vec![".notdef"]; cps = vec![("a", vec![0x61]), (".notdef", vec![0x3F])]; }
        10 => { glyphs.insert(".notdef".into(), simple(0)); glyphs.insert("a".into(), simple(1)); skip = vec![".notdef"]; route_ds = true; }
        11 => {
            glyphs.insert("a".into(), simple(0)); glyphs.insert("x".into(), comp(&["a"], true)); glyphs.insert("e".into(), comp(&["x", "a"], false));
            skip = vec!["x"]; order = Some(vec!["e", "x", "a"]); cps = vec![("e", vec![0x65, 0x1F600]), ("x", vec![0x78])];
        }
        _ => {
            abc(&mut glyphs); order = Some(vec!["c", "a", "b"]); cps = vec![("a", vec![0x61]), ("b", vec![0x62])];
            psnames = Some(vec![("a".into(), "dup".into()), ("b".into(), "c".into()), ("c".into(), "d-u-p".into())]);
        }
    }
    let mut d = Design { family: "Verif Test".into(), upem: 1000, ..Default::default() };
    if route_ds {
        d.axes.push(AxisDef { tag: "wght".into(), name: "Weight".into(), min: 100.0, default: 400.0, max: 900.0, map: vec![] });
    }
    d.masters.push(Master {
        name: "M0".into(), style: "Regular".into(), loc: if route_ds { vec![400.0] } else { vec![] }, glyphs,
        info: vec![("ascender".into(), 800.0), ("descender".into(), -200.0), ("xHeight".into(), 500.0), ("capHeight".into(), 700.0)],
        ..Default::default()
    });
    d.glyph_order = order.map(|o| o.iter().map(|s| s.to_string()).collect());
    d.skip_export = skip.iter().map(|s| s.to_string()).collect();
    d.codepoints = cps.into_iter().map(|(k, v)| (k.to_string(), v)).collect();
    if let Some(m) = &psnames {
        let mut v = String::from("<dict>");
        for (k, t) in m { v.push_str(&format!("<key>{}</key><string>{}</string>", write::xml_escape(k), write::xml_escape(t))); }
        v.push_str("</dict>");
        d.lib_extra.push(("public.postscriptNames".into(), v));
    }
    E2ECase { d, flags, route_ds, psnames, conflict }
}

pub fn run_e2e(args: &Args) { run_e2e_stream("c06e2e", args) }
pub fn run_probe(args: &Args) { run_e2e_stream("c06probe", args) }

fn run_e2e_stream(stream: &'static str, args: &Args) {
    let seed = args.seed;
    crate::run_cases(stream, args, move |i| {
        let mut rng = Rng::for_case(seed, stream, i);
        let c = if stream == "c06probe" { gen_probe(i % N_PROBES) } else { gen_e2e(&mut rng, i % 5 == 3) };
        let tmp = build::tmpdir(stream);
        let ds = write::write_design(tmp.path(), &c.d);
        let input = if c.route_ds {
            // a designspace source takes public.skipExportGlyphs from the designspace lib only
            let mut xml = std::fs::read_to_string(&ds).unwrap();
            let mut lib = String::from("  <lib>\n    <dict>\n      <key>public.skipExportGlyphs</key>\n      <array>\n");
            for g in &c.d.skip_export { lib.push_str(&format!("        <string>{}</string>\n", write::xml_escape(g))); }
            lib.push_str("      </array>\n    </dict>\n  </lib>\n</designspace>\n");
            xml = xml.replace("</designspace>\n", &lib);
            std::fs::write(&ds, xml).unwrap();
            ds.clone()
        } else {
            tmp.path().join(write::ufo_name(&c.d, 0))
        };
        let res = build::compile(&input, &build::BuildOpts { flags: Some(c.flags), ..Default::default() });
        let mut f = vec![
            c.d.to_sexp(),
            S::k1("flags", S::usize(c.flags as usize)),
            S::k1("route", S::atom(if c.route_ds { "ds" } else { "ufo" })),
            S::k1("psnames", S::opt(c.psnames.as_ref().map(|m| S::list(m.iter().map(|(k, v)| S::list([S::str(k), S::str(v)])))))),
            S::k1("conflict", S::bool(c.conflict)),
        ];
        match res {
            Ok(bytes) => {
                f.push(S::k1("result", S::atom("ok")));
                f.push(dump::dump_all(&bytes));
            }
            Err(e) => f.push(S::kv("result", [S::atom("err"), S::str(&e)])),
        }
        f
    });
}
