//! C07: fontdrasil::variations::VariationModel through its public API
//! (private fields are read through its Serialize impl).
use crate::rng::Rng;
use crate::sexp::S;
use crate::Args;
use fontdrasil::coords::{NormalizedCoord, NormalizedLocation};
use fontdrasil::types::Tag;
use fontdrasil::variations::{RoundingBehaviour, VariationModel, VariationRegion};
use std::collections::{HashMap, HashSet};
use std::str::FromStr;

const TAGS: [&str; 4] = ["wght", "wdth", "opsz", "slnt"];
// deliberately not alphabetical: axis order != tag order
const ORDERS: [[usize; 4]; 3] = [[0, 1, 2, 3], [1, 0, 3, 2], [3, 2, 1, 0]];

pub fn tag(i: usize) -> Tag {
    Tag::from_str(TAGS[i]).unwrap()
}

fn grid(rng: &mut Rng) -> f64 {
    // F2Dot14 grid, biased towards shared coordinates
    const COMMON: [f64; 9] = [-1.0, -0.5, -0.25, 0.0, 0.25, 0.5, 0.75, 1.0, 0.0];
    if rng.chance(4, 5) {
        *rng.pick(&COMMON)
    } else {
        rng.range(-16384, 16384) as f64 / 16384.0
    }
}

pub fn loc(axes: &[Tag], coords: &[f64]) -> NormalizedLocation {
    axes.iter().zip(coords).map(|(t, c)| (*t, NormalizedCoord::new(*c))).collect()
}

pub struct Case {
    pub n: usize,
    pub axes: Vec<Tag>,
    pub locs: Vec<Vec<f64>>,
    pub vals: Vec<Option<f64>>,
    pub round: bool,
    pub probes: Vec<Vec<f64>>,
}

pub fn gen_case(rng: &mut Rng) -> Case {
    let n = 1 + rng.below(4);
    let order = ORDERS[rng.below(3)];
    let axes: Vec<Tag> = order.iter().filter(|i| **i < n).map(|i| tag(*i)).collect();
    let cap = if rng.chance(1, 4) { 12 } else { 6 };
    let n_masters = 1 + rng.below(cap);
    let mut locs: Vec<Vec<f64>> = vec![vec![0.0; n]];
    let mut tries = 0;
    while locs.len() < n_masters && tries < 100 {
        tries += 1;
        let style = rng.below(4);
        let l: Vec<f64> = match style {
            0 => { // on-axis
                let a = rng.below(n);
                (0..n).map(|i| if i == a { grid(rng) } else { 0.0 }).collect()
            }
            1 => (0..n).map(|_| *rng.pick(&[-1.0, 0.0, 1.0])).collect(), // corner
            2 if locs.len() > 1 => { // share coordinates with an existing master
                let base = locs[rng.below(locs.len())].clone();
                base.iter().map(|c| if rng.chance(1, 2) { *c } else { grid(rng) }).collect()
            }
            _ => (0..n).map(|_| grid(rng)).collect(),
        };
        if !locs.contains(&l) {
            locs.push(l);
        }
    }
    // supplied order is arbitrary
    let mut idx: Vec<usize> = (0..locs.len()).collect();
    rng.shuffle(&mut idx);
    let locs: Vec<Vec<f64>> = idx.iter().map(|i| locs[*i].clone()).collect();
    let sparse = rng.chance(1, 3);
    let vals = locs.iter().map(|l| {
        let is_default = l.iter().all(|c| *c == 0.0);
        if is_default || !sparse || rng.chance(2, 3) {
            let v = rng.range(-1000, 1000) as f64;
            Some(if rng.chance(1, 5) { v + 0.5 } else { v })
        } else {
            None
        }
    }).collect();
    let round = rng.chance(1, 2);
    let probes = (0..4).map(|_| (0..n).map(|_| grid(rng)).collect()).collect();
    Case { n, axes, locs, vals, round, probes }
}

fn s_loc(l: &[f64]) -> S {
    S::list(l.iter().map(|c| S::f64(*c)))
}

fn coords_of(l: &NormalizedLocation, axes: &[Tag]) -> Vec<f64> {
    axes.iter().map(|t| l.get(*t).map(|c| c.to_f64()).unwrap_or(0.0)).collect()
}

fn s_region(r: &VariationRegion, axes: &[Tag]) -> S {
    S::list(axes.iter().map(|t| {
        let tent = r.get(t).copied().unwrap_or_else(fontdrasil::variations::Tent::zeroes);
        S::list([S::f64(tent.min.to_f64()), S::f64(tent.peak.to_f64()), S::f64(tent.max.to_f64())])
    }))
}

pub fn build(case: &Case, order_seed: u64) -> VariationModel {
    // vary insertion order (and each HashSet has its own RandomState) to exercise order-independence
    let mut idx: Vec<usize> = (0..case.locs.len()).collect();
    Rng::new(order_seed).shuffle(&mut idx);
    let set: HashSet<NormalizedLocation> = idx.iter().map(|i| loc(&case.axes, &case.locs[*i])).collect();
    VariationModel::new(set, case.axes.clone())
}

pub fn impl_fields(case: &Case) -> S {
    let model = build(case, 1);
    let model2 = build(case, 2);
    let j = serde_json::to_value(&model).unwrap();
    let influence: Vec<VariationRegion> = serde_json::from_value(j["influence"].clone()).unwrap();
    let locations: Vec<NormalizedLocation> = model.locations().cloned().collect();
    let mut seqs: HashMap<NormalizedLocation, Vec<f64>> = HashMap::new();
    for (l, v) in case.locs.iter().zip(&case.vals) {
        if let Some(v) = v {
            seqs.insert(loc(&case.axes, l), vec![*v]);
        }
    }
    let rounding = if case.round { RoundingBehaviour::RoundTiesEven } else { RoundingBehaviour::None };
    let deltas = model.deltas_with_rounding::<f64, f64>(&seqs, rounding);
    let deltas2 = model2.deltas_with_rounding::<f64, f64>(&seqs, rounding);
    let (err, deltas) = match deltas {
        Ok(d) => (S::atom("none"), d),
        Err(e) => (S::atom(format!("{e:?}").split(['(', ' ']).next().unwrap().to_string()), vec![]),
    };
    // align deltas with model locations: the k-th result belongs to the k-th defined location in model order
    let mut it = deltas.iter();
    let mut delta_by_loc: Vec<Option<f64>> = vec![];
    for l in &locations {
        if seqs.contains_key(l) {
            delta_by_loc.push(it.next().map(|(_, d)| d[0]));
        } else {
            delta_by_loc.push(None);
        }
    }
    let interp: Vec<Option<f64>> = locations.iter().map(|l| {
        if seqs.contains_key(l) {
            Some(model.interpolate_from_deltas(l, &deltas).first().copied().unwrap_or(0.0))
        } else {
            None
        }
    }).collect();
    let probe_interp: Vec<f64> = case.probes.iter().map(|p| {
        model.interpolate_from_deltas(&loc(&case.axes, p), &deltas).first().copied().unwrap_or(0.0)
    }).collect();
    let scalars = influence.iter().map(|r| {
        S::list(locations.iter().map(|l| S::f64(r.scalar_at(l).into_inner())))
    });
    let perm_equal = model == model2 && match (&deltas2, err == S::atom("none")) {
        (Ok(d2), true) => *d2 == deltas,
        (Err(_), false) => true,
        _ => false,
    };
    S::kv("impl", [
        S::k1("locations", S::list(locations.iter().map(|l| s_loc(&coords_of(l, &case.axes))))),
        S::k1("influence", S::list(influence.iter().map(|r| s_region(r, &case.axes)))),
        S::k1("deltas", S::list(delta_by_loc.iter().map(|d| S::opt(d.map(S::f64))))),
        S::k1("interp", S::list(interp.iter().map(|d| S::opt(d.map(S::f64))))),
        S::k1("probe_interp", S::list(probe_interp.iter().map(|d| S::f64(*d)))),
        S::k1("scalars", S::list(scalars)),
        S::k1("perm_equal", S::bool(perm_equal)),
        S::k1("err", err),
    ])
}

pub fn input_fields(case: &Case) -> Vec<S> {
    vec![
        S::k1("n", S::usize(case.n)),
        S::k1("locs", S::list(case.locs.iter().map(|l| s_loc(l)))),
        S::k1("vals", S::list(case.vals.iter().map(|v| S::opt(v.map(S::f64))))),
        S::k1("round", S::usize(case.round as usize)),
        S::k1("probes", S::list(case.probes.iter().map(|l| s_loc(l)))),
    ]
}

pub fn run(args: &Args) {
    let seed = args.seed;
    crate::run_cases("c07", args, move |i| {
        let mut rng = Rng::for_case(seed, "c07", i);
        let case = gen_case(&mut rng);
        let mut f = input_fields(&case);
        f.push(impl_fields(&case));
        f
    });
}
