//! C01: repeatable builds. Every case = one source built r times in separate child processes (different HashMap
//! RandomState seeds), with different worker-thread counts and seeded scheduling jitter (hook: FONTC_VERIF_JITTER);
//! all runs must give byte-identical fonts.
use crate::e2e::{build, design, write};
use crate::rng::Rng;
use crate::sexp::S;
use crate::Args;
use std::hash::{Hash, Hasher};
use std::path::{Path, PathBuf};
use std::process::Command;

pub fn fixture_sources() -> Vec<PathBuf> {
    let t = Path::new("/repo/resources/testdata");
    [
        "wght_var.designspace", "static.designspace", "mov_xy.designspace", "KernlessMid.designspace",
        "PartialKernException.designspace", "MVAR.designspace", "dspace_rules/Basic.designspace", "dspace_rules/CustomFeatures.designspace",
        "glyphs3/WghtVar.glyphs", "glyphs3/WghtVar_Anchors.glyphs", "glyphs2/WghtVar.glyphs",
        "glyphs3/KernImplicitAxes.glyphs", "glyphs3/WghtVar_Instances.glyphs", "glyphs2/BracketTestFontKerning.glyphs",
        "glyphs3/Oswald-O.glyphs", "glyphs3/PropagateAnchorsTest.glyphs", "fontinfo_var.designspace",
    ].iter().map(|p| t.join(p)).filter(|p| p.exists()).collect()
}

pub fn child(argv: &[String]) -> ! {
    // vharness c01child <source> <outfile>
    let src = PathBuf::from(&argv[0]);
    match build::compile(&src, &build::BuildOpts::default()) {
        Ok(bytes) => {
            std::fs::write(&argv[1], bytes).unwrap();
            std::process::exit(0)
        }
        Err(e) => {
            eprintln!("{e}");
            std::process::exit(1)
        }
    }
}

fn fingerprint(bytes: &[u8]) -> u64 {
    let mut h = std::collections::hash_map::DefaultHasher::new();
    bytes.hash(&mut h);
    h.finish()
}

/// first table whose bytes differ (for the failure detail)
fn first_diff_table(a: &[u8], b: &[u8]) -> String {
    use write_fonts::read::FontRef;
    let (Ok(fa), Ok(fb)) = (FontRef::new(a), FontRef::new(b)) else { return "unreadable".into() };
    for rec in fa.table_directory.table_records() {
        let tag = rec.tag();
        let da = fa.table_data(tag).map(|d| d.as_bytes().to_vec());
        let db = fb.table_data(tag).map(|d| d.as_bytes().to_vec());
        if da != db {
            return tag.to_string();
        }
    }
    if fa.table_directory.num_tables() != fb.table_directory.num_tables() { "table-set".into() } else { "none".into() }
}

pub struct RunCfg {
    pub threads: usize,
    pub jitter: u64,
}

pub fn build_runs(src: &Path, runs: &[RunCfg], tag: &str) -> Vec<S> {
    let exe = std::env::current_exe().unwrap();
    let tmp = build::tmpdir(tag);
    // launch all children at once; they are independent processes
    let mut kids = vec![];
    for (k, r) in runs.iter().enumerate() {
        let out = tmp.path().join(format!("font{k}.ttf"));
        let mut cmd = Command::new(&exe);
        cmd.arg("c01child").arg(src).arg(&out)
            .env("RAYON_NUM_THREADS", r.threads.to_string())
            .env("SOURCE_DATE_EPOCH", "1700000000")
            .env_remove("FONTC_VERIF_TRACE")
            .stdout(std::process::Stdio::null()).stderr(std::process::Stdio::piped());
        if r.jitter != 0 { cmd.env("FONTC_VERIF_JITTER", r.jitter.to_string()); } else { cmd.env_remove("FONTC_VERIF_JITTER"); }
        kids.push((k, out, cmd.spawn().expect("spawn child")));
    }
    let mut fonts: Vec<Option<Vec<u8>>> = vec![];
    let mut res = vec![];
    for (k, out, kid) in kids {
        let o = kid.wait_with_output().unwrap();
        let r = &runs[k];
        let status = match o.status.code() { Some(0) => "ok".to_string(), Some(c) => format!("exit{c}"), None => "signal".to_string() };
        let bytes = if status == "ok" { std::fs::read(&out).ok() } else { None };
        let err = String::from_utf8_lossy(&o.stderr);
        let err_head: String = err.lines().last().unwrap_or("").chars().take(160).collect();
        res.push(S::list([
            S::k1("threads", S::usize(r.threads)), S::k1("jitter", S::usize(r.jitter as usize)), S::k1("status", S::atom(status)),
            S::k1("len", S::usize(bytes.as_ref().map(|b| b.len()).unwrap_or(0))),
            S::k1("fp", S::atom(format!("h{:016x}", bytes.as_ref().map(|b| fingerprint(b)).unwrap_or(0)))),
            S::k1("err", S::str(&err_head)),
        ]));
        fonts.push(bytes);
    }
    let mut diff = "none".to_string();
    if let Some(Some(first)) = fonts.first() {
        for f in fonts.iter().skip(1).flatten() {
            if f != first { diff = first_diff_table(first, f); break; }
        }
    }
    vec![S::k1("runs", S::list(res)), S::k1("first_diff_table", S::str(&diff))]
}

pub fn run(args: &Args) {
    let seed = args.seed;
    // thorough tier: every buildable source of resources/testdata (list shared with c05)
    let fixtures = if args.rest.iter().any(|a| a == "--all-fixtures") {
        crate::c05::all_sources().into_iter().filter(|p| !p.to_string_lossy().contains("fontra")).collect()
    } else {
        fixture_sources()
    };
    crate::run_cases("c01", args, move |i| {
        let mut rng = Rng::for_case(seed, "c01", i);
        // alternate fixtures and generated designs
        let tmp = build::tmpdir("c01src");
        let (name, src) = if i % 2 == 0 && !fixtures.is_empty() {
            let p = fixtures[(i / 2) % fixtures.len()].clone();
            (p.strip_prefix("/repo/resources/testdata").unwrap().to_string_lossy().to_string(), p)
        } else {
            let mut o = design::GenOpts::default();
            o.max_axes = 2; o.metrics_vary = rng.chance(1, 2); o.vertical = rng.chance(1, 3); o.non_export = rng.chance(1, 3);
            o.nested = rng.chance(1, 2); o.transforms = rng.chance(1, 3);
            let mut d = design::gen_design(&mut rng, &o);
            crate::c01::decorate(&mut d, &mut rng);
            let ds = write::write_design(tmp.path(), &d);
            irregularize(&ds, &d, &mut rng);
            (format!("generated-{i}"), ds)
        };
        let runs: Vec<RunCfg> = [1usize, 2, 5, 16, 3, 8].iter().enumerate().map(|(k, t)| RunCfg {
            threads: *t, jitter: if k % 2 == 1 { 1 + rng.next() % 1_000_000 } else { 0 } }).collect();
        let mut f = vec![S::k1("source", S::str(&name))];
        f.extend(build_runs(&src, &runs, "c01out"));
        f
    });
}

/// Add kerning, groups, anchors, instances and a rule to a generated design so that the hash-ordered parts of the
/// compiler (kerning maps, mark groups, name allocation, feature variations) are exercised.
pub fn decorate(d: &mut design::Design, rng: &mut Rng) {
    let names = d.glyph_names();
    if names.len() < 3 { return; }
    let n_masters = d.masters.len();
    for mi in 0..n_masters {
        if d.masters[mi].sparse { continue; }
        let mut groups = vec![];
        groups.push(("public.kern1.L".to_string(), names[..2].to_vec()));
        groups.push(("public.kern2.R".to_string(), names[1..3].to_vec()));
        let mut kerning = vec![
            ("public.kern1.L".to_string(), "public.kern2.R".to_string(), rng.range(-80, 80) as f64),
            (names[0].clone(), names[2].clone(), rng.range(-80, 80) as f64),
            (names[2].clone(), "public.kern2.R".to_string(), rng.range(-80, 80) as f64),
        ];
        if rng.chance(1, 2) { kerning.push((names[1].clone(), names[0].clone(), rng.range(-50, 50) as f64)); }
        d.masters[mi].groups = groups;
        d.masters[mi].kerning = kerning;
        for (gi, n) in names.iter().enumerate() {
            if let Some(g) = d.masters[mi].glyphs.get_mut(n) {
                if gi % 3 == 0 { g.anchors.push(("top".into(), 300.0 + rng.range(-20, 20) as f64, 700.0)); g.anchors.push(("bottom".into(), 300.0, rng.range(-20, 20) as f64)); }
                if gi % 3 == 1 { g.anchors.push(("_top".into(), 100.0 + rng.range(-20, 20) as f64, 600.0)); }
            }
        }
    }
    // named instances (one collides with the family / style strings on purpose)
    if rng.chance(1, 3) { d.family = "Regular".into(); }
    let def_loc = d.masters[d.default_master].loc.clone();
    d.instances.push(design::Instance { family: d.family.clone(), style: "Regular".into(), postscript: None, loc: def_loc.clone() });
    for mi in 1..n_masters.min(3) {
        if d.masters[mi].sparse { continue; }
        d.instances.push(design::Instance { family: d.family.clone(), style: format!("Style{mi}"), postscript: Some(format!("VerifTest-Style{mi}")), loc: d.masters[mi].loc.clone() });
    }
}

/// Valid but unusual source structure, applied to the written files (the build only has to be repeatable, the design
/// is not interpreted by the oracle):
///  * the default master's UFO is listed by a second `<source>` at another location (one .glif at two locations);
///  * non-default masters disagree with the default master about a glyph's codepoints (fontc warns and takes the
///    default master's) and list their anchors in another order.
pub fn irregularize(ds: &Path, d: &design::Design, rng: &mut Rng) {
    let Ok(mut xml) = std::fs::read_to_string(ds) else { return };
    if rng.chance(1, 2) && !d.axes.is_empty() {
        if let Some(p) = xml.find("<lib copy=\"1\"/>") {
            let start = xml[..p].rfind("<source ").unwrap();
            let end = p + xml[p..].find("</source>").unwrap() + "</source>\n".len();
            let block = xml[start..end].to_string();
            let a = &d.axes[0];
            let (dmin, ddef, dmax) = (d.user_to_design(0, a.min), d.user_to_design(0, a.default), d.user_to_design(0, a.max));
            let target = if dmax != ddef { ddef + (dmax - ddef) * 0.3 } else { ddef + (dmin - ddef) * 0.3 };
            let def_dim = format!("<dimension name=\"{}\" xvalue=\"{}\"/>", write::xml_escape(&a.name), write::num(ddef));
            let new_dim = format!("<dimension name=\"{}\" xvalue=\"{}\"/>", write::xml_escape(&a.name), write::num(target));
            if block.contains(&def_dim) && target != ddef {
                let dup = block.replace("      <lib copy=\"1\"/><groups copy=\"1\"/><features copy=\"1\"/><info copy=\"1\"/>\n", "")
                    .replacen(&def_dim, &new_dim, 1)
                    .replacen(&format!("name=\"{}\"", write::xml_escape(&d.masters[d.default_master].name)), "name=\"Mreuse\"", 1);
                xml.insert_str(end, &dup);
                let _ = std::fs::write(ds, &xml);
            }
        }
    }
    if rng.chance(1, 2) {
        let dir = ds.parent().unwrap();
        for (mi, m) in d.masters.iter().enumerate() {
            if mi == d.default_master || m.sparse { continue; }
            let gdir = dir.join(write::ufo_name(d, mi)).join("glyphs");
            let Ok(rd) = std::fs::read_dir(&gdir) else { continue };
            let mut files: Vec<PathBuf> = rd.filter_map(|e| e.ok().map(|e| e.path())).filter(|p| p.extension().is_some_and(|e| e == "glif")).collect();
            files.sort();
            for (k, f) in files.iter().enumerate() {
                let Ok(t) = std::fs::read_to_string(f) else { continue };
                let mut lines: Vec<String> = t.lines().map(|l| l.to_string()).collect();
                if rng.chance(1, 3) {
                    if let Some(p) = lines.iter().position(|l| l.trim_start().starts_with("<advance")) {
                        lines.insert(p + 1, format!("  <unicode hex=\"{:04X}\"/>", 0xE100 + 16 * mi + k));
                    }
                }
                let an: Vec<usize> = lines.iter().enumerate().filter(|(_, l)| l.trim_start().starts_with("<anchor")).map(|(i, _)| i).collect();
                if an.len() >= 2 {
                    let mut texts: Vec<String> = an.iter().map(|i| lines[*i].clone()).collect();
                    texts.reverse();
                    for (i, t) in an.iter().zip(texts) { lines[*i] = t; }
                }
                let _ = std::fs::write(f, lines.join("\n") + "\n");
            }
        }
    }
}
