//! vharness: calls the real fontc code on seeded inputs and prints one protocol line per case.
//!   vharness <stream> --seed S --n N [--from I]
#![allow(dead_code)]
mod rng;
mod sexp;
#[cfg(feature = "c02")]
mod c02;
#[cfg(feature = "c01")]
mod c01;
#[cfg(feature = "c03")]
mod c03;
#[cfg(feature = "c05")]
mod c05;
#[cfg(feature = "c06")]
mod c06;
#[cfg(feature = "c07")]
mod c07;
#[cfg(feature = "c08")]
mod c08;
#[cfg(feature = "c10")]
mod c10;
#[cfg(feature = "c11")]
mod c11;
#[cfg(feature = "c09")]
mod c09;
#[cfg(feature = "c12")]
mod c12;
#[cfg(feature = "c13")]
mod c13;
#[cfg(feature = "c14")]
mod c14;
#[cfg(feature = "c15")]
mod c15;
#[cfg(feature = "c16")]
mod c16;
#[cfg(feature = "c17")]
mod c17;
#[cfg(feature = "c18")]
mod c18;
#[cfg(feature = "c19")]
mod c19;
#[cfg(feature = "c20")]
mod c20; pub(crate) use fontc::Error; // (c20 compiles /repo/fontc/src/args.rs, which names crate::Error)
mod e2e;

use std::io::Write;

pub struct Args {
    pub seed: u64,
    pub n: usize,
    pub from: usize,
    pub rest: Vec<String>,
}

fn parse_args(argv: &[String]) -> Args {
    let mut a = Args { seed: 1, n: 100, from: 0, rest: vec![] };
    let mut i = 0;
    while i < argv.len() {
        match argv[i].as_str() {
            "--seed" => { a.seed = argv[i + 1].parse().expect("seed"); i += 2; }
            "--n" => { a.n = argv[i + 1].parse().expect("n"); i += 2; }
            "--from" => { a.from = argv[i + 1].parse().expect("from"); i += 2; }
            other => { a.rest.push(other.to_string()); i += 1; }
        }
    }
    a
}

/// Run `f` for each case index, catching panics per case; a panic prints `(stream id (panic x…))`.
pub fn run_cases(stream: &str, args: &Args, f: impl Fn(usize) -> Vec<sexp::S> + std::panic::RefUnwindSafe) {
    let stdout = std::io::stdout();
    let mut out = std::io::BufWriter::new(stdout.lock());
    std::panic::set_hook(Box::new(|_| {}));
    for i in args.from..args.from + args.n {
        let line = match std::panic::catch_unwind(|| f(i)) {
            Ok(fields) => sexp::case_line(stream, i, fields),
            Err(e) => {
                let msg = e.downcast_ref::<String>().cloned()
                    .or_else(|| e.downcast_ref::<&str>().map(|s| s.to_string()))
                    .unwrap_or_default();
                sexp::case_line(stream, i, vec![sexp::S::k1("panic", sexp::S::str(&msg))])
            }
        };
        writeln!(out, "{line}").unwrap();
    }
}

fn main() {
    let argv: Vec<String> = std::env::args().skip(1).collect();
    if argv.is_empty() {
        eprintln!("usage: vharness <stream> --seed S --n N");
        std::process::exit(2);
    }
    let args = parse_args(&argv[1..]);
    match argv[0].as_str() {
        #[cfg(feature = "c02")]
        "c02" => c02::run(&args),
        #[cfg(feature = "c05")]
        "c05sfnt" => c05::run_sfnt(&args),
        #[cfg(feature = "c05")]
        "c05font" => c05::run_font(&args),
        #[cfg(feature = "c06")]
        "c06" => c06::run(&args),
        #[cfg(feature = "c06")]
        "c06glyphs" => c06::run_glyphs(&args),
        #[cfg(feature = "c06")]
        "c06e2e" => c06::run_e2e(&args),
        #[cfg(feature = "c06")]
        "c06probe" => c06::run_probe(&args),
        #[cfg(feature = "c07")]
        "c07" => c07::run(&args),
        #[cfg(feature = "c01")]
        "c01" => c01::run(&args),
        #[cfg(feature = "c01")]
        "c01child" => c01::child(&argv[1..]),
        #[cfg(feature = "c08")]
        "c08" => c08::run(&args),
        #[cfg(feature = "c08")]
        "c08mal" => c08::run_mal(&args),
        #[cfg(feature = "c08")]
        "c08e2e" => c08::run_e2e(&args),
        #[cfg(feature = "c08")]
        "c08one" => c08::run_one(&args),
        #[cfg(feature = "c08")]
        "c08e2eone" => c08::run_e2e_one(&args),
        #[cfg(feature = "c10")]
        "c10" => c10::run(&args),
        #[cfg(feature = "c10")]
        "c10e2e" => c10::run_e2e(&args),
        #[cfg(feature = "c10")]
        "c10big" => c10::run_big(&args),
        #[cfg(feature = "c09")]
        "c09" => c09::run(&args),
        #[cfg(feature = "c09")]
        "c09e2e" => c09::run_e2e(&args),
        #[cfg(feature = "c09")]
        "c09wit" => c09::run_witness(&args),
        #[cfg(feature = "c11")]
        "c11" => c11::run("c11", &args),
        #[cfg(feature = "c11")]
        "c11x" => c11::run("c11x", &args),
        #[cfg(feature = "c11")]
        "c11adv" => c11::run("c11adv", &args),
        #[cfg(feature = "c11")]
        "c11fea" => c11::run_file(&args),
        #[cfg(feature = "c16")]
        "c16" => c16::run(&args),
        #[cfg(feature = "c16")]
        "c16e2e" => c16::run_e2e(&args),
        #[cfg(feature = "c17")]
        "c17" => c17::run(&args),
        #[cfg(feature = "c17")]
        "c17x" => c17::run_directed(&args),
        #[cfg(feature = "c18")]
        "c18" => c18::run(&args),
        #[cfg(feature = "c18")]
        "c18child" => c18::run_child(&args),
        #[cfg(feature = "c18")]
        "c18e2e" => c18::run_e2e(&args),
        #[cfg(feature = "c18")]
        "c18fea" => c18::run_fea("c18fea", &args),
        #[cfg(feature = "c18")]
        "c18feax" => c18::run_fea("c18feax", &args),
        #[cfg(feature = "c12")]
        "c12e2e" => c12::run(&args),
        #[cfg(feature = "c12")]
        "c12dir" => c12::run_directed(&args),
        #[cfg(feature = "c12")]
        "c12" => c12::run_pure(&args),
        #[cfg(feature = "c13")]
        "c13lex" => c13::run_lex(&args),
        #[cfg(feature = "c13")]
        "c13inc" => c13::run_inc(&args),
        #[cfg(feature = "c03")]
        "c03e2e" => c03::run("c03e2e", &args),
        #[cfg(feature = "c03")]
        "c03glyphs" => c03::run_glyphs(&args),
        #[cfg(feature = "c03")]
        "c04e2e" => c03::run("c04e2e", &args),
        #[cfg(feature = "c03")]
        "c04adv" => c03::run_adv(&args),
        #[cfg(feature = "c03")]
        "c03adv" => c03::run_adv_shared(&args),
        #[cfg(feature = "c19")]
        "c19e2e" => c19::run("c19e2e", &args),
        #[cfg(feature = "c19")]
        "c19e2e_rel" => c19::run("c19e2e_rel", &args),
        #[cfg(feature = "c19")]
        "c19big" => c19::run("c19big", &args),
        #[cfg(feature = "c19")]
        "c19big_rel" => c19::run("c19big_rel", &args),
        #[cfg(feature = "c19")]
        "c19off" => c19::run("c19off", &args),
        #[cfg(feature = "c19")]
        "c19off_rel" => c19::run("c19off_rel", &args),
        #[cfg(feature = "c19")]
        "c19offobs" => c19::run_obs("c19offobs", &args),
        #[cfg(feature = "c19")]
        "c19obs" => c19::run_obs("c19obs", &args),
        #[cfg(feature = "c19")]
        "c19bigobs" => c19::run_obs("c19bigobs", &args),
        #[cfg(feature = "c14")]
        "c14names" | "c14paths" | "c14emit" => c14::run(argv[0].as_str(), &args),
        #[cfg(feature = "c20")]
        "c20plist" => c20::run_plist(&args),
        #[cfg(feature = "c20")]
        "c20args" => c20::run_args(&args),
        #[cfg(feature = "c20")]
        "c20e2e" => c20::run_e2e(&args),
        #[cfg(feature = "c20")]
        "c20child" => c20::run_child(&argv[1..]),
        #[cfg(feature = "c20")]
        "c20unicode" => c20::run_unicode(&args),
        #[cfg(feature = "c15")]
        "c15graph" => c15::run_graph(&args),
        #[cfg(feature = "c15")]
        "c15mut" => c15::run_mut(&args),
        #[cfg(feature = "c15")]
        "c15child" => c15::run_child(&args),
        #[cfg(feature = "c15")]
        "c15corpus" => c15::run_corpus(&args),
        other => {
            eprintln!("unknown stream {other}");
            std::process::exit(2);
        }
    }
}
