//! C08: axis mapping -> fvar/avar.
//! Streams `c08` (well-formed axis definitions) and `c08mal` (malformed ones: the points the
//! theorems' hypotheses exclude). Real code called: `CoordConverter::{new,unmapped,iter}`,
//! the `Coord::to_*` conversions (which go through `PiecewiseLinearMap::map`/`reverse`),
//! `Axis::default_converter`, `fontbe::avar::to_segment_map` (hook `verif_to_segment_map`),
//! `Fixed::from(UserCoord)` (the conversion fvar.rs uses for min/default/max and instances).
use crate::rng::Rng;
use crate::sexp::S;
use crate::Args;
use fontdrasil::coords::{CoordConverter, DesignCoord, NormalizedCoord, UserCoord};
use fontdrasil::types::{Axis, Tag};
use write_fonts::types::Fixed;

#[derive(Clone, Debug)]
pub struct Case {
    pub kind: &'static str,
    /// mapping examples in the order passed to `CoordConverter::new`
    pub mappings: Vec<(f64, f64)>,
    pub default_idx: usize,
    /// true: build with `CoordConverter::unmapped(min, default, max)` instead of `new`
    pub unmapped: bool,
    pub min: f64,
    pub default: f64,
    pub max: f64,
    pub probes: Vec<f64>,
    pub dprobes: Vec<f64>,
}

const GRIDS: [f64; 7] = [1.0, 1.0, 0.5, 0.25, 0.1, 0.01, 1.0 / 3.0];

fn steps(rng: &mut Rng, n: usize, allow_zero: bool) -> Vec<i64> {
    (0..n)
        .map(|_| {
            if allow_zero && rng.chance(1, 5) {
                0
            } else {
                match rng.below(4) {
                    0 => rng.range(1, 3),
                    1 => rng.range(1, 40),
                    2 => rng.range(40, 400),
                    _ => rng.range(1, 1000),
                }
            }
        })
        .collect()
}

/// strictly increasing user values, non-decreasing design values (flat segments with p = 1/5)
fn gen_nodes(rng: &mut Rng, n: usize) -> Vec<(f64, f64)> {
    let gu = *rng.pick(&GRIDS);
    let gd = *rng.pick(&GRIDS);
    let u0 = rng.range(-300, 600);
    let d0 = rng.range(-300, 600);
    let us = steps(rng, n - 1, false);
    let style = rng.below(8);
    let mut nodes = vec![];
    let (mut ku, mut kd) = (u0, d0);
    let ds = steps(rng, n - 1, true);
    for i in 0..n {
        if i > 0 {
            ku += us[i - 1];
            kd += ds[i - 1];
        }
        let u = ku as f64 * gu;
        let d = match style {
            0 => u,                         // identity (what `unmapped` sources look like)
            // exactly affine in f64 and in Q (scaling by 1/2 is exact; the offset only on dyadic
            // grids where the sum is exact): avar must be elided
            1 => u * 0.5 + if gu == 1.0 || gu == 0.5 || gu == 0.25 { 10.0 } else { 0.0 },
            _ => kd as f64 * gd,
        };
        nodes.push((u, d));
    }
    // style 7: every node on the diagonal (design = user) except one interior node that is bent: the on-diagonal nodes
    // next to it are not redundant, they pin the piecewise-linear map
    if style == 7 && n >= 4 {
        for p in nodes.iter_mut() { p.1 = p.0; }
        let j = 1 + rng.below(n - 2);
        nodes[j].1 = nodes[j].0 + (nodes[j + 1].0 - nodes[j].0) * 0.25;
    }
    nodes
}

fn probes_for(rng: &mut Rng, nodes: &[(f64, f64)], lo: f64, hi: f64, clamp: bool) -> Vec<f64> {
    let mut us: Vec<f64> = nodes.iter().map(|p| p.0).collect();
    us.sort_by(|a, b| a.partial_cmp(b).unwrap());
    let mut out: Vec<f64> = vec![lo, hi];
    out.extend(us.iter().copied());
    for w in us.windows(2) {
        out.push((w[0] + w[1]) / 2.0);
    }
    let span = (hi - lo).abs().max(1e-3);
    let mut guard = 0;
    while out.len() < 20 && guard < 200 {
        guard += 1;
        let v = match rng.below(4) {
            // next to a node: a relative nudge, and a nudge of a few ulps
            0 => us[rng.below(us.len())] + span * *rng.pick(&[1e-3, -1e-3, 1e-6, -1e-6]),
            1 => {
                let x = us[rng.below(us.len())];
                f64::from_bits((x.to_bits() as i64 + rng.range(-3, 3)) as u64)
            }
            _ => lo + (hi - lo) * (rng.below(100_001) as f64 / 100_000.0),
        };
        if !v.is_finite() {
            continue;
        }
        if clamp && !(v >= lo && v <= hi) {
            continue;
        }
        out.push(v);
    }
    out.truncate(20);
    out
}

fn dprobes_for(rng: &mut Rng, nodes: &[(f64, f64)]) -> Vec<f64> {
    let mut ds: Vec<f64> = nodes.iter().map(|p| p.1).collect();
    ds.sort_by(|a, b| a.partial_cmp(b).unwrap());
    let (lo, hi) = (ds[0], ds[ds.len() - 1]);
    let mut out = vec![lo, hi];
    out.extend(ds.iter().copied());
    for _ in 0..3 {
        out.push(lo + (hi - lo) * (rng.below(1001) as f64 / 1000.0));
    }
    out.truncate(12);
    out
}

pub fn gen_wf(rng: &mut Rng) -> Case {
    if rng.chance(1, 12) {
        // a source with no mapping: CoordConverter::unmapped
        let g = *rng.pick(&GRIDS);
        let mn = rng.range(-300, 600) as f64 * g;
        let lo = if rng.chance(1, 4) { 0 } else { rng.range(1, 500) };
        let hi = if rng.chance(1, 4) { 0 } else { rng.range(1, 500) };
        let df = mn + lo as f64 * g;
        let mx = df + hi as f64 * g;
        let nodes = vec![(mn, mn), (df, df), (mx, mx)];
        return Case {
            kind: "unmapped", mappings: nodes.clone(), default_idx: 0, unmapped: true,
            min: mn, default: df, max: mx,
            probes: probes_for(rng, &nodes, mn, mx, true), dprobes: dprobes_for(rng, &nodes),
        };
    }
    let n = 1 + rng.below(8);
    let nodes = gen_nodes(rng, n);
    let k = match rng.below(3) { 0 => 0, 1 => n - 1, _ => rng.below(n) };
    let (min, default, max) = (nodes[0].0, nodes[k].0, nodes[n - 1].0);
    let mut mappings = nodes.clone();
    let mut default_idx = k;
    let mut kind = "wf";
    if rng.chance(1, 5) && n > 1 {
        // examples listed out of order: `new` sorts the map but indexes the default in the list as given
        let mut idx: Vec<usize> = (0..n).collect();
        rng.shuffle(&mut idx);
        mappings = idx.iter().map(|i| nodes[*i]).collect();
        default_idx = idx.iter().position(|i| *i == k).unwrap();
        kind = "wf-shuffled";
    }
    Case {
        kind, mappings, default_idx, unmapped: false, min, default, max,
        probes: probes_for(rng, &nodes, min, max, true), dprobes: dprobes_for(rng, &nodes),
    }
}

pub fn gen_mal(rng: &mut Rng) -> Case {
    let n = 2 + rng.below(6);
    let mut nodes = gen_nodes(rng, n.max(3));
    let n = nodes.len();
    let k = rng.below(n);
    let (mut min, mut default, mut max) = (nodes[0].0, nodes[k].0, nodes[n - 1].0);
    let mut default_idx = k;
    let kind = *rng.pick(&[
        "nonmono", "decreasing", "dupuser", "defnotnode", "range-in", "range-out", "idx-oob", "empty",
        "inverted", "single-ranged",
    ]);
    match kind {
        "nonmono" => {
            // design values permuted: not monotone in user order
            let mut ds: Vec<f64> = nodes.iter().map(|p| p.1).collect();
            rng.shuffle(&mut ds);
            for (p, d) in nodes.iter_mut().zip(ds) { p.1 = d; }
        }
        "decreasing" => {
            let ds: Vec<f64> = nodes.iter().rev().map(|p| p.1).collect();
            for (p, d) in nodes.iter_mut().zip(ds) { p.1 = d; }
        }
        "dupuser" => {
            // two examples with the same user value and different design values
            let i = rng.below(n - 1);
            nodes[i + 1].0 = nodes[i].0;
            if nodes[i + 1].1 == nodes[i].1 { nodes[i + 1].1 += 7.0; }
            default = nodes[k].0;
            min = nodes[0].0;
            max = nodes[n - 1].0;
        }
        "defnotnode" => {
            // axis default strictly between two mapping nodes; default_idx points at a neighbour
            let i = rng.below(n - 1);
            default = (nodes[i].0 + nodes[i + 1].0) / 2.0;
            default_idx = if rng.chance(1, 2) { i } else { i + 1 };
        }
        "range-in" => {
            // mapping extends beyond the axis range
            if n >= 3 {
                min = nodes[1].0;
                if default < min { default = min; default_idx = 1; }
                if rng.chance(1, 2) && n >= 4 {
                    max = nodes[n - 2].0;
                    if default > max { default = max; default_idx = n - 2; }
                }
            }
        }
        "range-out" => {
            // axis range extends beyond the mapping
            min -= rng.range(1, 100) as f64;
            if rng.chance(1, 2) { max += rng.range(1, 100) as f64; }
        }
        "idx-oob" => { default_idx = n + rng.below(3); }
        "empty" => { nodes.clear(); default_idx = 0; min = -1.0 * rng.below(2) as f64; default = 0.0; max = rng.below(2) as f64; }
        "inverted" => { std::mem::swap(&mut min, &mut max); }
        "single-ranged" => {
            // one mapping point but a ranged axis
            nodes.truncate(1);
            default_idx = 0;
            default = nodes[0].0;
            min = default - rng.below(3) as f64 * 50.0;
            max = default + (1 + rng.below(3)) as f64 * 50.0;
        }
        _ => unreachable!(),
    }
    let (lo, hi) = if min <= max { (min, max) } else { (max, min) };
    let pn = if nodes.is_empty() { vec![(default, default)] } else { nodes.clone() };
    let probes = probes_for(rng, &pn, lo - 10.0, hi + 10.0, false);
    let dprobes = dprobes_for(rng, &pn);
    Case { kind, mappings: nodes, default_idx, unmapped: false, min, default, max, probes, dprobes }
}

fn f64s(xs: impl IntoIterator<Item = f64>) -> S {
    S::list(xs.into_iter().map(S::f64))
}

pub fn input_fields(c: &Case) -> Vec<S> {
    vec![
        S::k1("kind", S::atom(c.kind)),
        S::k1("ctor", S::atom(if c.unmapped { "unmapped" } else { "new" })),
        S::k1("mappings", S::list(c.mappings.iter().map(|(u, d)| S::list([S::f64(*u), S::f64(*d)])))),
        S::k1("default_idx", S::usize(c.default_idx)),
        S::k1("min", S::f64(c.min)),
        S::k1("default", S::f64(c.default)),
        S::k1("max", S::f64(c.max)),
        S::k1("probes", f64s(c.probes.iter().copied())),
        S::k1("dprobes", f64s(c.dprobes.iter().copied())),
    ]
}

pub fn impl_fields(c: &Case) -> S {
    let (min, default, max) = (UserCoord::new(c.min), UserCoord::new(c.default), UserCoord::new(c.max));
    let conv = if c.unmapped {
        Ok(CoordConverter::unmapped(min, default, max))
    } else {
        CoordConverter::new(
            c.mappings.iter().map(|(u, d)| (UserCoord::new(*u), DesignCoord::new(*d))).collect(),
            c.default_idx,
        )
    };
    let conv = match conv {
        Ok(conv) => conv,
        Err(e) => {
            let word = format!("{e:?}").split(['(', ' ', '{']).next().unwrap().to_string();
            return S::kv("impl", [S::k1("new", S::atom(format!("err-{word}")))]);
        }
    };
    let axis = Axis {
        name: "Test".to_string(),
        tag: Tag::new(b"TEST"),
        min,
        default,
        max,
        hidden: false,
        converter: conv.clone(),
        localized_names: Default::default(),
    };
    let dconv = axis.default_converter();
    let iter: Vec<(UserCoord, DesignCoord, NormalizedCoord)> = conv.iter().collect();
    let segmap = fontbe::avar::verif_to_segment_map(&axis);
    let to_design = c.probes.iter().map(|u| UserCoord::new(*u).to_design(&conv).to_f64());
    let to_norm = c.probes.iter().map(|u| UserCoord::new(*u).to_normalized(&conv).to_f64());
    let def_norm = c.probes.iter().map(|u| UserCoord::new(*u).to_normalized(&dconv).to_f64());
    let d2u = c.dprobes.iter().map(|d| DesignCoord::new(*d).to_user(&conv).to_f64());
    let d2n = c.dprobes.iter().map(|d| DesignCoord::new(*d).to_normalized(&conv).to_f64());
    // normalized -> design -> user on the implementation's own normalized values (reverse maps)
    let n2u = c.probes.iter().map(|u| {
        let n = UserCoord::new(*u).to_normalized(&conv);
        n.to_user(&conv).to_f64()
    });
    let fx = |u: UserCoord| S::int(Fixed::from(u).to_bits());
    S::kv("impl", [
        S::k1("new", S::atom("ok")),
        S::k1("iter", S::list(iter.iter().map(|(u, d, n)| S::list([S::f64(u.to_f64()), S::f64(d.to_f64()), S::f64(n.to_f64())])))),
        S::k1("to_design", f64s(to_design)),
        S::k1("to_norm", f64s(to_norm)),
        S::k1("def_norm", f64s(def_norm)),
        S::k1("d2u", f64s(d2u)),
        S::k1("d2n", f64s(d2n)),
        S::k1("n2u", f64s(n2u)),
        S::k1("segmap", S::list(segmap.axis_value_maps.iter().map(|av| {
            S::list([S::int(av.from_coordinate.to_bits()), S::int(av.to_coordinate.to_bits())])
        }))),
        S::k1("is_identity", S::bool(segmap.is_identity())),
        S::k1("fvar", S::list([fx(min), fx(default), fx(max)])),
        S::k1("inst", S::list(c.dprobes.iter().map(|d| fx(DesignCoord::new(*d).to_user(&conv))))),
    ])
}

fn run_with(stream: &'static str, args: &Args, generate: fn(&mut Rng) -> Case) {
    let seed = args.seed;
    crate::run_cases(stream, args, move |i| {
        let mut rng = Rng::for_case(seed, stream, i);
        let case = generate(&mut rng);
        let mut f = input_fields(&case);
        // keep the input visible when the real code panics
        let imp = std::panic::catch_unwind(|| impl_fields(&case)).unwrap_or_else(|e| {
            let msg = e.downcast_ref::<String>().cloned()
                .or_else(|| e.downcast_ref::<&str>().map(|s| s.to_string()))
                .unwrap_or_default();
            S::kv("impl", [S::k1("new", S::atom("panic")), S::k1("msg", S::str(&msg))])
        });
        f.push(imp);
        f
    });
}

pub fn run(args: &Args) {
    run_with("c08", args, gen_wf);
}

pub fn run_mal(args: &Args) {
    run_with("c08mal", args, gen_mal);
}

// ------------------------------------------------------------------------------------------------
// c08e2e: generated designspace + UFO masters -> fontc::generate_font -> fvar/avar read back.
// Source writing and the build call come from the shared crate::e2e helpers; the table read-back is local.

use crate::e2e::{build, design as ds, write as dswrite};
use write_fonts::read::{FontRef, TableProvider};

fn f32r(v: f64) -> f64 {
    // designspace numbers pass through f32 in norad: generate values that survive that
    (v as f32) as f64
}

struct E2eAxis {
    tag: &'static str,
    name: &'static str,
    /// examples in the order written to the document (empty = no <map>)
    map: Vec<(f64, f64)>,
    /// examples sorted by user value (for an unmapped axis: min/default/max on the diagonal)
    nodes: Vec<(f64, f64)>,
    default_idx: usize,
    min: f64,
    default: f64,
    max: f64,
    probes: Vec<f64>,
}

fn gen_e2e_axis(rng: &mut Rng, which: usize) -> E2eAxis {
    let (tag, name) = [("wght", "Weight"), ("wdth", "Width")][which];
    let c = loop {
        let c = gen_wf(rng);
        if c.mappings.len() >= 2 && c.max > c.min { break c; }
    };
    let r = |p: &(f64, f64)| (f32r(p.0), f32r(p.1));
    let mut map: Vec<(f64, f64)> = c.mappings.iter().map(r).collect();
    let (min, default, max) = (f32r(c.min), f32r(c.default), f32r(c.max));
    let mut nodes = map.clone();
    nodes.sort_by(|a, b| a.partial_cmp(b).unwrap());
    // f32 rounding must not have merged user values or reordered design values
    let ok = nodes.windows(2).all(|w| w[0].0 < w[1].0 && w[0].1 <= w[1].1);
    if !ok || c.unmapped {
        // fall back to an unmapped axis
        map.clear();
        nodes = vec![(min, min), (default, default), (max, max)];
        nodes.dedup();
    }
    let default_idx = if map.is_empty() { 0 } else { map.iter().position(|p| p.0 == default).unwrap() };
    let probes = probes_for(rng, &nodes, min, max, true);
    E2eAxis { tag, name, map, nodes, default_idx, min, default, max, probes }
}

fn interp_nodes(nodes: &[(f64, f64)], u: f64) -> f64 {
    for w in nodes.windows(2) {
        if u <= w[1].0 {
            return w[0].1 + (u - w[0].0) / (w[1].0 - w[0].0) * (w[1].1 - w[0].1);
        }
    }
    nodes[nodes.len() - 1].1
}

fn square(adv: f64) -> ds::GlyphDef {
    let p = |x: f64, y: f64| ds::Pt { x, y, typ: ds::PtType::Line };
    ds::GlyphDef {
        advance: adv,
        contours: vec![vec![p(50.0, 0.0), p(adv - 50.0, 0.0), p(adv - 50.0, 500.0), p(50.0, 500.0)]],
        ..Default::default()
    }
}

pub fn run_e2e(args: &Args) {
    let seed = args.seed;
    crate::run_cases("c08e2e", args, move |i| {
        let mut rng = Rng::for_case(seed, "c08e2e", i);
        let n_axes = 1 + rng.below(2);
        let axes: Vec<E2eAxis> = (0..n_axes).map(|k| gen_e2e_axis(&mut rng, k)).collect();
        // named instances at design locations inside the design range
        let n_inst = rng.below(4);
        let mut inst_locs = vec![];
        for _ in 0..n_inst {
            let loc: Vec<f64> = axes.iter().map(|a| {
                let (lo, hi) = (a.nodes[0].1, a.nodes[a.nodes.len() - 1].1);
                match rng.below(3) {
                    0 => a.nodes[rng.below(a.nodes.len())].1,
                    1 => f32r(lo + (hi - lo) * 0.5),
                    _ => f32r(lo + (hi - lo) * (rng.below(101) as f64 / 100.0)),
                }
            }).collect();
            inst_locs.push(loc);
        }
        e2e_build(&axes, inst_locs)
    });
}

/// `vharness c08e2eone "u:d,...;default_idx;min;default;max[;instance design coords,...]"`: one hand-written
/// single-axis designspace through the real build (replays findings end to end).
pub fn run_e2e_one(args: &Args) {
    let spec = args.rest.first().cloned().unwrap_or_default();
    let parts: Vec<&str> = spec.split(';').collect();
    assert!(parts.len() >= 5, "expected \"u:d,...;idx;min;default;max[;d,d]\"");
    let map: Vec<(f64, f64)> = parts[0].split(',').filter(|s| !s.is_empty()).map(|p| {
        let (u, d) = p.split_once(':').expect("u:d");
        (u.parse().unwrap(), d.parse().unwrap())
    }).collect();
    let default_idx: usize = parts[1].parse().unwrap();
    let (min, default, max): (f64, f64, f64) = (parts[2].parse().unwrap(), parts[3].parse().unwrap(), parts[4].parse().unwrap());
    let inst: Vec<Vec<f64>> = parts.get(5).map(|s| s.split(',').filter(|x| !x.is_empty()).map(|x| vec![x.parse().unwrap()]).collect()).unwrap_or_default();
    let mut nodes = if map.is_empty() { vec![(min, min), (default, default), (max, max)] } else { map.clone() };
    nodes.sort_by(|a, b| a.partial_cmp(b).unwrap());
    nodes.dedup();
    let one = Args { seed: args.seed, n: 1, from: 0, rest: vec![] };
    crate::run_cases("c08e2e", &one, move |_| {
        let mut rng = Rng::new(1);
        let probes = probes_for(&mut rng, &nodes, min, max, true);
        let axes = vec![E2eAxis { tag: "wght", name: "Weight", map: map.clone(), nodes: nodes.clone(), default_idx, min, default, max, probes }];
        e2e_build(&axes, inst.clone())
    });
}

fn e2e_build(axes: &[E2eAxis], inst_locs: Vec<Vec<f64>>) -> Vec<S> {
    {
        let mut d = ds::Design { family: "Verif Axis".into(), upem: 1000, ..Default::default() };
        for a in axes {
            d.axes.push(ds::AxisDef { tag: a.tag.into(), name: a.name.into(), min: a.min, default: a.default, max: a.max, map: a.map.clone() });
        }
        // masters: design default, plus each axis' design extremes where they differ from the default
        let ddef: Vec<f64> = axes.iter().map(|a| interp_nodes(&a.nodes, a.default)).collect();
        let mut locs = vec![ddef.clone()];
        for (k, a) in axes.iter().enumerate() {
            for v in [a.nodes[0].1, a.nodes[a.nodes.len() - 1].1] {
                if v != ddef[k] {
                    let mut l = ddef.clone();
                    l[k] = v;
                    if !locs.contains(&l) { locs.push(l); }
                }
            }
        }
        let info: Vec<(String, f64)> = [("ascender", 800.0), ("descender", -200.0), ("xHeight", 500.0), ("capHeight", 700.0)]
            .iter().map(|(k, v)| (k.to_string(), *v)).collect();
        for (mi, l) in locs.iter().enumerate() {
            let mut m = ds::Master { name: format!("M{mi}"), style: if mi == 0 { "Regular".into() } else { format!("Style{mi}") }, loc: l.clone(), ..Default::default() };
            m.glyphs.insert("a".into(), square(400.0 + 60.0 * mi as f64));
            m.info = info.clone();
            d.masters.push(m);
        }
        d.codepoints.insert("a".into(), vec![0x61]);
        d.glyph_order = Some(vec!["a".into()]);
        for (k, loc) in inst_locs.iter().enumerate() {
            d.instances.push(ds::Instance { family: "Verif Axis".into(), style: format!("Inst{k}"), postscript: None, loc: loc.clone() });
        }
        let tmp = build::tmpdir("c08e2e");
        let path = dswrite::write_design(tmp.path(), &d);
        let res = build::compile(&path, &build::BuildOpts::default());
        let mut f = vec![
            S::k1("axes", S::list(axes.iter().map(|a| S::list([
                S::k1("tag", S::str(a.tag)),
                S::k1("mappings", S::list(a.map.iter().map(|(u, dv)| S::list([S::f64(*u), S::f64(*dv)])))),
                S::k1("nodes", S::list(a.nodes.iter().map(|(u, dv)| S::list([S::f64(*u), S::f64(*dv)])))),
                S::k1("default_idx", S::usize(a.default_idx)),
                S::k1("min", S::f64(a.min)), S::k1("default", S::f64(a.default)), S::k1("max", S::f64(a.max)),
                S::k1("probes", f64s(a.probes.iter().copied())),
            ])))),
            S::k1("instances", S::list(inst_locs.iter().map(|l| f64s(l.iter().copied())))),
        ];
        match res {
            Err(e) => {
                let word: String = e.chars().take_while(|c| c.is_ascii_alphanumeric()).collect();
                f.push(S::kv("impl", [S::k1("result", S::atom(format!("err-{word}"))), S::k1("msg", S::str(&e))]));
            }
            Ok(bytes) => {
                let font = FontRef::new(&bytes).expect("font parses");
                let mut out = vec![S::k1("result", S::atom("ok"))];
                if let Ok(fvar) = font.fvar() {
                    let axes_r = fvar.axes().unwrap();
                    out.push(S::k1("fvar", S::list(axes_r.iter().map(|a| S::list([
                        S::str(&a.axis_tag().to_string()),
                        S::int(a.min_value().to_bits()), S::int(a.default_value().to_bits()), S::int(a.max_value().to_bits()),
                    ])))));
                    let insts = fvar.instances().unwrap();
                    out.push(S::k1("inst", S::list(insts.iter().filter_map(|x| x.ok()).map(|x| {
                        S::list(x.coordinates.iter().map(|c| S::int(c.get().to_bits())))
                    }))));
                } else {
                    out.push(S::k1("fvar", S::atom("none")));
                }
                match font.avar() {
                    Ok(avar) => out.push(S::k1("avar", S::list(avar.axis_segment_maps().iter().filter_map(|m| m.ok()).map(|m| {
                        S::list(m.axis_value_maps().iter().map(|v| S::list([S::int(v.from_coordinate().to_bits()), S::int(v.to_coordinate().to_bits())])))
                    })))),
                    Err(_) => out.push(S::k1("avar", S::atom("none"))),
                }
                f.push(S::kv("impl", out));
            }
        }
        f
    }
}

/// `vharness c08one "u:d,u:d,...;default_idx;min;default;max"` — one hand-written axis definition through the
/// same real-code calls as `c08mal` (used to replay the excluded points quoted in the findings).
pub fn run_one(args: &Args) {
    let spec = args.rest.first().cloned().unwrap_or_default();
    let parts: Vec<&str> = spec.split(';').collect();
    assert!(parts.len() == 5, "expected \"u:d,...;idx;min;default;max\"");
    let mappings: Vec<(f64, f64)> = parts[0].split(',').filter(|s| !s.is_empty()).map(|p| {
        let (u, d) = p.split_once(':').expect("u:d");
        (u.parse().unwrap(), d.parse().unwrap())
    }).collect();
    let default_idx: usize = parts[1].parse().unwrap();
    let (min, default, max): (f64, f64, f64) = (parts[2].parse().unwrap(), parts[3].parse().unwrap(), parts[4].parse().unwrap());
    let one = Args { seed: args.seed, n: 1, from: 0, rest: vec![] };
    crate::run_cases("c08mal", &one, move |_| {
        let mut rng = Rng::new(1);
        let pn = if mappings.is_empty() { vec![(default, default)] } else { mappings.clone() };
        let (lo, hi) = if min <= max { (min, max) } else { (max, min) };
        let case = Case {
            kind: "hand", mappings: mappings.clone(), default_idx, unmapped: false, min, default, max,
            probes: probes_for(&mut rng, &pn, lo, hi, true), dprobes: dprobes_for(&mut rng, &pn),
        };
        let mut f = input_fields(&case);
        let imp = std::panic::catch_unwind(|| impl_fields(&case)).unwrap_or_else(|e| {
            let msg = e.downcast_ref::<String>().cloned()
                .or_else(|| e.downcast_ref::<&str>().map(|s| s.to_string()))
                .unwrap_or_default();
            S::kv("impl", [S::k1("new", S::atom("panic")), S::k1("msg", S::str(&msg))])
        });
        f.push(imp);
        f
    });
}
