//! C20: same design, same font through every entry point and container.
//!
//!  c20plist  generated plist values x random styles -> real `glyphs_reader::Plist::parse` -> canonical dump
//!            (+ mutated / hand-written texts for the correspondence only)
//!  c20args   random command lines -> the real `Args` (fontc/src/args.rs, compiled into the harness by #[path])
//!            -> real `TryInto<Options>` -> dump, and `Input::new` dispatch
//!  c20e2e    one source through every route (CLI child process, library from path, from memory,
//!            .glyphspackage, re-printed text; lone UFO vs one-source designspace) -> bytes compared
//!  c20child  the CLI code path: what `fontc`'s `main` does after logger setup (main.rs:70-72)
use crate::rng::Rng;
use crate::sexp::S;
use crate::Args;
use glyphs_reader::Plist;
use std::collections::BTreeMap;
use std::path::{Path, PathBuf};

/// The real command-line definition and its `TryInto<Options>` (binary-crate module of fontc).
#[path = "/repo/fontc/src/args.rs"]
#[allow(unused)]
mod fontc_args;

// ------------------------------------------------------------------------------------------------
// plist values, printer with styles
// ------------------------------------------------------------------------------------------------

#[derive(Clone, Debug, PartialEq)]
pub enum PV {
    Dict(Vec<(String, PV)>),
    Arr(Vec<PV>),
    Str(String),
    Int(i64),
    /// text of a bare word that reads as f64
    Flt(String),
    Data(Vec<u8>),
}

fn is_alnum(c: char) -> bool {
    c.is_ascii_alphanumeric() || matches!(c, '_' | '$' | '/' | ':' | '.' | '-')
}

/// Does a bare word read back as a number?  (independent re-statement of numeric_ok + parse_atom,
/// used only to decide where the *printer* must quote; the oracle does not depend on it being right:
/// a wrong answer shows up as a style-sensitive value)
fn looks_numeric(s: &str) -> bool {
    let b = s.as_bytes();
    if b.is_empty() {
        return false;
    }
    let hex_upper = |c: &u8| c.is_ascii_digit() || (b'A'..=b'F').contains(c);
    if b.iter().all(hex_upper) && !b.iter().all(|c| c.is_ascii_digit()) {
        return false;
    }
    if b.len() > 1 && b[0] == b'0' && b.iter().all(|c| c.is_ascii_digit()) {
        return false;
    }
    let l = s.to_ascii_lowercase();
    if l == "inf" || l == "infinity" || l == "nan" {
        return false;
    }
    s.parse::<i64>().is_ok() || s.parse::<f64>().is_ok()
}

fn bare_ok(s: &str) -> bool {
    !s.is_empty() && s.chars().all(is_alnum) && !looks_numeric(s)
}

fn bare_key_ok(s: &str) -> bool {
    !s.is_empty() && s.chars().all(is_alnum)
}

const WS: [&str; 8] = ["", "", " ", "\n", "\t", "\r\n", "  ", "\n\t "];

#[derive(Clone, Copy)]
pub struct StyleKnobs {
    /// 0 = compact (no whitespace, bare where possible, raw characters), 1 = Glyphs-like, 2 = random
    pub mode: u8,
    pub permute: bool,
}

pub struct Printer<'a> {
    pub rng: &'a mut Rng,
    pub k: StyleKnobs,
    pub out: String,
}

impl Printer<'_> {
    fn ws(&mut self) {
        match self.k.mode {
            0 => {}
            1 => self.out.push(' '),
            _ => {
                let w = *self.rng.pick(&WS);
                self.out.push_str(w);
            }
        }
    }
    fn nl(&mut self) {
        match self.k.mode {
            0 => {}
            1 => self.out.push('\n'),
            _ => self.ws(),
        }
    }
    fn hex_digit(&mut self, n: u32) {
        let upper = self.k.mode == 2 && self.rng.chance(1, 2);
        let c = std::char::from_digit(n, 16).unwrap();
        self.out.push(if upper { c.to_ascii_uppercase() } else { c });
    }
    fn hex4(&mut self, v: u32, upper: bool) {
        for sh in [12, 8, 4, 0] {
            let c = std::char::from_digit((v >> sh) & 15, 16).unwrap();
            self.out.push(if upper { c.to_ascii_uppercase() } else { c });
        }
    }
    fn quoted(&mut self, s: &str) {
        self.out.push('"');
        for c in s.chars() {
            let choice = if self.k.mode == 2 { self.rng.below(6) } else { 0 };
            let short = match c {
                '"' => Some("\\\""),
                '\\' => Some("\\\\"),
                '\n' => Some("\\n"),
                '\r' => Some("\\r"),
                '\t' => Some("\\t"),
                _ => None,
            };
            match choice {
                3 if (c as u32) < 256 => {
                    let v = c as u32;
                    self.out.push('\\');
                    for d in [v / 64, v / 8 % 8, v % 8] {
                        self.out.push(std::char::from_digit(d, 8).unwrap());
                    }
                }
                4 | 5 => {
                    let upper = choice == 5;
                    let mut buf = [0u16; 2];
                    for u in c.encode_utf16(&mut buf) {
                        self.out.push_str("\\U");
                        self.hex4(*u as u32, upper);
                    }
                }
                1 | 2 if short.is_some() => self.out.push_str(short.unwrap()),
                _ => {
                    if c == '"' || c == '\\' {
                        self.out.push_str(short.unwrap());
                    } else {
                        self.out.push(c);
                    }
                }
            }
        }
        self.out.push('"');
    }
    fn string(&mut self, s: &str, key: bool) {
        let ok = if key { bare_key_ok(s) } else { bare_ok(s) };
        let bare = ok && (self.k.mode != 2 || self.rng.chance(1, 2));
        if bare {
            self.out.push_str(s);
        } else {
            self.quoted(s);
        }
    }
    pub fn value(&mut self, v: &PV) {
        match v {
            PV::Str(s) => self.string(s, false),
            PV::Int(i) => self.out.push_str(&i.to_string()),
            PV::Flt(t) => self.out.push_str(t),
            PV::Data(bs) => {
                self.out.push('<');
                for b in bs {
                    self.hex_digit((*b >> 4) as u32);
                    self.hex_digit((*b & 15) as u32);
                }
                self.out.push('>');
            }
            PV::Arr(xs) => {
                self.out.push('(');
                for (i, x) in xs.iter().enumerate() {
                    self.nl();
                    self.value(x);
                    self.ws_opt();
                    if i + 1 < xs.len() {
                        self.out.push(',');
                    } else if self.k.mode == 2 && self.rng.chance(1, 3) {
                        self.out.push(',');
                    }
                }
                self.nl();
                self.out.push(')');
            }
            PV::Dict(kvs) => {
                let mut idx: Vec<usize> = (0..kvs.len()).collect();
                if self.k.permute {
                    self.rng.shuffle(&mut idx);
                }
                self.out.push('{');
                for i in idx {
                    let (k, x) = &kvs[i];
                    self.nl();
                    self.string(k, true);
                    self.ws();
                    self.out.push('=');
                    self.ws();
                    self.value(x);
                    self.ws_opt();
                    self.out.push(';');
                }
                self.nl();
                self.out.push('}');
            }
        }
    }
    fn ws_opt(&mut self) {
        if self.k.mode == 2 {
            self.ws();
        }
    }
}

pub fn print_pv(v: &PV, rng: &mut Rng, k: StyleKnobs) -> String {
    let mut p = Printer { rng, k, out: String::new() };
    p.ws_opt();
    p.value(v);
    p.ws_opt();
    p.out
}

// ---- generator

const STRS: [&str; 56] = [
    "a", "b", "name", "glyphname", "A.alt", "_corner.x", "uni0041", "a-b", "x:y", "$v", "../build/x.ufo", "Regular", "wght",
    // need quotes
    "", " ", "a b", "a,b", "a;b", "a=b", "(", ")", "{", "}", "<", ">", "\"", "\\", "a\"b\\c", "line1\nline2", "tab\there", "cr\r", "\u{0}", "\u{1}\u{7f}",
    "/* not a comment */", "// x", "é", "\u{2019}", "\u{ff}\u{100}", "💩", "\u{d7ff}\u{e000}\u{ffff}", "\u{10000}\u{10ffff}", "+1", "#", "@MMK_L_A",
    // look like numbers / special words
    "123", "-5", "007", "1.5", "1e5", "1E5", "inf", "-inf", "nan", "-", ".", "0x1F",
];
const MORE: [&str; 14] = ["ABCDEF", "12AB", "DEAD", "-0", "0", "Infinity", "-infinity", "-nan", "NaN", "9223372036854775807", "9223372036854775808", "-9223372036854775809", "1e", "--1"];
const FLOATS: [&str; 18] = [
    "1.5", "-0.25", "1e5", "12.", ".5", "-.5e-3", "3.0E2", "0.0", "-0.0", "100.25", "1.e2", "007.5", "9223372036854775808",
    "-9223372036854775809", "1e-7", "-inf", "-Infinity", "-nan",
];

fn gen_str(rng: &mut Rng) -> String {
    match rng.below(10) {
        0..=5 => rng.pick(&STRS).to_string(),
        6 => rng.pick(&MORE).to_string(),
        7 => {
            // random bare-word alphabet
            let n = 1 + rng.below(6);
            (0..n).map(|_| *rng.pick(&['a', 'Z', '0', '9', '.', '-', '_', '$', '/', ':', 'e', 'E', 'F', 'x'])).collect()
        }
        8 => {
            let n = rng.below(5);
            (0..n).map(|_| *rng.pick(&['a', ' ', '"', '\\', '\n', 'U', 'n', '0', 'é', '💩', '\u{0}', ';', '\u{fffd}'])).collect()
        }
        _ => {
            let a = rng.pick(&STRS).to_string();
            let b = rng.pick(&STRS).to_string();
            a + &b
        }
    }
}

fn gen_flt(rng: &mut Rng) -> String {
    if rng.chance(1, 2) {
        return rng.pick(&FLOATS).to_string();
    }
    let mut s = String::new();
    if rng.chance(1, 3) {
        s.push('-');
    }
    s.push_str(&rng.below(100000).to_string());
    s.push('.');
    if rng.chance(3, 4) {
        s.push_str(&rng.below(1000).to_string());
    }
    if rng.chance(1, 4) {
        s.push(if rng.chance(1, 2) { 'e' } else { 'E' });
        if rng.chance(1, 2) {
            s.push('-');
        }
        s.push_str(&rng.below(20).to_string());
    }
    s
}

pub fn gen_pv(rng: &mut Rng, depth: usize, distinct_keys: bool) -> PV {
    let leaf = depth == 0 || rng.chance(1, 2);
    if leaf {
        match rng.below(10) {
            0..=4 => PV::Str(gen_str(rng)),
            5 | 6 => PV::Int(match rng.below(6) {
                0 => i64::MIN,
                1 => i64::MAX,
                2 => 0,
                3 => rng.next() as i64,
                _ => rng.range(-1000, 1000),
            }),
            7 | 8 => PV::Flt(gen_flt(rng)),
            _ => PV::Data((0..rng.below(5)).map(|_| rng.next() as u8).collect()),
        }
    } else if rng.chance(1, 2) {
        PV::Arr((0..rng.below(5)).map(|_| gen_pv(rng, depth - 1, distinct_keys)).collect())
    } else {
        let mut kvs: Vec<(String, PV)> = vec![];
        for _ in 0..rng.below(6) {
            let k = gen_str(rng);
            if distinct_keys && kvs.iter().any(|(k2, _)| *k2 == k) {
                continue;
            }
            kvs.push((k, gen_pv(rng, depth - 1, distinct_keys)));
        }
        PV::Dict(kvs)
    }
}

/// what the reader is expected to make of the value: sorted keys, last duplicate wins
fn dump_pv(v: &PV) -> S {
    match v {
        PV::Dict(kvs) => {
            let mut m: BTreeMap<&str, &PV> = BTreeMap::new();
            for (k, x) in kvs {
                m.insert(k, x);
            }
            S::kv("d", m.iter().map(|(k, x)| S::list([S::str(k), dump_pv(x)])))
        }
        PV::Arr(xs) => S::kv("a", xs.iter().map(dump_pv)),
        PV::Str(s) => S::k1("s", S::str(s)),
        PV::Int(i) => S::k1("i", S::int(*i)),
        PV::Flt(t) => S::k1("f", t.parse::<f64>().map(S::f64).unwrap_or_else(|_| S::atom("notfloat"))),
        PV::Data(b) => S::k1("b", S::hex(b)),
    }
}

fn dump_plist(p: &Plist) -> S {
    match p {
        Plist::Dictionary(d) => S::kv("d", d.iter().map(|(k, x)| S::list([S::str(k), dump_plist(x)]))),
        Plist::Array(xs) => S::kv("a", xs.iter().map(dump_plist)),
        Plist::String(s) => S::k1("s", S::str(s)),
        Plist::Integer(i) => S::k1("i", S::int(*i)),
        Plist::Float(f) => S::k1("f", S::f64(f.into_inner())),
        Plist::Data(b) => S::k1("b", S::hex(b)),
    }
}

fn real_parse(text: &str) -> S {
    let t = text.to_string();
    match std::panic::catch_unwind(move || Plist::parse(&t).map(|p| dump_plist(&p))) {
        Ok(Ok(s)) => s,
        Ok(Err(e)) => S::k1("err", S::atom(format!("{e:?}").split(['(', ' ', '{']).next().unwrap().to_string())),
        Err(_) => S::atom("panic"),
    }
}

/// texts at the edge of (or outside) the grammar the theorems cover: correspondence only
const CORPUS: [&str; 48] = [
    "{a = 1; a = 2;}", "{a = 1; b = 2; a = 3;}", "(a, b,)", "(,)", "(a,,)", "()", "( )", "{}", "{ }", "{a = 1}", "{a 1;}", "{a = ;}", "{= 1;}",
    "/* c */ 1", "{a = /* c */ 1;}", "{a = 1; // x\n}", "(a /* x */, b)", "/* a /* b */ c */ x", "/", "/* x */",
    "\"\\U41\"", "\"\\U0041\"", "\"\\U00411\"", "\"\\U4\\U1\"", "\"\\UD83D\"", "\"\\UD83D\\UDCA9\"", "\"\\UDCA9\\UD83D\"", "\"\\UD83Dx\"", "\"\\UD83D\\U0041\"", "\"\\u0041\"", "\"\\U\"", "\"\\Uzz\"",
    "\"\\000\"", "\"\\377\"", "\"\\400\"", "\"\\08\"", "\"\\0\"", "\"\\x41\"", "\"\\a\"", "\"\\", "\"abc", "\"a\u{0}b\"", "a\u{0}b",
    "<0a 0b>", "<0a0>", "<0g>", "<0a", "1 2 3 trailing { garbage",
];

fn mutate(rng: &mut Rng, text: &str) -> String {
    let mut cs: Vec<char> = text.chars().collect();
    let ins = ['{', '}', '(', ')', '=', ';', ',', '"', '\\', '<', '>', '/', '*', 'U', '0', 'a', 'F', ' ', '\n', '-', '.', 'é'];
    for _ in 0..1 + rng.below(2) {
        if cs.is_empty() || rng.chance(1, 2) {
            let at = rng.below(cs.len() + 1);
            cs.insert(at, *rng.pick(&ins));
        } else if rng.chance(1, 2) {
            let at = rng.below(cs.len());
            cs.remove(at);
        } else {
            let at = rng.below(cs.len());
            cs[at] = *rng.pick(&ins);
        }
    }
    cs.into_iter().collect()
}

pub fn run_plist(args: &Args) {
    let seed = args.seed;
    crate::run_cases("c20plist", args, move |i| {
        let mut rng = Rng::for_case(seed, "c20plist", i);
        let distinct = !rng.chance(1, 8);
        // mostly composite at the top (a lone leaf one time in five)
        let mut v = gen_pv(&mut rng, 3, distinct);
        for _ in 0..4 {
            if matches!(v, PV::Dict(_) | PV::Arr(_)) || rng.chance(1, 5) {
                break;
            }
            v = gen_pv(&mut rng, 3, distinct);
        }
        let mut texts: Vec<String> = vec![];
        texts.push(print_pv(&v, &mut rng, StyleKnobs { mode: 0, permute: false }));
        texts.push(print_pv(&v, &mut rng, StyleKnobs { mode: 1, permute: distinct }));
        texts.push(print_pv(&v, &mut rng, StyleKnobs { mode: 2, permute: distinct }));
        texts.push(print_pv(&v, &mut rng, StyleKnobs { mode: 2, permute: distinct }));
        let n_styled = texts.len();
        // correspondence-only texts
        texts.push(CORPUS[i % CORPUS.len()].to_string());
        let base = texts[rng.below(n_styled)].clone();
        texts.push(mutate(&mut rng, &base));
        let impls: Vec<S> = texts.iter().map(|t| real_parse(t)).collect();
        vec![
            S::k1("value", dump_pv(&v)),
            S::k1("distinct", S::bool(distinct)),
            S::k1("styled", S::usize(n_styled)),
            S::kv("texts", texts.iter().map(|t| S::str(t))),
            S::kv("impl", impls),
        ]
    });
}

// ------------------------------------------------------------------------------------------------
// c20args: command line -> Options, Input dispatch, flag merge
// ------------------------------------------------------------------------------------------------

const PATH_KINDS: [(&str, &str, bool); 11] = [
    // (kind word, file name, is directory)
    ("glyphs", "x.glyphs", false),
    ("glyphspackage", "x.glyphspackage", true),
    ("ufo", "x.ufo", true),
    ("designspace", "x.designspace", false),
    ("fontra", "x.fontra", true),
    ("other", "x.txt", false),
    ("noext", "noext", false),
    ("missing", "nope.glyphs", false),
    ("upper", "X.GLYPHS", false),
    ("dotted", "a.glyphs.bak", false),
    ("hidden", ".glyphs", false),
];

fn tri_word(rng: &mut Rng) -> &'static str {
    *rng.pick(&["none", "none", "bare", "true", "false"])
}

fn push_tri(cmd: &mut Vec<String>, flag: &str, w: &str) {
    match w {
        "bare" => cmd.push(format!("--{flag}")),
        "true" | "false" => cmd.push(format!("--{flag}={w}")),
        _ => {}
    }
}

fn opt_path(p: &Option<PathBuf>) -> S {
    match p {
        Some(p) => S::str(&p.to_string_lossy()),
        None => S::atom("none"),
    }
}

fn flag_sources() -> Vec<PathBuf> {
    let t = Path::new("/repo/resources/testdata");
    vec![t.join("glyphs3/WghtVar.glyphs"), t.join("glyphs3/UfoFilters.glyphs"), t.join("wght_var.designspace"), t.join("OpenCorners.ufo"), t.join("glyphs2/DontPropagateAnchors.glyphs")]
}

pub fn run_args(args: &Args) {
    use clap::Parser;
    let seed = args.seed;
    let tmp = crate::e2e::build::tmpdir("c20args");
    for (_, name, is_dir) in PATH_KINDS {
        let p = tmp.path().join(name);
        if name == "nope.glyphs" {
            continue;
        }
        if is_dir {
            std::fs::create_dir_all(&p).unwrap();
        } else {
            std::fs::write(&p, "").unwrap();
        }
    }
    // real compilation flags of a few real sources (for the merge)
    let src_flags: Vec<(PathBuf, Option<Box<dyn fontir::source::Source>>)> = flag_sources()
        .into_iter()
        .map(|p| {
            let s = fontc::Input::new(&p).ok().and_then(|i| i.create_source().ok());
            (p, s)
        })
        .collect();
    let src_flags = std::panic::AssertUnwindSafe(src_flags);
    let root = tmp.path().to_path_buf();
    crate::run_cases("c20args", args, move |i| {
        let mut rng = Rng::for_case(seed, "c20args", i);
        let (kind, fname, _) = *rng.pick(&PATH_KINDS);
        let path = root.join(fname);
        let via_source = rng.chance(1, 4);
        let mut cmd: Vec<String> = vec!["fontc".into()];
        let b = |rng: &mut Rng| rng.chance(1, 3);
        let emit_ir = b(&mut rng);
        let emit_debug = b(&mut rng);
        let emit_timing = b(&mut rng);
        let output = if rng.chance(1, 2) { Some(format!("out{}/f.ttf", rng.below(3))) } else { None };
        let build_dir = if rng.chance(1, 2) { Some(rng.pick(&["bd", "/abs/bd", "a/b", "."]).to_string()) } else { None };
        let prefer = *rng.pick(&["none", "none", "true", "false"]);
        let (flatten, erase, propagate) = (tri_word(&mut rng), tri_word(&mut rng), tri_word(&mut rng));
        let (dtc, dc, skipf, debg, keep, noprod) = (b(&mut rng), b(&mut rng), b(&mut rng), b(&mut rng), b(&mut rng), b(&mut rng));
        if via_source {
            cmd.push("--source".into());
            cmd.push(path.to_string_lossy().into());
        }
        for (on, flag) in [(emit_ir, "emit-ir"), (emit_debug, "emit-debug"), (emit_timing, "emit-timing"), (dtc, "decompose-transformed-components"),
            (dc, "decompose-components"), (skipf, "skip-features"), (debg, "emit-lookup-debug-info"), (keep, "keep-direction"), (noprod, "no-production-names")] {
            if on {
                cmd.push(format!("--{flag}"));
            }
        }
        if let Some(o) = &output {
            cmd.push("-o".into());
            cmd.push(o.clone());
        }
        if let Some(bd) = &build_dir {
            cmd.push("--build-dir".into());
            cmd.push(bd.clone());
        }
        if prefer != "none" {
            cmd.push("--prefer-simple-glyphs".into());
            cmd.push(prefer.into());
        }
        push_tri(&mut cmd, "flatten-components", flatten);
        push_tri(&mut cmd, "erase-open-corners", erase);
        push_tri(&mut cmd, "propagate-anchors", propagate);
        if !via_source {
            // positional last, after `--` so that a bare tri-state flag cannot swallow it
            cmd.push("--".into());
            cmd.push(path.to_string_lossy().into());
        }
        let (sp, src) = &src_flags[rng.below(src_flags.len())];
        let src_bits = src.as_ref().map(|s| s.compilation_flags().bits());

        let mut f = vec![
            S::k1("path_kind", S::atom(kind)),
            S::k1("fname", S::str(fname)),
            S::k1("via_source", S::bool(via_source)),
            S::k1("emit_ir", S::bool(emit_ir)), S::k1("emit_debug", S::bool(emit_debug)), S::k1("emit_timing", S::bool(emit_timing)),
            S::k1("output", output.as_deref().map(S::str).unwrap_or(S::atom("none"))),
            S::k1("build_dir", build_dir.as_deref().map(S::str).unwrap_or(S::atom("none"))),
            S::k1("prefer_simple", S::atom(prefer)),
            S::k1("flatten", S::atom(flatten)), S::k1("erase", S::atom(erase)), S::k1("propagate", S::atom(propagate)),
            S::k1("dtc", S::bool(dtc)), S::k1("dc", S::bool(dc)), S::k1("skip_features", S::bool(skipf)), S::k1("debg", S::bool(debg)),
            S::k1("keep_direction", S::bool(keep)), S::k1("no_production_names", S::bool(noprod)),
            S::k1("src", S::str(&sp.to_string_lossy())),
            S::k1("src_flags", src_bits.map(|b| S::usize(b as usize)).unwrap_or(S::atom("none"))),
        ];
        let parsed = fontc_args::Args::try_parse_from(cmd.iter());
        let im = match parsed {
            Err(e) => S::kv("impl", [S::k1("clap", S::str(&e.kind().to_string()))]),
            Ok(a) => {
                // main.rs:70-71
                let input = a.source();
                let input_s = match &input {
                    Ok(fontc::Input::DesignSpacePath(p)) => S::kv("designspace", [S::str(&p.to_string_lossy())]),
                    Ok(fontc::Input::GlyphsPath(p)) => S::kv("glyphs", [S::str(&p.to_string_lossy())]),
                    Ok(fontc::Input::FontraPath(p)) => S::kv("fontra", [S::str(&p.to_string_lossy())]),
                    Ok(fontc::Input::GlyphsMemory(_)) => S::kv("memory", []),
                    Err(e) => S::kv("err", [S::atom(format!("{e:?}").split(['(', ' ', '{']).next().unwrap().to_string())]),
                };
                let o: Result<fontc::Options, fontc::Error> = a.try_into();
                match o {
                    Err(_) => S::kv("impl", [S::k1("input", input_s), S::k1("options", S::atom("err"))]),
                    Ok(o) => {
                        let disable_bits = (!(!o.flags_to_disable)).bits();
                        let merged = src.as_ref().map(|s| fontc::verif_merge_compilation_flags(&o, s.as_ref()).bits());
                        S::kv("impl", [
                            S::k1("input", input_s),
                            S::k1("flags", S::usize(o.flags.bits() as usize)),
                            S::k1("disable", S::usize(disable_bits as usize)),
                            S::k1("skip_features", S::bool(o.skip_features)),
                            S::k1("compile_debg", S::bool(o.compile_debg)),
                            S::k1("output_file", opt_path(&o.output_file)),
                            S::k1("timing_file", opt_path(&o.timing_file)),
                            S::k1("debug_dir", opt_path(&o.debug_dir)),
                            S::k1("ir_dir", opt_path(&o.ir_dir)),
                            S::k1("merged", merged.map(|b| S::usize(b as usize)).unwrap_or(S::atom("none"))),
                            S::k1("lib_default_flags", S::usize(fontc::Options::default().flags.bits() as usize)),
                        ])
                    }
                }
            }
        };
        f.push(im);
        f
    });
}

// ------------------------------------------------------------------------------------------------
// c20child: the command-line code path (fontc/src/main.rs:38-73 `run`, without --vv and logger setup)
// ------------------------------------------------------------------------------------------------

pub fn run_child(argv: &[String]) {
    use clap::Parser;
    let args = fontc_args::Args::parse_from(std::iter::once("fontc".to_string()).chain(argv.iter().cloned()));
    let timer = fontc::JobTimer::new();
    let r = (|| -> Result<(), fontc::Error> {
        let input = args.source()?;
        let options = args.try_into()?;
        fontc::run(input, options, timer)
    })();
    if let Err(e) = r {
        eprintln!("{e}");
        std::process::exit(1);
    }
}

// ------------------------------------------------------------------------------------------------
// a minimal OpenStep plist tokenizer that keeps source spans and bare/quoted-ness (harness side;
// used to split a .glyphs text into a .glyphspackage and to re-print it in other styles)
// ------------------------------------------------------------------------------------------------

#[derive(Clone, Debug)]
pub struct Word {
    pub text: String,
    pub quoted: bool,
}

#[derive(Clone, Debug)]
pub struct Entry {
    pub key: Word,
    pub val: Node,
    /// key start .. just after the `;`
    pub span: (usize, usize),
}

#[derive(Clone, Debug)]
pub enum Node {
    Dict(Vec<Entry>),
    /// items with the span of each item
    Arr(Vec<(Node, (usize, usize))>),
    Word(Word),
    Data(Vec<u8>),
}

struct Tk<'a> {
    s: &'a str,
    b: &'a [u8],
    ix: usize,
}

impl<'a> Tk<'a> {
    fn ws(&mut self) {
        while self.ix < self.b.len() && matches!(self.b[self.ix], b' ' | b'\t' | b'\r' | b'\n') {
            self.ix += 1;
        }
    }
    fn eat(&mut self, c: u8) -> bool {
        self.ws();
        if self.ix < self.b.len() && self.b[self.ix] == c {
            self.ix += 1;
            true
        } else {
            false
        }
    }
    fn hex4(&mut self) -> Result<u16, String> {
        let mut v: u32 = 0;
        let mut n = 0;
        while n < 4 && self.ix < self.b.len() && (self.b[self.ix] as char).is_ascii_hexdigit() {
            v = v * 16 + (self.b[self.ix] as char).to_digit(16).unwrap();
            self.ix += 1;
            n += 1;
        }
        if n == 0 { Err("bad \\U".into()) } else { Ok(v as u16) }
    }
    fn word(&mut self) -> Result<Word, String> {
        self.ws();
        if self.ix >= self.b.len() {
            return Err("eof".into());
        }
        if self.b[self.ix] == b'"' {
            self.ix += 1;
            let mut out = String::new();
            loop {
                if self.ix >= self.b.len() {
                    return Err("unclosed string".into());
                }
                match self.b[self.ix] {
                    b'"' => {
                        self.ix += 1;
                        return Ok(Word { text: out, quoted: true });
                    }
                    b'\\' => {
                        let e = *self.b.get(self.ix + 1).ok_or("unclosed")?;
                        self.ix += 2;
                        match e {
                            b'"' => out.push('"'),
                            b'\\' => out.push('\\'),
                            b'n' => out.push('\n'),
                            b'r' => out.push('\r'),
                            b't' => out.push('\t'),
                            b'U' => {
                                let hi = self.hex4()?;
                                if (0xD800..0xDC00).contains(&hi) && self.b[self.ix..].starts_with(b"\\U") {
                                    self.ix += 2;
                                    let lo = self.hex4()?;
                                    out.push(char::decode_utf16([hi, lo]).next().unwrap().map_err(|_| "surrogate")?);
                                } else {
                                    out.push(char::decode_utf16([hi]).next().unwrap().map_err(|_| "surrogate")?);
                                }
                            }
                            b'0'..=b'3' => {
                                let d1 = *self.b.get(self.ix).ok_or("octal")?;
                                let d2 = *self.b.get(self.ix + 1).ok_or("octal")?;
                                if !(b'0'..=b'7').contains(&d1) || !(b'0'..=b'7').contains(&d2) {
                                    return Err("octal".into());
                                }
                                self.ix += 2;
                                out.push((((e - b'0') as u32 * 64 + (d1 - b'0') as u32 * 8 + (d2 - b'0') as u32) as u8) as char);
                            }
                            _ => return Err("unknown escape".into()),
                        }
                    }
                    _ => {
                        let c = self.s[self.ix..].chars().next().unwrap();
                        out.push(c);
                        self.ix += c.len_utf8();
                    }
                }
            }
        }
        let start = self.ix;
        while self.ix < self.b.len() && is_alnum(self.b[self.ix] as char) && self.b[self.ix] < 0x80 {
            self.ix += 1;
        }
        if self.ix == start {
            return Err(format!("unexpected byte {:?} at {}", self.b[self.ix] as char, self.ix));
        }
        Ok(Word { text: self.s[start..self.ix].to_string(), quoted: false })
    }
    fn node(&mut self, depth: usize) -> Result<Node, String> {
        if depth > 200 {
            return Err("too deep".into());
        }
        self.ws();
        if self.ix >= self.b.len() {
            return Err("eof".into());
        }
        match self.b[self.ix] {
            b'{' => {
                self.ix += 1;
                let mut es = vec![];
                loop {
                    if self.eat(b'}') {
                        return Ok(Node::Dict(es));
                    }
                    self.ws();
                    let start = self.ix;
                    let key = self.word()?;
                    if !self.eat(b'=') {
                        return Err("expected =".into());
                    }
                    let val = self.node(depth + 1)?;
                    if !self.eat(b';') {
                        return Err("expected ;".into());
                    }
                    es.push(Entry { key, val, span: (start, self.ix) });
                }
            }
            b'(' => {
                self.ix += 1;
                let mut xs = vec![];
                loop {
                    if self.eat(b')') {
                        return Ok(Node::Arr(xs));
                    }
                    self.ws();
                    let start = self.ix;
                    let v = self.node(depth + 1)?;
                    xs.push((v, (start, self.ix)));
                    if self.eat(b')') {
                        return Ok(Node::Arr(xs));
                    }
                    if !self.eat(b',') {
                        return Err("expected ,".into());
                    }
                }
            }
            b'<' => {
                let end = self.b[self.ix..].iter().position(|c| *c == b'>').ok_or("unclosed data")? + self.ix;
                let body = &self.s[self.ix + 1..end];
                if body.len() % 2 != 0 || !body.bytes().all(|c| (c as char).is_ascii_hexdigit()) {
                    return Err("bad data".into());
                }
                let bytes = (0..body.len() / 2).map(|i| u8::from_str_radix(&body[2 * i..2 * i + 2], 16).unwrap()).collect();
                self.ix = end + 1;
                Ok(Node::Data(bytes))
            }
            _ => Ok(Node::Word(self.word()?)),
        }
    }
}

pub fn tokenize(text: &str) -> Result<Node, String> {
    let mut t = Tk { s: text, b: text.as_bytes(), ix: 0 };
    t.node(0)
}

/// Re-emit a tokenized text.  `mode` 0: no whitespace at all; 1: Glyphs-like lines (one dictionary entry
/// or array item per line, arrays of scalars inline without spaces) with random indentation and
/// spacing around `=`; 2: random whitespace wherever the reader skips it.  Keys are shuffled when distinct;
/// quotes are toggled where both forms read back as the same string (never on number-like words).
struct Emit<'a> {
    rng: &'a mut Rng,
    mode: u8,
    /// write a list-valued `unicode` entry of a glyph as Glyphs does, alone on its line and without inner
    /// whitespace (glyphs-reader rewrites such lines with a regular expression before parsing; any other layout of
    /// the same tokens is rejected: finding C20-unicode-line, exercised by the route `reprint-compact-raw`)
    unicode_own_line: bool,
    out: String,
}

impl Emit<'_> {
    fn gap(&mut self) {
        if self.mode == 2 {
            let w = *self.rng.pick(&WS);
            self.out.push_str(w);
        }
    }
    fn line(&mut self) {
        match self.mode {
            0 => {}
            1 => {
                self.out.push('\n');
                let w = *self.rng.pick(&["", "", "  ", "\t", "    "]);
                self.out.push_str(w);
            }
            _ => self.gap(),
        }
    }
    fn quoted(&mut self, s: &str) {
        let mut p = Printer { rng: &mut *self.rng, k: StyleKnobs { mode: if self.mode == 2 { 2 } else { 0 }, permute: false }, out: String::new() };
        p.quoted(s);
        let q = p.out;
        self.out.push_str(&q);
    }
    fn word(&mut self, w: &Word, key: bool) {
        let numeric = !key && looks_numeric(&w.text);
        let can_bare = if key { bare_key_ok(&w.text) } else { bare_ok(&w.text) };
        let bare = if numeric {
            !w.quoted
        } else if can_bare {
            self.rng.chance(1, 2)
        } else {
            false
        };
        if bare {
            self.out.push_str(&w.text);
        } else {
            self.quoted(&w.text);
        }
    }
    fn node(&mut self, n: &Node) {
        match n {
            Node::Word(w) => self.word(w, false),
            Node::Data(bs) => {
                self.out.push('<');
                for b in bs {
                    self.out.push_str(&format!("{b:02x}"));
                }
                self.out.push('>');
            }
            Node::Arr(xs) => {
                let scalars = xs.iter().all(|(x, _)| matches!(x, Node::Word(_) | Node::Data(_)));
                self.out.push('(');
                for (i, (x, _)) in xs.iter().enumerate() {
                    if !(self.mode == 1 && scalars) {
                        self.line();
                    }
                    self.node(x);
                    self.gap();
                    if i + 1 < xs.len() {
                        self.out.push(',');
                    }
                    // (no trailing comma here: `Plist::parse` and `Vec<T>` accept one, the hand-written typed
                    //  parsers of glyphs-reader -- nodes, colour stops -- do not; not part of the property)
                }
                if !(self.mode == 1 && scalars) {
                    self.line();
                }
                self.out.push(')');
            }
            Node::Dict(es) => {
                let mut idx: Vec<usize> = (0..es.len()).collect();
                let mut keys: Vec<&str> = es.iter().map(|e| e.key.text.as_str()).collect();
                keys.sort();
                keys.dedup();
                if keys.len() == es.len() {
                    self.rng.shuffle(&mut idx);
                }
                self.out.push('{');
                for i in idx {
                    let e = &es[i];
                    if let (true, "unicode", Node::Arr(xs)) = (self.unicode_own_line, e.key.text.as_str(), &e.val) {
                        if xs.iter().all(|(x, _)| matches!(x, Node::Word(w) if !w.quoted)) {
                            let items: Vec<&str> = xs.iter().map(|(x, _)| if let Node::Word(w) = x { w.text.as_str() } else { "" }).collect();
                            let indent = if self.mode == 0 { "" } else { *self.rng.pick(&["", "  ", "\t"]) };
                            let eq = if self.mode == 0 { "=" } else { *self.rng.pick(&[" = ", "=", "  =  "]) };
                            self.out.push_str(&format!("\n{indent}unicode{eq}({});\n", items.join(",")));
                            continue;
                        }
                    }
                    self.line();
                    self.word(&e.key, true);
                    match self.mode {
                        0 => self.out.push('='),
                        1 => {
                            let w = *self.rng.pick(&[" = ", " = ", "=", "  =  ", " =", "= "]);
                            self.out.push_str(w);
                        }
                        _ => {
                            self.gap();
                            self.out.push('=');
                            self.gap();
                        }
                    }
                    self.node(&e.val);
                    self.gap();
                    self.out.push(';');
                }
                self.line();
                self.out.push('}');
            }
        }
    }
}

pub fn reprint(n: &Node, rng: &mut Rng, mode: u8, unicode_own_line: bool) -> String {
    let mut e = Emit { rng, mode, unicode_own_line, out: String::new() };
    e.node(n);
    e.out.push('\n');
    e.out
}

fn has_unicode_list(n: &Node) -> bool {
    match n {
        Node::Dict(es) => es.iter().any(|e| (e.key.text == "unicode" && matches!(e.val, Node::Arr(_))) || has_unicode_list(&e.val)),
        Node::Arr(xs) => xs.iter().any(|(x, _)| has_unicode_list(x)),
        _ => false,
    }
}

fn sanitize(name: &str) -> String {
    name.chars().map(|c| if c.is_ascii_alphanumeric() || c == '.' || c == '-' { c } else { '_' }).collect()
}

/// Split the text of a .glyphs file into a .glyphspackage directory: `fontinfo.plist` is the text with the
/// top-level `glyphs = (…);` entry cut out, `glyphs/*.glyph` are the verbatim texts of the elements of
/// that array, `order.plist` lists the glyph names in file order (font.rs:2254 `load_package`).
pub fn write_package(text: &str, top: &Node, dir: &Path) -> Result<(), String> { write_package_listing(text, top, dir, None).map(|_| ()) }

/// `partial`: list in `order.plist` only the glyphs before the longest tail of the file order that is already in
/// ascending name order — `load_package` appends glyph files that `order.plist` does not name sorted by name, so that
/// package is the same design. Returns the number of glyphs left out of `order.plist` (0 = none could be).
pub fn write_package_listing(text: &str, top: &Node, dir: &Path, partial: Option<()>) -> Result<usize, String> {
    let Node::Dict(es) = top else { return Err("top level is not a dictionary".into()) };
    let Some(ge) = es.iter().find(|e| e.key.text == "glyphs") else { return Err("no glyphs entry".into()) };
    let Node::Arr(gs) = &ge.val else { return Err("glyphs is not an array".into()) };
    std::fs::create_dir_all(dir.join("glyphs")).map_err(|e| e.to_string())?;
    let mut fontinfo = String::new();
    fontinfo.push_str(&text[..ge.span.0]);
    fontinfo.push_str(&text[ge.span.1..]);
    std::fs::write(dir.join("fontinfo.plist"), fontinfo).map_err(|e| e.to_string())?;
    let mut names = vec![];
    for (i, (g, span)) in gs.iter().enumerate() {
        let Node::Dict(ges) = g else { return Err("glyph is not a dictionary".into()) };
        let Some(Node::Word(w)) = ges.iter().find(|e| e.key.text == "glyphname").map(|e| &e.val) else { return Err("glyph without glyphname".into()) };
        names.push(w.text.clone());
        let mut body = text[span.0..span.1].to_string();
        body.push('\n');
        std::fs::write(dir.join("glyphs").join(format!("{i:05}_{}.glyph", sanitize(&w.text))), body).map_err(|e| e.to_string())?;
    }
    let mut dedup = names.clone();
    dedup.sort();
    dedup.dedup();
    if dedup.len() != names.len() {
        return Err("duplicate glyph names (a package cannot hold them)".into());
    }
    let mut unlisted = 0;
    if partial.is_some() {
        let mut k = names.len().saturating_sub(1);
        while k > 0 && names[k - 1] < names[k] { k -= 1; }
        unlisted = names.len() - k;
        if unlisted < 2 { unlisted = 0; } else { names.truncate(k); }
    }
    let mut order = String::from("(\n");
    for (i, n) in names.iter().enumerate() {
        let mut q = String::new();
        if bare_ok(n) {
            q.push_str(n);
        } else {
            q.push('"');
            for c in n.chars() {
                if c == '"' || c == '\\' {
                    q.push('\\');
                }
                q.push(c);
            }
            q.push('"');
        }
        order.push_str(&q);
        if i + 1 < names.len() {
            order.push(',');
        }
        order.push('\n');
    }
    order.push_str(")\n");
    std::fs::write(dir.join("order.plist"), order).map_err(|e| e.to_string())?;
    Ok(unlisted)
}

// ------------------------------------------------------------------------------------------------
// c20e2e
// ------------------------------------------------------------------------------------------------

const EPOCH: &str = "1730302089";
/// norad cannot read a designspace without axes or a source without a location (missing field `location` /
/// `dimension`), so "a designspace that lists only that UFO" carries one point axis, as /repo's static.designspace does
const AXIS: &str = "    <axis tag=\"wght\" name=\"Weight\" minimum=\"400\" maximum=\"400\" default=\"400\"/>\n";
const LOC: &str = "      <location>\n        <dimension name=\"Weight\" xvalue=\"400\"/>\n      </location>\n";

fn sha256(data: &[u8]) -> String {
    const K: [u32; 64] = [
        0x428a2f98, 0x71374491, 0xb5c0fbcf, 0xe9b5dba5, 0x3956c25b, 0x59f111f1, 0x923f82a4, 0xab1c5ed5, 0xd807aa98, 0x12835b01, 0x243185be, 0x550c7dc3, 0x72be5d74, 0x80deb1fe,
        0x9bdc06a7, 0xc19bf174, 0xe49b69c1, 0xefbe4786, 0x0fc19dc6, 0x240ca1cc, 0x2de92c6f, 0x4a7484aa, 0x5cb0a9dc, 0x76f988da, 0x983e5152, 0xa831c66d, 0xb00327c8, 0xbf597fc7,
        0xc6e00bf3, 0xd5a79147, 0x06ca6351, 0x14292967, 0x27b70a85, 0x2e1b2138, 0x4d2c6dfc, 0x53380d13, 0x650a7354, 0x766a0abb, 0x81c2c92e, 0x92722c85, 0xa2bfe8a1, 0xa81a664b,
        0xc24b8b70, 0xc76c51a3, 0xd192e819, 0xd6990624, 0xf40e3585, 0x106aa070, 0x19a4c116, 0x1e376c08, 0x2748774c, 0x34b0bcb5, 0x391c0cb3, 0x4ed8aa4a, 0x5b9cca4f, 0x682e6ff3,
        0x748f82ee, 0x78a5636f, 0x84c87814, 0x8cc70208, 0x90befffa, 0xa4506ceb, 0xbef9a3f7, 0xc67178f2,
    ];
    let mut h: [u32; 8] = [0x6a09e667, 0xbb67ae85, 0x3c6ef372, 0xa54ff53a, 0x510e527f, 0x9b05688c, 0x1f83d9ab, 0x5be0cd19];
    let mut msg = data.to_vec();
    let bitlen = (data.len() as u64) * 8;
    msg.push(0x80);
    while msg.len() % 64 != 56 {
        msg.push(0);
    }
    msg.extend_from_slice(&bitlen.to_be_bytes());
    for chunk in msg.chunks(64) {
        let mut w = [0u32; 64];
        for i in 0..16 {
            w[i] = u32::from_be_bytes([chunk[4 * i], chunk[4 * i + 1], chunk[4 * i + 2], chunk[4 * i + 3]]);
        }
        for i in 16..64 {
            let s0 = w[i - 15].rotate_right(7) ^ w[i - 15].rotate_right(18) ^ (w[i - 15] >> 3);
            let s1 = w[i - 2].rotate_right(17) ^ w[i - 2].rotate_right(19) ^ (w[i - 2] >> 10);
            w[i] = w[i - 16].wrapping_add(s0).wrapping_add(w[i - 7]).wrapping_add(s1);
        }
        let mut v = h;
        for i in 0..64 {
            let s1 = v[4].rotate_right(6) ^ v[4].rotate_right(11) ^ v[4].rotate_right(25);
            let ch = (v[4] & v[5]) ^ (!v[4] & v[6]);
            let t1 = v[7].wrapping_add(s1).wrapping_add(ch).wrapping_add(K[i]).wrapping_add(w[i]);
            let s0 = v[0].rotate_right(2) ^ v[0].rotate_right(13) ^ v[0].rotate_right(22);
            let maj = (v[0] & v[1]) ^ (v[0] & v[2]) ^ (v[1] & v[2]);
            let t2 = s0.wrapping_add(maj);
            v[7] = v[6];
            v[6] = v[5];
            v[5] = v[4];
            v[4] = v[3].wrapping_add(t1);
            v[3] = v[2];
            v[2] = v[1];
            v[1] = v[0];
            v[0] = t1.wrapping_add(t2);
        }
        for i in 0..8 {
            h[i] = h[i].wrapping_add(v[i]);
        }
    }
    h.iter().map(|x| format!("{x:08x}")).collect()
}

/// name of the first table whose bytes differ (or what else differs)
fn first_diff(a: &[u8], b: &[u8]) -> String {
    use read_fonts::FontRef;
    let (Ok(fa), Ok(fb)) = (FontRef::new(a), FontRef::new(b)) else { return "unparseable".into() };
    let tags = |f: &FontRef| -> Vec<read_fonts::types::Tag> { f.table_directory.table_records().iter().map(|r| r.tag()).collect() };
    let (ta, tb) = (tags(&fa), tags(&fb));
    for t in &ta {
        if !tb.contains(t) {
            return format!("-{t}");
        }
    }
    for t in &tb {
        if !ta.contains(t) {
            return format!("+{t}");
        }
    }
    for t in &ta {
        let da = fa.table_data(*t).map(|d| d.as_bytes().to_vec());
        let db = fb.table_data(*t).map(|d| d.as_bytes().to_vec());
        if da != db {
            return t.to_string();
        }
    }
    "directory".into()
}

type Built = Result<Vec<u8>, String>;

fn lib_build_input(input: fontc::Input) -> Built {
    let r = std::panic::catch_unwind(move || {
        let source = input.create_source().map_err(|e| format!("source:{e}"))?;
        fontc::generate_font(source, fontc::Options::default()).map_err(|e| format!("build:{e}"))
    });
    match r {
        Ok(x) => x,
        Err(e) => {
            let msg = e.downcast_ref::<String>().cloned().or_else(|| e.downcast_ref::<&str>().map(|s| s.to_string())).unwrap_or_default();
            Err(format!("panic:{msg}"))
        }
    }
}

fn lib_build_path(p: &Path) -> Built {
    match fontc::Input::new(p) {
        Ok(i) => lib_build_input(i),
        Err(e) => Err(format!("input:{e}")),
    }
}

fn cli_build(p: &Path, tmp: &Path, tag: &str) -> Built {
    let out = tmp.join(format!("{tag}.ttf"));
    let bd = tmp.join(format!("build-{tag}"));
    // /proc/self/exe: still this very binary even if the file was replaced by a concurrent `cargo build`
    let exe = if Path::new("/proc/self/exe").exists() { PathBuf::from("/proc/self/exe") } else { std::env::current_exe().map_err(|e| e.to_string())? };
    let o = std::process::Command::new(exe)
        .arg("c20child")
        .arg(p)
        .arg("--output-file")
        .arg(&out)
        .arg("--build-dir")
        .arg(&bd)
        .env("SOURCE_DATE_EPOCH", EPOCH)
        .env("RUST_LOG", "off")
        .stdout(std::process::Stdio::null())
        .stderr(std::process::Stdio::piped())
        .output()
        .map_err(|e| format!("spawn:{e}"))?;
    if !o.status.success() {
        let msg = String::from_utf8_lossy(&o.stderr);
        return Err(format!("cli:{}", msg.lines().last().unwrap_or("")));
    }
    std::fs::read(&out).map_err(|e| format!("cli-output:{e}"))
}

fn copy_dir(from: &Path, to: &Path) -> std::io::Result<()> {
    std::fs::create_dir_all(to)?;
    for e in std::fs::read_dir(from)? {
        let e = e?;
        let (p, t) = (e.path(), to.join(e.file_name()));
        if p.is_dir() {
            copy_dir(&p, &t)?;
        } else {
            std::fs::copy(&p, &t)?;
        }
    }
    Ok(())
}

/// `<key>public.skipExportGlyphs</key>` + the value element that follows it, verbatim from lib.plist
fn skip_export_fragment(lib: &str) -> Option<String> {
    let k = "<key>public.skipExportGlyphs</key>";
    let at = lib.find(k)?;
    let rest = &lib[at + k.len()..];
    let open = rest.find('<')?;
    let after = &rest[open..];
    if after.starts_with("<array/>") {
        return Some(format!("{k}<array/>"));
    }
    if !after.starts_with("<array>") {
        return None;
    }
    let end = after.find("</array>")? + "</array>".len();
    Some(format!("{k}{}", &after[..end]))
}

fn e2e_sources() -> Vec<PathBuf> {
    // directed runs / replay of a finding on a hand-made source: C20_SOURCES=/a/x.glyphs:/b/y.ufo
    if let Ok(list) = std::env::var("C20_SOURCES") {
        return list.split(':').filter(|s| !s.is_empty()).map(PathBuf::from).collect();
    }
    let t = Path::new("/repo/resources/testdata");
    let curated = [
        "glyphs3/WghtVar.glyphs", "FixedPitch.ufo", "glyphs2/WghtVar_Anchors.glyphs", "glyphs3/Unicode-UnquotedDecSequence.glyphs", "Static-Regular.ufo",
        "glyphs3/LocalizedNames.glyphs", "glyphs3/kerning_ltr_and_rtl.glyphs", "MetaTable.ufo", "glyphs2/Mono.glyphs", "glyphs3/infinity.glyphs",
        "designspace_from_glyphs/WghtVar_NoExport-Regular.ufo", "glyphs3/WghtVar_3master_CustomOrigin.glyphs", "glyphs2/MVAR.glyphs", "OpenCorners.ufo", "glyphs3/SmartComponents.glyphs",
        "glyphs3/COLRv1-gradient.glyphs",
    ];
    let mut v: Vec<PathBuf> = curated.iter().map(|c| t.join(c)).filter(|p| p.exists()).collect();
    let mut rest: Vec<PathBuf> = vec![];
    for d in ["glyphs2", "glyphs3", ".", "designspace_from_glyphs"] {
        if let Ok(rd) = std::fs::read_dir(t.join(d)) {
            for e in rd.flatten() {
                let p = if d == "." { t.join(e.file_name()) } else { e.path() };
                let ext = p.extension().and_then(|x| x.to_str()).unwrap_or("");
                if (ext == "glyphs" || ext == "ufo") && !v.contains(&p) {
                    rest.push(p);
                }
            }
        }
    }
    rest.sort();
    v.extend(rest);
    v
}

struct Route {
    name: String,
    built: Built,
}

fn routes_glyphs(src: &Path, tmp: &Path, rng: &mut Rng, tags: &mut Vec<String>) -> Vec<Route> {
    let mut rs = vec![];
    rs.push(Route { name: "lib-path".into(), built: lib_build_path(src) });
    rs.push(Route { name: "cli".into(), built: cli_build(src, tmp, "cli") });
    let Ok(text) = std::fs::read_to_string(src) else {
        tags.push("unreadable".into());
        return rs;
    };
    // documented difference: feature code that `include(…)`s a file is resolved against the directory of the
    // source file; a text in memory has no directory (glyphs2fontir `source_path: None`), so such sources are
    // not presented through the memory route, and the files beside them are copied along with the text.
    let has_include = text.contains("include(") || text.contains("include (");
    if has_include {
        tags.push("has-include:memory-route-excluded".into());
        if let Some(parent) = src.parent() {
            for e in std::fs::read_dir(parent).into_iter().flatten().flatten() {
                if e.path().extension().and_then(|x| x.to_str()) == Some("fea") {
                    let _ = std::fs::copy(e.path(), tmp.join(e.file_name()));
                }
            }
        }
    } else {
        rs.push(Route { name: "memory".into(), built: lib_build_input(fontc::Input::from_glyphs(text.clone())) });
    }
    // the same text under another file name in another directory (what the remaining routes are compared with
    // if the source refers to files beside it)
    let stem = src.file_stem().unwrap().to_string_lossy().to_string();
    let copy = tmp.join(format!("{stem}.glyphs"));
    std::fs::write(&copy, &text).unwrap();
    rs.push(Route { name: "copy".into(), built: lib_build_path(&copy) });
    match tokenize(&text) {
        Err(e) => tags.push(format!("retokenize-failed:{}", e.split(' ').next().unwrap_or(""))),
        Ok(top) => {
            let pkg = tmp.join(format!("{stem}.glyphspackage"));
            match write_package(&text, &top, &pkg) {
                Ok(()) => {
                    rs.push(Route { name: "package".into(), built: lib_build_path(&pkg) });
                    rs.push(Route { name: "package-cli".into(), built: cli_build(&pkg, tmp, "pkgcli") });
                }
                Err(e) => tags.push(format!("no-package:{}", e.split(' ').next().unwrap_or(""))),
            }
            // the same package with an order.plist that leaves out a tail of glyphs which is in name order anyway
            let pkg2 = tmp.join(format!("{stem}-partial.glyphspackage"));
            if let Ok(unlisted) = write_package_listing(&text, &top, &pkg2, Some(())) {
                if unlisted >= 2 {
                    tags.push("package-partial-order".into());
                    rs.push(Route { name: "package-partial-order".into(), built: lib_build_path(&pkg2) });
                }
            }
            let mut styles = vec![(1u8, "reprint-lines", true), (0, "reprint-compact", true), (2, "reprint-spaced", true)];
            if has_unicode_list(&top) {
                tags.push("unicode-list".into());
                styles.push((0, "reprint-compact-raw", false));
            }
            for (mode, name, own_line) in styles {
                let t2 = reprint(&top, rng, mode, own_line);
                let p = tmp.join(format!("{stem}-{name}.glyphs"));
                std::fs::write(&p, &t2).unwrap();
                rs.push(Route { name: name.into(), built: lib_build_path(&p) });
                if mode == 1 && !has_include {
                    rs.push(Route { name: format!("{name}-memory"), built: lib_build_input(fontc::Input::from_glyphs(t2)) });
                }
            }
        }
    }
    rs
}

fn routes_ufo(src: &Path, tmp: &Path, tags: &mut Vec<String>) -> Vec<Route> {
    let mut rs = vec![];
    rs.push(Route { name: "lib-path".into(), built: lib_build_path(src) });
    rs.push(Route { name: "cli".into(), built: cli_build(src, tmp, "cli") });
    // a copy (with the .fea files beside the original, which some fixtures include)
    let name = src.file_name().unwrap().to_string_lossy().to_string();
    let copy = tmp.join(&name);
    if copy_dir(src, &copy).is_err() {
        tags.push("copy-failed".into());
        return rs;
    }
    if let Some(parent) = src.parent() {
        for e in std::fs::read_dir(parent).into_iter().flatten().flatten() {
            if e.path().extension().and_then(|x| x.to_str()) == Some("fea") {
                let _ = std::fs::copy(e.path(), tmp.join(e.file_name()));
            }
        }
    }
    rs.push(Route { name: "copy".into(), built: lib_build_path(&copy) });
    let lib = std::fs::read_to_string(src.join("lib.plist")).unwrap_or_default();
    let skip = lib.contains("public.skipExportGlyphs");
    let head = "<?xml version='1.0' encoding='UTF-8'?>\n";
    let mut variants: Vec<(&str, String)> = vec![];
    if !skip {
        variants.push(("designspace-minimal", format!("{head}<designspace format=\"4.1\">\n  <axes>\n{AXIS}  </axes>\n  <sources>\n    <source filename=\"{name}\">\n{LOC}    </source>\n  </sources>\n</designspace>\n")));
        variants.push(("designspace-named", format!("{head}<designspace format=\"5.0\">\n  <axes>\n{AXIS}  </axes>\n  <sources>\n    <source filename=\"{name}\" name=\"master.0\" familyname=\"Some Family\" stylename=\"Some Style\">\n{LOC}    </source>\n  </sources>\n</designspace>\n")));
    } else {
        // documented difference: `public.skipExportGlyphs` of a UFO's lib.plist is honoured only when the UFO is the
        // input; with a designspace the key is read from the designspace's own lib.  The generated designspace
        // therefore carries the key.
        tags.push("skipexport-in-designspace-lib".into());
        match skip_export_fragment(&lib) {
            Some(frag) => variants.push(("designspace-with-lib", format!("{head}<designspace format=\"4.1\">\n  <axes>\n{AXIS}  </axes>\n  <sources>\n    <source filename=\"{name}\">\n{LOC}    </source>\n  </sources>\n  <lib>\n    <dict>\n      {frag}\n    </dict>\n  </lib>\n</designspace>\n"))),
            None => tags.push("skipexport-unextractable".into()),
        }
    }
    for (vn, xml) in variants {
        let p = tmp.join(format!("{vn}.designspace"));
        std::fs::write(&p, xml).unwrap();
        rs.push(Route { name: vn.into(), built: lib_build_path(&p) });
        if vn != "designspace-named" {
            rs.push(Route { name: format!("{vn}-cli"), built: cli_build(&p, tmp, vn) });
        }
    }
    rs
}

pub fn run_e2e(args: &Args) {
    // SAFETY: single-threaded at this point
    unsafe { std::env::set_var("SOURCE_DATE_EPOCH", EPOCH) };
    let seed = args.seed;
    let sources = e2e_sources();
    crate::run_cases("c20e2e", args, move |i| {
        let mut rng = Rng::for_case(seed, "c20e2e", i);
        let src = &sources[i % sources.len()];
        let tmp = crate::e2e::build::tmpdir("c20e2e");
        let is_ufo = src.extension().and_then(|x| x.to_str()) == Some("ufo");
        let mut tags = vec![];
        let rs = if is_ufo { routes_ufo(src, tmp.path(), &mut tags) } else { routes_glyphs(src, tmp.path(), &mut rng, &mut tags) };
        // keep the failing inputs for inspection
        let reference = rs[0].built.clone();
        let mut keep = false;
        let routes: Vec<S> = rs
            .iter()
            .map(|r| {
                let (status, len, sha, diff, msg) = match (&r.built, &reference) {
                    (Ok(b), Ok(rb)) => ("ok", b.len(), sha256(b), if b == rb { "-".to_string() } else { first_diff(rb, b) }, String::new()),
                    (Ok(b), Err(_)) => ("ok", b.len(), sha256(b), "ref-failed".to_string(), String::new()),
                    (Err(e), _) => ("err", 0, "-".to_string(), "-".to_string(), e.clone()),
                };
                if diff != "-" || (status == "err") != reference.is_err() {
                    keep = true;
                }
                S::list([S::atom(r.name.clone()), S::atom(status), S::usize(len), S::atom(sha), S::atom(diff), S::str(&msg)])
            })
            .collect();
        if keep && std::env::var("C20_KEEP").is_ok() {
            let kept = tmp.keep();
            tags.push(format!("kept:{}", kept.display()));
        }
        vec![
            S::k1("source", S::str(&src.to_string_lossy())),
            S::k1("kind", S::atom(if is_ufo { "ufo" } else { "glyphs" })),
            S::kv("notes", tags.iter().map(|t| S::str(t))),
            S::kv("routes", routes),
        ]
    });
}

// ------------------------------------------------------------------------------------------------
// c20unicode: the `unicode` entry of a glyph in many layouts of the same tokens, through the real typed
// reader (glyphs_reader::Font::load_from_string); the focused exhibit of finding F-C20-1
// ------------------------------------------------------------------------------------------------

fn unicode_template(v3: bool) -> (String, String) {
    let t = Path::new("/repo/resources/testdata");
    let (file, line) = if v3 { ("glyphs3/Unicode-UnquotedDecSequence.glyphs", "\t\tunicode = (1619,1764);") } else { ("glyphs2/Unicode-UnquotedHex.glyphs", "\t\tunicode = 1234;") };
    (std::fs::read_to_string(t.join(file)).expect("template"), line.to_string())
}

fn load_unicode(text: &str) -> S {
    let t = text.to_string();
    let r = std::panic::catch_unwind(move || {
        glyphs_reader::Font::load_from_string(&t).map(|f| f.glyphs.get("name").map(|g| g.unicode.iter().copied().collect::<Vec<u32>>()))
    });
    match r {
        Ok(Ok(Some(cps))) => S::kv("ok", cps.iter().map(|c| S::usize(*c as usize))),
        Ok(Ok(None)) => S::atom("noglyph"),
        Ok(Err(_)) => S::atom("err"),
        Err(_) => S::atom("panic"),
    }
}

pub fn run_unicode(args: &Args) {
    let seed = args.seed;
    let (t3, l3) = unicode_template(true);
    let (t2, l2) = unicode_template(false);
    crate::run_cases("c20unicode", args, move |i| {
        let mut rng = Rng::for_case(seed, "c20unicode", i);
        let v3 = rng.chance(1, 2);
        let radix = if v3 { 10 } else { 16 };
        let n = 1 + rng.below(3);
        let mut cps: Vec<u32> = vec![];
        while cps.len() < n {
            let c = *rng.pick(&[0x41u32, 0x20, 0x653, 0x6E4, 0x2044, 0x200D, 0x1F4A9, 0x10FFFF, 9, 0xABCD, 0xFACE]);
            if !cps.contains(&c) {
                cps.push(c);
            }
        }
        let word = |c: u32| if v3 { format!("{c}") } else { format!("{c:04X}") };
        let words: Vec<String> = cps.iter().map(|c| word(*c)).collect();
        let list = words.join(",");
        // the layout Glyphs.app writes
        let canonical = if n == 1 { format!("\t\tunicode = {};", words[0]) } else if v3 { format!("\t\tunicode = ({list});") } else { format!("\t\tunicode = \"{list}\";") };
        let ws = |rng: &mut Rng| rng.pick(&["", " ", "  ", "\t"]).to_string();
        let mut variants: Vec<(&str, String)> = vec![("canonical", canonical)];
        let (a, b, c, d) = (ws(&mut rng), ws(&mut rng), ws(&mut rng), ws(&mut rng));
        if n == 1 {
            variants.push(("spaces", format!("{a}unicode{b}={c}{}{d};", words[0])));
            variants.push(("quoted-value", format!("\t\tunicode = \"{}\";", words[0])));
            variants.push(("quoted-key", format!("\t\t\"unicode\" = {};", words[0])));
            variants.push(("quoted-both", format!("\"unicode\"=\"{}\";", words[0])));
            variants.push(("parens", format!("\t\tunicode = ({});", words[0])));
            variants.push(("own-lines", format!("unicode\n=\n{}\n;", words[0])));
            variants.push(("shared-line", format!("unicode = {}; note = x;", words[0])));
        } else {
            variants.push(("spaces-outside", format!("{a}unicode{b}={c}({list});{d}")));
            variants.push(("list-form", format!("\t\tunicode = ({list});")));
            variants.push(("quoted-string-form", format!("\t\tunicode = \"{list}\";")));
            variants.push(("space-after-comma", format!("\t\tunicode = ({});", words.join(", "))));
            variants.push(("space-inside-parens", format!("\t\tunicode = ( {list} );")));
            variants.push(("multi-line", format!("\t\tunicode = (\n{}\n);", words.join(",\n"))));
            variants.push(("quoted-key", format!("\t\t\"unicode\" = ({list});")));
            variants.push(("quoted-items", format!("\t\tunicode = ({});", words.iter().map(|w| format!("\"{w}\"")).collect::<Vec<_>>().join(","))));
            variants.push(("shared-line", format!("unicode = ({list}); note = x;")));
            variants.push(("crlf", format!("\t\tunicode = ({list});\r")));
        }
        let (tmpl, line) = if v3 { (&t3, &l3) } else { (&t2, &l2) };
        let impls: Vec<S> = variants.iter().map(|(_, e)| load_unicode(&tmpl.replacen(line.as_str(), e, 1))).collect();
        let mut expect: Vec<u32> = cps.clone();
        expect.sort();
        vec![
            S::k1("radix", S::usize(radix)),
            S::kv("codepoints", expect.iter().map(|c| S::usize(*c as usize))),
            S::kv("variants", variants.iter().map(|(n, e)| S::list([S::atom(*n), S::str(e)]))),
            S::kv("impl", impls),
        ]
    });
}
