//! Shared end-to-end infrastructure: abstract designs -> UFO/designspace on disk -> real fontc build -> table dump.
pub mod build;
pub mod design;
pub mod dump;
pub mod write;
pub mod write_glyphs;
