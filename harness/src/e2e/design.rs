//! Abstract description of a (variable) font source that the harness can write out as UFO3 + designspace,
//! and print on the protocol line so the Lean oracle knows what the source says.
use crate::rng::Rng;
use crate::sexp::S;
use std::collections::BTreeMap;

#[derive(Clone, Debug)]
pub struct AxisDef {
    pub tag: String,
    pub name: String,
    pub min: f64,
    pub default: f64,
    pub max: f64,
    /// user -> design mapping nodes (empty = identity)
    pub map: Vec<(f64, f64)>,
}

#[derive(Clone, Debug, PartialEq)]
pub enum PtType {
    Line,
    Off,
    QCurve,
    Curve,
}

#[derive(Clone, Debug)]
pub struct Pt {
    pub x: f64,
    pub y: f64,
    pub typ: PtType,
}

#[derive(Clone, Debug)]
pub struct Comp {
    pub base: String,
    /// xx xy yx yy dx dy
    pub t: [f64; 6],
}

#[derive(Clone, Debug, Default)]
pub struct GlyphDef {
    pub advance: f64,
    pub height: Option<f64>,
    pub contours: Vec<Vec<Pt>>,
    pub components: Vec<Comp>,
    pub anchors: Vec<(String, f64, f64)>,
}

#[derive(Clone, Debug, Default)]
pub struct Master {
    pub name: String,
    pub style: String,
    /// design-space coordinates per axis
    pub loc: Vec<f64>,
    /// glyphs drawn in this master (a sparse master has only some)
    pub glyphs: BTreeMap<String, GlyphDef>,
    /// sparse masters are written as a layer of the default master's UFO
    pub sparse: bool,
    pub kerning: Vec<(String, String, f64)>,
    pub groups: Vec<(String, Vec<String>)>,
    /// fontinfo numbers: key -> value (ascender, descender, xHeight, capHeight, openTypeOS2TypoAscender ...)
    pub info: Vec<(String, f64)>,
}

#[derive(Clone, Debug, Default)]
pub struct Instance {
    pub family: String,
    pub style: String,
    pub postscript: Option<String>,
    pub loc: Vec<f64>,
}

#[derive(Clone, Debug, Default)]
pub struct Rule {
    pub name: String,
    /// each condition set: (axis index, min, max) design coords
    pub condsets: Vec<Vec<(usize, Option<f64>, Option<f64>)>>,
    pub subs: Vec<(String, String)>,
}

#[derive(Clone, Debug, Default)]
pub struct Design {
    pub family: String,
    pub upem: u32,
    pub axes: Vec<AxisDef>,
    pub masters: Vec<Master>,
    /// index of the default master
    pub default_master: usize,
    pub glyph_order: Option<Vec<String>>,
    pub skip_export: Vec<String>,
    pub codepoints: BTreeMap<String, Vec<u32>>,
    pub instances: Vec<Instance>,
    pub rules: Vec<Rule>,
    pub rules_processing_last: bool,
    pub features: Option<String>,
    /// extra lib keys for the default master's lib.plist: (key, plist-xml-value)
    pub lib_extra: Vec<(String, String)>,
}

impl Design {
    pub fn glyph_names(&self) -> Vec<String> {
        self.masters[self.default_master].glyphs.keys().cloned().collect()
    }

    /// design coordinate -> normalized (no avar mapping of its own: designspace maps user->design; normalisation is on design coords)
    pub fn normalize(&self, axis: usize, design: f64) -> f64 {
        let a = &self.axes[axis];
        let (dmin, ddef, dmax) = (self.user_to_design(axis, a.min), self.user_to_design(axis, a.default), self.user_to_design(axis, a.max));
        if design < ddef {
            if ddef == dmin { 0.0 } else { -(ddef - design) / (ddef - dmin) }
        } else if design > ddef {
            if dmax == ddef { 0.0 } else { (design - ddef) / (dmax - ddef) }
        } else {
            0.0
        }
    }

    pub fn user_to_design(&self, axis: usize, user: f64) -> f64 {
        let a = &self.axes[axis];
        if a.map.is_empty() {
            return user;
        }
        let m = &a.map;
        if user <= m[0].0 {
            return m[0].1 + (user - m[0].0);
        }
        for w in m.windows(2) {
            if user <= w[1].0 {
                let t = (user - w[0].0) / (w[1].0 - w[0].0);
                return w[0].1 + t * (w[1].1 - w[0].1);
            }
        }
        let l = m[m.len() - 1];
        l.1 + (user - l.0)
    }

    pub fn master_norm_loc(&self, m: usize) -> Vec<f64> {
        (0..self.axes.len()).map(|a| self.normalize(a, self.masters[m].loc[a])).collect()
    }

    pub fn to_sexp(&self) -> S {
        let axes = S::list(self.axes.iter().map(|a| {
            S::list([
                S::str(&a.tag), S::str(&a.name), S::f64(a.min), S::f64(a.default), S::f64(a.max),
                S::list(a.map.iter().map(|(u, d)| S::list([S::f64(*u), S::f64(*d)]))),
            ])
        }));
        let masters = S::list(self.masters.iter().enumerate().map(|(i, m)| {
            S::list([
                S::k1("name", S::str(&m.name)),
                S::k1("loc", S::list(m.loc.iter().map(|c| S::f64(*c)))),
                S::k1("nloc", S::list(self.master_norm_loc(i).iter().map(|c| S::f64(*c)))),
                S::k1("sparse", S::bool(m.sparse)),
                S::k1("glyphs", S::list(m.glyphs.iter().map(|(n, g)| glyph_sexp(n, g)))),
                S::k1("kerning", S::list(m.kerning.iter().map(|(a, b, v)| S::list([S::str(a), S::str(b), S::f64(*v)])))),
                S::k1("groups", S::list(m.groups.iter().map(|(n, ms)| S::list([S::str(n), S::list(ms.iter().map(|x| S::str(x)))])))),
                S::k1("info", S::list(m.info.iter().map(|(k, v)| S::list([S::str(k), S::f64(*v)])))),
            ])
        }));
        S::kv("design", [
            S::k1("upem", S::usize(self.upem as usize)),
            S::k1("axes", axes),
            S::k1("default", S::usize(self.default_master)),
            S::k1("masters", masters),
            S::k1("order", S::opt(self.glyph_order.as_ref().map(|o| S::list(o.iter().map(|x| S::str(x)))))),
            S::k1("skip", S::list(self.skip_export.iter().map(|x| S::str(x)))),
            S::k1("cps", S::list(self.codepoints.iter().map(|(g, c)| S::list([S::str(g), S::list(c.iter().map(|x| S::usize(*x as usize)))])))),
            S::k1("instances", S::list(self.instances.iter().map(|i| S::list([S::str(&i.family), S::str(&i.style), S::list(i.loc.iter().map(|c| S::f64(*c)))])))),
            S::k1("rules", S::list(self.rules.iter().map(|r| S::list([
                S::str(&r.name),
                S::list(r.condsets.iter().map(|cs| S::list(cs.iter().map(|(a, lo, hi)| S::list([S::usize(*a), S::opt(lo.map(S::f64)), S::opt(hi.map(S::f64))]))))),
                S::list(r.subs.iter().map(|(a, b)| S::list([S::str(a), S::str(b)]))),
            ])))),
        ])
    }
}

pub fn glyph_sexp(name: &str, g: &GlyphDef) -> S {
    S::list([
        S::str(name),
        S::f64(g.advance),
        S::opt(g.height.map(S::f64)),
        S::list(g.contours.iter().map(|c| S::list(c.iter().map(|p| {
            S::list([S::f64(p.x), S::f64(p.y), S::atom(match p.typ { PtType::Line => "l", PtType::Off => "o", PtType::QCurve => "q", PtType::Curve => "c" })])
        })))),
        S::list(g.components.iter().map(|c| S::list([S::str(&c.base), S::list(c.t.iter().map(|v| S::f64(*v)))]))),
        S::list(g.anchors.iter().map(|(n, x, y)| S::list([S::str(n), S::f64(*x), S::f64(*y)]))),
    ])
}

// ------------------------------------------------------------------ generator

#[derive(Clone, Debug)]
pub struct GenOpts {
    pub max_axes: usize,
    pub max_glyphs: usize,
    pub composites: bool,
    pub sparse: bool,
    pub quads: bool,
    pub vertical: bool,
    pub intermediate: bool,
    pub corner: bool,
    pub metrics_vary: bool,
    pub mapping: bool,
    pub nested: bool,
    pub transforms: bool,
    pub non_export: bool,
}

impl Default for GenOpts {
    fn default() -> Self {
        GenOpts { max_axes: 2, max_glyphs: 8, composites: true, sparse: true, quads: true, vertical: false,
                  intermediate: true, corner: true, metrics_vary: false, mapping: false, nested: false,
                  transforms: false, non_export: false }
    }
}

const AXES: [(&str, &str, f64, f64, f64); 3] = [
    ("wght", "Weight", 100.0, 400.0, 900.0),
    ("wdth", "Width", 50.0, 100.0, 200.0),
    ("opsz", "Optical Size", 8.0, 8.0, 72.0),
];

/// fontinfo keys with a direct MVAR tag / table field (see lean/Driver/C04.lean for the mapping)
pub const METRIC_KEYS: &[(&str, f64)] = &[
    ("openTypeOS2TypoAscender", 780.0), ("openTypeOS2TypoDescender", -220.0), ("openTypeOS2TypoLineGap", 90.0),
    ("openTypeOS2WinAscent", 950.0), ("openTypeOS2WinDescent", 250.0),
    ("openTypeOS2StrikeoutSize", 50.0), ("openTypeOS2StrikeoutPosition", 300.0),
    ("openTypeOS2SubscriptXSize", 650.0), ("openTypeOS2SubscriptYSize", 600.0),
    ("openTypeOS2SubscriptXOffset", 10.0), ("openTypeOS2SubscriptYOffset", 75.0),
    ("openTypeOS2SuperscriptXSize", 640.0), ("openTypeOS2SuperscriptYSize", 610.0),
    ("openTypeOS2SuperscriptXOffset", 20.0), ("openTypeOS2SuperscriptYOffset", 350.0),
    ("postscriptUnderlinePosition", -100.0), ("postscriptUnderlineThickness", 50.0),
    ("openTypeHheaAscender", 900.0), ("openTypeHheaDescender", -300.0), ("openTypeHheaLineGap", 40.0),
    ("openTypeHheaCaretOffset", 5.0),
];

pub const GLYPH_NAMES: [&str; 16] = ["a", "b", "c", "d", "e", "f", "g", "h", "i", "j", "k", "l", "m", "n", "o", "p"];

/// Random polygon / quadratic contour with distinct integer points.
fn gen_contour(rng: &mut Rng, quads: bool, used: &mut Vec<(i64, i64)>) -> Vec<Pt> {
    let n = 3 + rng.below(4);
    let mut pts = vec![];
    let cx = rng.range(100, 600);
    let cy = rng.range(0, 600);
    for k in 0..n {
        // walk roughly around a centre so the outline is non-degenerate
        let (dx, dy) = match (k * 8) / n { 0 => (1, 0), 1 => (1, 1), 2 => (0, 1), 3 => (-1, 1), 4 => (-1, 0), 5 => (-1, -1), 6 => (0, -1), _ => (1, -1) };
        let mut x; let mut y;
        loop {
            x = cx + dx * rng.range(40, 200) + rng.range(-15, 15);
            y = cy + dy * rng.range(40, 200) + rng.range(-15, 15);
            if !used.contains(&(x, y)) { break; }
        }
        used.push((x, y));
        let typ = if quads && k % 2 == 1 && k + 1 < n && rng.chance(1, 2) { PtType::Off } else { PtType::Line };
        pts.push(Pt { x: x as f64, y: y as f64, typ });
    }
    // an on-curve point after an off-curve is a qcurve
    for i in 0..pts.len() {
        if pts[i].typ == PtType::Line && i > 0 && pts[i - 1].typ == PtType::Off {
            pts[i].typ = PtType::QCurve;
        }
    }
    pts
}

pub fn vary_glyph(rng: &mut Rng, g: &GlyphDef, amount: i64, transforms_vary: bool) -> GlyphDef {
    let mut out = g.clone();
    out.advance = (g.advance + rng.range(-amount, amount) as f64).max(0.0);
    if let Some(h) = g.height { out.height = Some(h + rng.range(-amount, amount) as f64); }
    for c in out.contours.iter_mut() {
        for p in c.iter_mut() {
            p.x += rng.range(-amount, amount) as f64;
            p.y += rng.range(-amount, amount) as f64;
        }
    }
    for c in out.components.iter_mut() {
        c.t[4] += rng.range(-amount, amount) as f64;
        c.t[5] += rng.range(-amount, amount) as f64;
        let _ = transforms_vary;
    }
    for a in out.anchors.iter_mut() {
        a.1 += rng.range(-amount, amount) as f64;
        a.2 += rng.range(-amount, amount) as f64;
    }
    out
}

pub fn gen_design(rng: &mut Rng, o: &GenOpts) -> Design {
    let n_axes = 1 + rng.below(o.max_axes);
    let mut axes = vec![];
    for i in 0..n_axes {
        let (tag, name, min, def, max) = AXES[i];
        // default at min, inside, or at max
        let default = match rng.below(4) { 0 => min, 1 => max, _ => def };
        let map = if o.mapping && rng.chance(1, 2) {
            // design coords = 0..1000 scale with a bend
            let mid = if default > min && default < max { default } else { (min + max) / 2.0 };
            vec![(min, 20.0), (mid, 80.0 + rng.range(0, 40) as f64), (max, 200.0)]
        } else { vec![] };
        axes.push(AxisDef { tag: tag.into(), name: name.into(), min, default, max, map });
    }
    let mut d = Design { family: "Verif Test".into(), upem: 1000, axes, ..Default::default() };
    // design-space extremes per axis
    let ext: Vec<(f64, f64, f64)> = (0..n_axes).map(|a| {
        let ax = &d.axes[a];
        (d.user_to_design(a, ax.min), d.user_to_design(a, ax.default), d.user_to_design(a, ax.max))
    }).collect();

    // default master glyphs
    let n_glyphs = 2 + rng.below(o.max_glyphs.max(2) - 1);
    let names: Vec<String> = GLYPH_NAMES[..n_glyphs.min(GLYPH_NAMES.len())].iter().map(|s| s.to_string()).collect();
    let mut base = BTreeMap::new();
    let mut simple: Vec<String> = vec![];
    let mut composite: Vec<String> = vec![];
    for (gi, n) in names.iter().enumerate() {
        let mut g = GlyphDef { advance: rng.range(200, 900) as f64, ..Default::default() };
        if o.vertical { g.height = Some(rng.range(800, 1200) as f64); }
        let make_comp = o.composites && gi >= 2 && !simple.is_empty() && rng.chance(1, 3);
        if make_comp {
            let pool: Vec<String> = if o.nested && !composite.is_empty() && rng.chance(1, 2) { composite.clone() } else { simple.clone() };
            let k = 1 + rng.below(2);
            for _ in 0..k {
                let basen = rng.pick(&pool).clone();
                let mut t = [1.0, 0.0, 0.0, 1.0, rng.range(-200, 300) as f64, rng.range(-200, 300) as f64];
                if o.transforms && rng.chance(1, 2) {
                    match rng.below(4) {
                        0 => { t[0] = -1.0; }
                        1 => { t[0] = 0.5; t[3] = 0.5; }
                        2 => { t[0] = 0.0; t[1] = 1.0; t[2] = -1.0; t[3] = 0.0; }
                        _ => { t[3] = -1.0; t[0] = 2.0; }
                    }
                }
                g.components.push(Comp { base: basen, t });
            }
            if rng.chance(1, 4) {
                // mixed contour + component
                let mut used = vec![];
                g.contours.push(gen_contour(rng, o.quads, &mut used));
            }
            composite.push(n.clone());
        } else if rng.chance(1, 10) {
            // empty glyph (space-like)
            simple.push(n.clone());
        } else {
            let mut used = vec![];
            for _ in 0..1 + rng.below(2) {
                g.contours.push(gen_contour(rng, o.quads, &mut used));
            }
            simple.push(n.clone());
        }
        base.insert(n.clone(), g);
    }
    for (i, n) in names.iter().enumerate() {
        if rng.chance(4, 5) { d.codepoints.insert(n.clone(), vec![0x61 + i as u32]); }
    }
    if o.non_export && names.len() > 3 {
        let n = rng.pick(&simple).clone();
        d.skip_export.push(n);
    }
    d.glyph_order = Some(names.clone());

    // master locations: default, then per axis extremes, optional corners, optional intermediates
    let def_loc: Vec<f64> = ext.iter().map(|e| e.1).collect();
    let mut locs: Vec<Vec<f64>> = vec![def_loc.clone()];
    for a in 0..n_axes {
        for v in [ext[a].0, ext[a].2] {
            if v != ext[a].1 {
                let mut l = def_loc.clone(); l[a] = v;
                if !locs.contains(&l) && rng.chance(5, 6) { locs.push(l); }
            }
        }
    }
    if o.corner && n_axes >= 2 && rng.chance(1, 2) {
        let mut l = def_loc.clone();
        for a in 0..n_axes { l[a] = if ext[a].2 != ext[a].1 { ext[a].2 } else { ext[a].0 }; }
        if !locs.contains(&l) { locs.push(l); }
    }
    if o.intermediate && rng.chance(1, 2) {
        let a = rng.below(n_axes);
        let (lo, hi) = if ext[a].2 != ext[a].1 { (ext[a].1, ext[a].2) } else { (ext[a].0, ext[a].1) };
        let mut l = def_loc.clone(); l[a] = lo + (hi - lo) * (*rng.pick(&[0.25, 0.5, 0.75]));
        if n_axes >= 2 && rng.chance(1, 3) {
            let b = (a + 1) % n_axes;
            let (lo, hi) = if ext[b].2 != ext[b].1 { (ext[b].1, ext[b].2) } else { (ext[b].0, ext[b].1) };
            l[b] = lo + (hi - lo) * 0.5;
        }
        if !locs.contains(&l) { locs.push(l); }
    }
    let mut base_info: Vec<(String, f64)> = vec![
        ("ascender".into(), 800.0), ("descender".into(), -200.0), ("xHeight".into(), 500.0), ("capHeight".into(), 700.0),
    ];
    if o.vertical {
        // fontc (like ufo2ft) builds vhea/vmtx/VVAR only when all three vhea metrics are defined
        for (k, v) in [("openTypeVheaVertTypoAscender", 500.0), ("openTypeVheaVertTypoDescender", -500.0), ("openTypeVheaVertTypoLineGap", 0.0)] {
            base_info.push((k.to_string(), v));
        }
    }
    if o.metrics_vary {
        // explicit values for every metric that has an MVAR tag (no fallback logic involved)
        for (k, v) in METRIC_KEYS {
            if rng.chance(3, 4) { base_info.push((k.to_string(), *v)); }
        }
    }
    for (i, l) in locs.iter().enumerate() {
        let mut m = Master { name: format!("M{i}"), style: if i == 0 { "Regular".into() } else { format!("Style{i}") }, loc: l.clone(), ..Default::default() };
        m.glyphs = if i == 0 { base.clone() } else {
            // a master may redraw a glyph exactly like the default (common in real sources: only some glyphs
            // change along an axis); such a master still pins the glyph at its location
            base.iter().map(|(n, g)| (n.clone(), if rng.chance(1, 6) { g.clone() } else { vary_glyph(rng, g, 60, false) })).collect()
        };
        m.info = base_info.iter().map(|(k, v)| (k.clone(), if o.metrics_vary && i > 0 && rng.chance(2, 3) { v + rng.range(-40, 40) as f64 } else { *v })).collect();
        d.masters.push(m);
    }
    // sparse per-glyph intermediate master as a layer of the default UFO
    if o.sparse && rng.chance(1, 2) {
        let a = rng.below(n_axes);
        let (lo, hi) = if ext[a].2 != ext[a].1 { (ext[a].1, ext[a].2) } else { (ext[a].0, ext[a].1) };
        let mut l = def_loc.clone(); l[a] = lo + (hi - lo) * (*rng.pick(&[0.25, 0.5, 0.75]));
        if !locs.contains(&l) {
            let mut m = Master { name: format!("S{}", d.masters.len()), style: "Sparse".into(), loc: l, sparse: true, ..Default::default() };
            let cands: Vec<&String> = names.iter().filter(|n| !d.skip_export.contains(n)).collect();
            let k = 1 + rng.below(2.min(cands.len()));
            for _ in 0..k {
                let n = (*rng.pick(&cands)).clone();
                m.glyphs.insert(n.clone(), vary_glyph(rng, &base[&n], 60, false));
            }
            d.masters.push(m);
        }
    }
    d
}
