//! Write a `Design` as ONE Glyphs 3 source file (hand-written text plist: independent of any Glyphs library).
//!
//! What the Glyphs route of fontc reads (glyphs-reader/src/font.rs, glyphs2fontir/src/{source,toir}.rs) and how the
//! abstract `Design` is carried:
//!  * `axes` (name, tag): no ranges. An axis' range is min/max of the fontMasters' `axesValues` plus the locations of
//!    "Virtual Master" custom parameters (toir.rs `ir_axes`); the default is the default master's value. A declared axis
//!    extreme of the Design that no full master reaches is therefore written as a Virtual Master.
//!  * every non-sparse master = one `fontMaster` (`axesValues` = design coordinates, `metricValues` in the order of the
//!    font-level `metrics`). Default master: "Variable Font Origin" parameter if present, else chosen by name
//!    (`default_master_idx`: the master called "Regular" wins among "Regular", "Style1", ...).
//!  * every sparse master = *brace* (intermediate) layers of just the glyphs it draws: `associatedMasterId` + `attr =
//!    {coordinates = (...)}`. The layer's location is the associated master's location overridden by the coordinates given
//!    (source.rs `process_layer`): FEWER coordinates than axes leave the trailing axes at the associated master's values.
//!  * closed paths: Glyphs stores the start node LAST (toir.rs `to_ir_path` rotates right by one), so the UFO point list
//!    p0 p1 .. pn-1 is written p1 .. pn-1 p0.
//!  * components: `ref`, `pos`, optionally `scale` / `angle` (transform = translate * rotate * scale).
//! Only identity user->design axis mappings are supported (asserted).
use super::design::*;
use super::write::num;
use crate::rng::Rng;
use std::collections::BTreeMap;
use std::fmt::Write as _;
use std::fs;
use std::path::{Path, PathBuf};

/// How one sparse master is written.
#[derive(Clone, Debug)]
pub struct Brace {
    /// index (into `Design::masters`) of the full master the brace layers are associated with
    pub assoc: usize,
    /// number of leading coordinates written (1 ..= number of axes)
    pub ncoords: usize,
}

#[derive(Clone, Debug, Default)]
pub struct GlyphsOpts {
    /// order in which the full masters are written as fontMasters (indices into `Design::masters`)
    pub master_order: Vec<usize>,
    /// write a "Variable Font Origin" custom parameter naming the default master
    pub origin_param: bool,
    /// sparse master index -> how it is written
    pub brace: BTreeMap<usize, Brace>,
    /// write a `com.github.googlei18n.ufo2ft.filters` userData list (naming only propagateAnchors) on the default
    /// master: the source then opts out of the Glyphs-native default filters (source.rs `compilation_flags`), i.e. open
    /// corners are NOT erased. Needed for designs in which some layer has an open corner (see `has_open_corner`).
    pub explicit_filters: bool,
}

impl GlyphsOpts {
    /// The plain choice: default master first, every brace layer on the default master with all coordinates.
    pub fn plain(d: &Design) -> GlyphsOpts {
        let mut order: Vec<usize> = vec![d.default_master];
        order.extend((0..d.masters.len()).filter(|&i| i != d.default_master && !d.masters[i].sparse));
        let brace = d.masters.iter().enumerate().filter(|(_, m)| m.sparse)
            .map(|(i, _)| (i, Brace { assoc: d.default_master, ncoords: d.axes.len() })).collect();
        GlyphsOpts { master_order: order, origin_param: false, brace, explicit_filters: has_open_corner(d) }
    }

    /// Seeded choice among the equivalent ways to write the design.
    pub fn choose(d: &Design, rng: &mut Rng) -> GlyphsOpts {
        let mut o = GlyphsOpts::plain(d);
        let n_axes = d.axes.len();
        if !o.explicit_filters { o.explicit_filters = rng.chance(1, 5); }
        // master order: the name heuristic finds "Regular" anywhere; an explicit origin parameter is the other way
        if o.master_order.len() > 1 && rng.chance(1, 3) {
            let k = 1 + rng.below(o.master_order.len() - 1);
            o.master_order.swap(0, k);
            o.origin_param = rng.chance(2, 3) || d.masters[d.default_master].style != "Regular";
        } else {
            o.origin_param = rng.chance(1, 4);
        }
        for (si, sm) in d.masters.iter().enumerate().filter(|(_, m)| m.sparse) {
            // candidates: (full master, k) such that master.loc[k..] == sparse.loc[k..], 1 <= k <= n_axes
            let mut partial: Vec<Brace> = vec![];
            let mut partial_nondef: Vec<Brace> = vec![];
            let mut full_nondef: Vec<Brace> = vec![];
            for (mi, m) in d.masters.iter().enumerate().filter(|(_, m)| !m.sparse) {
                if mi != d.default_master { full_nondef.push(Brace { assoc: mi, ncoords: n_axes }); }
                for k in 1..n_axes {
                    if m.loc[k..] == sm.loc[k..] {
                        let b = Brace { assoc: mi, ncoords: k };
                        if mi != d.default_master { partial_nondef.push(b.clone()); }
                        partial.push(b);
                    }
                }
            }
            let pick = match rng.below(8) {
                0 | 1 if !partial_nondef.is_empty() => Some(rng.pick(&partial_nondef).clone()),
                2 | 3 if !partial.is_empty() => Some(rng.pick(&partial).clone()),
                4 | 5 if !full_nondef.is_empty() => Some(rng.pick(&full_nondef).clone()),
                _ => None,
            };
            if let Some(b) = pick { o.brace.insert(si, b); }
        }
        o
    }

    /// (sparse masters, of those attached to a non-default master, of those with fewer coordinates than axes,
    ///  of those partial AND inheriting a non-default value on an omitted axis)
    pub fn stats(&self, d: &Design) -> (usize, usize, usize, usize) {
        let def = &d.masters[d.default_master];
        let mut s = (0, 0, 0, 0);
        for (si, b) in &self.brace {
            if d.masters[*si].glyphs.is_empty() { continue; }
            s.0 += 1;
            if b.assoc != d.default_master { s.1 += 1; }
            if b.ncoords < d.axes.len() {
                s.2 += 1;
                if d.masters[*si].loc[b.ncoords..] != def.loc[b.ncoords..] { s.3 += 1; }
            }
        }
        s
    }
}

/// Does the Glyphs-native "erase open corners" step (on by default for .glyphs sources, applied per layer when the path
/// is converted: toir.rs `to_ir_path`) change this contour? Decided by the real fontir functions on the path built the
/// way `to_ir_path` builds it. A random polygon with a short edge between two crossing edges counts as an open corner;
/// erasing it in some layers only makes the layers incompatible, so such a design must opt out of the filter.
pub fn contour_has_open_corner(c: &[Pt]) -> bool {
    if c.is_empty() || !c.iter().any(|p| p.typ != PtType::Off) { return false; }
    let mut b = fontir::ir::GlyphPathBuilder::new(c.len());
    for p in c {
        let r = match p.typ {
            PtType::Line => b.line_to((p.x, p.y)),
            PtType::Off => b.offcurve((p.x, p.y)),
            PtType::QCurve => b.qcurve_to((p.x, p.y)),
            PtType::Curve => b.curve_to((p.x, p.y)),
        };
        if r.is_err() { return true; }
    }
    b.erase_open_corners().unwrap_or(true)
}

pub fn has_open_corner(d: &Design) -> bool {
    d.masters.iter().any(|m| m.glyphs.values().any(|g| g.contours.iter().any(|c| contour_has_open_corner(c))))
}

/// Quote a string for the text plist unless it is a plain word.
pub fn q(s: &str) -> String {
    let plain = !s.is_empty()
        && s.chars().all(|c| c.is_ascii_alphanumeric() || c == '_' || c == '.')
        && !s.chars().next().unwrap().is_ascii_digit()
        && !s.starts_with('.');
    if plain { s.to_string() } else { format!("\"{}\"", s.replace('\\', "\\\\").replace('"', "\\\"")) }
}

fn master_id(i: usize) -> String { format!("m{:02}", i + 1) }

fn info_of(m: &Master, key: &str) -> Option<f64> {
    m.info.iter().find(|(k, _)| k == key).map(|(_, v)| *v)
}

fn write_shapes(s: &mut String, g: &GlyphDef) {
    if g.contours.is_empty() && g.components.is_empty() { return; }
    s.push_str("shapes = (\n");
    let mut first = true;
    let mut sep = |s: &mut String| { if !first { s.push_str(",\n"); } first = false; };
    // contours first, then components: the IR keeps them in two lists, so only the order within each kind matters
    for c in &g.contours {
        sep(s);
        s.push_str("{\nclosed = 1;\nnodes = (\n");
        let n = c.len();
        // Glyphs stores the start node of a closed path last
        let any_on = c.iter().any(|p| p.typ != PtType::Off);
        let order: Vec<usize> = if any_on && n > 0 { (1..n).chain(std::iter::once(0)).collect() } else { (0..n).collect() };
        for (k, &i) in order.iter().enumerate() {
            let p = &c[i];
            let t = match p.typ { PtType::Line => "l", PtType::Off => "o", PtType::QCurve => "q", PtType::Curve => "c" };
            write!(s, "({},{},{}){}\n", num(p.x), num(p.y), t, if k + 1 < n { "," } else { "" }).unwrap();
        }
        s.push_str(");\n}");
    }
    for c in &g.components {
        sep(s);
        s.push_str("{\n");
        let [xx, xy, yx, yy, dx, dy] = c.t;
        // transform = translate(pos) * rotate(angle) * scale(sx, sy); UFO order xx xy yx yy = kurbo a b c d
        if xy == 0.0 && yx == 0.0 {
            if dx != 0.0 || dy != 0.0 { writeln!(s, "pos = ({},{});", num(dx), num(dy)).unwrap(); }
            writeln!(s, "ref = {};", q(&c.base)).unwrap();
            if xx != 1.0 || yy != 1.0 { writeln!(s, "scale = ({},{});", num(xx), num(yy)).unwrap(); }
        } else if xx == 0.0 && yy == 0.0 && xy > 0.0 && yx < 0.0 {
            // rotate 90 (a b c d = 0 1 -1 0) * scale(sx, sy) = (0, sx, -sy, 0)
            writeln!(s, "angle = 90;").unwrap();
            if dx != 0.0 || dy != 0.0 { writeln!(s, "pos = ({},{});", num(dx), num(dy)).unwrap(); }
            writeln!(s, "ref = {};", q(&c.base)).unwrap();
            if xy != 1.0 || yx != -1.0 { writeln!(s, "scale = ({},{});", num(xy), num(-yx)).unwrap(); }
        } else {
            panic!("write_glyphs: component transform {:?} not expressible as pos/angle/scale", c.t);
        }
        s.push('}');
    }
    s.push_str("\n);\n");
}

fn write_layer(s: &mut String, g: &GlyphDef, head: &str) {
    s.push_str("{\n");
    if !g.anchors.is_empty() {
        s.push_str("anchors = (\n");
        for (k, (n, x, y)) in g.anchors.iter().enumerate() {
            write!(s, "{{\nname = {};\npos = ({},{});\n}}{}\n", q(n), num(*x), num(*y), if k + 1 < g.anchors.len() { "," } else { "" }).unwrap();
        }
        s.push_str(");\n");
    }
    s.push_str(head);
    write_shapes(s, g);
    if let Some(h) = g.height { writeln!(s, "vertWidth = {};", num(h)).unwrap(); }
    writeln!(s, "width = {};", num(g.advance)).unwrap();
    s.push('}');
}

/// The whole .glyphs file as text.
pub fn glyphs_text(d: &Design, o: &GlyphsOpts) -> String {
    for a in &d.axes { assert!(a.map.is_empty(), "write_glyphs: only identity axis mappings are supported"); }
    assert!(d.rules.is_empty() && d.features.is_none(), "write_glyphs: rules/features are not carried");
    let fulls: Vec<usize> = o.master_order.clone();
    assert!(fulls.iter().all(|&i| !d.masters[i].sparse));
    assert_eq!(fulls.len(), d.masters.iter().filter(|m| !m.sparse).count());
    let def = &d.masters[d.default_master];
    let mut s = String::from("{\n.appVersion = \"3260\";\n.formatVersion = 3;\n");
    // axes
    s.push_str("axes = (\n");
    for (k, a) in d.axes.iter().enumerate() {
        write!(s, "{{\nname = {};\ntag = {};\n}}{}\n", q(&a.name), q(&a.tag), if k + 1 < d.axes.len() { "," } else { "" }).unwrap();
    }
    s.push_str(");\n");
    // custom parameters
    let mut params: Vec<String> = vec![];
    if let Some(order) = &d.glyph_order {
        params.push(format!("{{\nname = glyphOrder;\nvalue = (\n{}\n);\n}}", order.iter().map(|n| q(n)).collect::<Vec<_>>().join(",\n")));
    }
    if o.origin_param {
        params.push(format!("{{\nname = \"Variable Font Origin\";\nvalue = {};\n}}", q(&master_id(d.default_master))));
    }
    // declared axis extremes that no full master reaches: virtual masters (default location, one axis moved)
    for (ai, a) in d.axes.iter().enumerate() {
        for v in [a.min, a.max] {
            if !fulls.iter().any(|&mi| d.masters[mi].loc[ai] == v) {
                let locs: Vec<String> = d.axes.iter().enumerate().map(|(bi, b)| {
                    format!("{{\nAxis = {};\nLocation = {};\n}}", q(&b.name), num(if bi == ai { v } else { def.loc[bi] }))
                }).collect();
                params.push(format!("{{\nname = \"Virtual Master\";\nvalue = (\n{}\n);\n}}", locs.join(",\n")));
            }
        }
    }
    if !params.is_empty() { write!(s, "customParameters = (\n{}\n);\n", params.join(",\n")).unwrap(); }
    writeln!(s, "familyName = {};", q(&d.family)).unwrap();
    // masters
    s.push_str("fontMaster = (\n");
    for (k, &mi) in fulls.iter().enumerate() {
        let m = &d.masters[mi];
        s.push_str("{\n");
        if !d.axes.is_empty() {
            write!(s, "axesValues = (\n{}\n);\n", m.loc.iter().map(|v| num(*v)).collect::<Vec<_>>().join(",\n")).unwrap();
        }
        writeln!(s, "id = {};", q(&master_id(mi))).unwrap();
        // order of the font-level `metrics` below: ascender, cap height, x-height, baseline, descender
        s.push_str("metricValues = (\n");
        let vals = [info_of(m, "ascender"), info_of(m, "capHeight"), info_of(m, "xHeight"), None, info_of(m, "descender")];
        for (j, v) in vals.iter().enumerate() {
            match v { Some(v) => write!(s, "{{\npos = {};\n}}", num(*v)).unwrap(), None => s.push_str("{\n}") }
            s.push_str(if j + 1 < vals.len() { ",\n" } else { "\n" });
        }
        s.push_str(");\n");
        writeln!(s, "name = {};", q(&m.style)).unwrap();
        if o.explicit_filters && mi == d.default_master {
            s.push_str("userData = {\ncom.github.googlei18n.ufo2ft.filters = (\n{\nname = propagateAnchors;\npre = 1;\n}\n);\n};\n");
        }
        s.push('}');
        s.push_str(if k + 1 < fulls.len() { ",\n" } else { "\n" });
    }
    s.push_str(");\n");
    // glyphs, in the default master's (sorted) name order; the glyphOrder parameter decides the font's order
    s.push_str("glyphs = (\n");
    let names = d.glyph_names();
    for (gk, name) in names.iter().enumerate() {
        s.push_str("{\n");
        if d.skip_export.contains(name) { s.push_str("export = 0;\n"); }
        writeln!(s, "glyphname = {};", q(name)).unwrap();
        s.push_str("layers = (\n");
        let mut layers: Vec<String> = vec![];
        for &mi in &fulls {
            let Some(g) = d.masters[mi].glyphs.get(name) else { continue };
            let mut l = String::new();
            write_layer(&mut l, g, &format!("layerId = {};\n", q(&master_id(mi))));
            layers.push(l);
            // brace layers follow the master they are associated with (as Glyphs writes them)
            for (si, b) in o.brace.iter().filter(|(_, b)| b.assoc == mi) {
                let sm = &d.masters[*si];
                let Some(g) = sm.glyphs.get(name) else { continue };
                let coords: Vec<String> = sm.loc[..b.ncoords].iter().map(|v| num(*v)).collect();
                assert!(sm.loc[b.ncoords..] == d.masters[mi].loc[b.ncoords..], "write_glyphs: omitted coordinates must equal the associated master's");
                let head = format!("associatedMasterId = {};\nattr = {{\ncoordinates = (\n{}\n);\n}};\nlayerId = {};\nname = {};\n",
                    q(&master_id(mi)), coords.join(",\n"), q(&format!("b{}-{}", si, gk)), q(&format!("{{{}}}", coords.join(", "))));
                let mut l = String::new();
                write_layer(&mut l, g, &head);
                layers.push(l);
            }
        }
        s.push_str(&layers.join(",\n"));
        s.push_str("\n);\n");
        if let Some(cps) = d.codepoints.get(name) {
            match cps.len() {
                0 => {}
                1 => writeln!(s, "unicode = {};", cps[0]).unwrap(),
                _ => writeln!(s, "unicode = ({});", cps.iter().map(|c| c.to_string()).collect::<Vec<_>>().join(",")).unwrap(),
            }
        }
        s.push('}');
        s.push_str(if gk + 1 < names.len() { ",\n" } else { "\n" });
    }
    s.push_str(");\n");
    s.push_str("metrics = (\n{\ntype = ascender;\n},\n{\ntype = \"cap height\";\n},\n{\ntype = \"x-height\";\n},\n{\ntype = baseline;\n},\n{\ntype = descender;\n}\n);\n");
    writeln!(s, "unitsPerEm = {};", d.upem).unwrap();
    s.push_str("versionMajor = 1;\nversionMinor = 0;\n}\n");
    s
}

/// Writes `design.glyphs` under `root`; returns its path.
pub fn write_glyphs(root: &Path, d: &Design, o: &GlyphsOpts) -> PathBuf {
    fs::create_dir_all(root).unwrap();
    let p = root.join("design.glyphs");
    fs::write(&p, glyphs_text(d, o)).unwrap();
    p
}
