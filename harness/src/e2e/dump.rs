//! Dump the tables of a compiled font as protocol fields (read with read-fonts: the independent reader).
use crate::sexp::S;
use write_fonts::read::tables::glyf::{CurvePoint, Glyph};
use write_fonts::read::tables::variations::{DeltaSetIndexMap, ItemVariationStore};
use write_fonts::read::{FontRef, TableProvider};
use write_fonts::types::{GlyphId, GlyphId16};

fn f2(x: write_fonts::types::F2Dot14) -> S {
    S::f64(x.to_f32() as f64)
}

pub fn names(font: &FontRef) -> Vec<String> {
    let n = font.maxp().map(|m| m.num_glyphs()).unwrap_or(0);
    let post = font.post().ok();
    (0..n).map(|g| {
        post.as_ref().and_then(|p| p.glyph_name(GlyphId16::new(g)).map(|s| s.to_string())).unwrap_or_else(|| format!("gid{g}"))
    }).collect()
}

pub fn dump_glyf(font: &FontRef) -> Option<S> {
    let loca = font.loca(None).ok()?;
    let glyf = font.glyf().ok()?;
    let n = font.maxp().ok()?.num_glyphs();
    let mut out = vec![];
    for gid in 0..n {
        let g = loca.get_glyf(GlyphId::new(gid as u32), &glyf).ok()?;
        out.push(match g {
            None => S::list([S::atom("empty")]),
            Some(Glyph::Simple(s)) => {
                let ends: Vec<usize> = s.end_pts_of_contours().iter().map(|e| e.get() as usize).collect();
                let pts: Vec<CurvePoint> = s.points().collect();
                S::list([
                    S::atom("simple"),
                    S::list([S::int(s.x_min()), S::int(s.y_min()), S::int(s.x_max()), S::int(s.y_max())]),
                    S::list(ends.iter().map(|e| S::usize(*e))),
                    S::list(pts.iter().map(|p| S::list([S::int(p.x), S::int(p.y), S::usize(p.on_curve as usize)]))),
                ])
            }
            Some(Glyph::Composite(c)) => {
                S::list([
                    S::atom("composite"),
                    S::list([S::int(c.x_min()), S::int(c.y_min()), S::int(c.x_max()), S::int(c.y_max())]),
                    S::list(c.components().map(|comp| {
                        let (dx, dy, is_xy) = match comp.anchor {
                            write_fonts::read::tables::glyf::Anchor::Offset { x, y } => (x as i32, y as i32, true),
                            write_fonts::read::tables::glyf::Anchor::Point { base, component } => (base as i32, component as i32, false),
                        };
                        let t = comp.transform;
                        S::list([
                            S::usize(comp.glyph.to_u32() as usize), S::usize(comp.flags.bits() as usize), S::bool(is_xy),
                            S::int(dx), S::int(dy), f2(t.xx), f2(t.yx), f2(t.xy), f2(t.yy),
                        ])
                    })),
                ])
            }
        });
    }
    Some(S::k1("glyf", S::list(out)))
}

pub fn dump_gvar(font: &FontRef) -> Option<S> {
    let gvar = font.gvar().ok()?;
    let n = gvar.glyph_count();
    let mut out = vec![];
    for gid in 0..n {
        let data = gvar.glyph_variation_data(GlyphId::new(gid as u32)).ok()?;
        let mut tuples = vec![];
        if let Some(data) = data {
            for t in data.tuples() {
                let peak: Vec<S> = t.peak().values().iter().map(|v| f2(v.get())).collect();
                let inter = match (t.intermediate_start(), t.intermediate_end()) {
                    (Some(s), Some(e)) => S::list([
                        S::list(s.values().iter().map(|v| f2(v.get()))),
                        S::list(e.values().iter().map(|v| f2(v.get()))),
                    ]),
                    _ => S::atom("none"),
                };
                let all = t.has_deltas_for_all_points();
                let deltas: Vec<_> = t.deltas().collect();
                tuples.push(S::list([
                    S::list(peak), inter, S::bool(all),
                    S::list(deltas.iter().map(|d| S::list([S::usize(d.position as usize), S::int(d.x_delta), S::int(d.y_delta)]))),
                ]));
            }
        }
        out.push(S::list(tuples));
    }
    Some(S::k1("gvar", S::list(out)))
}

pub fn dump_ivs(ivs: &ItemVariationStore) -> S {
    let regions = ivs.variation_region_list().ok();
    let reg = regions.map(|r| {
        S::list(r.variation_regions().iter().filter_map(|x| x.ok()).map(|r| {
            S::list(r.region_axes().iter().map(|a| S::list([f2(a.start_coord()), f2(a.peak_coord()), f2(a.end_coord())])))
        }))
    }).unwrap_or(S::list([]));
    let data = S::list(ivs.item_variation_data().iter().map(|d| match d {
        Some(Ok(d)) => {
            let idx = S::list(d.region_indexes().iter().map(|i| S::usize(i.get() as usize)));
            let rows = S::list((0..d.item_count()).map(|i| S::list(d.delta_set(i).map(S::int))));
            S::list([idx, rows])
        }
        _ => S::atom("none"),
    }));
    S::list([S::k1("regions", reg), S::k1("data", data)])
}

fn dump_map(map: Option<Result<DeltaSetIndexMap, write_fonts::read::ReadError>>, n: u32) -> S {
    match map {
        Some(Ok(m)) => S::list((0..n).map(|i| {
            let ix = m.get(i).unwrap();
            S::list([S::usize(ix.outer as usize), S::usize(ix.inner as usize)])
        })),
        _ => S::atom("none"),
    }
}

pub fn dump_metrics(font: &FontRef) -> Vec<S> {
    let mut out = vec![];
    let n = font.maxp().map(|m| m.num_glyphs()).unwrap_or(0);
    if let Ok(hmtx) = font.hmtx() {
        out.push(S::k1("hmtx", S::list((0..n).map(|g| {
            let gid = GlyphId::new(g as u32);
            S::list([S::usize(hmtx.advance(gid).unwrap_or(0) as usize), S::int(hmtx.side_bearing(gid).unwrap_or(0))])
        }))));
    }
    if let Ok(vmtx) = font.vmtx() {
        out.push(S::k1("vmtx", S::list((0..n).map(|g| {
            let gid = GlyphId::new(g as u32);
            S::list([S::usize(vmtx.advance(gid).unwrap_or(0) as usize), S::int(vmtx.side_bearing(gid).unwrap_or(0))])
        }))));
    }
    if let Ok(hvar) = font.hvar() {
        if let Ok(ivs) = hvar.item_variation_store() {
            out.push(S::kv("HVAR", [dump_ivs(&ivs), S::k1("map", dump_map(hvar.advance_width_mapping(), n as u32))]));
        }
    }
    if let Ok(vvar) = font.vvar() {
        if let Ok(ivs) = vvar.item_variation_store() {
            out.push(S::kv("VVAR", [dump_ivs(&ivs), S::k1("map", dump_map(vvar.advance_height_mapping(), n as u32))]));
        }
    }
    if let Ok(mvar) = font.mvar() {
        if let Some(Ok(ivs)) = mvar.item_variation_store() {
            let recs = S::list(mvar.value_records().iter().map(|r| {
                S::list([S::str(&r.value_tag().to_string()), S::usize(r.delta_set_outer_index() as usize), S::usize(r.delta_set_inner_index() as usize)])
            }));
            out.push(S::kv("MVAR", [dump_ivs(&ivs), S::k1("records", recs)]));
        }
    }
    out
}

pub fn dump_axes(font: &FontRef) -> Vec<S> {
    let mut out = vec![];
    if let Ok(fvar) = font.fvar() {
        if let Ok(axes) = fvar.axes() {
            out.push(S::k1("fvar", S::list(axes.iter().map(|a| {
                S::list([S::str(&a.axis_tag().to_string()), S::f64(a.min_value().to_f64()), S::f64(a.default_value().to_f64()),
                         S::f64(a.max_value().to_f64()), S::usize(a.axis_name_id().to_u16() as usize), S::usize(a.flags() as usize)])
            }))));
        }
        if let Ok(insts) = fvar.instances() {
            out.push(S::k1("instances", S::list(insts.iter().filter_map(|i| i.ok()).map(|i| {
                S::list([
                    S::usize(i.subfamily_name_id.to_u16() as usize),
                    S::opt(i.post_script_name_id.map(|x| S::usize(x.to_u16() as usize))),
                    S::list(i.coordinates.iter().map(|c| S::f64(c.get().to_f64()))),
                ])
            }))));
        }
    }
    if let Ok(avar) = font.avar() {
        out.push(S::k1("avar", S::list(avar.axis_segment_maps().iter().filter_map(|m| m.ok()).map(|m| {
            S::list(m.axis_value_maps().iter().map(|v| S::list([f2(v.from_coordinate()), f2(v.to_coordinate())])))
        }))));
    }
    out
}

pub fn dump_basic(font: &FontRef) -> Vec<S> {
    let mut out = vec![];
    out.push(S::k1("names", S::list(names(font).iter().map(|n| S::str(n)))));
    if let Ok(m) = font.maxp() {
        out.push(S::k1("maxp", S::list([
            S::usize(m.num_glyphs() as usize), S::usize(m.max_points().unwrap_or(0) as usize), S::usize(m.max_contours().unwrap_or(0) as usize),
            S::usize(m.max_composite_points().unwrap_or(0) as usize), S::usize(m.max_composite_contours().unwrap_or(0) as usize),
            S::usize(m.max_component_elements().unwrap_or(0) as usize), S::usize(m.max_component_depth().unwrap_or(0) as usize),
        ])));
    }
    if let Ok(h) = font.head() {
        out.push(S::k1("head", S::list([
            S::usize(h.units_per_em() as usize), S::int(h.x_min()), S::int(h.y_min()), S::int(h.x_max()), S::int(h.y_max()),
            S::int(h.index_to_loc_format()), S::usize(h.mac_style().bits() as usize), S::usize(h.flags().bits() as usize),
        ])));
    }
    if let Ok(h) = font.hhea() {
        out.push(S::k1("hhea", S::list([
            S::int(h.ascender().to_i16()), S::int(h.descender().to_i16()), S::int(h.line_gap().to_i16()),
            S::usize(h.advance_width_max().to_u16() as usize), S::int(h.min_left_side_bearing().to_i16()),
            S::int(h.min_right_side_bearing().to_i16()), S::int(h.x_max_extent().to_i16()),
            S::int(h.caret_slope_rise()), S::int(h.caret_slope_run()), S::int(h.caret_offset()),
            S::usize(h.number_of_h_metrics() as usize),
        ])));
    }
    if let Ok(c) = font.cmap() {
        let mut pairs: Vec<(u32, u32)> = vec![];
        for rec in c.encoding_records() {
            if let Ok(sub) = rec.subtable(c.offset_data()) {
                use write_fonts::read::tables::cmap::CmapSubtable;
                match sub {
                    CmapSubtable::Format4(t) => pairs.extend(t.iter().map(|(cp, g)| (cp, g.to_u32()))),
                    CmapSubtable::Format12(t) => pairs.extend(t.iter().map(|(cp, g)| (cp, g.to_u32()))),
                    _ => {}
                }
            }
        }
        pairs.sort();
        pairs.dedup();
        out.push(S::k1("cmap", S::list(pairs.iter().map(|(c, g)| S::list([S::usize(*c as usize), S::usize(*g as usize)])))));
    }
    out
}

pub fn dump_os2_post(font: &FontRef) -> Vec<S> {
    let mut out = vec![];
    if let Ok(o) = font.os2() {
        out.push(S::k1("OS2", S::list([
            S::k1("xAvgCharWidth", S::int(o.x_avg_char_width())),
            S::k1("usWeightClass", S::usize(o.us_weight_class() as usize)),
            S::k1("usWidthClass", S::usize(o.us_width_class() as usize)),
            S::k1("sTypoAscender", S::int(o.s_typo_ascender())),
            S::k1("sTypoDescender", S::int(o.s_typo_descender())),
            S::k1("sTypoLineGap", S::int(o.s_typo_line_gap())),
            S::k1("usWinAscent", S::usize(o.us_win_ascent() as usize)),
            S::k1("usWinDescent", S::usize(o.us_win_descent() as usize)),
            S::k1("sxHeight", S::opt(o.sx_height().map(S::int))),
            S::k1("sCapHeight", S::opt(o.s_cap_height().map(S::int))),
            S::k1("ySubscriptXSize", S::int(o.y_subscript_x_size())),
            S::k1("ySubscriptYSize", S::int(o.y_subscript_y_size())),
            S::k1("ySubscriptXOffset", S::int(o.y_subscript_x_offset())),
            S::k1("ySubscriptYOffset", S::int(o.y_subscript_y_offset())),
            S::k1("ySuperscriptXSize", S::int(o.y_superscript_x_size())),
            S::k1("ySuperscriptYSize", S::int(o.y_superscript_y_size())),
            S::k1("ySuperscriptXOffset", S::int(o.y_superscript_x_offset())),
            S::k1("ySuperscriptYOffset", S::int(o.y_superscript_y_offset())),
            S::k1("yStrikeoutSize", S::int(o.y_strikeout_size())),
            S::k1("yStrikeoutPosition", S::int(o.y_strikeout_position())),
            S::k1("usFirstCharIndex", S::usize(o.us_first_char_index() as usize)),
            S::k1("usLastCharIndex", S::usize(o.us_last_char_index() as usize)),
            S::k1("usMaxContext", S::opt(o.us_max_context().map(|x| S::usize(x as usize)))),
            S::k1("fsSelection", S::usize(o.fs_selection().bits() as usize)),
            S::k1("ulUnicodeRange", S::list([S::usize(o.ul_unicode_range_1() as usize), S::usize(o.ul_unicode_range_2() as usize), S::usize(o.ul_unicode_range_3() as usize), S::usize(o.ul_unicode_range_4() as usize)])),
            S::k1("ulCodePageRange", S::list([S::opt(o.ul_code_page_range_1().map(|x| S::usize(x as usize))), S::opt(o.ul_code_page_range_2().map(|x| S::usize(x as usize)))])),
        ])));
    }
    if let Ok(p) = font.post() {
        out.push(S::k1("post", S::list([
            S::k1("underlinePosition", S::int(p.underline_position().to_i16())),
            S::k1("underlineThickness", S::int(p.underline_thickness().to_i16())),
            S::k1("italicAngle", S::f64(p.italic_angle().to_f64())),
            S::k1("isFixedPitch", S::usize(p.is_fixed_pitch() as usize)),
        ])));
    }
    if let Ok(n) = font.name() {
        let mut recs = vec![];
        for r in n.name_record() {
            let s = r.string(n.string_data()).map(|s| s.chars().collect::<String>()).unwrap_or_default();
            recs.push(S::list([S::usize(r.name_id().to_u16() as usize), S::usize(r.platform_id() as usize), S::usize(r.encoding_id() as usize), S::usize(r.language_id() as usize), S::str(&s)]));
        }
        out.push(S::k1("name", S::list(recs)));
    }
    out
}

/// Everything above, as one `(font …)` field.
pub fn dump_all(bytes: &[u8]) -> S {
    match FontRef::new(bytes) {
        Err(e) => S::kv("font", [S::k1("unreadable", S::str(&format!("{e}")))]),
        Ok(font) => {
            let mut f = dump_basic(&font);
            f.extend(dump_glyf(&font));
            f.extend(dump_gvar(&font));
            f.extend(dump_metrics(&font));
            f.extend(dump_axes(&font));
            f.extend(dump_os2_post(&font));
            S::kv("font", f)
        }
    }
}
