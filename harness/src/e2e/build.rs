//! Compile a source with the real fontc library entry point, in-process.
use std::path::Path;

#[derive(Clone, Debug, Default)]
pub struct BuildOpts {
    /// complete flag bits (None = Flags::default(), the CLI default)
    pub flags: Option<u32>,
    pub flags_off: u32,
    pub skip_features: bool,
    pub ir_dir: Option<std::path::PathBuf>,
}

/// Ok(font bytes) | Err(short error word + message)
pub fn compile(path: &Path, o: &BuildOpts) -> Result<Vec<u8>, String> {
    let path = path.to_path_buf();
    let o = o.clone();
    let r = std::panic::catch_unwind(move || {
        let input = fontc::Input::new(&path).map_err(|e| format!("input:{e}"))?;
        let source = input.create_source().map_err(|e| format!("source:{e}"))?;
        let mut options = fontc::Options::default();
        options.flags = o.flags.map(fontir::orchestration::Flags::from_bits_truncate).unwrap_or_default();
        options.flags_to_disable = fontir::orchestration::Flags::from_bits_truncate(o.flags_off).into();
        options.skip_features = o.skip_features;
        options.ir_dir = o.ir_dir.clone();
        fontc::generate_font(source, options).map_err(|e| format!("build:{e}"))
    });
    match r {
        Ok(x) => x,
        Err(e) => {
            let msg = e.downcast_ref::<String>().cloned().or_else(|| e.downcast_ref::<&str>().map(|s| s.to_string())).unwrap_or_default();
            Err(format!("panic:{msg}"))
        }
    }
}

pub fn tmpdir(tag: &str) -> tempfile::TempDir {
    let base = std::path::Path::new("/verif/build/tmp");
    std::fs::create_dir_all(base).unwrap();
    tempfile::Builder::new().prefix(tag).tempdir_in(base).unwrap()
}
