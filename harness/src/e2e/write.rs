//! Write a `Design` as UFO3 sources + a .designspace document (hand-written XML: independent of norad's writer).
use super::design::*;
use std::fmt::Write as _;
use std::fs;
use std::path::{Path, PathBuf};

const PLIST_HEAD: &str = "<?xml version=\"1.0\" encoding=\"UTF-8\"?>\n<!DOCTYPE plist PUBLIC \"-//Apple//DTD PLIST 1.0//EN\" \"http://www.apple.com/DTDs/PropertyList-1.0.dtd\">\n<plist version=\"1.0\">\n";

pub fn xml_escape(s: &str) -> String {
    s.replace('&', "&amp;").replace('<', "&lt;").replace('>', "&gt;").replace('"', "&quot;")
}

pub fn num(v: f64) -> String {
    if v.fract() == 0.0 && v.abs() < 1e15 { format!("{}", v as i64) } else { format!("{v}") }
}

fn plist_num(v: f64) -> String {
    if v.fract() == 0.0 { format!("<integer>{}</integer>", v as i64) } else { format!("<real>{v}</real>") }
}

pub fn glif(name: &str, g: &GlyphDef, cps: &[u32]) -> String {
    let mut s = String::new();
    writeln!(s, "<?xml version=\"1.0\" encoding=\"UTF-8\"?>\n<glyph name=\"{}\" format=\"2\">", xml_escape(name)).unwrap();
    match g.height {
        Some(h) => writeln!(s, "  <advance width=\"{}\" height=\"{}\"/>", num(g.advance), num(h)).unwrap(),
        None => writeln!(s, "  <advance width=\"{}\"/>", num(g.advance)).unwrap(),
    }
    for cp in cps {
        writeln!(s, "  <unicode hex=\"{cp:04X}\"/>").unwrap();
    }
    for (n, x, y) in &g.anchors {
        writeln!(s, "  <anchor name=\"{}\" x=\"{}\" y=\"{}\"/>", xml_escape(n), num(*x), num(*y)).unwrap();
    }
    if !g.contours.is_empty() || !g.components.is_empty() {
        writeln!(s, "  <outline>").unwrap();
        for c in &g.components {
            writeln!(s, "    <component base=\"{}\" xScale=\"{}\" xyScale=\"{}\" yxScale=\"{}\" yScale=\"{}\" xOffset=\"{}\" yOffset=\"{}\"/>",
                xml_escape(&c.base), num(c.t[0]), num(c.t[1]), num(c.t[2]), num(c.t[3]), num(c.t[4]), num(c.t[5])).unwrap();
        }
        for c in &g.contours {
            writeln!(s, "    <contour>").unwrap();
            for p in c {
                let t = match p.typ { PtType::Line => " type=\"line\"", PtType::Off => "", PtType::QCurve => " type=\"qcurve\"", PtType::Curve => " type=\"curve\"" };
                writeln!(s, "      <point x=\"{}\" y=\"{}\"{}/>", num(p.x), num(p.y), t).unwrap();
            }
            writeln!(s, "    </contour>").unwrap();
        }
        writeln!(s, "  </outline>").unwrap();
    }
    writeln!(s, "</glyph>").unwrap();
    s
}

fn write_layer(dir: &Path, glyphs: &std::collections::BTreeMap<String, GlyphDef>, d: &Design) {
    fs::create_dir_all(dir).unwrap();
    let mut contents = String::from(PLIST_HEAD);
    contents.push_str("<dict>\n");
    for (i, (name, g)) in glyphs.iter().enumerate() {
        let file = format!("g{i}.glif");
        let cps = d.codepoints.get(name).cloned().unwrap_or_default();
        fs::write(dir.join(&file), glif(name, g, &cps)).unwrap();
        writeln!(contents, "<key>{}</key><string>{}</string>", xml_escape(name), file).unwrap();
    }
    contents.push_str("</dict>\n</plist>\n");
    fs::write(dir.join("contents.plist"), contents).unwrap();
}

pub fn ufo_name(d: &Design, m: usize) -> String {
    format!("{}-{}.ufo", d.family.replace(' ', ""), d.masters[m].name)
}

fn write_ufo(root: &Path, d: &Design, mi: usize) {
    let m = &d.masters[mi];
    let dir = root.join(ufo_name(d, mi));
    fs::create_dir_all(&dir).unwrap();
    fs::write(dir.join("metainfo.plist"), format!("{PLIST_HEAD}<dict><key>creator</key><string>verif</string><key>formatVersion</key><integer>3</integer></dict>\n</plist>\n")).unwrap();
    let mut info = String::from(PLIST_HEAD);
    write!(info, "<dict>\n<key>familyName</key><string>{}</string>\n<key>styleName</key><string>{}</string>\n<key>unitsPerEm</key><integer>{}</integer>\n",
        xml_escape(&d.family), xml_escape(&m.style), d.upem).unwrap();
    for (k, v) in &m.info {
        writeln!(info, "<key>{k}</key>{}", plist_num(*v)).unwrap();
    }
    info.push_str("</dict>\n</plist>\n");
    fs::write(dir.join("fontinfo.plist"), info).unwrap();
    // layers: default + sparse masters (only in the default master's UFO)
    let mut layers = vec![("public.default".to_string(), "glyphs".to_string())];
    write_layer(&dir.join("glyphs"), &m.glyphs, d);
    if mi == d.default_master {
        for sm in d.masters.iter().filter(|x| x.sparse) {
            let lname = sm.name.clone();
            let ldir = format!("glyphs.{lname}");
            write_layer(&dir.join(&ldir), &sm.glyphs, d);
            layers.push((lname, ldir));
        }
    }
    let mut lc = String::from(PLIST_HEAD);
    lc.push_str("<array>\n");
    for (n, dn) in &layers {
        writeln!(lc, "<array><string>{}</string><string>{}</string></array>", xml_escape(n), xml_escape(dn)).unwrap();
    }
    lc.push_str("</array>\n</plist>\n");
    fs::write(dir.join("layercontents.plist"), lc).unwrap();
    // lib
    let mut lib = String::from(PLIST_HEAD);
    lib.push_str("<dict>\n");
    if let Some(order) = &d.glyph_order {
        lib.push_str("<key>public.glyphOrder</key><array>");
        for g in order { write!(lib, "<string>{}</string>", xml_escape(g)).unwrap(); }
        lib.push_str("</array>\n");
    }
    if !d.skip_export.is_empty() {
        lib.push_str("<key>public.skipExportGlyphs</key><array>");
        for g in &d.skip_export { write!(lib, "<string>{}</string>", xml_escape(g)).unwrap(); }
        lib.push_str("</array>\n");
    }
    if mi == d.default_master {
        for (k, v) in &d.lib_extra { writeln!(lib, "<key>{}</key>{}", xml_escape(k), v).unwrap(); }
    }
    lib.push_str("</dict>\n</plist>\n");
    fs::write(dir.join("lib.plist"), lib).unwrap();
    if !m.kerning.is_empty() {
        let mut k = String::from(PLIST_HEAD);
        k.push_str("<dict>\n");
        let mut firsts: Vec<&String> = m.kerning.iter().map(|x| &x.0).collect();
        firsts.sort(); firsts.dedup();
        for f in firsts {
            writeln!(k, "<key>{}</key><dict>", xml_escape(f)).unwrap();
            for (_, b, v) in m.kerning.iter().filter(|x| &x.0 == f) {
                writeln!(k, "<key>{}</key>{}", xml_escape(b), plist_num(*v)).unwrap();
            }
            k.push_str("</dict>\n");
        }
        k.push_str("</dict>\n</plist>\n");
        fs::write(dir.join("kerning.plist"), k).unwrap();
    }
    if !m.groups.is_empty() {
        let mut g = String::from(PLIST_HEAD);
        g.push_str("<dict>\n");
        for (n, ms) in &m.groups {
            write!(g, "<key>{}</key><array>", xml_escape(n)).unwrap();
            for x in ms { write!(g, "<string>{}</string>", xml_escape(x)).unwrap(); }
            g.push_str("</array>\n");
        }
        g.push_str("</dict>\n</plist>\n");
        fs::write(dir.join("groups.plist"), g).unwrap();
    }
    if mi == d.default_master {
        if let Some(f) = &d.features {
            fs::write(dir.join("features.fea"), f).unwrap();
        }
    }
}

pub fn designspace_xml(d: &Design) -> String {
    let mut s = String::new();
    s.push_str("<?xml version='1.0' encoding='UTF-8'?>\n<designspace format=\"4.1\">\n  <axes>\n");
    for a in &d.axes {
        write!(s, "    <axis tag=\"{}\" name=\"{}\" minimum=\"{}\" maximum=\"{}\" default=\"{}\"", a.tag, xml_escape(&a.name), num(a.min), num(a.max), num(a.default)).unwrap();
        if a.map.is_empty() { s.push_str("/>\n"); } else {
            s.push_str(">\n");
            for (u, dv) in &a.map { writeln!(s, "      <map input=\"{}\" output=\"{}\"/>", num(*u), num(*dv)).unwrap(); }
            s.push_str("    </axis>\n");
        }
    }
    s.push_str("  </axes>\n");
    if !d.rules.is_empty() {
        writeln!(s, "  <rules processing=\"{}\">", if d.rules_processing_last { "last" } else { "first" }).unwrap();
        for r in &d.rules {
            writeln!(s, "    <rule name=\"{}\">", xml_escape(&r.name)).unwrap();
            for cs in &r.condsets {
                s.push_str("      <conditionset>\n");
                for (a, lo, hi) in cs {
                    write!(s, "        <condition name=\"{}\"", xml_escape(&d.axes[*a].name)).unwrap();
                    if let Some(lo) = lo { write!(s, " minimum=\"{}\"", num(*lo)).unwrap(); }
                    if let Some(hi) = hi { write!(s, " maximum=\"{}\"", num(*hi)).unwrap(); }
                    s.push_str("/>\n");
                }
                s.push_str("      </conditionset>\n");
            }
            for (a, b) in &r.subs { writeln!(s, "      <sub name=\"{}\" with=\"{}\"/>", xml_escape(a), xml_escape(b)).unwrap(); }
            s.push_str("    </rule>\n");
        }
        s.push_str("  </rules>\n");
    }
    s.push_str("  <sources>\n");
    for (i, m) in d.masters.iter().enumerate() {
        let file = if m.sparse { ufo_name(d, d.default_master) } else { ufo_name(d, i) };
        write!(s, "    <source filename=\"{}\" name=\"{}\" familyname=\"{}\" stylename=\"{}\"", file, xml_escape(&m.name), xml_escape(&d.family), xml_escape(&m.style)).unwrap();
        if m.sparse { write!(s, " layer=\"{}\"", xml_escape(&m.name)).unwrap(); }
        s.push_str(">\n");
        if i == d.default_master { s.push_str("      <lib copy=\"1\"/><groups copy=\"1\"/><features copy=\"1\"/><info copy=\"1\"/>\n"); }
        s.push_str("      <location>\n");
        for (a, v) in d.axes.iter().zip(&m.loc) {
            writeln!(s, "        <dimension name=\"{}\" xvalue=\"{}\"/>", xml_escape(&a.name), num(*v)).unwrap();
        }
        s.push_str("      </location>\n    </source>\n");
    }
    s.push_str("  </sources>\n");
    if !d.instances.is_empty() {
        s.push_str("  <instances>\n");
        for inst in &d.instances {
            write!(s, "    <instance familyname=\"{}\" stylename=\"{}\" name=\"{} {}\"", xml_escape(&inst.family), xml_escape(&inst.style), xml_escape(&inst.family), xml_escape(&inst.style)).unwrap();
            if let Some(ps) = &inst.postscript { write!(s, " postscriptfontname=\"{}\"", xml_escape(ps)).unwrap(); }
            s.push_str(">\n      <location>\n");
            for (a, v) in d.axes.iter().zip(&inst.loc) {
                writeln!(s, "        <dimension name=\"{}\" xvalue=\"{}\"/>", xml_escape(&a.name), num(*v)).unwrap();
            }
            s.push_str("      </location>\n    </instance>\n");
        }
        s.push_str("  </instances>\n");
    }
    s.push_str("</designspace>\n");
    s
}

/// Writes all UFOs + the designspace under `root`; returns the designspace path.
pub fn write_design(root: &Path, d: &Design) -> PathBuf {
    fs::create_dir_all(root).unwrap();
    for (i, m) in d.masters.iter().enumerate() {
        if !m.sparse { write_ufo(root, d, i); }
    }
    let p = root.join("design.designspace");
    fs::write(&p, designspace_xml(d)).unwrap();
    p
}
