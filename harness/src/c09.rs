//! C09: kerning.
//!  * `c09`    (pure): generated multi-master kerning (divergent groups, exceptions, zero pairs, pairs missing in
//!                     some masters) -> the REAL `build_variable_kern_adjustments` / `lookup_kerning_value`
//!                     (fontbe/src/features/kern.rs, through the `verif_kern` hook) -> emitted classes + pairs.
//!  * `c09e2e` (e2e):  generated designs with kerning.plist/groups.plist per master -> real `fontc::generate_font`
//!                     -> GPOS kern lookups (PairPos 1/2) + GDEF item variation store dumped raw with read-fonts.
use crate::e2e::{build, design, dump, write};
use crate::rng::Rng;
use crate::sexp::S;
use crate::Args;
use fontdrasil::coords::{NormalizedCoord, NormalizedLocation};
use fontdrasil::types::{GlyphName, Tag};
use fontir::ir::{KernGroup, KernSide, KerningInstance, KerningLocations};
use ordered_float::OrderedFloat;
use std::collections::{BTreeMap, BTreeSet, HashMap};
use std::str::FromStr;
use write_fonts::read::tables::gpos::{PairPos, PositionSubtables, ValueRecord};
use write_fonts::read::tables::layout::DeviceOrVariationIndex;
use write_fonts::read::{FontData, FontRef, TableProvider};

// ------------------------------------------------------------------ abstract kerning input

#[derive(Clone, Debug, PartialEq, Eq, PartialOrd, Ord, Hash)]
pub enum KS {
    /// glyph index
    G(usize),
    /// group index (the side is implied by the position in the pair)
    C(usize),
}

#[derive(Clone, Debug, Default)]
pub struct MasterKern {
    /// side-1 groups: (group id, members); only non-empty groups; ids ascending
    pub groups1: Vec<(usize, Vec<usize>)>,
    pub groups2: Vec<(usize, Vec<usize>)>,
    /// unique keys
    pub kerns: Vec<(KS, KS, f64)>,
}

#[derive(Clone, Debug)]
pub struct KernCase {
    pub n: usize,
    pub n1: usize,
    pub n2: usize,
    pub masters: Vec<MasterKern>,
}

fn groups_of(assign: &[Option<usize>], ngroups: usize) -> Vec<(usize, Vec<usize>)> {
    (0..ngroups)
        .map(|gi| (gi, (0..assign.len()).filter(|g| assign[*g] == Some(gi)).collect::<Vec<_>>()))
        .filter(|(_, ms)| !ms.is_empty())
        .collect()
}

fn gen_value(rng: &mut Rng) -> f64 {
    match rng.below(12) {
        0 | 1 => 0.0,
        2 => rng.range(-60, 60) as f64 + 0.5,
        3 => *rng.pick(&[0.25, -0.25, 0.4, -0.5, 0.5]),
        _ => rng.range(-120, 120) as f64,
    }
}

fn gen_side(rng: &mut Rng, n: usize, ngroups: usize, p_group: usize) -> KS {
    if ngroups > 0 && rng.chance(p_group, 10) { KS::C(rng.below(ngroups)) } else { KS::G(rng.below(n)) }
}

/// `keep_dangling`: keep pairs that reference a group with no members in that master (the UFO front end drops them).
pub fn gen_kern(rng: &mut Rng, n: usize, k: usize, keep_dangling: bool) -> KernCase {
    let n1 = rng.below(4);
    let n2 = rng.below(4);
    let base1: Vec<Option<usize>> = (0..n).map(|_| if n1 > 0 && rng.chance(2, 3) { Some(rng.below(n1)) } else { None }).collect();
    let base2: Vec<Option<usize>> = (0..n).map(|_| if n2 > 0 && rng.chance(2, 3) { Some(rng.below(n2)) } else { None }).collect();
    // how much the masters' groups diverge: none / a little / a lot
    let div = *rng.pick(&[0usize, 0, 1, 2, 4]);
    // base keys
    let mut keys: Vec<(KS, KS)> = vec![];
    let nkeys = 1 + rng.below(8);
    let pg = *rng.pick(&[3usize, 5, 7]);
    for _ in 0..nkeys {
        let k1 = gen_side(rng, n, n1, pg);
        let k2 = gen_side(rng, n, n2, pg);
        keys.push((k1.clone(), k2.clone()));
        // exceptions to a class pair
        if let (KS::C(a), KS::C(b)) = (&k1, &k2) {
            let m1: Vec<usize> = (0..n).filter(|g| base1[*g] == Some(*a)).collect();
            let m2: Vec<usize> = (0..n).filter(|g| base2[*g] == Some(*b)).collect();
            if !m1.is_empty() && rng.chance(1, 3) { keys.push((KS::G(*rng.pick(&m1)), k2.clone())); }
            if !m2.is_empty() && rng.chance(1, 3) { keys.push((k1.clone(), KS::G(*rng.pick(&m2)))); }
            if !m1.is_empty() && !m2.is_empty() && rng.chance(1, 3) { keys.push((KS::G(*rng.pick(&m1)), KS::G(*rng.pick(&m2)))); }
        }
    }
    keys.sort();
    keys.dedup();
    let base_vals: Vec<f64> = keys.iter().map(|_| gen_value(rng)).collect();
    let mut masters = vec![];
    for mi in 0..k {
        let mut a1 = base1.clone();
        let mut a2 = base2.clone();
        if mi > 0 || rng.chance(1, 4) {
            for g in 0..n {
                if n1 > 0 && rng.below(10) < div { a1[g] = if rng.chance(1, 3) { None } else { Some(rng.below(n1)) }; }
                if n2 > 0 && rng.below(10) < div { a2[g] = if rng.chance(1, 3) { None } else { Some(rng.below(n2)) }; }
            }
            // a whole group missing from this master
            if div > 0 && n1 > 0 && rng.chance(1, 8) { let gi = rng.below(n1); for a in a1.iter_mut() { if *a == Some(gi) { *a = None; } } }
            if div > 0 && n2 > 0 && rng.chance(1, 8) { let gi = rng.below(n2); for a in a2.iter_mut() { if *a == Some(gi) { *a = None; } } }
        }
        let groups1 = groups_of(&a1, n1);
        let groups2 = groups_of(&a2, n2);
        let mut kerns: BTreeMap<(KS, KS), f64> = BTreeMap::new();
        let empty = rng.chance(1, 8);
        if !empty {
            // some masters kern only a few of the pairs (so that some of their groups are not referenced at all)
            let keep = *rng.pick(&[10usize, 8, 5, 2]);
            for (key, bv) in keys.iter().zip(&base_vals) {
                if rng.below(10) < keep {
                    let v = if rng.chance(1, 2) { *bv } else { gen_value(rng) };
                    kerns.insert(key.clone(), v);
                }
            }
            for _ in 0..rng.below(3) {
                let key = (gen_side(rng, n, n1, pg), gen_side(rng, n, n2, pg));
                kerns.entry(key).or_insert_with(|| gen_value(rng));
            }
        }
        let has = |gs: &Vec<(usize, Vec<usize>)>, s: &KS| match s { KS::G(_) => true, KS::C(c) => gs.iter().any(|(gi, _)| gi == c) };
        let kerns: Vec<(KS, KS, f64)> = kerns.into_iter()
            .filter(|((a, b), _)| keep_dangling || (has(&groups1, a) && has(&groups2, b)))
            .map(|((a, b), v)| (a, b, v)).collect();
        masters.push(MasterKern { groups1, groups2, kerns });
    }
    KernCase { n, n1, n2, masters }
}

fn s_ks(s: &KS) -> S {
    match s { KS::G(g) => S::list([S::atom("g"), S::usize(*g)]), KS::C(c) => S::list([S::atom("c"), S::usize(*c)]) }
}

fn s_groups(gs: &[(usize, Vec<usize>)]) -> S {
    S::list(gs.iter().map(|(gi, ms)| S::list([S::usize(*gi), S::list(ms.iter().map(|m| S::usize(*m)))])))
}

pub fn case_sexp(c: &KernCase) -> Vec<S> {
    vec![
        S::k1("n", S::usize(c.n)),
        S::k1("ngroups", S::list([S::usize(c.n1), S::usize(c.n2)])),
        S::k1("masters", S::list(c.masters.iter().map(|m| S::list([
            S::k1("groups1", s_groups(&m.groups1)),
            S::k1("groups2", s_groups(&m.groups2)),
            S::k1("kerns", S::list(m.kerns.iter().map(|(a, b, v)| S::list([s_ks(a), s_ks(b), S::f64(*v)])))),
        ])))),
    ]
}

// ------------------------------------------------------------------ pure stream

fn gname(i: usize) -> GlyphName { GlyphName::new(design::GLYPH_NAMES[i]) }
// Group names. Scheme A: G0, G1, …; scheme B (every fourth case): names that look like the class names the compiler
// synthesizes when it splits a divergent group (`<group>_<n>`), so that a made-up name can collide with a real one.
// Both lists are in ascending string order: the model numbers groups in name order.
thread_local! { static NAME_SCHEME_B: std::cell::Cell<bool> = const { std::cell::Cell::new(false) }; }
const NAMES_B: [&str; 10] = ["", "_1", "_1_1", "_2", "_2_1", "_3", "_4", "_5", "_6", "_7"];
fn set_name_scheme(case_index: usize) { NAME_SCHEME_B.with(|c| c.set(case_index % 4 == 2)); }
fn gstr(prefix: &str, i: usize) -> String {
    if NAME_SCHEME_B.with(|c| c.get()) && i < NAMES_B.len() { format!("{prefix}{}", NAMES_B[i]) } else { format!("{prefix}{i}") }
}
fn g1name(i: usize) -> KernGroup { KernGroup::Side1(gstr("G", i).into()) }
fn g2name(i: usize) -> KernGroup { KernGroup::Side2(gstr("H", i).into()) }

fn ir_side(s: &KS, first: bool) -> KernSide {
    match s {
        KS::G(g) => KernSide::Glyph(gname(*g)),
        KS::C(c) => KernSide::Group(if first { g1name(*c) } else { g2name(*c) }),
    }
}

const MASTER_COORDS: [f64; 6] = [0.0, 1.0, -1.0, 0.5, -0.5, 0.25];

fn master_loc(i: usize) -> NormalizedLocation {
    let tag = Tag::from_str("wght").unwrap();
    [(tag, NormalizedCoord::new(MASTER_COORDS[i]))].into_iter().collect()
}

fn instance_of(m: &MasterKern, i: usize) -> KerningInstance {
    let mut groups: BTreeMap<KernGroup, BTreeSet<GlyphName>> = BTreeMap::new();
    for (gi, ms) in &m.groups1 { groups.insert(g1name(*gi), ms.iter().map(|g| gname(*g)).collect()); }
    for (gi, ms) in &m.groups2 { groups.insert(g2name(*gi), ms.iter().map(|g| gname(*g)).collect()); }
    let kerns = m.kerns.iter().map(|(a, b, v)| ((ir_side(a, true), ir_side(b, false)), OrderedFloat(*v))).collect();
    KerningInstance { location: master_loc(i), kerns, groups }
}

fn glyph_index(n: &GlyphName) -> usize {
    design::GLYPH_NAMES.iter().position(|x| *x == n.as_str()).unwrap_or(999)
}

fn s_emit_side(s: &KernSide) -> S {
    match s {
        KernSide::Glyph(g) => S::list([S::atom("g"), S::usize(glyph_index(g))]),
        KernSide::Group(KernGroup::Side1(n)) => S::list([S::atom("c"), S::usize(1), S::str(n.as_str())]),
        KernSide::Group(KernGroup::Side2(n)) => S::list([S::atom("c"), S::usize(2), S::str(n.as_str())]),
    }
}

pub fn impl_fields(c: &KernCase) -> S {
    let instances: Vec<KerningInstance> = c.masters.iter().enumerate().map(|(i, m)| instance_of(m, i)).collect();
    let locs = KerningLocations { locations: instances.iter().map(|i| i.location.clone()).collect() };
    let by_pos: HashMap<NormalizedLocation, KerningInstance> = instances.iter().map(|i| (i.location.clone(), i.clone())).collect();
    let (classes, adjustments) = fontbe::features::verif_kern::build_variable_kern_adjustments(&locs, &by_pos);
    let classes_s = S::list(classes.iter().map(|(name, members)| {
        let (side, n) = match name { KernGroup::Side1(n) => (1, n), KernGroup::Side2(n) => (2, n) };
        S::list([S::usize(side), S::str(n.as_str()), S::list(members.iter().map(|m| S::usize(glyph_index(m))))])
    }));
    let adj_s = S::list(adjustments.iter().map(|((a, b), vals)| {
        // values in master order; a location missing from the map is reported as `none`
        let vs = S::list(instances.iter().map(|i| S::opt(vals.get(&i.location).map(|v| S::f64(v.0)))));
        S::list([s_emit_side(a), s_emit_side(b), vs, S::usize(vals.len())])
    }));
    // lookup_kerning_value on every (side1, side2) combination of glyphs and group ids, per master
    let mut sides1: Vec<KS> = (0..c.n).map(KS::G).collect();
    sides1.extend((0..c.n1).map(KS::C));
    let mut sides2: Vec<KS> = (0..c.n).map(KS::G).collect();
    sides2.extend((0..c.n2).map(KS::C));
    let lookups = S::list(instances.iter().map(|inst| {
        // as KernSource::new: later groups (in BTreeMap order) overwrite earlier ones
        let mut m1: HashMap<&GlyphName, &KernGroup> = HashMap::new();
        let mut m2: HashMap<&GlyphName, &KernGroup> = HashMap::new();
        for (g, ms) in &inst.groups {
            let map = match g { KernGroup::Side1(_) => &mut m1, KernGroup::Side2(_) => &mut m2 };
            for m in ms { map.insert(m, g); }
        }
        S::list(sides1.iter().flat_map(|a| sides2.iter().map(move |b| (a, b))).map(|(a, b)| {
            let pair = (ir_side(a, true), ir_side(b, false));
            S::f64(fontbe::features::verif_kern::lookup_kerning_value(&pair, &inst.kerns, &m1, &m2).0)
        }))
    }));
    S::kv("impl", [S::k1("classes", classes_s), S::k1("adjustments", adj_s), S::k1("lookups", lookups)])
}

pub fn run(args: &Args) {
    let seed = args.seed;
    crate::run_cases("c09", args, move |i| {
        let mut rng = Rng::for_case(seed, "c09", i);
        set_name_scheme(i);
        let n = 3 + rng.below(6);
        let k = 1 + rng.below(4);
        let case = gen_kern(&mut rng, n, k, false);
        let mut f = case_sexp(&case);
        f.push(impl_fields(&case));
        f
    });
}

// ------------------------------------------------------------------ GPOS kern dump (raw, read-fonts)

/// (xAdvance, variation index | none, other-fields-present)
fn s_value(v1: &ValueRecord, v2: &ValueRecord, data: FontData) -> S {
    let xadv = v1.x_advance().unwrap_or(0);
    let var = match v1.x_advance_device(data) {
        Some(Ok(DeviceOrVariationIndex::VariationIndex(vi))) => {
            S::list([S::usize(vi.delta_set_outer_index() as usize), S::usize(vi.delta_set_inner_index() as usize)])
        }
        Some(Ok(DeviceOrVariationIndex::Device(_))) => S::atom("device"),
        Some(Err(_)) => S::atom("bad"),
        None => S::atom("none"),
    };
    let nz = |o: Option<i16>| o.map(|v| v != 0).unwrap_or(false);
    let other = nz(v1.x_placement()) || nz(v1.y_placement()) || nz(v1.y_advance())
        || v1.x_placement_device(data).is_some() || v1.y_placement_device(data).is_some() || v1.y_advance_device(data).is_some()
        || nz(v2.x_placement()) || nz(v2.y_placement()) || nz(v2.x_advance()) || nz(v2.y_advance())
        || v2.x_placement_device(data).is_some() || v2.y_placement_device(data).is_some()
        || v2.x_advance_device(data).is_some() || v2.y_advance_device(data).is_some();
    S::list([S::int(xadv), var, S::bool(other)])
}

fn dump_pairpos(st: &PairPos) -> Option<S> {
    Some(match st {
        PairPos::Format1(t) => {
            let cov = t.coverage().ok()?;
            let sets = t.pair_sets().iter().map(|ps| {
                match ps {
                    Ok(ps) => S::list(ps.pair_value_records().iter().filter_map(|r| r.ok()).map(|r| {
                        S::list([S::usize(r.second_glyph().to_u16() as usize), s_value(r.value_record1(), r.value_record2(), ps.offset_data())])
                    })),
                    Err(_) => S::atom("bad"),
                }
            });
            S::list([S::atom("f1"), S::list(cov.iter().map(|g| S::usize(g.to_u16() as usize))), S::list(sets)])
        }
        PairPos::Format2(t) => {
            let cov = t.coverage().ok()?;
            let cd1 = t.class_def1().ok()?;
            let cd2 = t.class_def2().ok()?;
            let recs = t.class1_records().iter().filter_map(|r| r.ok()).map(|c1| {
                S::list(c1.class2_records().iter().filter_map(|r| r.ok()).map(|c2| s_value(c2.value_record1(), c2.value_record2(), t.offset_data())))
            });
            S::list([
                S::atom("f2"),
                S::list(cov.iter().map(|g| S::usize(g.to_u16() as usize))),
                S::list(cd1.iter().map(|(g, c)| S::list([S::usize(g.to_u16() as usize), S::usize(c as usize)]))),
                S::list(cd2.iter().map(|(g, c)| S::list([S::usize(g.to_u16() as usize), S::usize(c as usize)]))),
                S::list([S::usize(t.class1_count() as usize), S::usize(t.class2_count() as usize)]),
                S::list(recs),
            ])
        }
    })
}

/// `(kern (scripts ((tag (lookup-index…))…)) (lookups ((index flag (subtable…))…)) (ivs …|none))`:
/// per script (default langsys) the lookups of its `kern` feature, in feature order; every referenced lookup raw.
pub fn dump_gpos_kern(font: &FontRef) -> S {
    let mut scripts = vec![];
    let mut used: BTreeSet<u16> = BTreeSet::new();
    let mut lookups = vec![];
    if let Ok(gpos) = font.gpos() {
        if let (Ok(sl), Ok(fl), Ok(ll)) = (gpos.script_list(), gpos.feature_list(), gpos.lookup_list()) {
            for rec in sl.script_records() {
                let Ok(script) = rec.script(sl.offset_data()) else { continue };
                let mut idxs: Vec<u16> = vec![];
                if let Some(Ok(ls)) = script.default_lang_sys() {
                    for fi in ls.feature_indices() {
                        if let Some(fr) = fl.feature_records().get(fi.get() as usize) {
                            if fr.feature_tag() == write_fonts::types::Tag::new(b"kern") {
                                if let Ok(feat) = fr.feature(fl.offset_data()) {
                                    idxs.extend(feat.lookup_list_indices().iter().map(|i| i.get()));
                                }
                            }
                        }
                    }
                }
                // lookups are applied in lookup-list order
                idxs.sort();
                idxs.dedup();
                used.extend(idxs.iter().copied());
                scripts.push(S::list([S::str(&rec.script_tag().to_string()), S::list(idxs.iter().map(|i| S::usize(*i as usize)))]));
            }
            for li in used {
                let Ok(lookup) = ll.lookups().get(li as usize) else { continue };
                let flag = lookup.lookup_flag().to_bits() as usize;
                let subs = match lookup.subtables() {
                    Ok(PositionSubtables::Pair(subs)) => S::list(subs.iter().map(|st| match st {
                        Ok(st) => dump_pairpos(&st).unwrap_or(S::atom("bad")),
                        Err(_) => S::atom("bad"),
                    })),
                    _ => S::atom("notpair"),
                };
                lookups.push(S::list([S::usize(li as usize), S::usize(flag), subs]));
            }
        }
    }
    let ivs = font.gdef().ok().and_then(|g| g.item_var_store()).and_then(|r| r.ok()).map(|ivs| dump::dump_ivs(&ivs));
    S::kv("kern", [S::k1("scripts", S::list(scripts)), S::k1("lookups", S::list(lookups)), S::k1("ivs", S::opt(ivs))])
}

// ------------------------------------------------------------------ e2e stream

fn name_of(s: &KS, first: bool) -> String {
    match s {
        KS::G(g) => design::GLYPH_NAMES[*g].to_string(),
        KS::C(c) => if first { format!("public.kern1.{}", gstr("G", *c)) } else { format!("public.kern2.{}", gstr("H", *c)) },
    }
}

pub fn gen_e2e(rng: &mut Rng) -> design::Design {
    let mut o = design::GenOpts::default();
    o.max_axes = 2;
    o.max_glyphs = 8;
    o.composites = false;
    o.quads = false;
    o.sparse = rng.chance(1, 4);
    let mut d = design::gen_design(rng, &o);
    let names = d.glyph_names();
    let n = names.len();
    // every glyph is encoded with a Latin lowercase letter: one script (Latn), left-to-right, no marks
    for (i, nm) in names.iter().enumerate() {
        d.codepoints.insert(nm.clone(), vec![0x61 + i as u32]);
    }
    let full: Vec<usize> = (0..d.masters.len()).filter(|i| !d.masters[*i].sparse).collect();
    let dangling = rng.chance(1, 6);
    let case = gen_kern(rng, n, full.len(), dangling);
    for (mk, mi) in case.masters.iter().zip(&full) {
        let m = &mut d.masters[*mi];
        m.kerning = mk.kerns.iter().map(|(a, b, v)| (name_of(a, true), name_of(b, false), *v)).collect();
        m.groups = mk.groups1.iter().map(|(gi, ms)| (format!("public.kern1.{}", gstr("G", *gi)), ms.iter().map(|g| design::GLYPH_NAMES[*g].to_string()).collect()))
            .chain(mk.groups2.iter().map(|(gi, ms)| (format!("public.kern2.{}", gstr("H", *gi)), ms.iter().map(|g| design::GLYPH_NAMES[*g].to_string()).collect())))
            .collect();
    }
    d
}

pub fn run_e2e(args: &Args) {
    let seed = args.seed;
    crate::run_cases("c09e2e", args, move |i| {
        let mut rng = Rng::for_case(seed, "c09e2e", i);
        set_name_scheme(i);
        let d = gen_e2e(&mut rng);
        e2e_fields(&d, "c09e2e")
    });
}

// ------------------------------------------------------------------ directed witnesses (run through the e2e path)

fn tri(x: f64) -> Vec<Vec<design::Pt>> {
    use design::{Pt, PtType};
    vec![vec![
        Pt { x, y: 0.0, typ: PtType::Line },
        Pt { x: x + 300.0, y: 0.0, typ: PtType::Line },
        Pt { x: x + 150.0, y: 500.0, typ: PtType::Line },
    ]]
}

/// kind 0: the minimal failing source of FontcProps.C09.reconcile_counterexample (glyphs a,b,c; two masters).
/// kind 1: the same with glyph b listed in two side-2 groups of master 0 (not a valid UFO3: excluded by the property).
pub fn witness_design(kind: usize) -> design::Design {
    use design::{AxisDef, Design, GlyphDef, Master};
    let mut d = Design { family: "Verif Kern Witness".into(), upem: 1000, ..Default::default() };
    d.axes.push(AxisDef { tag: "wght".into(), name: "Weight".into(), min: 400.0, default: 400.0, max: 900.0, map: vec![] });
    let names = ["a", "b", "c"];
    d.glyph_order = Some(names.iter().map(|s| s.to_string()).collect());
    for (i, n) in names.iter().enumerate() {
        d.codepoints.insert(n.to_string(), vec![0x61 + i as u32]);
    }
    let info: Vec<(String, f64)> = vec![("ascender".into(), 800.0), ("descender".into(), -200.0), ("xHeight".into(), 500.0), ("capHeight".into(), 700.0)];
    for (mi, w) in [400.0, 900.0].iter().enumerate() {
        let mut m = Master { name: format!("M{mi}"), style: if mi == 0 { "Regular".into() } else { "Black".into() }, loc: vec![*w], info: info.clone(), ..Default::default() };
        for (gi, n) in names.iter().enumerate() {
            m.glyphs.insert(n.to_string(), GlyphDef { advance: 500.0 + 20.0 * mi as f64, contours: tri(50.0 + 10.0 * gi as f64 + 5.0 * mi as f64), ..Default::default() });
        }
        d.masters.push(m);
    }
    let s = |x: &str| x.to_string();
    d.masters[0].groups = vec![
        (s("public.kern1.G0"), vec![s("a")]),
        (s("public.kern2.H0"), if kind == 1 { vec![s("a"), s("b")] } else { vec![s("a")] }),
        (s("public.kern2.H1"), vec![s("b"), s("c")]),
    ];
    d.masters[0].kerning = vec![
        (s("public.kern1.G0"), s("public.kern2.H0"), 13.0),
        (s("public.kern1.G0"), s("public.kern2.H1"), -115.0),
    ];
    d.masters[1].groups = vec![
        (s("public.kern1.G0"), vec![s("a")]),
        (s("public.kern2.H0"), vec![s("a"), s("b")]),
    ];
    d.masters[1].kerning = vec![(s("c"), s("c"), 1.0)];
    d
}

fn e2e_fields(d: &design::Design, tag: &str) -> Vec<S> {
    let tmp = build::tmpdir(tag);
    let ds = write::write_design(tmp.path(), d);
    let res = build::compile(&ds, &build::BuildOpts::default());
    let mut f = vec![d.to_sexp()];
    match res {
        Ok(bytes) => {
            f.push(S::k1("result", S::atom("ok")));
            match FontRef::new(&bytes) {
                Ok(font) => {
                    f.push(S::k1("names", S::list(dump::names(&font).iter().map(|n| S::str(n)))));
                    f.push(dump_gpos_kern(&font));
                }
                Err(e) => f.push(S::k1("unreadable", S::str(&format!("{e}")))),
            }
        }
        Err(e) => f.push(S::kv("result", [S::atom("err"), S::str(&e)])),
    }
    f
}

pub fn run_witness(args: &Args) {
    crate::run_cases("c09wit", args, move |i| e2e_fields(&witness_design(i % 2), "c09wit"));
}
