//! C19 — values that do not fit the binary format are rejected, never wrapped.
//!
//! Boundary-directed end-to-end stream: a tiny valid design (static, or two masters on one axis) in which ONE
//! numeric field sits at limit-1 / limit / limit+1 / 2*limit (both signs). The design is compiled by the real
//! `fontc::generate_font` in THIS binary's profile (dev: overflow checks on; release: off), the font is dumped,
//! and the same case is compiled by the OTHER profile's harness binary (child process) whose outcome digest is
//! printed on the same line (the other binary is the sibling `target/<other profile>/<same name>`). The Lean oracle (lean/Driver/C19.lean) decides: error, or every source value is
//! found unchanged in the font (decomposition fallback allowed); both profiles agree.
use crate::e2e::{build, design, dump, write};
use crate::rng::Rng;
use crate::sexp::S;
use crate::Args;
use design::{AxisDef, Comp, Design, GlyphDef, Master, Pt, PtType};
use std::hash::{Hash, Hasher};
use write_fonts::read::tables::glyf::Glyph;
use write_fonts::read::tables::gpos::{PairPos, PositionSubtables};
use write_fonts::read::tables::layout::DeviceOrVariationIndex;
use write_fonts::read::{FontRef, TableProvider};
use write_fonts::types::{GlyphId, GlyphId16};

pub const PROFILE: &str = if cfg!(debug_assertions) { "debug" } else { "release" };

pub struct Case {
    pub field: &'static str,
    /// the source value(s) put into the field (one per master for the *delta fields)
    pub vals: Vec<f64>,
    /// sub-selector (x / y, which matrix entry, which fontinfo key …)
    pub sub: String,
    pub design: Design,
    /// heavy cases skip the GPOS/gvar dumps and print a compact design
    pub big: bool,
}

fn line(x: f64, y: f64) -> Pt { Pt { x, y, typ: PtType::Line } }

/// a small triangle whose three points all lie within 100 units of (x, y), on the side towards the origin
fn tri_at(x: f64, y: f64) -> Vec<Pt> {
    let sx = if x > 0.0 { -1.0 } else { 1.0 };
    let sy = if y > 0.0 { -1.0 } else { 1.0 };
    vec![line(x, y), line(x + sx * 100.0, y + sy * 20.0), line(x + sx * 40.0, y + sy * 90.0)]
}

fn info(vertical: bool) -> Vec<(String, f64)> {
    let mut v: Vec<(String, f64)> = vec![("ascender".into(), 800.0), ("descender".into(), -200.0), ("xHeight".into(), 500.0), ("capHeight".into(), 700.0)];
    if vertical {
        for (k, x) in [("openTypeVheaVertTypoAscender", 500.0), ("openTypeVheaVertTypoDescender", -500.0), ("openTypeVheaVertTypoLineGap", 0.0)] {
            v.push((k.to_string(), x));
        }
    }
    v
}

/// glyphs a, b (simple triangles), one or two masters
fn base_design(variable: bool, vertical: bool) -> Design {
    let mut d = Design { family: "Verif Cast".into(), upem: 1000, ..Default::default() };
    if variable {
        d.axes.push(AxisDef { tag: "wght".into(), name: "Weight".into(), min: 400.0, default: 400.0, max: 900.0, map: vec![] });
    }
    let n = if variable { 2 } else { 1 };
    for mi in 0..n {
        let mut m = Master { name: format!("M{mi}"), style: if mi == 0 { "Regular".into() } else { "Black".into() }, info: info(vertical), ..Default::default() };
        if variable { m.loc = vec![if mi == 0 { 400.0 } else { 900.0 }]; }
        let h = if vertical { Some(1000.0) } else { None };
        m.glyphs.insert("a".into(), GlyphDef { advance: 600.0, height: h, contours: vec![tri_at(300.0, 500.0)], ..Default::default() });
        m.glyphs.insert("b".into(), GlyphDef { advance: 500.0, height: h, contours: vec![tri_at(250.0, 400.0)], ..Default::default() });
        d.masters.push(m);
    }
    d.glyph_order = Some(vec!["a".into(), "b".into()]);
    d.codepoints.insert("a".into(), vec![0x61]);
    d.codepoints.insert("b".into(), vec![0x62]);
    d
}

fn add_mark(d: &mut Design) {
    for m in d.masters.iter_mut() {
        let h = m.glyphs["a"].height;
        m.glyphs.insert("acutecomb".into(), GlyphDef { advance: 0.0, height: h, contours: vec![tri_at(-50.0, 700.0)], anchors: vec![("_top".into(), -100.0, 600.0)], ..Default::default() });
    }
    d.glyph_order = Some(vec!["a".into(), "b".into(), "acutecomb".into()]);
    d.codepoints.insert("acutecomb".into(), vec![0x301]);
    d.lib_extra.push(("public.openTypeCategories".into(),
        "<dict><key>a</key><string>base</string><key>b</key><string>base</string><key>acutecomb</key><string>mark</string></dict>".into()));
}

/// directed values around a signed 16-bit limit
const I16_VALS: &[f64] = &[32766.0, 32767.0, 32768.0, 40000.0, 65534.0, 65636.0, -32767.0, -32768.0, -32769.0, -40000.0, -65536.0, -65636.0,
                           32767.4, 32767.5, -32768.5, -32768.6, 100000.0, 1e10, -1e10];
const U16_VALS: &[f64] = &[65534.0, 65535.0, 65536.0, 70000.0, 131070.0, 131172.0, -1.0, -100.0, 65535.4, 65535.5, -0.5, -0.6, 1e10];
/// (master 0, master 1): each within i16, difference at / beyond i16
const DELTA_VALS: &[(f64, f64)] = &[(-16384.0, 16383.0), (-16384.0, 16384.0), (-30000.0, 30000.0), (30000.0, -30000.0), (16384.0, -16384.0),
                                    (16384.0, -16385.0), (-32768.0, 32767.0), (32767.0, -32768.0), (0.0, 32767.0), (-1.0, 32767.0)];
const UDELTA_VALS: &[(f64, f64)] = &[(0.0, 32767.0), (0.0, 32768.0), (0.0, 40000.0), (40000.0, 0.0), (32768.0, 0.0), (32769.0, 0.0), (100.0, 65535.0), (65535.0, 0.0)];
const SCALE_VALS: &[f64] = &[1.9999, 1.99993896484375, 1.99997, 2.0, 2.0000001, 2.5, 4.0, -1.9999, -2.0, -2.0000001, -2.5, 1.5, -1.25, 40.0];

pub const FIELDS: &[&str] = &["coord", "ptdelta", "compoff", "compscale", "advance", "height", "kern", "anchor", "metric",
                              "gvardelta", "hvardelta", "vvardelta", "compoffdelta", "kerndelta", "anchordelta",
                              "tsb", "vextent", "compbbox"];

/// (typo ascender = vertical origin, yMax of glyph a): top side bearing = origin - yMax at / beyond the i16 limits
const TSB_VALS: &[(f64, f64)] = &[(30000.0, -2767.0), (30000.0, -2768.0), (30000.0, -5000.0), (-20000.0, 12768.0), (-20000.0, 12769.0),
                                  (-20000.0, 15000.0), (32767.0, -1.0), (32767.0, 0.0), (20000.0, -20000.0), (-32768.0, 1.0)];
/// yMin of a tall glyph a (yMax = 0, vertical origin 16000, advance height 1000): yMaxExtent = 16000 - yMin, bottom side bearing = -15000 + yMin
const VEXT_VALS: &[f64] = &[-16767.0, -16768.0, -17768.0, -17769.0, -20000.0, -16000.0, -25000.0, -32767.0];
/// x offset of the component (glyph a spans x = 200..300): composite xMin = off + 200, xMax = off + 300
const CBOX_VALS: &[f64] = &[32467.0, 32468.0, 32567.0, 32568.0, 32767.0, -32968.0, -32969.0, -32767.0, 32000.0, -33000.0];

fn pick_val(rng: &mut Rng, j: usize, table: &[f64], limits: &[f64]) -> f64 {
    if j < table.len() { return table[j]; }
    // beyond the directed table: random values hugging a limit or a multiple of it
    let l = *rng.pick(limits);
    let k = *rng.pick(&[1.0, 1.0, 1.0, 2.0, 3.0]);
    let mut v = l * k + rng.range(-3, 3) as f64;
    if rng.chance(1, 6) { v += 0.5; }
    if rng.chance(1, 8) { v -= 0.25; }
    v
}

fn pick_pair(rng: &mut Rng, j: usize, table: &[(f64, f64)], unsigned: bool) -> (f64, f64) {
    if j < table.len() { return table[j]; }
    let d = *rng.pick(&[32767.0, 32768.0, 32769.0, 40000.0, 65535.0, 65536.0]) + rng.range(-2, 2) as f64;
    let lo_min = if unsigned { 0 } else { -32768 };
    let hi_max = if unsigned { 65535 } else { 32767 };
    let a = rng.range(lo_min, (hi_max as f64 - d).max(lo_min as f64) as i64) as f64;
    let b = (a + d).min(hi_max as f64);
    if rng.chance(1, 2) { (a, b) } else { (b, a) }
}

pub fn gen_case(rng: &mut Rng, i: usize) -> Case {
    let field = FIELDS[i % FIELDS.len()];
    let j = i / FIELDS.len();
    let i16_lim = [32767.0, -32768.0];
    let u16_lim = [65535.0, 0.0];
    match field {
        "coord" => {
            let v = pick_val(rng, j / 2, I16_VALS, &i16_lim);
            let on_x = j % 2 == 0;
            let mut d = base_design(false, false);
            let g = d.masters[0].glyphs.get_mut("a").unwrap();
            g.contours = vec![if on_x { tri_at(v, 777.0) } else { tri_at(333.0, v) }];
            Case { field, vals: vec![v], sub: if on_x { "x" } else { "y" }.into(), design: d, big: false }
        }
        "ptdelta" => {
            // two neighbouring points `dist` apart, each representable on its own
            let dist = if j / 2 < 8 { [32767.0, 32768.0, 40000.0, 65535.0, 65536.0, 65537.0, 50000.0, 32769.0][j / 2] }
                       else { *rng.pick(&[32767.0, 32768.0, 65535.0, 65536.0]) + rng.range(-2, 40) as f64 };
            let on_x = j % 2 == 0;
            let lo = -(dist / 2.0).floor();
            let hi = lo + dist;
            let mut d = base_design(false, false);
            let g = d.masters[0].glyphs.get_mut("a").unwrap();
            g.contours = vec![if on_x { vec![line(lo, 0.0), line(hi, 10.0), line(lo + 5.0, 700.0)] }
                              else { vec![line(0.0, lo), line(10.0, hi), line(700.0, lo + 5.0)] }];
            Case { field, vals: vec![lo, hi], sub: if on_x { "x" } else { "y" }.into(), design: d, big: false }
        }
        "compoff" => {
            let v = pick_val(rng, j / 2, I16_VALS, &i16_lim);
            let on_x = j % 2 == 0;
            let mut d = base_design(false, false);
            let g = d.masters[0].glyphs.get_mut("b").unwrap();
            g.contours.clear();
            g.components = vec![Comp { base: "a".into(), t: [1.0, 0.0, 0.0, 1.0, if on_x { v } else { 10.0 }, if on_x { 20.0 } else { v }] }];
            Case { field, vals: vec![v], sub: if on_x { "x" } else { "y" }.into(), design: d, big: false }
        }
        "compscale" => {
            let v = if j / 4 < SCALE_VALS.len() { SCALE_VALS[j / 4] } else {
                let s = if rng.chance(1, 2) { 1.0 } else { -1.0 };
                s * (2.0 + (rng.range(-4, 4) as f64) / 16384.0 / *rng.pick(&[1.0, 2.0, 4.0]))
            };
            let k = j % 4;
            let mut t = [1.0, 0.0, 0.0, 1.0, 30.0, 40.0];
            t[k] = v;
            let mut d = base_design(false, false);
            let g = d.masters[0].glyphs.get_mut("b").unwrap();
            g.contours.clear();
            g.components = vec![Comp { base: "a".into(), t }];
            Case { field, vals: vec![v], sub: ["xx", "xy", "yx", "yy"][k].into(), design: d, big: false }
        }
        "advance" | "height" => {
            let v = pick_val(rng, j, U16_VALS, &u16_lim);
            let vertical = field == "height";
            let mut d = base_design(false, vertical);
            let g = d.masters[0].glyphs.get_mut("a").unwrap();
            if vertical { g.height = Some(v); } else { g.advance = v; }
            Case { field, vals: vec![v], sub: String::new(), design: d, big: false }
        }
        "kern" => {
            let v = pick_val(rng, j, I16_VALS, &i16_lim);
            let mut d = base_design(false, false);
            d.masters[0].kerning = vec![("a".into(), "b".into(), v)];
            Case { field, vals: vec![v], sub: String::new(), design: d, big: false }
        }
        "anchor" => {
            let v = pick_val(rng, j / 2, I16_VALS, &i16_lim);
            let on_x = j % 2 == 0;
            let mut d = base_design(false, false);
            add_mark(&mut d);
            d.masters[0].glyphs.get_mut("a").unwrap().anchors = vec![("top".into(), if on_x { v } else { 300.0 }, if on_x { 700.0 } else { v })];
            Case { field, vals: vec![v], sub: if on_x { "x" } else { "y" }.into(), design: d, big: false }
        }
        "metric" => {
            // fontinfo numbers with a signed / unsigned 16-bit target field
            const KEYS: &[(&str, bool)] = &[("openTypeOS2TypoAscender", true), ("openTypeHheaAscender", true), ("openTypeOS2WinAscent", false),
                                           ("openTypeHheaDescender", true), ("postscriptUnderlinePosition", true), ("openTypeOS2WinDescent", false)];
            // the first cases walk over (key, limit, limit+1) directly; afterwards every key meets every directed value
            const FIRST: &[(usize, f64)] = &[(0, 32767.0), (0, 32768.0), (2, 65535.0), (2, 65536.0), (1, 32768.0), (3, -32769.0),
                                             (4, -32769.0), (5, 70000.0), (0, 40000.0), (1, -32768.0), (4, 32767.0), (5, -1.0)];
            let (key, signed, v) = if j < FIRST.len() {
                let (k, v) = FIRST[j];
                (KEYS[k].0, KEYS[k].1, v)
            } else {
                let (key, signed) = KEYS[j % KEYS.len()];
                let v = if signed { pick_val(rng, j / KEYS.len(), I16_VALS, &i16_lim) } else { pick_val(rng, j / KEYS.len(), U16_VALS, &u16_lim) };
                (key, signed, v)
            };
            let _ = signed;
            let mut d = base_design(false, false);
            d.masters[0].info.push((key.to_string(), v));
            Case { field, vals: vec![v], sub: key.into(), design: d, big: false }
        }
        "gvardelta" => {
            let (v0, v1) = pick_pair(rng, j / 2, DELTA_VALS, false);
            let on_x = j % 2 == 0;
            let mut d = base_design(true, false);
            // only the probe point moves between the masters; its two neighbours sit next to the default master's
            // position (so the default outline has no large point-to-point difference) and do not vary
            let t0 = if on_x { tri_at(v0, 777.0) } else { tri_at(333.0, v0) };
            for (mi, v) in [v0, v1].into_iter().enumerate() {
                let g = d.masters[mi].glyphs.get_mut("a").unwrap();
                let p = if on_x { line(v, 777.0) } else { line(333.0, v) };
                g.contours = vec![vec![p, t0[1].clone(), t0[2].clone()]];
            }
            Case { field, vals: vec![v0, v1], sub: if on_x { "x" } else { "y" }.into(), design: d, big: false }
        }
        "hvardelta" | "vvardelta" => {
            let (v0, v1) = pick_pair(rng, j, UDELTA_VALS, true);
            let vertical = field == "vvardelta";
            let mut d = base_design(true, vertical);
            for (mi, v) in [v0, v1].into_iter().enumerate() {
                let g = d.masters[mi].glyphs.get_mut("a").unwrap();
                if vertical { g.height = Some(v); } else { g.advance = v; }
            }
            Case { field, vals: vec![v0, v1], sub: String::new(), design: d, big: false }
        }
        "compoffdelta" => {
            let (v0, v1) = pick_pair(rng, j / 2, DELTA_VALS, false);
            let on_x = j % 2 == 0;
            let mut d = base_design(true, false);
            for (mi, v) in [v0, v1].into_iter().enumerate() {
                let g = d.masters[mi].glyphs.get_mut("b").unwrap();
                g.contours.clear();
                g.components = vec![Comp { base: "a".into(), t: [1.0, 0.0, 0.0, 1.0, if on_x { v } else { 10.0 }, if on_x { 20.0 } else { v }] }];
            }
            Case { field, vals: vec![v0, v1], sub: if on_x { "x" } else { "y" }.into(), design: d, big: false }
        }
        "kerndelta" => {
            let (v0, v1) = pick_pair(rng, j, DELTA_VALS, false);
            let mut d = base_design(true, false);
            d.masters[0].kerning = vec![("a".into(), "b".into(), v0)];
            d.masters[1].kerning = vec![("a".into(), "b".into(), v1)];
            Case { field, vals: vec![v0, v1], sub: String::new(), design: d, big: false }
        }
        "tsb" => {
            let (vorg, ymax) = if j < TSB_VALS.len() { TSB_VALS[j] } else {
                let vorg = rng.range(-32768, 32767) as f64;
                let t = *rng.pick(&[32767.0, 32768.0, -32768.0, -32769.0, 40000.0, -40000.0]) + rng.range(-2, 2) as f64;
                (vorg, (vorg - t).clamp(-32600.0, 32600.0))
            };
            let mut d = base_design(false, true);
            d.masters[0].info.push(("openTypeOS2TypoAscender".to_string(), vorg));
            // a triangle whose highest point is at ymax
            d.masters[0].glyphs.get_mut("a").unwrap().contours = vec![vec![line(300.0, ymax), line(200.0, ymax - 20.0), line(260.0, ymax - 90.0)]];
            Case { field, vals: vec![vorg, ymax], sub: String::new(), design: d, big: false }
        }
        "vextent" => {
            let ymin = if j < VEXT_VALS.len() { VEXT_VALS[j] } else { -(rng.range(15000, 32767) as f64) };
            let mut d = base_design(false, true);
            d.masters[0].info.push(("openTypeOS2TypoAscender".to_string(), 16000.0));
            d.masters[0].glyphs.get_mut("a").unwrap().contours = vec![vec![line(300.0, ymin), line(400.0, ymin + 50.0), line(350.0, 0.0)]];
            Case { field, vals: vec![ymin], sub: String::new(), design: d, big: false }
        }
        "compbbox" => {
            let off = if j < CBOX_VALS.len() { CBOX_VALS[j] } else {
                let s = if rng.chance(1, 2) { 1.0 } else { -1.0 };
                s * (32767.0 - rng.range(0, 420) as f64)
            };
            let mut d = base_design(false, false);
            let g = d.masters[0].glyphs.get_mut("b").unwrap();
            g.contours.clear();
            g.components = vec![Comp { base: "a".into(), t: [1.0, 0.0, 0.0, 1.0, off, 0.0] }];
            Case { field, vals: vec![off], sub: String::new(), design: d, big: false }
        }
        _ => {
            // anchordelta
            let (v0, v1) = pick_pair(rng, j / 2, DELTA_VALS, false);
            let on_x = j % 2 == 0;
            let mut d = base_design(true, false);
            add_mark(&mut d);
            for (mi, v) in [v0, v1].into_iter().enumerate() {
                d.masters[mi].glyphs.get_mut("a").unwrap().anchors = vec![("top".into(), if on_x { v } else { 300.0 }, if on_x { 700.0 } else { v })];
            }
            Case { field: "anchordelta", vals: vec![v0, v1], sub: if on_x { "x" } else { "y" }.into(), design: d, big: false }
        }
    }
}

// ------------------------------------------------------------------ heavy cases (counts)

/// polygon with `n` distinct on-curve points, no three consecutive collinear (zig-zag on two rows)
fn poly(n: usize, x0: f64, y0: f64) -> Vec<Pt> {
    // lower row left-to-right (even heights wobble so no point is implied/collinear), then one far top point
    let mut pts = Vec::with_capacity(n);
    for k in 0..n.saturating_sub(1) {
        pts.push(line(x0 + (k / 2) as f64, y0 + if k % 2 == 0 { 0.0 } else { 7.0 } + ((k / 2) % 2) as f64));
    }
    pts.push(line(x0, y0 + 500.0));
    pts
}

pub const BIG: &[(&str, usize)] = &[
    ("numpoints", 65535), ("numpoints", 65536), ("comptotal", 30000), ("comptotal", 32768), ("comptotal", 40000),
    ("numcontours", 32766), ("numcontours", 32767), ("numpoints", 65537), ("numcomponents", 21845), ("numcomponents", 21846),
    ("numcomponents", 65535), ("numcomponents", 65536),
    // ~10 minutes each in a debug build: not part of any tier, run by hand (`vharness c19big --from 12 --n 2`)
    ("glyphcount", 65535), ("glyphcount", 65536),
];

pub fn gen_big(_rng: &mut Rng, i: usize) -> Case {
    let (field, n) = BIG[i % BIG.len()];
    let mut d = base_design(false, false);
    match field {
        "numpoints" => {
            let g = d.masters[0].glyphs.get_mut("a").unwrap();
            // points stay inside i16: x up to n/2 ≈ 32768 → start at -20000
            g.contours = vec![poly(n, -20000.0, 0.0)];
        }
        "comptotal" => {
            let g = d.masters[0].glyphs.get_mut("a").unwrap();
            g.contours = vec![poly(n, -10000.0, 0.0)];
            let b = d.masters[0].glyphs.get_mut("b").unwrap();
            b.contours.clear();
            b.components = vec![Comp { base: "a".into(), t: [1.0, 0.0, 0.0, 1.0, 0.0, 0.0] }, Comp { base: "a".into(), t: [1.0, 0.0, 0.0, 1.0, 0.0, 1000.0] }];
        }
        "numcontours" => {
            let g = d.masters[0].glyphs.get_mut("a").unwrap();
            g.contours = (0..n).map(|k| {
                let x = (k % 200) as f64 * 10.0; let y = (k / 200) as f64 * 10.0;
                vec![line(x, y), line(x + 5.0, y + 5.0)]
            }).collect();
        }
        "numcomponents" => {
            let b = d.masters[0].glyphs.get_mut("b").unwrap();
            b.contours.clear();
            b.components = (0..n).map(|k| Comp { base: "a".into(), t: [1.0, 0.0, 0.0, 1.0, (k % 256) as f64, (k / 256) as f64] }).collect();
        }
        _ => {
            // glyphcount: n glyphs in total, including the .notdef fontc adds
            let mut order = vec!["a".to_string(), "b".to_string()];
            for k in 0..n.saturating_sub(3) {
                let name = format!("g{k:05}");
                d.masters[0].glyphs.insert(name.clone(), GlyphDef { advance: 100.0 + (k % 7) as f64, ..Default::default() });
                order.push(name);
            }
            d.glyph_order = Some(order);
        }
    }
    Case { field, vals: vec![n as f64], sub: String::new(), design: d, big: true }
}

// ------------------------------------------------------------------ font observation

fn var_idx(d: Option<Result<DeviceOrVariationIndex, write_fonts::read::ReadError>>) -> S {
    match d {
        None => S::atom("none"),
        Some(Ok(DeviceOrVariationIndex::VariationIndex(v))) => S::list([S::usize(v.delta_set_outer_index() as usize), S::usize(v.delta_set_inner_index() as usize)]),
        Some(Ok(DeviceOrVariationIndex::Device(_))) => S::atom("device"),
        Some(Err(_)) => S::atom("unreadable"),
    }
}

/// Simple glyph outlines decoded the way the OpenType spec and rasterisers do: coordinates are the running sum of the
/// stored deltas in a wide accumulator (read-fonts' `points()` iterator wraps in i16 and would hide a wrapped delta).
pub fn dump_glyf32(font: &FontRef) -> Option<S> {
    let loca = font.loca(None).ok()?;
    let glyf = font.glyf().ok()?;
    let n = font.maxp().ok()?.num_glyphs();
    let mut out = vec![];
    for gid in 0..n {
        let g = loca.get_glyf(GlyphId::new(gid as u32), &glyf).ok()?;
        out.push(match g {
            Some(Glyph::Simple(s)) => {
                let np = s.num_points();
                let mut pts = vec![write_fonts::types::Point::<i32>::default(); np];
                let mut flags = vec![write_fonts::read::tables::glyf::PointFlags::default(); np];
                match s.read_points_fast(&mut pts, &mut flags) {
                    Ok(()) => S::list(pts.iter().zip(&flags).map(|(p, f)| S::list([S::int(p.x), S::int(p.y), S::usize(f.is_on_curve() as usize)]))),
                    Err(_) => S::atom("unreadable"),
                }
            }
            _ => S::atom("na"),
        });
    }
    Some(S::k1("glyf32", S::list(out)))
}

/// Flattened GPOS: every glyph pair with a non-zero / variable first-glyph xAdvance in any PairPos subtable,
/// every base and mark anchor of every MarkBasePos subtable, and the GDEF item variation store.
pub fn dump_gpos_flat(font: &FontRef) -> Vec<S> {
    let n = font.maxp().map(|m| m.num_glyphs()).unwrap_or(0);
    let mut pairs = vec![];
    let mut anchors = vec![];
    if let Ok(gpos) = font.gpos() {
        if let Ok(ll) = gpos.lookup_list() {
            for lk in ll.lookups().iter().filter_map(|l| l.ok()) {
                match lk.subtables() {
                    Ok(PositionSubtables::Pair(subs)) => for st in subs.iter().filter_map(|s| s.ok()) {
                        match st {
                            PairPos::Format1(t) => {
                                let Ok(cov) = t.coverage() else { continue };
                                for (g1, ps) in cov.iter().zip(t.pair_sets().iter()) {
                                    let Ok(ps) = ps else { continue };
                                    for r in ps.pair_value_records().iter().filter_map(|r| r.ok()) {
                                        let v = r.value_record1();
                                        pairs.push(S::list([S::usize(g1.to_u16() as usize), S::usize(r.second_glyph().to_u16() as usize),
                                            S::int(v.x_advance().unwrap_or(0)), var_idx(v.x_advance_device(ps.offset_data()))]));
                                    }
                                }
                            }
                            PairPos::Format2(t) => {
                                let (Ok(cov), Ok(cd1), Ok(cd2)) = (t.coverage(), t.class_def1(), t.class_def2()) else { continue };
                                let recs: Vec<_> = t.class1_records().iter().filter_map(|r| r.ok()).collect();
                                for g1 in cov.iter() {
                                    let Some(c1) = recs.get(cd1.get(g1) as usize) else { continue };
                                    let c2s: Vec<_> = c1.class2_records().iter().filter_map(|r| r.ok()).collect();
                                    for g2 in 0..n {
                                        let Some(c2) = c2s.get(cd2.get(GlyphId16::new(g2)) as usize) else { continue };
                                        let v = c2.value_record1();
                                        let dev = v.x_advance_device(t.offset_data());
                                        if v.x_advance().unwrap_or(0) != 0 || dev.is_some() {
                                            pairs.push(S::list([S::usize(g1.to_u16() as usize), S::usize(g2 as usize), S::int(v.x_advance().unwrap_or(0)), var_idx(dev)]));
                                        }
                                    }
                                }
                            }
                        }
                    },
                    Ok(PositionSubtables::MarkToBase(subs)) => for t in subs.iter().filter_map(|s| s.ok()) {
                        use write_fonts::read::tables::gpos::AnchorTable;
                        let s_anchor = |kind: &str, gid: u16, class: usize, a: AnchorTable| -> S {
                            let (x, y, xd, yd) = match a {
                                AnchorTable::Format1(f) => (f.x_coordinate(), f.y_coordinate(), S::atom("none"), S::atom("none")),
                                AnchorTable::Format2(f) => (f.x_coordinate(), f.y_coordinate(), S::atom("point"), S::atom("point")),
                                AnchorTable::Format3(f) => (f.x_coordinate(), f.y_coordinate(), var_idx(f.x_device()), var_idx(f.y_device())),
                            };
                            S::list([S::atom(kind), S::usize(gid as usize), S::usize(class), S::int(x), S::int(y), xd, yd])
                        };
                        if let (Ok(mc), Ok(ma)) = (t.mark_coverage(), t.mark_array()) {
                            for (g, r) in mc.iter().zip(ma.mark_records().iter()) {
                                if let Ok(a) = r.mark_anchor(ma.offset_data()) { anchors.push(s_anchor("mark", g.to_u16(), r.mark_class() as usize, a)); }
                            }
                        }
                        if let (Ok(bc), Ok(ba)) = (t.base_coverage(), t.base_array()) {
                            for (g, r) in bc.iter().zip(ba.base_records().iter()) {
                                let Ok(r) = r else { continue };
                                for (ci, a) in r.base_anchors(ba.offset_data()).iter().enumerate() {
                                    if let Some(Ok(a)) = a { anchors.push(s_anchor("base", g.to_u16(), ci, a)); }
                                }
                            }
                        }
                    },
                    _ => {}
                }
            }
        }
    }
    let ivs = font.gdef().ok().and_then(|g| g.item_var_store()).and_then(|r| r.ok()).map(|ivs| dump::dump_ivs(&ivs));
    let mut out = vec![S::k1("kernpairs", S::list(pairs)), S::k1("anchors", S::list(anchors)), S::k1("gdefivs", S::opt(ivs))];
    if let Ok(v) = font.vhea() {
        out.push(S::k1("vhea", S::list([
            S::int(v.ascender().to_i16()), S::int(v.descender().to_i16()), S::int(v.line_gap().to_i16()),
            S::usize(v.advance_height_max().to_u16() as usize), S::int(v.min_top_side_bearing().to_i16()),
            S::int(v.min_bottom_side_bearing().to_i16()), S::int(v.y_max_extent().to_i16()),
        ])));
    }
    out
}

/// counts only (heavy cases): maxp, number of post names, and the shape of the first four glyphs
fn font_summary(bytes: &[u8]) -> S {
    let Ok(font) = FontRef::new(bytes) else { return S::kv("fontsum", [S::k1("unreadable", S::atom("font"))]) };
    let mut f = vec![];
    if let Ok(m) = font.maxp() {
        f.push(S::k1("maxp", S::list([
            S::usize(m.num_glyphs() as usize), S::usize(m.max_points().unwrap_or(0) as usize), S::usize(m.max_contours().unwrap_or(0) as usize),
            S::usize(m.max_composite_points().unwrap_or(0) as usize), S::usize(m.max_composite_contours().unwrap_or(0) as usize),
            S::usize(m.max_component_elements().unwrap_or(0) as usize), S::usize(m.max_component_depth().unwrap_or(0) as usize),
        ])));
    }
    if let Ok(h) = font.hhea() { f.push(S::k1("numhmetrics", S::usize(h.number_of_h_metrics() as usize))); }
    let mut shapes = vec![];
    if let (Ok(loca), Ok(glyf)) = (font.loca(None), font.glyf()) {
        for gid in 0..4u32 {
            shapes.push(match loca.get_glyf(GlyphId::new(gid), &glyf) {
                Ok(Some(Glyph::Simple(s))) => S::list([S::atom("simple"), S::usize(s.num_points()), S::usize(s.end_pts_of_contours().len())]),
                Ok(Some(Glyph::Composite(c))) => S::list([S::atom("composite"), S::usize(c.components().count())]),
                Ok(None) => S::list([S::atom("empty")]),
                Err(_) => S::list([S::atom("unreadable")]),
            });
        }
    }
    f.push(S::k1("shapes", S::list(shapes)));
    S::kv("fontsum", f)
}

fn hash_hex(s: &str) -> String {
    let mut h = std::collections::hash_map::DefaultHasher::new();
    s.hash(&mut h);
    format!("{:016x}", h.finish())
}

/// Compile the case's design in this process. Returns the protocol fields describing the outcome and the digest
/// `(obs ok|err <hash of everything dumped>)`.
pub fn observe(c: &Case, tag: &str) -> (Vec<S>, S) {
    let tmp = build::tmpdir(tag);
    let ds = write::write_design(tmp.path(), &c.design);
    // a design without axes is compiled from its single UFO
    let src = if c.design.axes.is_empty() { tmp.path().join(write::ufo_name(&c.design, 0)) } else { ds };
    if let Ok(keep) = std::env::var("VERIF_KEEP") {
        // keep the generated sources (for replaying a case against a patched compiler)
        let name = format!("{}-{}-{}", c.field, c.sub, c.vals.iter().map(|v| format!("{v}")).collect::<Vec<_>>().join("_"));
        let _ = std::process::Command::new("cp").arg("-r").arg(tmp.path()).arg(std::path::Path::new(&keep).join(name)).status();
    }
    let res = build::compile(&src, &build::BuildOpts::default());
    let mut f = vec![];
    match res {
        Ok(bytes) => {
            f.push(S::k1("result", S::atom("ok")));
            let mut dumped = vec![dump::dump_all(&bytes)];
            if let Ok(font) = FontRef::new(&bytes) {
                dumped.extend(dump_glyf32(&font));
                if !c.big { dumped.extend(dump_gpos_flat(&font)); }
            }
            let text: String = dumped.iter().map(|s| s.to_line()).collect();
            let obs = S::list([S::atom("obs"), S::atom("ok"), S::atom(hash_hex(&text))]);
            if c.big {
                // megabyte-sized dumps are only hashed; the line carries counts
                f.push(font_summary(&bytes));
            } else {
                f.extend(dumped);
            }
            (f, obs)
        }
        Err(e) => {
            let kind = if e.starts_with("panic:") || e.contains("panicked") || e.contains("panic") { "panic" } else { "error" };
            let short: String = e.chars().take(400).collect();
            f.push(S::kv("result", [S::atom("err"), S::atom(kind), S::str(&short)]));
            (f, S::list([S::atom("obs"), S::atom("err"), S::atom("0")]))
        }
    }
}

/// The same harness binary built with the other cargo profile: `<target>/debug/<name>` <-> `<target>/release/<name>`
/// (bin/vcheck builds both when a stream of the property carries `"profile": "release"`).
fn other_binary() -> Option<std::path::PathBuf> {
    let exe = std::env::current_exe().ok()?;
    let name = exe.file_name()?.to_owned();
    let target = exe.parent()?.parent()?.to_owned();
    let p = target.join(if cfg!(debug_assertions) { "release" } else { "debug" }).join(name);
    p.exists().then_some(p)
}

/// Run case `i` in the other profile's binary; returns its `(obs …)` digest.
fn other_obs(obs_stream: &str, seed: u64, i: usize) -> S {
    let Some(bin) = other_binary() else { return S::atom("none") };
    let out = std::process::Command::new(bin)
        .args([obs_stream, "--seed", &seed.to_string(), "--from", &i.to_string(), "--n", "1"])
        .stderr(std::process::Stdio::null())
        .output();
    match out {
        Ok(o) => {
            let text = String::from_utf8_lossy(&o.stdout);
            match (text.find("(obs "), text.trim_end().strip_suffix(')')) {
                (Some(p), Some(t)) if p < t.len() => S::atom(t[p..].to_string()),
                _ => S::list([S::atom("obs"), S::atom("crash"), S::atom(format!("{}", o.status.code().unwrap_or(-1)))]),
            }
        }
        Err(_) => S::atom("none"),
    }
}

/// Off-curve control points at / beyond the 16-bit limits while every on-curve point, and the curve itself, stay
/// well inside: a range check that looks at the drawn shape (its bounding box, its on-curve points) instead of at every
/// stored point lets these through. Field `coord`: the probed point is the one at y = 777 (sub x) / x = 333 (sub y).
const OFF_VALS: &[f64] = &[32768.0, 40000.0, -32769.0, 50000.0, -40000.0, 65534.0, 32767.0, -32768.0, 33000.0, -60000.0];
pub fn gen_off(_rng: &mut Rng, i: usize) -> Case {
    let v = OFF_VALS[(i / 2) % OFF_VALS.len()];
    let on_x = i % 2 == 0;
    // quadratic extreme = (a + v) / 2: keep it at +-32000 where possible
    let a = (v.signum() * 64000.0 - v).clamp(-32000.0, 32000.0);
    let off = |x: f64, y: f64| Pt { x, y, typ: PtType::Off };
    let q = |x: f64, y: f64| Pt { x, y, typ: PtType::QCurve };
    let mut d = base_design(false, false);
    let g = d.masters[0].glyphs.get_mut("a").unwrap();
    g.contours = vec![if on_x { vec![line(a, 700.0), off(v, 777.0), q(a, 850.0)] }
                      else { vec![line(250.0, a), off(333.0, v), q(420.0, a)] }];
    Case { field: "coord", vals: vec![v], sub: if on_x { "x" } else { "y" }.into(), design: d, big: false }
}

fn case_of(stream: &str, seed: u64, i: usize) -> Case {
    let mut rng = Rng::for_case(seed, "c19", i);
    if stream.starts_with("c19big") { gen_big(&mut rng, i) }
    else if stream.starts_with("c19off") { gen_off(&mut rng, i) }
    else { gen_case(&mut rng, i) }
}

/// compact design description for the heavy cases (the full `(design …)` would be megabytes)
fn big_summary(c: &Case) -> S {
    let m = &c.design.masters[0];
    S::kv("bigdesign", [
        S::k1("nglyphs", S::usize(m.glyphs.len())),
        // (name advance contours points components-of-"a")
        S::k1("glyphs", S::list(m.glyphs.iter().filter(|(n, _)| n.as_str() == "a" || n.as_str() == "b").map(|(n, g)| S::list([
            S::str(n), S::f64(g.advance),
            S::usize(g.contours.len()),
            S::usize(g.contours.iter().map(|c| c.len()).sum()),
            S::usize(g.components.len()),
        ])))),
    ])
}

/// streams `c19e2e`, `c19e2e_rel`, `c19big`, `c19big_rel` (the `_rel` names are the same generator, registered so that
/// bin/vcheck runs them with the release-profile harness binary).
pub fn run(stream: &'static str, args: &Args) {
    let seed = args.seed;
    let obs_stream = if stream.starts_with("c19big") { "c19bigobs" } else if stream.starts_with("c19off") { "c19offobs" } else { "c19obs" };
    crate::run_cases(stream, args, move |i| {
        let c = case_of(stream, seed, i);
        let (fields, obs) = observe(&c, stream);
        let other = other_obs(obs_stream, seed, i);
        let mut f = vec![
            S::kv("probe", [S::k1("field", S::atom(c.field)), S::k1("sub", S::str(&c.sub)), S::k1("vals", S::list(c.vals.iter().map(|v| S::f64(*v))))]),
            S::k1("profile", S::atom(PROFILE)),
            S::k1("self", obs),
            S::k1("other", other),
            if c.big { big_summary(&c) } else { c.design.to_sexp() },
        ];
        f.extend(fields);
        f
    });
}

/// child mode: only the digest of case i in this binary's profile
pub fn run_obs(stream: &'static str, args: &Args) {
    let seed = args.seed;
    crate::run_cases(stream, args, move |i| {
        let c = case_of(if stream == "c19bigobs" { "c19big" } else if stream == "c19offobs" { "c19off" } else { "c19e2e" }, seed, i);
        let (_, obs) = observe(&c, stream);
        vec![obs]
    });
}
