//! splitmix64: every random choice of a run derives from one seed, so a case replays exactly.
#[derive(Clone)]
pub struct Rng(pub u64);

impl Rng {
    pub fn new(seed: u64) -> Rng {
        Rng(seed ^ 0x9E37_79B9_7F4A_7C15)
    }
    /// independent stream for case `i` of stream `name`
    pub fn for_case(seed: u64, name: &str, i: usize) -> Rng {
        let mut h = seed;
        for b in name.bytes() {
            h = h.wrapping_mul(0x100000001b3) ^ (b as u64);
        }
        let mut r = Rng(h ^ ((i as u64).wrapping_mul(0xD6E8_FEB8_6659_FD93)));
        r.next();
        r
    }
    pub fn next(&mut self) -> u64 {
        self.0 = self.0.wrapping_add(0x9E37_79B9_7F4A_7C15);
        let mut z = self.0;
        z = (z ^ (z >> 30)).wrapping_mul(0xBF58_476D_1CE4_E5B9);
        z = (z ^ (z >> 27)).wrapping_mul(0x94D0_49BB_1331_11EB);
        z ^ (z >> 31)
    }
    /// uniform in [0, n)
    pub fn below(&mut self, n: usize) -> usize {
        if n == 0 { 0 } else { (self.next() % (n as u64)) as usize }
    }
    /// uniform in [lo, hi]
    pub fn range(&mut self, lo: i64, hi: i64) -> i64 {
        lo + (self.next() % ((hi - lo + 1) as u64)) as i64
    }
    pub fn chance(&mut self, num: usize, den: usize) -> bool {
        self.below(den) < num
    }
    pub fn pick<'a, T>(&mut self, xs: &'a [T]) -> &'a T {
        &xs[self.below(xs.len())]
    }
    pub fn shuffle<T>(&mut self, xs: &mut [T]) {
        for i in (1..xs.len()).rev() {
            let j = self.below(i + 1);
            xs.swap(i, j);
        }
    }
}
