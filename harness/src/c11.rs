//! C11: compiled GSUB/GPOS behave as the feature file says.
//!
//! The generator emits an abstract feature program (the input of the Lean model
//! `FontcModel/FeaCompile.lean`) together with its `.fea` text over a small glyph set; the real
//! `fea_rs::Compiler` compiles the text; the resulting tables are dumped to bytes and read back
//! with read-fonts, and what a shaper would see (lookups, subtables, features, scripts, GDEF
//! classes) is printed in a plain S-expression form.  Classes may be written as literals, named
//! classes or ranges in the text; the abstract program carries the expanded glyph lists.
//!
//! Streams: `c11`    programs inside the subset for which `compile_correct` is proved;
//!          `c11x`   the same, but inline contextual rules may share glyphs / sequences freely
//!                   (ordinary feature code that exposes the defects of the anonymous lookups);
//!          `c11adv` additionally runs of mixed single/multiple/ligature rules outside lookup blocks
//!                   and repeated targets (outside the claim; not part of the check).
use crate::rng::Rng;
use crate::sexp::S;
use crate::Args;
use std::path::Path;
use std::sync::Arc;

pub type G = u16;

pub const LETTERS: [&str; 12] = ["a", "b", "c", "d", "e", "f", "g", "h", "i", "j", "k", "l"];
pub const MARKS: [&str; 3] = ["ma", "mb", "mc"];

#[derive(Clone, Debug, PartialEq)]
pub enum GC {
    G(G),
    C(Vec<G>),
}

impl GC {
    pub fn glyphs(&self) -> Vec<G> {
        match self {
            GC::G(g) => vec![*g],
            GC::C(c) => c.clone(),
        }
    }
}

#[derive(Clone, Debug, Default, PartialEq)]
pub struct Flag {
    pub rtl: bool,
    pub ib: bool,
    pub il: bool,
    pub im: bool,
    pub attach: Option<Vec<G>>,
    pub filter: Option<Vec<G>>,
}

#[derive(Clone, Debug, PartialEq)]
pub struct Val {
    pub xp: i16,
    pub yp: i16,
    pub xa: i16,
    pub ya: i16,
    /// printed as a single number (x advance)
    pub adv_only: bool,
}

#[derive(Clone, Debug, PartialEq)]
pub enum Inline {
    None,
    Single(GC),
    Lig(G),
    Multi(Vec<G>),
}

#[derive(Clone, Debug, PartialEq)]
pub enum Rule {
    Single(GC, GC),
    Multiple(G, Vec<G>),
    Alternate(G, Vec<G>),
    Ligature(Vec<GC>, G),
    Chain { back: Vec<GC>, input: Vec<(GC, Vec<String>)>, look: Vec<GC>, inline: Inline },
    Ignore(Vec<(Vec<GC>, Vec<GC>, Vec<GC>)>),
    SinglePos(GC, Val),
    PairPos { enumr: bool, a: GC, b: GC, v: Val },
}

#[derive(Clone, Copy, Debug, PartialEq)]
pub enum Kind {
    Single,
    Multiple,
    Alternate,
    Ligature,
    Chain,
    SinglePos,
    PairPos,
}

impl Rule {
    pub fn kind(&self) -> Kind {
        match self {
            Rule::Single(..) => Kind::Single,
            Rule::Multiple(..) => Kind::Multiple,
            Rule::Alternate(..) => Kind::Alternate,
            Rule::Ligature(..) => Kind::Ligature,
            Rule::Chain { .. } | Rule::Ignore(..) => Kind::Chain,
            Rule::SinglePos(..) => Kind::SinglePos,
            Rule::PairPos { .. } => Kind::PairPos,
        }
    }
}

#[derive(Clone, Debug, PartialEq)]
pub enum Stmt {
    Script(String),
    Language(String, bool),
    Flag(Flag),
    Rule(Rule),
    Lookup(String, Vec<Stmt>),
    Ref(String),
}

#[derive(Clone, Debug, PartialEq)]
pub enum Top {
    LangSys(String, String),
    Lookup(String, Vec<Stmt>),
    Feature(String, Vec<Stmt>),
}

#[derive(Clone, Debug)]
pub struct Program {
    /// glyph names by glyph id (id 0 = .notdef)
    pub names: Vec<String>,
    /// explicit GDEF glyph classes (glyph, class 1..4); empty = no GDEF block
    pub gdef: Vec<(G, u16)>,
    pub tops: Vec<Top>,
}

// ------------------------------------------------------------------ S-expression of the program

fn s_gc(gc: &GC) -> S {
    match gc {
        GC::G(g) => S::list([S::atom("g"), S::usize(*g as usize)]),
        GC::C(c) => S::kv("c", c.iter().map(|g| S::usize(*g as usize))),
    }
}
fn s_gs(gs: &[G]) -> S {
    S::list(gs.iter().map(|g| S::usize(*g as usize)))
}
fn s_gcs(gcs: &[GC]) -> S {
    S::list(gcs.iter().map(s_gc))
}
fn s_optset(o: &Option<Vec<G>>) -> S {
    match o {
        None => S::atom("none"),
        Some(gs) => s_gs(gs),
    }
}
fn s_flag(f: &Flag) -> S {
    S::list([
        S::atom("flag"),
        S::usize(f.rtl as usize),
        S::usize(f.ib as usize),
        S::usize(f.il as usize),
        S::usize(f.im as usize),
        s_optset(&f.attach),
        s_optset(&f.filter),
    ])
}
fn s_val(v: &Val) -> S {
    S::list([S::int(v.xp), S::int(v.yp), S::int(v.xa), S::int(v.ya)])
}
fn s_rule(r: &Rule) -> S {
    match r {
        Rule::Single(a, b) => S::list([S::atom("single"), s_gc(a), s_gc(b)]),
        Rule::Multiple(a, b) => S::list([S::atom("multiple"), S::usize(*a as usize), s_gs(b)]),
        Rule::Alternate(a, b) => S::list([S::atom("alternate"), S::usize(*a as usize), s_gs(b)]),
        Rule::Ligature(a, b) => S::list([S::atom("ligature"), s_gcs(a), S::usize(*b as usize)]),
        Rule::Chain { back, input, look, inline } => S::list([
            S::atom("chain"),
            s_gcs(back),
            S::list(input.iter().map(|(gc, refs)| S::list([s_gc(gc), S::list(refs.iter().map(|r| S::str(r)))]))),
            s_gcs(look),
            match inline {
                Inline::None => S::atom("none"),
                Inline::Single(gc) => S::list([S::atom("by"), s_gc(gc)]),
                Inline::Lig(g) => S::list([S::atom("bylig"), S::usize(*g as usize)]),
                Inline::Multi(gs) => S::list([S::atom("byseq"), s_gs(gs)]),
            },
        ]),
        Rule::Ignore(rs) => S::kv(
            "ignore",
            rs.iter().map(|(b, i, l)| S::list([s_gcs(b), s_gcs(i), s_gcs(l)])),
        ),
        Rule::SinglePos(a, v) => S::list([S::atom("spos"), s_gc(a), s_val(v)]),
        Rule::PairPos { enumr, a, b, v } => {
            S::list([S::atom("ppos"), S::usize(*enumr as usize), s_gc(a), s_gc(b), s_val(v)])
        }
    }
}
fn s_stmt(s: &Stmt) -> S {
    match s {
        Stmt::Script(t) => S::list([S::atom("script"), S::str(t)]),
        Stmt::Language(t, ex) => S::list([S::atom("language"), S::str(t), S::usize(*ex as usize)]),
        Stmt::Flag(f) => s_flag(f),
        Stmt::Rule(r) => S::list([S::atom("rule"), s_rule(r)]),
        Stmt::Lookup(n, body) => S::list([S::atom("lookup"), S::str(n), S::list(body.iter().map(s_stmt))]),
        Stmt::Ref(n) => S::list([S::atom("ref"), S::str(n)]),
    }
}
fn s_top(t: &Top) -> S {
    match t {
        Top::LangSys(s, l) => S::list([S::atom("langsys"), S::str(s), S::str(l)]),
        Top::Lookup(n, body) => S::list([S::atom("lookup"), S::str(n), S::list(body.iter().map(s_stmt))]),
        Top::Feature(n, body) => S::list([S::atom("feature"), S::str(n), S::list(body.iter().map(s_stmt))]),
    }
}
pub fn s_prog(p: &Program) -> S {
    S::kv(
        "prog",
        [
            S::k1("nglyphs", S::usize(p.names.len())),
            S::k1("names", S::list(p.names.iter().map(|n| S::str(n)))),
            S::k1("gdef", S::list(p.gdef.iter().map(|(g, c)| S::list([S::usize(*g as usize), S::usize(*c as usize)])))),
            S::k1("tops", S::list(p.tops.iter().map(s_top))),
        ],
    )
}

// ------------------------------------------------------------------ FEA text

pub struct Printer<'a> {
    names: &'a [String],
    /// class literals that get a name (defined at the top of the file)
    named: Vec<(String, Vec<G>)>,
    /// style choices, seeded
    rng: Rng,
}

impl<'a> Printer<'a> {
    fn name(&self, g: G) -> &str {
        &self.names[g as usize]
    }
    /// class literal body; uses `x-y` ranges for runs of consecutive single-letter names
    fn class_body(&mut self, c: &[G]) -> String {
        let mut out: Vec<String> = vec![];
        let mut i = 0;
        while i < c.len() {
            // run of consecutive single letters
            let n0 = self.name(c[i]).to_string();
            let mut j = i;
            if n0.len() == 1 {
                while j + 1 < c.len() {
                    let a = self.name(c[j]);
                    let b = self.name(c[j + 1]);
                    if a.len() == 1 && b.len() == 1 && b.as_bytes()[0] == a.as_bytes()[0] + 1 {
                        j += 1;
                    } else {
                        break;
                    }
                }
            }
            if j >= i + 2 || (j == i + 1 && self.rng.chance(1, 2)) {
                out.push(format!("{}-{}", self.name(c[i]), self.name(c[j])));
                i = j + 1;
            } else {
                out.push(n0);
                i += 1;
            }
        }
        out.join(" ")
    }
    fn class(&mut self, c: &[G]) -> String {
        if c.len() >= 2 && self.rng.chance(1, 3) {
            if let Some((n, _)) = self.named.iter().find(|(_, gs)| gs == c) {
                return format!("@{n}");
            }
            let n = format!("cls{}", self.named.len());
            self.named.push((n.clone(), c.to_vec()));
            return format!("@{n}");
        }
        // nested reference to an already named class as a prefix
        if c.len() >= 3 && self.rng.chance(1, 4) {
            if let Some((n, gs)) = self.named.iter().find(|(_, gs)| gs.len() < c.len() && c[..gs.len()] == gs[..]).cloned() {
                let rest = self.class_body(&c[gs.len()..]);
                return format!("[@{n} {rest}]");
            }
        }
        format!("[{}]", self.class_body(c))
    }
    fn gc(&mut self, gc: &GC) -> String {
        match gc {
            GC::G(g) => self.name(*g).to_string(),
            GC::C(c) => self.class(c),
        }
    }
    fn seq(&mut self, gcs: &[GC]) -> String {
        gcs.iter().map(|g| self.gc(g)).collect::<Vec<_>>().join(" ")
    }
    fn gs(&self, gs: &[G]) -> String {
        gs.iter().map(|g| self.name(*g).to_string()).collect::<Vec<_>>().join(" ")
    }
    fn val(&self, v: &Val) -> String {
        if v.adv_only {
            format!("{}", v.xa)
        } else {
            format!("<{} {} {} {}>", v.xp, v.yp, v.xa, v.ya)
        }
    }
    fn flag(&mut self, f: &Flag) -> String {
        let mut parts: Vec<String> = vec![];
        if f.rtl {
            parts.push("RightToLeft".into());
        }
        if f.ib {
            parts.push("IgnoreBaseGlyphs".into());
        }
        if f.il {
            parts.push("IgnoreLigatures".into());
        }
        if f.im {
            parts.push("IgnoreMarks".into());
        }
        if let Some(c) = &f.attach {
            let c = self.class(c);
            parts.push(format!("MarkAttachmentType {c}"));
        }
        if let Some(c) = &f.filter {
            let c = self.class(c);
            parts.push(format!("UseMarkFilteringSet {c}"));
        }
        if parts.is_empty() {
            "lookupflag 0;".into()
        } else {
            format!("lookupflag {};", parts.join(" "))
        }
    }
    fn ctx(&mut self, back: &[GC], input: &[(GC, Vec<String>)], look: &[GC]) -> String {
        let mut parts: Vec<String> = vec![];
        for b in back {
            parts.push(self.gc(b));
        }
        for (g, refs) in input {
            let mut s = format!("{}'", self.gc(g));
            for r in refs {
                s.push_str(&format!(" lookup {r}"));
            }
            parts.push(s);
        }
        for l in look {
            parts.push(self.gc(l));
        }
        parts.join(" ")
    }
    fn rule(&mut self, r: &Rule) -> String {
        match r {
            Rule::Single(a, b) => format!("sub {} by {};", self.gc(a), self.gc(b)),
            Rule::Multiple(a, b) => {
                if b.is_empty() {
                    format!("sub {} by NULL;", self.name(*a))
                } else {
                    format!("sub {} by {};", self.name(*a), self.gs(b))
                }
            }
            Rule::Alternate(a, b) => {
                let c = self.class(b);
                format!("sub {} from {c};", self.name(*a))
            }
            Rule::Ligature(a, b) => format!("sub {} by {};", self.seq(a), self.name(*b)),
            Rule::Chain { back, input, look, inline } => {
                let c = self.ctx(back, input, look);
                match inline {
                    Inline::None => format!("sub {c};"),
                    Inline::Single(gc) => format!("sub {c} by {};", self.gc(gc)),
                    Inline::Lig(g) => format!("sub {c} by {};", self.name(*g)),
                    Inline::Multi(gs) => format!("sub {c} by {};", self.gs(gs)),
                }
            }
            Rule::Ignore(rs) => {
                let parts: Vec<String> = rs
                    .iter()
                    .map(|(b, i, l)| {
                        let inp: Vec<(GC, Vec<String>)> = i.iter().map(|g| (g.clone(), vec![])).collect();
                        self.ctx(b, &inp, l)
                    })
                    .collect();
                format!("ignore sub {};", parts.join(", "))
            }
            Rule::SinglePos(a, v) => format!("pos {} {};", self.gc(a), self.val(v)),
            Rule::PairPos { enumr, a, b, v } => {
                format!("{}pos {} {} {};", if *enumr { "enum " } else { "" }, self.gc(a), self.gc(b), self.val(v))
            }
        }
    }
    fn stmts(&mut self, body: &[Stmt], indent: usize, out: &mut String) {
        let pad = "  ".repeat(indent);
        for s in body {
            match s {
                Stmt::Script(t) => out.push_str(&format!("{pad}script {t};\n")),
                Stmt::Language(t, ex) => {
                    out.push_str(&format!("{pad}language {t}{};\n", if *ex { " exclude_dflt" } else { "" }))
                }
                Stmt::Flag(f) => {
                    let f = self.flag(f);
                    out.push_str(&format!("{pad}{f}\n"))
                }
                Stmt::Rule(r) => {
                    let r = self.rule(r);
                    out.push_str(&format!("{pad}{r}\n"))
                }
                Stmt::Lookup(n, b) => {
                    out.push_str(&format!("{pad}lookup {n} {{\n"));
                    self.stmts(b, indent + 1, out);
                    out.push_str(&format!("{pad}}} {n};\n"));
                }
                Stmt::Ref(n) => out.push_str(&format!("{pad}lookup {n};\n")),
            }
        }
    }
}

pub fn print_fea(p: &Program, style_seed: u64) -> String {
    let mut pr = Printer { names: &p.names, named: vec![], rng: Rng::new(style_seed) };
    let mut body = String::new();
    for t in &p.tops {
        match t {
            Top::LangSys(s, l) => body.push_str(&format!("languagesystem {s} {l};\n")),
            Top::Lookup(n, b) => {
                body.push_str(&format!("lookup {n} {{\n"));
                pr.stmts(b, 1, &mut body);
                body.push_str(&format!("}} {n};\n"));
            }
            Top::Feature(n, b) => {
                body.push_str(&format!("feature {n} {{\n"));
                pr.stmts(b, 1, &mut body);
                body.push_str(&format!("}} {n};\n"));
            }
        }
    }
    let mut head = String::new();
    // named classes must be defined before use; languagesystem statements may follow them
    let named = pr.named.clone();
    for (n, gs) in &named {
        // a named class is always printed as a plain literal
        let names: Vec<&str> = gs.iter().map(|g| p.names[*g as usize].as_str()).collect();
        head.push_str(&format!("@{n} = [{}];\n", names.join(" ")));
    }
    if !p.gdef.is_empty() {
        let cls = |k: u16| -> String {
            let names: Vec<&str> = p.gdef.iter().filter(|(_, c)| *c == k).map(|(g, _)| p.names[*g as usize].as_str()).collect();
            if names.is_empty() { String::new() } else { format!("[{}]", names.join(" ")) }
        };
        head.push_str(&format!(
            "table GDEF {{\n  GlyphClassDef {}, {}, {}, {};\n}} GDEF;\n",
            cls(1), cls(2), cls(3), cls(4)
        ));
    }
    head + &body
}

// ------------------------------------------------------------------ generator

#[derive(Clone, Copy)]
pub struct GenOpts {
    /// allow runs that mix single with multiple/ligature rules outside lookup blocks, and repeated
    /// targets (outside the modelled subset; advisory stream only)
    pub extended: bool,
    /// let inline contextual rules share glyphs / sequences freely (exposes the defects of the
    /// anonymous lookups); when false the generator stays where the property is proved
    pub free_inline: bool,
}

struct Gen<'a> {
    rng: &'a mut Rng,
    opts: GenOpts,
    letters: Vec<G>,
    marks: Vec<G>,
    hot: Vec<G>,
    /// named lookups defined so far: (name, kind)
    named: Vec<(String, Kind)>,
    n_lookup_names: usize,
    attach_classes: Vec<Vec<G>>,
    filter_classes: Vec<Vec<G>>,
}

impl<'a> Gen<'a> {
    fn glyph(&mut self) -> G {
        if self.rng.chance(4, 5) {
            *self.rng.pick(&self.hot)
        } else if self.rng.chance(1, 4) {
            *self.rng.pick(&self.marks)
        } else {
            *self.rng.pick(&self.letters)
        }
    }
    fn letter(&mut self) -> G {
        if self.rng.chance(4, 5) {
            let h: Vec<G> = self.hot.iter().copied().filter(|g| self.letters.contains(g)).collect();
            if !h.is_empty() {
                return *self.rng.pick(&h);
            }
        }
        *self.rng.pick(&self.letters)
    }
    /// a class of k distinct glyphs
    fn class(&mut self, k: usize) -> Vec<G> {
        let mut c: Vec<G> = vec![];
        // sometimes a run of consecutive letters (exercises range syntax)
        if k >= 2 && self.rng.chance(1, 3) {
            let start = self.rng.below(self.letters.len() - k + 1);
            // letters[] is indexed by name order
            return (start..start + k).map(|i| self.letters[i]).collect();
        }
        let mut tries = 0;
        while c.len() < k && tries < 50 {
            tries += 1;
            let g = self.glyph();
            if !c.contains(&g) {
                c.push(g);
            }
        }
        c
    }
    fn gc(&mut self) -> GC {
        if self.rng.chance(2, 3) {
            GC::G(self.glyph())
        } else {
            let k = 2 + self.rng.below(3);
            GC::C(self.class(k))
        }
    }
    fn flag(&mut self) -> Flag {
        let mut f = Flag::default();
        match self.rng.below(10) {
            0..=3 => {}
            4 | 5 => f.im = true,
            6 => {
                f.il = self.rng.chance(1, 2);
                f.ib = !f.il;
            }
            7 => {
                if self.attach_classes.is_empty() || self.rng.chance(1, 3) {
                    // mark attachment classes must be pairwise disjoint
                    let used: Vec<G> = self.attach_classes.iter().flatten().copied().collect();
                    let free: Vec<G> = self.marks.iter().copied().filter(|m| !used.contains(m)).collect();
                    if !free.is_empty() {
                        let k = 1 + self.rng.below(free.len().min(2));
                        let c: Vec<G> = sorted(&free[..k]);
                        self.attach_classes.push(c);
                    }
                }
                if !self.attach_classes.is_empty() {
                    f.attach = Some(self.rng.pick(&self.attach_classes).clone());
                }
            }
            8 => {
                if self.filter_classes.is_empty() || self.rng.chance(1, 2) {
                    let mut ms = self.marks.clone();
                    self.rng.shuffle(&mut ms);
                    let k = 1 + self.rng.below(2);
                    let mut c: Vec<G> = ms[..k].to_vec();
                    if self.rng.chance(1, 4) {
                        c.push(self.letter());
                    }
                    self.filter_classes.push(sorted(&c));
                }
                f.filter = Some(self.rng.pick(&self.filter_classes).clone());
            }
            _ => {
                f.rtl = true;
                f.im = self.rng.chance(1, 2);
            }
        }
        f
    }
    fn val(&mut self) -> Val {
        if self.rng.chance(2, 3) {
            Val { xp: 0, yp: 0, xa: self.rng.range(-50, 50) as i16 * 2 + 1, ya: 0, adv_only: true }
        } else {
            let z = |r: &mut Rng| if r.chance(1, 2) { 0 } else { r.range(-30, 30) as i16 };
            let mut v = Val { xp: z(self.rng), yp: z(self.rng), xa: z(self.rng), ya: z(self.rng), adv_only: false };
            if v.xp == 0 && v.yp == 0 && v.xa == 0 && v.ya == 0 {
                v.xp = 7;
            }
            v
        }
    }

    /// rules of one lookup (one kind family), obeying the per-lookup restrictions of the subset
    fn rules(&mut self, kind: Kind, n: usize) -> Vec<Rule> {
        let mut out: Vec<Rule> = vec![];
        let dup_ok = self.opts.extended && self.rng.chance(1, 3);
        match kind {
            Kind::Single => {
                let mut used: Vec<G> = vec![];
                for _ in 0..n {
                    let r = match self.rng.below(4) {
                        0 => {
                            let k = 2 + self.rng.below(3);
                            let a = self.class(k);
                            let b: Vec<G> = (0..a.len()).map(|_| self.glyph()).collect();
                            Rule::Single(GC::C(a), GC::C(b))
                        }
                        1 => {
                            let k = 2 + self.rng.below(3);
                            Rule::Single(GC::C(self.class(k)), GC::G(self.glyph()))
                        }
                        _ => Rule::Single(GC::G(self.glyph()), GC::G(self.glyph())),
                    };
                    let Rule::Single(a, _) = &r else { unreachable!() };
                    let ts = a.glyphs();
                    if !dup_ok && ts.iter().any(|g| used.contains(g)) {
                        continue;
                    }
                    used.extend(ts);
                    out.push(r);
                }
                if out.is_empty() {
                    out.push(Rule::Single(GC::G(self.glyph()), GC::G(self.glyph())));
                }
            }
            Kind::Multiple => {
                let mut used: Vec<G> = vec![];
                for _ in 0..n {
                    let a = self.glyph();
                    if !dup_ok && used.contains(&a) {
                        continue;
                    }
                    used.push(a);
                    let k = if self.rng.chance(1, 6) { 0 } else { 2 + self.rng.below(2) };
                    let b: Vec<G> = (0..k).map(|_| self.glyph()).collect();
                    out.push(Rule::Multiple(a, b));
                }
                if out.is_empty() {
                    let a = self.glyph();
                    out.push(Rule::Multiple(a, vec![self.glyph(), self.glyph()]));
                }
            }
            Kind::Alternate => {
                let mut used: Vec<G> = vec![];
                for _ in 0..n {
                    let a = self.glyph();
                    if !dup_ok && used.contains(&a) {
                        continue;
                    }
                    used.push(a);
                    let k = 1 + self.rng.below(3);
                    out.push(Rule::Alternate(a, self.class(k)));
                }
                if out.is_empty() {
                    let a = self.glyph();
                    out.push(Rule::Alternate(a, self.class(2)));
                }
            }
            Kind::Ligature => {
                // no two rules may produce the same component sequence (fea-rs rejects a
                // different replacement for the same sequence)
                let mut seqs: Vec<Vec<G>> = vec![];
                for _ in 0..n {
                    let len = 2 + self.rng.below(2);
                    let comps: Vec<GC> = (0..len)
                        .map(|_| if self.rng.chance(3, 4) { GC::G(self.glyph()) } else { GC::C(self.class(2)) })
                        .collect();
                    let all = enumerate(&comps);
                    if all.iter().any(|s| seqs.contains(s)) {
                        continue;
                    }
                    seqs.extend(all);
                    out.push(Rule::Ligature(comps, self.glyph()));
                }
                if out.is_empty() {
                    out.push(Rule::Ligature(vec![GC::G(self.glyph()), GC::G(self.glyph())], self.glyph()));
                }
            }
            Kind::Chain => {
                // inline replacements of the lookup so far (they share anonymous lookups)
                let mut singles: Vec<(G, G)> = vec![];
                let mut ligs: Vec<(Vec<G>, G)> = vec![];
                let mut tries = 0;
                while out.len() < n && tries < 40 {
                    tries += 1;
                    // a family of consecutive rules that differ only in their input sequence: one marked glyph, then the same
                    // context around a longer input (or the other way round), as `ignore` rules or with the same named lookup
                    if self.rng.chance(1, 4) {
                        let back = self.ctx_seq(1);
                        let look = self.ctx_seq(1);
                        let usable: Vec<String> = self.named.iter()
                            .filter(|(_, k)| matches!(k, Kind::Single | Kind::Multiple | Kind::Alternate))
                            .map(|(n, _)| n.clone()).collect();
                        let refs: Vec<String> = if usable.is_empty() || self.rng.chance(1, 2) { vec![] } else { vec![self.rng.pick(&usable).clone()] };
                        let short = vec![self.gc()];
                        let mut long = vec![self.gc()];
                        for _ in 0..1 + self.rng.below(2) { long.push(self.gc()); }
                        let mut fam = vec![short, long];
                        if self.rng.chance(1, 3) { fam.swap(0, 1); }
                        for inp in fam {
                            if refs.is_empty() {
                                out.push(Rule::Ignore(vec![(back.clone(), inp, look.clone())]));
                            } else {
                                let input = inp.into_iter().enumerate().map(|(i, g)| (g, if i == 0 { refs.clone() } else { vec![] })).collect();
                                out.push(Rule::Chain { back: back.clone(), input, look: look.clone(), inline: Inline::None });
                            }
                        }
                        continue;
                    }
                    let mut r = self.chain_rule();
                    // sibling of the previous rule: same backtrack, lookahead and lookups at the first position, another
                    // first glyph and another input length (what `ContextRule::try_merge` has to tell apart)
                    if self.rng.chance(1, 3) {
                        match out.last().cloned() {
                            Some(Rule::Chain { back, input, look, inline: Inline::None }) => {
                                let mut inp = vec![(self.gc(), input[0].1.clone())];
                                if input.len() == 1 || self.rng.chance(1, 3) {
                                    for _ in 0..1 + self.rng.below(2) { inp.push((self.gc(), vec![])); }
                                }
                                r = Rule::Chain { back, input: inp, look, inline: Inline::None };
                            }
                            Some(Rule::Ignore(rs)) => {
                                let (back, input, look) = rs.last().unwrap().clone();
                                let mut inp = vec![self.gc()];
                                if input.len() == 1 || self.rng.chance(1, 3) {
                                    for _ in 0..1 + self.rng.below(2) { inp.push(self.gc()); }
                                }
                                r = Rule::Ignore(vec![(back, inp, look)]);
                            }
                            _ => {}
                        }
                    }
                    // colliding inline rules (only where they are allowed to collide)
                    if self.opts.free_inline && self.rng.chance(1, 2) {
                        let prev: Vec<Rule> = out.iter().filter(|r| matches!(r, Rule::Chain { inline: Inline::Single(_) | Inline::Lig(_), .. })).cloned().collect();
                        if !prev.is_empty() {
                            if let Rule::Chain { input, inline, .. } = self.rng.pick(&prev).clone() {
                                let back = self.ctx_seq(1);
                                let look = self.ctx_seq(1);
                                match inline {
                                    Inline::Single(_) => {
                                        let mut c = input[0].0.glyphs();
                                        let extra = self.glyph();
                                        if !c.contains(&extra) {
                                            if self.rng.chance(1, 2) { c.insert(0, extra) } else { c.push(extra) }
                                        }
                                        if c.len() >= 2 {
                                            r = Rule::Chain { back, input: vec![(GC::C(c), vec![])], look, inline: Inline::Single(GC::G(self.glyph())) };
                                        }
                                    }
                                    Inline::Lig(_) => {
                                        let mut inp = input.clone();
                                        match self.rng.below(3) {
                                            0 => inp.push((GC::G(self.glyph()), vec![])),
                                            1 => {
                                                let g0 = inp[0].0.glyphs();
                                                let mut c = g0.clone();
                                                let extra = self.glyph();
                                                if !c.contains(&extra) { c.insert(0, extra); }
                                                inp[0].0 = if c.len() == 1 { GC::G(c[0]) } else { GC::C(c) };
                                            }
                                            _ => {}
                                        }
                                        r = Rule::Chain { back, input: inp, look, inline: Inline::Lig(self.glyph()) };
                                    }
                                    _ => {}
                                }
                            }
                        }
                    }
                    if let Rule::Chain { input, inline, .. } = &r {
                        match inline {
                            Inline::Single(by) => {
                                let t = &input[0].0;
                                let (t2, by2) = match (t, by) {
                                    (GC::C(a), GC::C(b)) if b.len() == 1 => (GC::C(a.clone()), GC::G(b[0])),
                                    _ => (t.clone(), by.clone()),
                                };
                                let pairs: Vec<(G, G)> = match (&t2, &by2) {
                                    (GC::G(a), GC::G(b)) => vec![(*a, *b)],
                                    (GC::C(a), GC::G(b)) => a.iter().map(|x| (*x, *b)).collect(),
                                    (GC::C(a), GC::C(b)) => a.iter().copied().zip(b.iter().copied()).collect(),
                                    _ => vec![],
                                };
                                let class_to_glyph = matches!((&t2, &by2), (GC::C(_), GC::G(_)));
                                if !self.opts.free_inline
                                    && class_to_glyph
                                    && pairs.iter().any(|(a, b)| singles.iter().any(|(a2, b2)| a == a2 && b != b2))
                                {
                                    continue;
                                }
                                singles.extend(pairs);
                            }
                            Inline::Lig(l) => {
                                let seqs = enumerate(&input.iter().map(|(g, _)| g.clone()).collect::<Vec<_>>());
                                let prefix = |a: &Vec<G>, b: &Vec<G>| a.len() < b.len() && b[..a.len()] == a[..];
                                let bad = seqs.iter().any(|sq| {
                                    ligs.iter().any(|(s2, l2)| (sq == s2 && l != l2) || prefix(sq, s2) || prefix(s2, sq))
                                });
                                if !self.opts.free_inline && bad {
                                    continue;
                                }
                                ligs.extend(seqs.into_iter().map(|sq| (sq, *l)));
                            }
                            _ => {}
                        }
                    }
                    out.push(r);
                }
                if out.is_empty() {
                    out.push(Rule::Ignore(vec![(vec![], vec![GC::G(self.glyph())], vec![])]));
                }
            }
            Kind::SinglePos => {
                let mut used: Vec<G> = vec![];
                for _ in 0..n {
                    let a = self.gc();
                    let ts = a.glyphs();
                    if !dup_ok && ts.iter().any(|g| used.contains(g)) {
                        continue;
                    }
                    used.extend(ts);
                    out.push(Rule::SinglePos(a, self.val()));
                }
                if out.is_empty() {
                    out.push(Rule::SinglePos(GC::G(self.glyph()), self.val()));
                }
            }
            Kind::PairPos => {
                // glyph pairs (incl. enum) first, then class pairs whose classes are pairwise
                // equal or disjoint on each side (one class subtable), no repeated class pair
                let n_glyph = self.rng.below(n + 1);
                for _ in 0..n_glyph {
                    let v = Val { adv_only: true, ..self.val_adv() };
                    if self.rng.chance(1, 4) {
                        let a = self.gc();
                        let b = self.gc();
                        if matches!((&a, &b), (GC::G(_), GC::G(_))) {
                            out.push(Rule::PairPos { enumr: false, a, b, v });
                        } else {
                            out.push(Rule::PairPos { enumr: true, a, b, v });
                        }
                    } else {
                        out.push(Rule::PairPos { enumr: false, a: GC::G(self.glyph()), b: GC::G(self.glyph()), v });
                    }
                }
                let mut c1s: Vec<Vec<G>> = vec![];
                let mut c2s: Vec<Vec<G>> = vec![];
                let mut seen: Vec<(Vec<G>, Vec<G>)> = vec![];
                for _ in n_glyph..n {
                    let a = self.pair_class(&mut c1s);
                    let b = self.pair_class(&mut c2s);
                    let key = (sorted(&a.glyphs()), sorted(&b.glyphs()));
                    if seen.contains(&key) {
                        continue;
                    }
                    if matches!((&a, &b), (GC::G(_), GC::G(_))) {
                        continue;
                    }
                    seen.push(key);
                    let v = self.val_adv();
                    out.push(Rule::PairPos { enumr: false, a, b, v });
                }
                if out.is_empty() {
                    out.push(Rule::PairPos { enumr: false, a: GC::G(self.glyph()), b: GC::G(self.glyph()), v: self.val_adv() });
                }
            }
        }
        out
    }
    fn val_adv(&mut self) -> Val {
        Val { xp: 0, yp: 0, xa: self.rng.range(-50, 50) as i16 * 2 + 1, ya: 0, adv_only: true }
    }
    /// a class (or glyph) that is equal to or disjoint from every class used so far on this side
    fn pair_class(&mut self, used: &mut Vec<Vec<G>>) -> GC {
        if !used.is_empty() && self.rng.chance(1, 2) {
            let c = self.rng.pick(used).clone();
            return if c.len() == 1 { GC::G(c[0]) } else { GC::C(c) };
        }
        for _ in 0..20 {
            let gc = if self.rng.chance(1, 3) { GC::G(self.glyph()) } else { GC::C(self.class(2)) };
            let gs = gc.glyphs();
            let s = sorted(&gs);
            if used.iter().all(|u| sorted(u) == s || u.iter().all(|g| !gs.contains(g))) {
                if !used.iter().any(|u| sorted(u) == s) {
                    used.push(gs);
                }
                return gc;
            }
        }
        let c = used[0].clone();
        if c.len() == 1 { GC::G(c[0]) } else { GC::C(c) }
    }
    fn ctx_seq(&mut self, max: usize) -> Vec<GC> {
        let n = self.rng.below(max + 1);
        (0..n).map(|_| self.gc()).collect()
    }
    fn chain_rule(&mut self) -> Rule {
        let back = self.ctx_seq(2);
        let look = self.ctx_seq(2);
        if self.rng.chance(1, 6) {
            let n = 1 + self.rng.below(2);
            let mut rs = vec![];
            for _ in 0..n {
                let k = 1 + self.rng.below(2);
                let input: Vec<GC> = (0..k).map(|_| self.gc()).collect();
                rs.push((self.ctx_seq(1), input, self.ctx_seq(1)));
            }
            return Rule::Ignore(rs);
        }
        let usable: Vec<String> = self
            .named
            .iter()
            .filter(|(_, k)| matches!(k, Kind::Single | Kind::Multiple | Kind::Ligature | Kind::Alternate))
            .map(|(n, _)| n.clone())
            .collect();
        match self.rng.below(if usable.is_empty() { 3 } else { 5 }) {
            0 => {
                // inline single
                let t = self.gc();
                let by = match &t {
                    GC::G(_) => GC::G(self.glyph()),
                    GC::C(c) => {
                        if self.rng.chance(1, 2) {
                            GC::G(self.glyph())
                        } else {
                            GC::C((0..c.len()).map(|_| self.glyph()).collect())
                        }
                    }
                };
                Rule::Chain { back, input: vec![(t, vec![])], look, inline: Inline::Single(by) }
            }
            1 => {
                let k = 2 + self.rng.below(2);
                let input: Vec<(GC, Vec<String>)> = (0..k)
                    .map(|_| (if self.rng.chance(4, 5) { GC::G(self.glyph()) } else { GC::C(self.class(2)) }, vec![]))
                    .collect();
                Rule::Chain { back, input, look, inline: Inline::Lig(self.glyph()) }
            }
            2 => {
                let t = GC::G(self.glyph());
                let k = 2 + self.rng.below(2);
                let by: Vec<G> = (0..k).map(|_| self.glyph()).collect();
                Rule::Chain { back, input: vec![(t, vec![])], look, inline: Inline::Multi(by) }
            }
            _ => {
                let k = 1 + self.rng.below(3);
                let mut input: Vec<(GC, Vec<String>)> = vec![];
                for _ in 0..k {
                    let refs = match self.rng.below(4) {
                        0 => vec![],
                        3 => vec![self.rng.pick(&usable).clone(), self.rng.pick(&usable).clone()],
                        _ => vec![self.rng.pick(&usable).clone()],
                    };
                    input.push((self.gc(), refs));
                }
                Rule::Chain { back, input, look, inline: Inline::None }
            }
        }
    }

    fn kind(&mut self, gpos: bool) -> Kind {
        if gpos {
            if self.rng.chance(1, 2) { Kind::SinglePos } else { Kind::PairPos }
        } else {
            match self.rng.below(if self.opts.free_inline && !self.opts.extended { 14 } else { 10 }) {
                0..=2 => Kind::Single,
                3 | 4 => Kind::Ligature,
                5 => Kind::Multiple,
                6 => Kind::Alternate,
                _ => Kind::Chain,
            }
        }
    }

    fn lookup_body(&mut self, kind: Kind) -> Vec<Stmt> {
        let mut body = vec![];
        if self.rng.chance(1, 2) {
            body.push(Stmt::Flag(self.flag()));
        }
        let n = 1 + self.rng.below(4);
        let mut rules = self.rules(kind, n);
        // inside a named block single rules may be mixed with multiple / ligature rules
        let has_delete = rules.iter().any(|r| matches!(r, Rule::Multiple(_, b) if b.is_empty()));
        if matches!(kind, Kind::Multiple | Kind::Ligature) && !has_delete && self.rng.chance(1, 3) {
            let n_extra = 1 + self.rng.below(2);
            let extra = self.rules(Kind::Single, n_extra);
            let targets: Vec<G> = rules
                .iter()
                .flat_map(|r| match r {
                    Rule::Multiple(a, _) => vec![*a],
                    Rule::Ligature(a, _) => a[0].glyphs(),
                    _ => vec![],
                })
                .collect();
            for e in extra {
                let Rule::Single(a, _) = &e else { continue };
                // keep targets distinct (a single rule for a glyph that also starts a rule of the
                // block is a repeated target)
                if a.glyphs().iter().any(|g| targets.contains(g)) && kind == Kind::Multiple {
                    continue;
                }
                if kind == Kind::Ligature && a.glyphs().iter().any(|g| targets.contains(g)) && !self.rng.chance(1, 2) {
                    continue;
                }
                let at = self.rng.below(rules.len() + 1);
                rules.insert(at, e);
            }
            // repeated single targets among the inserted rules
            let mut seen: Vec<G> = vec![];
            rules.retain(|r| match r {
                Rule::Single(a, _) => {
                    let ts = a.glyphs();
                    if ts.iter().any(|g| seen.contains(g)) {
                        false
                    } else {
                        seen.extend(ts);
                        true
                    }
                }
                _ => true,
            });
        }
        body.extend(rules.into_iter().map(Stmt::Rule));
        body
    }

    fn new_lookup_name(&mut self) -> String {
        self.n_lookup_names += 1;
        format!("L{}", self.n_lookup_names)
    }

    /// implicit rule groups etc. of one script/language segment of a feature
    fn segment(&mut self, gpos: bool, out: &mut Vec<Stmt>) {
        let n_groups = 1 + self.rng.below(3);
        let mut last: Option<(Kind, Flag)> = None;
        let mut cur_flag = Flag::default();
        for _ in 0..n_groups {
            match self.rng.below(8) {
                0 if !self.named.is_empty() => {
                    let (n, _) = self.rng.pick(&self.named).clone();
                    out.push(Stmt::Ref(n));
                    // a reference does not end the current run; keep `last`
                }
                1 => {
                    let kind = self.kind(gpos);
                    let name = self.new_lookup_name();
                    let body = self.lookup_body(kind);
                    // the flag set inside the block stays in force after it (fea-rs); make the
                    // next statement an explicit lookupflag so the source reads unambiguously
                    out.push(Stmt::Lookup(name.clone(), body));
                    self.named.push((name, kind));
                    let f = self.flag();
                    out.push(Stmt::Flag(f.clone()));
                    cur_flag = f;
                    last = None;
                }
                _ => {
                    if self.rng.chance(1, 3) {
                        let f = self.flag();
                        out.push(Stmt::Flag(f.clone()));
                        cur_flag = f;
                    }
                    let mut kind = self.kind(gpos);
                    if let Some((lk, lf)) = &last {
                        let mixes = |a: Kind, b: Kind| {
                            matches!(
                                (a, b),
                                (Kind::Single, Kind::Multiple)
                                    | (Kind::Multiple, Kind::Single)
                                    | (Kind::Single, Kind::Ligature)
                                    | (Kind::Ligature, Kind::Single)
                            )
                        };
                        if *lf == cur_flag && (mixes(*lk, kind) || (*lk == kind && !self.opts.extended)) && !(self.opts.extended && mixes(*lk, kind)) {
                            // same kind again would just extend the run with possibly repeated
                            // targets; a mixing kind would be merged by fea-rs: pick another kind
                            kind = if gpos {
                                if *lk == Kind::SinglePos { Kind::PairPos } else { Kind::SinglePos }
                            } else if *lk == Kind::Chain {
                                Kind::Alternate
                            } else {
                                Kind::Chain
                            };
                        }
                    }
                    let n = 1 + self.rng.below(3);
                    let rules = self.rules(kind, n);
                    out.extend(rules.into_iter().map(Stmt::Rule));
                    last = Some((kind, cur_flag.clone()));
                }
            }
        }
    }

    fn feature_body(&mut self, gpos: bool, langsys: &[(String, String)]) -> Vec<Stmt> {
        let mut out = vec![];
        // rules before any script statement
        if self.rng.chance(3, 4) {
            self.segment(gpos, &mut out);
        }
        // script / language structure: each script at most once, each language at most once per
        // script, only declared language systems, scripts with a declared `dflt`
        if self.rng.chance(1, 3) {
            let mut scripts: Vec<String> = vec![];
            for (s, l) in langsys {
                if l == "dflt" && !scripts.contains(s) {
                    scripts.push(s.clone());
                }
            }
            self.rng.shuffle(&mut scripts);
            let ns = 1 + self.rng.below(scripts.len().min(2));
            for s in scripts.into_iter().take(ns) {
                out.push(Stmt::Script(s.clone()));
                if self.rng.chance(2, 3) {
                    self.segment(gpos, &mut out);
                }
                let mut langs: Vec<String> = langsys.iter().filter(|(s2, l)| *s2 == s && l != "dflt").map(|(_, l)| l.clone()).collect();
                self.rng.shuffle(&mut langs);
                let nl = self.rng.below(langs.len() + 1);
                for l in langs.into_iter().take(nl) {
                    let excl = self.rng.chance(1, 3);
                    out.push(Stmt::Language(l, excl));
                    // `language X exclude_dflt;` with nothing after it registers nothing for X
                    // (kept at a low rate: the driver reports it as outside the claim)
                    if self.rng.chance(3, 4) || (excl && self.rng.chance(9, 10)) {
                        self.segment(gpos, &mut out);
                    }
                }
            }
        }
        if !out.iter().any(|s| matches!(s, Stmt::Rule(_) | Stmt::Lookup(..) | Stmt::Ref(_))) {
            self.segment(gpos, &mut out);
        }
        out
    }
}

fn sorted(v: &[G]) -> Vec<G> {
    let mut v = v.to_vec();
    v.sort();
    v.dedup();
    v
}

/// cartesian enumeration of a sequence of glyph-or-class (first position outermost)
pub fn enumerate(seq: &[GC]) -> Vec<Vec<G>> {
    let mut acc: Vec<Vec<G>> = vec![vec![]];
    for gc in seq {
        let mut next = vec![];
        for p in &acc {
            for g in gc.glyphs() {
                let mut q = p.clone();
                q.push(g);
                next.push(q);
            }
        }
        acc = next;
    }
    acc
}

pub fn gen_program(rng: &mut Rng, opts: GenOpts) -> Program {
    // glyph ids are a permutation of the names, so id order != name order
    let mut names: Vec<String> = LETTERS.iter().chain(MARKS.iter()).map(|s| s.to_string()).collect();
    rng.shuffle(&mut names);
    names.insert(0, ".notdef".into());
    let id_of = |n: &str| names.iter().position(|x| x == n).unwrap() as G;
    let letters: Vec<G> = LETTERS.iter().map(|n| id_of(n)).collect();
    let marks: Vec<G> = MARKS.iter().map(|n| id_of(n)).collect();
    let mut hot: Vec<G> = letters.clone();
    rng.shuffle(&mut hot);
    hot.truncate(4 + rng.below(2));
    hot.push(*rng.pick(&marks));
    // GDEF classes
    let mut gdef: Vec<(G, u16)> = vec![];
    if rng.chance(3, 4) {
        for (i, g) in letters.iter().enumerate() {
            let c = if i >= 10 { 2 } else if i == 9 && rng.chance(1, 2) { 4 } else if rng.chance(1, 8) { 0 } else { 1 };
            if c != 0 {
                gdef.push((*g, c));
            }
        }
        for m in &marks {
            gdef.push((*m, 3));
        }
        // make sure some hot letters are ligatures / unclassified sometimes
        gdef.sort();
    }
    let mut tops: Vec<Top> = vec![];
    // language systems
    let mut langsys: Vec<(String, String)> = vec![];
    match rng.below(4) {
        0 => {}
        1 => langsys.push(("DFLT".into(), "dflt".into())),
        2 => {
            langsys.push(("DFLT".into(), "dflt".into()));
            langsys.push(("latn".into(), "dflt".into()));
            if rng.chance(1, 2) {
                langsys.push(("latn".into(), "TRK".into()));
            }
        }
        _ => {
            langsys.push(("DFLT".into(), "dflt".into()));
            langsys.push(("latn".into(), "dflt".into()));
            langsys.push(("latn".into(), "TRK".into()));
            if rng.chance(1, 2) {
                langsys.push(("latn".into(), "DEU".into()));
            }
            langsys.push(("cyrl".into(), "dflt".into()));
        }
    }
    for (s, l) in &langsys {
        tops.push(Top::LangSys(s.clone(), l.clone()));
    }
    // with no languagesystem statement the implicit default is DFLT/dflt
    let eff_langsys: Vec<(String, String)> = if langsys.is_empty() { vec![("DFLT".into(), "dflt".into())] } else { langsys.clone() };
    let mut g = Gen {
        rng,
        opts,
        letters,
        marks,
        hot,
        named: vec![],
        n_lookup_names: 0,
        attach_classes: vec![],
        filter_classes: vec![],
    };
    let n_tops = 1 + g.rng.below(4);
    let feature_tags_gsub = ["liga", "calt", "smcp", "test"];
    let feature_tags_gpos = ["kern", "dist", "cpsp"];
    let mut n_features = 0;
    for i in 0..n_tops {
        let last = i + 1 == n_tops;
        if !last && g.rng.chance(1, 3) || (last && n_features > 0 && g.rng.chance(1, 5)) {
            // standalone lookup block
            let gpos = g.rng.chance(1, 4);
            let kind = g.kind(gpos);
            let name = g.new_lookup_name();
            let body = g.lookup_body(kind);
            tops.push(Top::Lookup(name.clone(), body));
            g.named.push((name, kind));
        } else {
            let gpos = g.rng.chance(1, 3);
            let tag = if gpos { *g.rng.pick(&feature_tags_gpos) } else { *g.rng.pick(&feature_tags_gsub) };
            let body = g.feature_body(gpos, &eff_langsys);
            tops.push(Top::Feature(tag.to_string(), body));
            n_features += 1;
        }
    }
    if n_features == 0 {
        let body = g.feature_body(false, &eff_langsys);
        tops.push(Top::Feature("liga".into(), body));
    }
    Program { names, gdef, tops }
}

// ------------------------------------------------------------------ real compiler + table dump

pub fn compile_fea(names: &[String], fea: &str) -> Result<Vec<u8>, String> {
    let glyph_map = fea_rs::GlyphMap::new(names.iter().map(|n| fea_rs::GlyphIdent::Name(n.as_str().into()))).map_err(|e| format!("glyphmap:{e}"))?;
    let text: Arc<str> = fea.into();
    let resolver = move |p: &Path| {
        if p == Path::new("memory.fea") {
            Ok(text.clone())
        } else {
            Err(fea_rs::parse::SourceLoadError::new(p.to_path_buf(), "no such file"))
        }
    };
    let compilation = fea_rs::Compiler::<fea_rs::compile::NopFeatureProvider, fea_rs::compile::NopVariationInfo>::new("memory.fea", &glyph_map)
        .with_resolver(resolver)
        .compile()
        .map_err(|e| {
            let s = format!("{e}");
            let s = match &e {
                fea_rs::compile::error::CompilerError::ParseFail(d) => format!("parse:{}", d.display()),
                fea_rs::compile::error::CompilerError::ValidationFail(d) => format!("validate:{}", d.display()),
                fea_rs::compile::error::CompilerError::CompilationFail(d) => format!("compile:{}", d.display()),
                _ => s,
            };
            s
        })?;
    compilation.to_binary(&glyph_map).map_err(|e| format!("binary:{e}"))
}

mod dump {
    use super::*;
    use read_fonts::tables::gpos::{self, PositionSubtables};
    use read_fonts::tables::gsub::{self, SubstitutionSubtables};
    use read_fonts::tables::layout::{
        ChainedSequenceContext, ClassDef, CoverageTable, FeatureList, ScriptList, SequenceContext, SequenceLookupRecord,
    };
    use read_fonts::tables::gpos::ValueRecord;
    use read_fonts::{FontRef, ReadError, TableProvider};

    type R<T> = Result<T, ReadError>;

    fn gid(g: read_fonts::types::GlyphId16) -> S {
        S::usize(g.to_u16() as usize)
    }
    fn cov(c: &CoverageTable) -> S {
        S::list(c.iter().map(gid))
    }
    fn classdef(c: &ClassDef) -> S {
        let mut v: Vec<(u16, u16)> = c.iter().map(|(g, k)| (g.to_u16(), k)).filter(|(_, k)| *k != 0).collect();
        v.sort();
        S::list(v.into_iter().map(|(g, k)| S::list([S::usize(g as usize), S::usize(k as usize)])))
    }
    fn recs(rs: &[SequenceLookupRecord]) -> S {
        S::kv("recs", rs.iter().map(|r| S::list([S::usize(r.sequence_index() as usize), S::usize(r.lookup_list_index() as usize)])))
    }
    fn u16s<T: Copy + Into<u32>>(xs: impl Iterator<Item = T>) -> S {
        S::list(xs.map(|x| S::usize(x.into() as usize)))
    }

    fn seq_ctx(t: &SequenceContext) -> R<S> {
        Ok(match t {
            SequenceContext::Format1(t) => {
                let c = t.coverage()?;
                let mut items = vec![S::atom("chain1")];
                for (g, set) in c.iter().zip(t.seq_rule_sets().iter()) {
                    let rules = match set {
                        None => S::atom("none"),
                        Some(set) => {
                            let set = set?;
                            let mut rs = vec![];
                            for r in set.seq_rules().iter() {
                                let r = r?;
                                rs.push(S::list([
                                    S::list([]),
                                    S::list(r.input_sequence().iter().map(|g| gid(g.get()))),
                                    S::list([]),
                                    recs(r.seq_lookup_records()),
                                ]));
                            }
                            S::list(rs)
                        }
                    };
                    items.push(S::list([gid(g), rules]));
                }
                S::list(items)
            }
            SequenceContext::Format2(t) => {
                let mut sets = vec![];
                for set in t.class_seq_rule_sets().iter() {
                    sets.push(match set {
                        None => S::atom("none"),
                        Some(set) => {
                            let set = set?;
                            let mut rs = vec![];
                            for r in set.class_seq_rules().iter() {
                                let r = r?;
                                rs.push(S::list([
                                    S::list([]),
                                    u16s(r.input_sequence().iter().map(|c| c.get())),
                                    S::list([]),
                                    recs(r.seq_lookup_records()),
                                ]));
                            }
                            S::list(rs)
                        }
                    });
                }
                S::list([
                    S::atom("chain2"),
                    cov(&t.coverage()?),
                    S::list([]),
                    classdef(&t.class_def()?),
                    S::list([]),
                    S::list(sets),
                ])
            }
            SequenceContext::Format3(t) => {
                let mut covs = vec![];
                for c in t.coverages().iter() {
                    covs.push(cov(&c?));
                }
                S::list([S::atom("chain3"), S::list([]), S::list(covs), S::list([]), recs(t.seq_lookup_records())])
            }
        })
    }

    fn chain_ctx(t: &ChainedSequenceContext) -> R<S> {
        Ok(match t {
            ChainedSequenceContext::Format1(t) => {
                let c = t.coverage()?;
                let mut items = vec![S::atom("chain1")];
                for (g, set) in c.iter().zip(t.chained_seq_rule_sets().iter()) {
                    let rules = match set {
                        None => S::atom("none"),
                        Some(set) => {
                            let set = set?;
                            let mut rs = vec![];
                            for r in set.chained_seq_rules().iter() {
                                let r = r?;
                                rs.push(S::list([
                                    S::list(r.backtrack_sequence().iter().map(|g| gid(g.get()))),
                                    S::list(r.input_sequence().iter().map(|g| gid(g.get()))),
                                    S::list(r.lookahead_sequence().iter().map(|g| gid(g.get()))),
                                    recs(r.seq_lookup_records()),
                                ]));
                            }
                            S::list(rs)
                        }
                    };
                    items.push(S::list([gid(g), rules]));
                }
                S::list(items)
            }
            ChainedSequenceContext::Format2(t) => {
                let mut sets = vec![];
                for set in t.chained_class_seq_rule_sets().iter() {
                    sets.push(match set {
                        None => S::atom("none"),
                        Some(set) => {
                            let set = set?;
                            let mut rs = vec![];
                            for r in set.chained_class_seq_rules().iter() {
                                let r = r?;
                                rs.push(S::list([
                                    u16s(r.backtrack_sequence().iter().map(|c| c.get())),
                                    u16s(r.input_sequence().iter().map(|c| c.get())),
                                    u16s(r.lookahead_sequence().iter().map(|c| c.get())),
                                    recs(r.seq_lookup_records()),
                                ]));
                            }
                            S::list(rs)
                        }
                    });
                }
                S::list([
                    S::atom("chain2"),
                    cov(&t.coverage()?),
                    classdef(&t.backtrack_class_def()?),
                    classdef(&t.input_class_def()?),
                    classdef(&t.lookahead_class_def()?),
                    S::list(sets),
                ])
            }
            ChainedSequenceContext::Format3(t) => {
                let mut b = vec![];
                for c in t.backtrack_coverages().iter() {
                    b.push(cov(&c?));
                }
                let mut i = vec![];
                for c in t.input_coverages().iter() {
                    i.push(cov(&c?));
                }
                let mut l = vec![];
                for c in t.lookahead_coverages().iter() {
                    l.push(cov(&c?));
                }
                S::list([S::atom("chain3"), S::list(b), S::list(i), S::list(l), recs(t.seq_lookup_records())])
            }
        })
    }

    fn single(t: &gsub::SingleSubst) -> R<S> {
        let mut items = vec![S::atom("single")];
        match t {
            gsub::SingleSubst::Format1(t) => {
                let d = t.delta_glyph_id() as i32;
                for g in t.coverage()?.iter() {
                    let s = ((g.to_u16() as i32 + d).rem_euclid(65536)) as usize;
                    items.push(S::list([gid(g), S::usize(s)]));
                }
            }
            gsub::SingleSubst::Format2(t) => {
                for (g, s) in t.coverage()?.iter().zip(t.substitute_glyph_ids()) {
                    items.push(S::list([gid(g), gid(s.get())]));
                }
            }
        }
        Ok(S::list(items))
    }
    fn multiple(t: &gsub::MultipleSubstFormat1) -> R<S> {
        let mut items = vec![S::atom("multiple")];
        for (g, s) in t.coverage()?.iter().zip(t.sequences().iter()) {
            let s = s?;
            items.push(S::list([gid(g), S::list(s.substitute_glyph_ids().iter().map(|x| gid(x.get())))]));
        }
        Ok(S::list(items))
    }
    fn alternate(t: &gsub::AlternateSubstFormat1) -> R<S> {
        let mut items = vec![S::atom("alternate")];
        for (g, s) in t.coverage()?.iter().zip(t.alternate_sets().iter()) {
            let s = s?;
            items.push(S::list([gid(g), S::list(s.alternate_glyph_ids().iter().map(|x| gid(x.get())))]));
        }
        Ok(S::list(items))
    }
    fn ligature(t: &gsub::LigatureSubstFormat1) -> R<S> {
        let mut items = vec![S::atom("ligature")];
        for (g, set) in t.coverage()?.iter().zip(t.ligature_sets().iter()) {
            let set = set?;
            let mut ligs = vec![];
            for l in set.ligatures().iter() {
                let l = l?;
                let mut v = vec![gid(l.ligature_glyph())];
                v.extend(l.component_glyph_ids().iter().map(|x| gid(x.get())));
                ligs.push(S::list(v));
            }
            items.push(S::list([gid(g), S::list(ligs)]));
        }
        Ok(S::list(items))
    }

    fn value(v: &ValueRecord) -> S {
        S::list([
            S::int(v.x_placement().unwrap_or(0)),
            S::int(v.y_placement().unwrap_or(0)),
            S::int(v.x_advance().unwrap_or(0)),
            S::int(v.y_advance().unwrap_or(0)),
        ])
    }
    fn single_pos(t: &gpos::SinglePos) -> R<S> {
        let mut items = vec![S::atom("spos")];
        match t {
            gpos::SinglePos::Format1(t) => {
                let v = t.value_record();
                for g in t.coverage()?.iter() {
                    items.push(S::list([gid(g), value(&v)]));
                }
            }
            gpos::SinglePos::Format2(t) => {
                for (g, v) in t.coverage()?.iter().zip(t.value_records().iter()) {
                    items.push(S::list([gid(g), value(&v?)]));
                }
            }
        }
        Ok(S::list(items))
    }
    fn pair_pos(t: &gpos::PairPos) -> R<S> {
        Ok(match t {
            gpos::PairPos::Format1(t) => {
                let mut items = vec![S::atom("ppos1"), S::usize(t.value_format1().bits() as usize), S::usize(t.value_format2().bits() as usize)];
                for (g, set) in t.coverage()?.iter().zip(t.pair_sets().iter()) {
                    let set = set?;
                    let mut ps = vec![];
                    for r in set.pair_value_records().iter() {
                        let r = r?;
                        ps.push(S::list([gid(r.second_glyph()), value(r.value_record1()), value(r.value_record2())]));
                    }
                    items.push(S::list([gid(g), S::list(ps)]));
                }
                S::list(items)
            }
            gpos::PairPos::Format2(t) => {
                let mut rows = vec![];
                for c1 in t.class1_records().iter() {
                    let c1 = c1?;
                    let mut row = vec![];
                    for c2 in c1.class2_records().iter() {
                        let c2 = c2?;
                        row.push(S::list([value(c2.value_record1()), value(c2.value_record2())]));
                    }
                    rows.push(S::list(row));
                }
                S::list([
                    S::atom("ppos2"),
                    S::usize(t.value_format1().bits() as usize),
                    S::usize(t.value_format2().bits() as usize),
                    cov(&t.coverage()?),
                    classdef(&t.class_def1()?),
                    classdef(&t.class_def2()?),
                    S::list(rows),
                ])
            }
        })
    }

    fn lookup_s(ty: usize, flag: u16, mfs: Option<u16>, subs: Vec<S>) -> S {
        S::list([
            S::usize(ty),
            S::usize(flag as usize),
            match mfs {
                Some(m) => S::usize(m as usize),
                None => S::atom("none"),
            },
            S::list(subs),
        ])
    }

    fn gsub_lookup(l: &gsub::SubstitutionLookup) -> R<S> {
        let (flag, mfs) = match l {
            gsub::SubstitutionLookup::Single(l) => (l.lookup_flag(), l.mark_filtering_set()),
            gsub::SubstitutionLookup::Multiple(l) => (l.lookup_flag(), l.mark_filtering_set()),
            gsub::SubstitutionLookup::Alternate(l) => (l.lookup_flag(), l.mark_filtering_set()),
            gsub::SubstitutionLookup::Ligature(l) => (l.lookup_flag(), l.mark_filtering_set()),
            gsub::SubstitutionLookup::Contextual(l) => (l.lookup_flag(), l.mark_filtering_set()),
            gsub::SubstitutionLookup::ChainContextual(l) => (l.lookup_flag(), l.mark_filtering_set()),
            gsub::SubstitutionLookup::Extension(l) => (l.lookup_flag(), l.mark_filtering_set()),
            gsub::SubstitutionLookup::Reverse(l) => (l.lookup_flag(), l.mark_filtering_set()),
        };
        let flag = flag.to_bits();
        let mut subs = vec![];
        let ty;
        match l.subtables()? {
            SubstitutionSubtables::Single(ts) => {
                ty = 1;
                for t in ts.iter() {
                    subs.push(single(&t?)?);
                }
            }
            SubstitutionSubtables::Multiple(ts) => {
                ty = 2;
                for t in ts.iter() {
                    subs.push(multiple(&t?)?);
                }
            }
            SubstitutionSubtables::Alternate(ts) => {
                ty = 3;
                for t in ts.iter() {
                    subs.push(alternate(&t?)?);
                }
            }
            SubstitutionSubtables::Ligature(ts) => {
                ty = 4;
                for t in ts.iter() {
                    subs.push(ligature(&t?)?);
                }
            }
            SubstitutionSubtables::Contextual(ts) => {
                ty = 5;
                for t in ts.iter() {
                    subs.push(seq_ctx(&t?)?);
                }
            }
            SubstitutionSubtables::ChainContextual(ts) => {
                ty = 6;
                for t in ts.iter() {
                    subs.push(chain_ctx(&t?)?);
                }
            }
            SubstitutionSubtables::Reverse(ts) => {
                ty = 8;
                for _ in ts.iter() {
                    subs.push(S::list([S::atom("other")]));
                }
            }
            SubstitutionSubtables::EmptyExtension => {
                ty = 7;
            }
        }
        Ok(lookup_s(ty, flag, mfs, subs))
    }

    fn gpos_lookup(l: &gpos::PositionLookup) -> R<S> {
        let flag = l.lookup_flag().to_bits();
        let mfs = l.mark_filtering_set();
        let mut subs = vec![];
        let ty;
        match l.subtables()? {
            PositionSubtables::Single(ts) => {
                ty = 1;
                for t in ts.iter() {
                    subs.push(single_pos(&t?)?);
                }
            }
            PositionSubtables::Pair(ts) => {
                ty = 2;
                for t in ts.iter() {
                    subs.push(pair_pos(&t?)?);
                }
            }
            PositionSubtables::Contextual(ts) => {
                ty = 7;
                for t in ts.iter() {
                    subs.push(seq_ctx(&t?)?);
                }
            }
            PositionSubtables::ChainContextual(ts) => {
                ty = 8;
                for t in ts.iter() {
                    subs.push(chain_ctx(&t?)?);
                }
            }
            PositionSubtables::Cursive(_) => {
                ty = 3;
                subs.push(S::list([S::atom("other")]));
            }
            PositionSubtables::MarkToBase(_) => {
                ty = 4;
                subs.push(S::list([S::atom("other")]));
            }
            PositionSubtables::MarkToLig(_) => {
                ty = 5;
                subs.push(S::list([S::atom("other")]));
            }
            PositionSubtables::MarkToMark(_) => {
                ty = 6;
                subs.push(S::list([S::atom("other")]));
            }
            PositionSubtables::EmptyExtension => {
                ty = 9;
            }
        }
        Ok(lookup_s(ty, flag, mfs, subs))
    }

    fn tag(t: read_fonts::types::Tag) -> S {
        S::str(t.to_string().trim_end())
    }

    fn features(fl: &FeatureList) -> R<S> {
        let mut out = vec![];
        for r in fl.feature_records() {
            let f = r.feature(fl.offset_data())?;
            out.push(S::list([tag(r.feature_tag()), u16s(f.lookup_list_indices().iter().map(|i| i.get()))]));
        }
        Ok(S::list(out))
    }

    fn langsys(l: &read_fonts::tables::layout::LangSys) -> S {
        S::list([S::usize(l.required_feature_index() as usize), u16s(l.feature_indices().iter().map(|i| i.get()))])
    }

    fn scripts(sl: &ScriptList) -> R<S> {
        let mut out = vec![];
        for r in sl.script_records() {
            let s = r.script(sl.offset_data())?;
            let dflt = match s.default_lang_sys() {
                None => S::atom("none"),
                Some(l) => langsys(&l?),
            };
            let mut langs = vec![];
            for lr in s.lang_sys_records() {
                let l = lr.lang_sys(s.offset_data())?;
                langs.push(S::list([tag(lr.lang_sys_tag()), langsys(&l)]));
            }
            out.push(S::list([tag(r.script_tag()), dflt, S::list(langs)]));
        }
        Ok(S::list(out))
    }

    pub fn dump(bytes: &[u8]) -> R<Vec<S>> {
        let font = FontRef::new(bytes)?;
        let mut out = vec![];
        match font.gsub() {
            Ok(t) => {
                let mut ls = vec![];
                for l in t.lookup_list()?.lookups().iter() {
                    ls.push(gsub_lookup(&l?)?);
                }
                out.push(S::kv("gsub", [S::k1("lookups", S::list(ls)), S::k1("features", features(&t.feature_list()?)?), S::k1("scripts", scripts(&t.script_list()?)?)]));
            }
            Err(_) => out.push(S::kv("gsub", [S::k1("lookups", S::list([])), S::k1("features", S::list([])), S::k1("scripts", S::list([]))])),
        }
        match font.gpos() {
            Ok(t) => {
                let mut ls = vec![];
                for l in t.lookup_list()?.lookups().iter() {
                    ls.push(gpos_lookup(&l?)?);
                }
                out.push(S::kv("gpos", [S::k1("lookups", S::list(ls)), S::k1("features", features(&t.feature_list()?)?), S::k1("scripts", scripts(&t.script_list()?)?)]));
            }
            Err(_) => out.push(S::kv("gpos", [S::k1("lookups", S::list([])), S::k1("features", S::list([])), S::k1("scripts", S::list([]))])),
        }
        let (mut classes, mut attach, mut sets) = (S::list([]), S::list([]), S::list([]));
        if let Ok(g) = font.gdef() {
            if let Some(c) = g.glyph_class_def() {
                classes = classdef(&c?);
            }
            if let Some(c) = g.mark_attach_class_def() {
                attach = classdef(&c?);
            }
            if let Some(m) = g.mark_glyph_sets_def() {
                let m = m?;
                let mut v = vec![];
                for c in m.coverages().iter() {
                    v.push(cov(&c?));
                }
                sets = S::list(v);
            }
        }
        out.push(S::kv("gdef", [S::k1("classes", classes), S::k1("attach", attach), S::k1("sets", sets)]));
        Ok(out)
    }
}

fn err_word(e: &str) -> String {
    let mut w: String = e.chars().take_while(|c| *c != ':').collect();
    if w.is_empty() {
        w = "error".into();
    }
    w
}

pub fn case_fields(p: &Program, fea: &str, rand_strings: &[Vec<G>]) -> Vec<S> {
    let mut f = vec![
        s_prog(p),
        S::k1("fea", S::str(fea)),
        S::k1("rand", S::list(rand_strings.iter().map(|s| s_gs(s)))),
    ];
    let imp = match compile_fea(&p.names, fea) {
        Err(e) => S::kv("impl", [S::k1("status", S::atom(format!("err-{}", err_word(&e)))), S::k1("msg", S::str(&e))]),
        Ok(bytes) => match dump::dump(&bytes) {
            Ok(mut tables) => {
                let mut v = vec![S::k1("status", S::atom("ok"))];
                v.append(&mut tables);
                S::kv("impl", v)
            }
            Err(e) => S::kv("impl", [S::k1("status", S::atom("err-readback")), S::k1("msg", S::str(&format!("{e}")))]),
        },
    };
    f.push(imp);
    f
}

fn rand_strings(rng: &mut Rng, p: &Program) -> Vec<Vec<G>> {
    // glyphs mentioned by the program, for longer random strings
    let line = s_prog(p).to_line();
    let _ = line;
    let n = p.names.len() as G;
    let mut used: Vec<G> = vec![];
    fn walk(s: &[Stmt], used: &mut Vec<G>) {
        for st in s {
            match st {
                Stmt::Rule(r) => {
                    let mut add = |gc: &GC| used.extend(gc.glyphs());
                    match r {
                        Rule::Single(a, b) => { add(a); add(b) }
                        Rule::Multiple(a, b) | Rule::Alternate(a, b) => { used.push(*a); used.extend(b) }
                        Rule::Ligature(a, b) => { a.iter().for_each(&mut add); used.push(*b) }
                        Rule::Chain { back, input, look, .. } => {
                            back.iter().for_each(&mut add);
                            input.iter().for_each(|(g, _)| add(g));
                            look.iter().for_each(&mut add);
                        }
                        Rule::Ignore(rs) => rs.iter().for_each(|(b, i, l)| { b.iter().chain(i).chain(l).for_each(&mut add) }),
                        Rule::SinglePos(a, _) => add(a),
                        Rule::PairPos { a, b, .. } => { add(a); add(b) }
                    }
                }
                Stmt::Lookup(_, b) => walk(b, used),
                _ => {}
            }
        }
    }
    for t in &p.tops {
        match t {
            Top::Lookup(_, b) | Top::Feature(_, b) => walk(b, &mut used),
            _ => {}
        }
    }
    used.sort();
    used.dedup();
    if used.is_empty() {
        used.push(1);
    }
    let marks: Vec<G> = p.gdef.iter().filter(|(_, c)| *c == 3).map(|(g, _)| *g).collect();
    (0..24)
        .map(|_| {
            let len = 5 + rng.below(5);
            (0..len)
                .map(|_| {
                    if !marks.is_empty() && rng.chance(1, 5) {
                        *rng.pick(&marks)
                    } else if rng.chance(9, 10) {
                        *rng.pick(&used)
                    } else {
                        1 + rng.below(n as usize - 1) as G
                    }
                })
                .collect()
        })
        .collect()
}

pub fn run(stream: &'static str, args: &Args) {
    let seed = args.seed;
    let opts = match stream {
        "c11x" => GenOpts { extended: false, free_inline: true },
        "c11adv" => GenOpts { extended: true, free_inline: true },
        _ => GenOpts { extended: false, free_inline: false },
    };
    crate::run_cases(stream, args, move |i| {
        let mut rng = Rng::for_case(seed, stream, i);
        let p = gen_program(&mut rng, opts);
        let fea = print_fea(&p, rng.next());
        let rs = rand_strings(&mut rng, &p);
        case_fields(&p, &fea, &rs)
    });
}

/// `vharness c11fea <file.fea>`: compile a hand-written feature file over the standard glyph set
/// (ids in name order) and print the table dump — used to replay findings by hand.
pub fn run_file(args: &Args) {
    let path = args.rest.first().expect("path to .fea");
    let fea = std::fs::read_to_string(path).expect("read fea");
    let mut names: Vec<String> = vec![".notdef".into()];
    names.extend(LETTERS.iter().chain(MARKS.iter()).map(|s| s.to_string()));
    match compile_fea(&names, &fea) {
        Err(e) => println!("ERROR {e}"),
        Ok(bytes) => match dump::dump(&bytes) {
            Ok(t) => {
                for s in t {
                    println!("{}", s.to_line());
                }
            }
            Err(e) => println!("READBACK {e}"),
        },
    }
}
