//! C13: the fea-rs front end (lexer, parser, include resolution, validation) through its public API.
//!
//! Stream `c13lex`: one FEA text per case (corpus file, mutation of one, token soup, grammar-ish text,
//!   arbitrary UTF-8), parsed with `fea_rs::parse::parse_root` (with or without a glyph map, in-memory
//!   resolver that refuses includes, exactly like `parse_string`). Output: the tokens of the tree in
//!   order (kind + text), the diagnostics (level, range, source length), whether formatting the
//!   diagnostics / validating / compiling panicked.
//! Stream `c13inc`: a random include graph written to a temp dir and parsed with
//!   `fea_rs::parse::parse_root_file` under a wall-clock guard.
use crate::rng::Rng;
use crate::sexp::S;
use crate::Args;
use fea_rs::compile::{self, NopFeatureProvider, NopVariationInfo, Opts};
use fea_rs::parse::{parse_root, parse_root_file, SourceLoadError};
use fea_rs::{Diagnostic, DiagnosticSet, GlyphMap, Level, ParseTree};
use std::panic::{catch_unwind, AssertUnwindSafe};
use std::path::{Path, PathBuf};
use std::sync::{mpsc, Arc, OnceLock};
use std::time::Duration;

const TEST_DATA: &str = "/repo/fea-rs/test-data";

// ---------------------------------------------------------------------------------- corpus

fn walk(dir: &Path, out: &mut Vec<PathBuf>) {
    let Ok(rd) = std::fs::read_dir(dir) else { return };
    for e in rd.flatten() {
        let p = e.path();
        if p.is_dir() {
            walk(&p, out);
        } else if p.extension().map(|x| x == "fea").unwrap_or(false) {
            out.push(p);
        }
    }
}

/// every *.fea below fea-rs/test-data that is valid UTF-8, sorted by path
pub fn corpus() -> &'static Vec<(String, String)> {
    static C: OnceLock<Vec<(String, String)>> = OnceLock::new();
    C.get_or_init(|| {
        let mut paths = vec![];
        walk(Path::new(TEST_DATA), &mut paths);
        paths.sort();
        paths
            .into_iter()
            .filter_map(|p| std::fs::read_to_string(&p).ok().map(|t| (p.to_string_lossy().into_owned(), t)))
            .collect()
    })
}

/// the feaLib test glyph order (as in fea-rs' own tests) plus a few hyphenated names that make
/// `a-b` style tokens ambiguous between a name and a range
pub fn glyph_map() -> &'static GlyphMap {
    static G: OnceLock<GlyphMap> = OnceLock::new();
    G.get_or_init(|| {
        let order = std::fs::read_to_string(format!("{TEST_DATA}/simple_glyph_order.txt")).unwrap_or_default();
        let mut names: Vec<String> = order
            .lines()
            .filter(|l| !l.is_empty() && !l.starts_with('#') && !l.bytes().any(|b| b.is_ascii_whitespace()))
            .map(|l| l.to_string())
            .collect();
        if names.first().map(|n| n.as_str()) != Some(".notdef") {
            names.insert(0, ".notdef".into());
        }
        for extra in ["a-b", "hyphen", "x-y", "y-z", "x", "y-z-w"] {
            if !names.iter().any(|n| n == extra) {
                names.push(extra.to_string());
            }
        }
        GlyphMap::new(names.iter().map(|s| s.as_str())).unwrap()
    })
}

// ---------------------------------------------------------------------------------- generators

const UNI: [&str; 24] = [
    "\u{e9}", "\u{df}", "\u{4e2d}", "\u{1F600}", "\u{7f}", "\u{80}", "\u{7ff}", "\u{800}", "\u{ffff}", "\u{10000}",
    "\u{10ffff}", "\u{feff}", "\u{a0}", "\u{2028}", "\u{85}", "\u{1}", "\u{b}", "\u{c}", "\u{1b}", "\u{301}",
    "\u{d7ff}", "\u{e000}", "\u{fffd}", "\u{3b1}",
];

const PUNCT: [&str; 30] = [
    ";", ":", ",", "@", "\\", "-", "=", "{", "}", "[", "]", "(", ")", "<", ">", "'", "$", "*", "+", "/", "#", "\"",
    ".", "_", "\\\\", "${", "-0", "0x", "\r", "\t",
];

const WORDS: [&str; 64] = [
    "feature", "lookup", "table", "languagesystem", "include", "include(", "markClass", "anchorDef", "anon",
    "conditionset", "variation", "valueRecordDef", "sub", "substitute", "pos", "position", "by", "from", "ignore",
    "rsub", "enum", "script", "language", "lookupflag", "useExtension", "subtable", "parameters", "nameid",
    "anchor", "NULL", "mark", "cursive", "base", "ligature", "ligComponent", "contourpoint", "device",
    "RightToLeft", "IgnoreMarks", "MarkAttachmentType", "UseMarkFilteringSet", "exclude_dflt", "include_dflt",
    "required", "GDEF", "head", "hhea", "name", "OS/2", "BASE", "STAT", "vhea", "GlyphClassDef", "FontRevision",
    "Panose", "Vendor", "featureNames", "cvParameters", "sizemenuname", "HorizAxis.BaseTagList", "DFLT", "dflt",
    "latn", "kern",
];

const ATOMS: [&str; 40] = [
    "a", "b", "c", "f_f", "a.alt1", "A.sc", "x-y", "a-b", "a-z", "a--b", "@cls", "@A", "\\a", "\\12", "\\sub", "0",
    "1", "-1", "007", "0x1F", "0x", "0xZZ", "1.5", "-2.25", "12.5", "1n", "2.5u", "3d", "100", "-100", "\"str\"",
    "\"open", "liga", "ss01", "cv01", "wght", "wdth", "wght=400", "${a-12}", "$pad",
];

fn pick<'a>(rng: &mut Rng, xs: &'a [&'a str]) -> &'a str {
    xs[rng.below(xs.len())]
}

fn floor_boundary(s: &str, mut i: usize) -> usize {
    if i > s.len() {
        i = s.len();
    }
    while !s.is_char_boundary(i) {
        i -= 1;
    }
    i
}

fn rand_pos(rng: &mut Rng, s: &str) -> usize {
    floor_boundary(s, rng.below(s.len() + 1))
}

fn rand_char(rng: &mut Rng) -> char {
    loop {
        let c = match rng.below(6) {
            0 => rng.range(1, 0x7f) as u32,
            1 => rng.range(0x80, 0x7ff) as u32,
            2 => rng.range(0x800, 0xffff) as u32,
            3 => rng.range(0x10000, 0x10ffff) as u32,
            4 => rng.range(0x20, 0x7e) as u32,
            _ => *rng.pick(&[0x9u32, 0xa, 0xd, 0x20, 0x22, 0x23, 0x28, 0x29, 0x5c]),
        };
        if let Some(c) = char::from_u32(c) {
            return c;
        }
    }
}

fn insertion(rng: &mut Rng, allow_nul: bool) -> String {
    match rng.below(10) {
        0 | 1 => pick(rng, &UNI).to_string(),
        2 | 3 => pick(rng, &PUNCT).to_string(),
        4 => pick(rng, &WORDS).to_string(),
        5 => pick(rng, &ATOMS).to_string(),
        6 => rand_char(rng).to_string(),
        7 => if allow_nul { "\0".to_string() } else { "\\".to_string() },
        8 => format!(" {} ", pick(rng, &ATOMS)),
        _ => (0..1 + rng.below(4)).map(|_| rand_char(rng)).collect(),
    }
}

fn mutate(rng: &mut Rng, base: &str, allow_nul: bool) -> (String, &'static str) {
    let mut s = base.to_string();
    let n = 1 + rng.below(4);
    let mut kind = "mut";
    for _ in 0..n {
        let a = rand_pos(rng, &s);
        let b = floor_boundary(&s, a + rng.below(24));
        match rng.below(8) {
            0 => { s.replace_range(a..b, ""); }
            1 => { let span = s[a..b].to_string(); s.insert_str(b, &span); }
            2 => {
                // swap two spans
                let c = floor_boundary(&s, b + rng.below(24));
                let d = floor_boundary(&s, c + rng.below(24));
                let t = format!("{}{}{}", &s[c..d], &s[b..c], &s[a..b]);
                s.replace_range(a..d, &t);
            }
            3 | 4 => { let ins = insertion(rng, allow_nul); s.insert_str(a, &ins); }
            5 => { let ins = insertion(rng, allow_nul); s.replace_range(a..b, &ins); }
            6 => {
                // cut the tail: unterminated strings / comments / blocks
                let q = match rng.below(3) { 0 => "\"", 1 => "#", _ => "" };
                s.truncate(a);
                s.push_str(q);
                kind = "mut-trunc";
            }
            _ => { s.insert_str(a, "\\"); }
        }
    }
    (s, kind)
}

fn soup(rng: &mut Rng, allow_nul: bool) -> String {
    let n = rng.below(40);
    let mut s = String::new();
    for _ in 0..n {
        match rng.below(12) {
            0..=2 => s.push_str(pick(rng, &WORDS)),
            3..=5 => s.push_str(pick(rng, &ATOMS)),
            6..=7 => s.push_str(pick(rng, &PUNCT)),
            8 => s.push_str(pick(rng, &UNI)),
            9 => s.push_str(&insertion(rng, allow_nul)),
            10 => s.push_str("include("),
            _ => s.push(rand_char(rng)),
        }
        match rng.below(6) {
            0 | 1 | 2 => s.push(' '),
            3 => s.push('\n'),
            _ => {}
        }
    }
    s
}

fn glyphish(rng: &mut Rng) -> String {
    match rng.below(12) {
        0 => format!("[{} {}]", pick(rng, &ATOMS), pick(rng, &ATOMS)),
        1 => "@cls".into(),
        2 => format!("[{}-{}]", *rng.pick(&["a", "A", "x", "a.alt1"]), *rng.pick(&["z", "Z", "y", "a.alt3"])),
        3 => format!("{}'", *rng.pick(&["a", "b", "f_f", "@cls"])),
        4 => format!("\\{}", rng.below(1200)),
        5 => "x-y".into(),
        6 => "[a - z]".into(),
        _ => rng.pick(&["a", "b", "c", "d", "e", "f", "f_f", "f_i", "A", "B", "one", "two", "a.alt1", "a-b", "y-z-w"]).to_string(),
    }
}

fn value(rng: &mut Rng) -> String {
    match rng.below(10) {
        0 => format!("<{} {} {} {}>", rng.range(-50, 50), rng.range(-50, 50), rng.range(-50, 50), rng.range(-50, 50)),
        1 => format!("<anchor {} {}>", rng.range(-500, 500), rng.range(-500, 500)),
        2 => "<NULL>".into(),
        3 => format!("(wght=200:{} wght=900:{})", rng.range(-50, 50), rng.range(-50, 50)),
        4 => format!("${{{}}}", expr(rng)),
        5 => "$pad".into(),
        6 => format!("{}.{}", rng.range(-9, 99), rng.below(100)),
        _ => format!("{}", rng.range(-200, 200)),
    }
}

fn expr(rng: &mut Rng) -> String {
    let n = 1 + rng.below(4);
    let mut s = String::new();
    for i in 0..n {
        if i > 0 {
            s.push_str(*rng.pick(&["-", "+", "*", "/", " - ", " + ", "--", ""]));
        }
        match rng.below(5) {
            0 => s.push_str(*rng.pick(&["pad", "x_height", "a", "_b"])),
            1 => s.push_str(&format!("{}", rng.below(300))),
            2 => s.push_str(&format!("{}.{}", rng.below(300), rng.below(100))),
            3 => s.push_str(&format!("-{}", rng.below(30))),
            _ => s.push_str("pad"),
        }
    }
    s
}

fn statement(rng: &mut Rng) -> String {
    match rng.below(16) {
        0 => format!("sub {} by {};", glyphish(rng), glyphish(rng)),
        1 => format!("sub {} {} by {};", glyphish(rng), glyphish(rng), glyphish(rng)),
        2 => format!("sub {} from [{} {}];", glyphish(rng), glyphish(rng), glyphish(rng)),
        3 => format!("pos {} {};", glyphish(rng), value(rng)),
        4 => format!("pos {} {} {};", glyphish(rng), glyphish(rng), value(rng)),
        5 => format!("sub {}' {} by {};", glyphish(rng), glyphish(rng), glyphish(rng)),
        6 => format!("ignore sub {} {}';", glyphish(rng), glyphish(rng)),
        7 => format!("lookupflag {};", *rng.pick(&["0", "RightToLeft", "IgnoreMarks", "MarkAttachmentType @cls", "7"])),
        8 => format!("script {}; language {};", *rng.pick(&["latn", "DFLT", "cyrl"]), *rng.pick(&["dflt", "TRK ", "DEU exclude_dflt"])),
        9 => format!("include({});", *rng.pick(&["x.fea", " spaced.fea ", "", "a)b", "\u{e9}.fea"])),
        10 => format!("pos base {} <anchor {} {}> mark @cls;", glyphish(rng), rng.range(-9, 99), rng.range(-9, 99)),
        11 => format!("pos {}' lookup L {};", glyphish(rng), glyphish(rng)),
        12 => format!("rsub {} {}' by {};", glyphish(rng), glyphish(rng), glyphish(rng)),
        13 => format!("pos {} ${{{}}};", glyphish(rng), expr(rng)),
        14 => format!("@cls = [{} {}];", glyphish(rng), glyphish(rng)),
        _ => "subtable;".into(),
    }
}

fn grammar(rng: &mut Rng) -> String {
    let mut s = String::new();
    if rng.chance(2, 3) {
        s.push_str("languagesystem DFLT dflt;\n");
    }
    if rng.chance(1, 2) {
        s.push_str(&format!("@cls = [{} {}];\n", glyphish(rng), glyphish(rng)));
    }
    if rng.chance(1, 4) {
        s.push_str("markClass [acute grave] <anchor 10 20> @cls;\n");
    }
    let blocks = 1 + rng.below(3);
    for _ in 0..blocks {
        match rng.below(8) {
            0 => {
                s.push_str("lookup L {\n");
                for _ in 0..1 + rng.below(3) {
                    s.push_str(&format!("  {}\n", statement(rng)));
                }
                s.push_str("} L;\n");
            }
            1 => s.push_str(&format!(
                "table {} {{\n  {}\n}} {};\n",
                *rng.pick(&["GDEF", "head", "hhea", "OS/2", "name", "BASE", "STAT", "vhea"]),
                *rng.pick(&[
                    "FontRevision 1.5;", "GlyphClassDef [a b], [f_f], [acute], ;", "Ascender 800;", "Panose 1 2 3 4 5 6 7 8 9 10;",
                    "nameid 9 \"Joe\";", "nameid 1 3 1 0x409 \"x\\00e9\";", "Vendor \"ABCD\";", "TypoAscender ${a-12.5};",
                    "HorizAxis.BaseTagList ideo romn;", "ElidedFallbackName { name \"Regular\"; };", "UnicodeRange 0 1 2;",
                ]),
                *rng.pick(&["GDEF", "head", "hhea", "OS/2", "name", "BASE", "STAT", "vhea"])
            )),
            2 => s.push_str(&format!("include({});\n", *rng.pick(&["other.fea", " x ", "..", ""]))),
            3 => s.push_str("anon FOO {\n anything ; goes } here \n} FOO;\n"),
            4 => s.push_str(&format!(
                "conditionset C {{ wght {} {}; }} C;\nvariation liga C {{ {} }} liga;\n",
                rng.range(0, 400), rng.range(400, 900), statement(rng)
            )),
            _ => {
                let tag = *rng.pick(&["liga", "kern", "ss01", "cv01", "aalt", "size", "mark"]);
                s.push_str(&format!("feature {tag} {{\n"));
                for _ in 0..1 + rng.below(5) {
                    s.push_str(&format!("  {}\n", statement(rng)));
                }
                if rng.chance(1, 6) {
                    s.push_str("  # comment \u{e9}\u{4e2d}\n");
                }
                s.push_str(&format!("}} {tag};\n"));
            }
        }
    }
    s
}

fn arbitrary(rng: &mut Rng, allow_nul: bool) -> String {
    let n = rng.below(64);
    (0..n)
        .map(|_| if allow_nul && rng.chance(1, 20) { '\0' } else { rand_char(rng) })
        .collect()
}

fn window(rng: &mut Rng, text: &str, max: usize) -> String {
    if text.len() <= max {
        return text.to_string();
    }
    let a = floor_boundary(text, rng.below(text.len() - max));
    let b = floor_boundary(text, a + max / 2 + rng.below(max / 2));
    text[a..b].to_string()
}

/// Inputs that are always run (indices just after the corpus files): the witness of the Lean counterexample
/// and the minimal failing input of every defect this check has found, so each is re-decided on every run.
const FIXED: [(&str, bool); 12] = [
    ("a\0b", false),                                                                   // NUL = EOF sentinel (theorem witness)
    ("feature liga { sub a by b; } liga;\0feature kern { pos a b 1; } kern;", true),   // … silently drops `kern`
    ("feature liga { sub a by \0 b; } liga;\n@c=[a];", true),                          // NUL eaten as a 1-byte Eof token
    ("include;", false),                                                               // Include::path unwrap
    ("include", true),
    ("feature kern { pos a ${a-12.5}; } kern;", true),                                 // take_next_token slices past the end
    ("anchorDef 0 (wght=200:12 wdthh=150) COOL;", false),                              // location loop never advances
    ("@c = [a--b];", true),                                                            // try_split_range drops a hyphen
    ("languagesystem DFLT dflt", false),                                               // `pos..pos+1` past the end
    ("@c = [a]\u{e9}", true),                                                          // `pos..pos+1` inside a character
    ("aaaaaaaaaaaaaaaaaaaaaaaaaaaaaaaaaaaaaaaaaaaaaaaaaaaaaaaaaaaaaaaaaaaaaaaaaaaaaaaaaaaaaaaaaaaaaaaaaaa\u{e9};", false), // display() cuts a line at byte 100
    ("include()", false),                                                              // path mode swallows the `)`
];

pub struct LexCase {
    pub src: String,
    pub genr: String,
    pub use_map: bool,
}

pub fn gen_lex_case(rng: &mut Rng, i: usize) -> LexCase {
    let corp = corpus();
    // the first |corpus| indices are the corpus files themselves, unchanged
    if i < corp.len() {
        return LexCase { src: corp[i].1.clone(), genr: "corpus".into(), use_map: i % 2 == 1 };
    }
    if i < corp.len() + FIXED.len() {
        let (t, m) = FIXED[i - corp.len()];
        return LexCase { src: t.to_string(), genr: "fixed".into(), use_map: m };
    }
    let use_map = rng.chance(1, 2);
    // NUL (the known EOF-sentinel defect) is only injected in a small, separately tagged share of cases
    let allow_nul = rng.chance(1, 16);
    let (src, genr) = match rng.below(10) {
        0..=3 if !corp.is_empty() => {
            let k = rng.below(corp.len());
            let base = window(rng, &corp[k].1, 3000);
            let (s, k) = mutate(rng, &base, allow_nul);
            (s, k.to_string())
        }
        4 | 5 => (soup(rng, allow_nul), "soup".to_string()),
        6 | 7 => {
            let g = grammar(rng);
            if rng.chance(1, 2) { (g, "grammar".to_string()) } else { let (s, _) = mutate(rng, &g, allow_nul); (s, "grammar-mut".to_string()) }
        }
        8 => (arbitrary(rng, allow_nul), "arbitrary".to_string()),
        _ => {
            // directed shapes
            let s = match rng.below(10) {
                0 => format!("include({}", pick(rng, &ATOMS)),
                1 => format!("include ( {} ) ;", pick(rng, &UNI)),
                2 => format!("{}{}", "[".repeat(rng.below(200)), "a"),
                3 => format!("feature liga {{ sub a by b; }} liga;{}", if allow_nul { "\0feature kern { pos a b 1; } kern;" } else { "" }),
                4 => format!("\"{}", pick(rng, &UNI)),
                5 => format!("# {}{}", pick(rng, &UNI), if rng.chance(1, 2) { "\r" } else { "" }),
                6 => format!("feature kern {{ pos a {}; }} kern;", value(rng)),
                7 => format!("languagesystem DFLT dflt{}", pick(rng, &UNI)),
                8 => format!("@c = [a{}b];", rng.pick(&["-", "--", " - ", "-b-"])),
                _ => format!("table OS/2 {{ TypoAscender ${{{}}}; }} OS/2;", expr(rng)),
            };
            (s, "directed".to_string())
        }
    };
    LexCase { src, genr, use_map }
}

// ---------------------------------------------------------------------------------- running the real code

pub enum Outcome<T> {
    Done(T),
    /// message, `file.rs:line` of the panic
    Panic(String, String),
    Hang,
}

thread_local! {
    /// `file.rs:line` (file name without directories) of the last panic on this thread
    static LAST_PANIC_LOC: std::cell::RefCell<String> = const { std::cell::RefCell::new(String::new()) };
}

/// silent panic hook that remembers where the panic happened: the call site identifies the defect
pub fn install_panic_hook() {
    std::panic::set_hook(Box::new(|info| {
        let loc = info
            .location()
            .map(|l| {
                let file = l.file().rsplit(['/', '\\']).next().unwrap_or("?");
                format!("{}:{}", file, l.line())
            })
            .unwrap_or_else(|| "?".to_string());
        LAST_PANIC_LOC.with(|c| *c.borrow_mut() = loc);
    }));
}

fn take_panic_loc() -> String {
    LAST_PANIC_LOC.with(|c| {
        let l = c.borrow().clone();
        if l.is_empty() { "?".to_string() } else { l }
    })
}

/// `(panic <hex message> <file.rs:line>)`
fn s_panic(e: Box<dyn std::any::Any + Send>) -> S {
    S::kv("panic", [S::str(&panic_msg(e)), S::atom(take_panic_loc())])
}

fn panic_msg(e: Box<dyn std::any::Any + Send>) -> String {
    e.downcast_ref::<String>().cloned().or_else(|| e.downcast_ref::<&str>().map(|s| s.to_string())).unwrap_or_default()
}

/// run `f` on its own thread (large stack) with a wall-clock limit; a hung thread is leaked
pub fn guarded<T: Send + 'static>(secs: u64, f: impl FnOnce() -> T + Send + 'static) -> Outcome<T> {
    let (tx, rx) = mpsc::channel();
    let spawned = std::thread::Builder::new().stack_size(64 << 20).spawn(move || {
        let r = catch_unwind(AssertUnwindSafe(f)).map_err(|e| (panic_msg(e), take_panic_loc()));
        let _ = tx.send(r);
    });
    if spawned.is_err() {
        return Outcome::Panic("could not spawn worker thread".into(), "harness".into());
    }
    match rx.recv_timeout(Duration::from_secs(secs)) {
        Ok(Ok(v)) => Outcome::Done(v),
        Ok(Err((m, l))) => Outcome::Panic(m, l),
        Err(_) => Outcome::Hang,
    }
}

fn msg_class(text: &str) -> &'static str {
    if text.contains("cyclical include") {
        "cycle"
    } else if text.contains("maximum include depth") {
        "deep"
    } else if text.contains("Failed to load source") || text.contains("cannot handle imports") {
        "load"
    } else {
        "other"
    }
}

/// `(L file start end srclen startIsBoundary endIsBoundary class)`; `file` = file name of the diagnostic's own source
fn diag_rec(tree: &ParseTree, d: &Diagnostic) -> S {
    let r = d.span();
    let level = match d.level { Level::Error => "E", Level::Warning => "W", Level::Info => "I" };
    let (name, srclen, bs, be) = match tree.get_source(d.message.file) {
        Some(src) => {
            let t = src.text();
            let name = src.path().file_name().map(|n| n.to_string_lossy().into_owned()).unwrap_or_default();
            (name, t.len() as i64, t.is_char_boundary(r.start), t.is_char_boundary(r.end))
        }
        None => ("?".to_string(), -1, false, false),
    };
    S::list([
        S::atom(level), S::str(&name), S::usize(r.start), S::usize(r.end), S::int(srclen),
        S::bool(bs), S::bool(be), S::atom(msg_class(d.text())),
    ])
}

fn diag_list(tree: &ParseTree, ds: &DiagnosticSet) -> S {
    S::list(ds.diagnostics().iter().map(|d| diag_rec(tree, d)))
}

fn first_msgs(ds: &DiagnosticSet) -> S {
    S::list(ds.diagnostics().iter().take(3).map(|d| S::str(&d.text().chars().take(80).collect::<String>())))
}

fn tokens_of(tree: &ParseTree) -> S {
    let mut v = vec![];
    for t in tree.root().iter_tokens() {
        v.push(S::atom(format!("{:?}", t.kind)));
        v.push(S::str(t.as_str()));
    }
    S::list(v)
}

/// format / validate / compile stages, each with its own panic guard
fn after_parse(tree: &ParseTree, diags: &DiagnosticSet, use_map: bool) -> Vec<S> {
    let mut f = vec![
        S::k1("toks", tokens_of(tree)),
        S::k1("textlen", S::usize(tree.root().text_len())),
        S::k1("diags", diag_list(tree, diags)),
        S::k1("msgs", first_msgs(diags)),
    ];
    let fmt = catch_unwind(AssertUnwindSafe(|| diags.display().to_string().len()));
    f.push(S::k1("fmt", match fmt { Ok(_) => S::atom("ok"), Err(e) => s_panic(e) }));
    // A tree parsed without a glyph map still contains unresolved `GlyphNameOrRange` tokens, which the typed AST
    // (and therefore validation) does not accept: validating such a tree is outside the API contract
    // ("If you are not compiling the parse results, you can omit it"), so it is not attempted.
    if diags.has_errors() || !use_map {
        f.push(S::k1("validate", S::atom(if diags.has_errors() { "skipped" } else { "nomap" })));
        f.push(S::k1("vdiags", S::list([])));
        f.push(S::k1("compile", S::atom("skipped")));
        return f;
    }
    let gm = glyph_map();
    let v = catch_unwind(AssertUnwindSafe(|| compile::validate::<NopVariationInfo>(tree, gm, None)));
    match v {
        Err(e) => {
            f.push(S::k1("validate", s_panic(e)));
            f.push(S::k1("vdiags", S::list([])));
            f.push(S::k1("compile", S::atom("skipped")));
        }
        Ok(vd) => {
            f.push(S::k1("validate", S::atom(if vd.has_errors() { "err" } else { "ok" })));
            f.push(S::k1("vdiags", diag_list(tree, &vd)));
            let vfmt = catch_unwind(AssertUnwindSafe(|| vd.display().to_string().len()));
            if let Err(e) = vfmt {
                f.push(S::k1("vfmt", s_panic(e)));
            }
            if vd.has_errors() {
                f.push(S::k1("compile", S::atom("skipped")));
            } else {
                let c = catch_unwind(AssertUnwindSafe(|| {
                    compile::compile::<NopVariationInfo, NopFeatureProvider>(tree, gm, None, None, Opts::new()).is_ok()
                }));
                f.push(S::k1("compile", match c {
                    Ok(true) => S::atom("ok"),
                    Ok(false) => S::atom("err"),
                    Err(e) => s_panic(e),
                }));
            }
        }
    }
    f
}

const ROOT_NAME: &str = "root.fea";

pub fn parse_in_memory(text: &str, use_map: bool) -> (ParseTree, DiagnosticSet) {
    let text: Arc<str> = text.into();
    let gm = if use_map { Some(glyph_map()) } else { None };
    parse_root(
        ROOT_NAME.into(),
        gm,
        Box::new(move |p: &Path| {
            if p == Path::new(ROOT_NAME) {
                Ok(text.clone())
            } else {
                Err(SourceLoadError::new(p.to_path_buf(), "in-memory parse cannot handle imports"))
            }
        }),
    )
    .unwrap()
}

/// wall-clock limit for one case; a parser that spins (it then also allocates diagnostics without bound) is
/// reported as `hang`, and the process is replaced (see `run_guarded_cases`) so the spinning thread dies
const CASE_TIMEOUT_S: u64 = 20;

/// big inputs get more time (a 130 kB corpus file with thousands of diagnostics takes ~1 s idle, but this
/// runs 16-fold in parallel on a loaded machine): 20 s + 1 s per 1.5 kB
fn lex_timeout(len: usize) -> u64 {
    CASE_TIMEOUT_S + (len / 1500) as u64
}

pub fn lex_impl(src: &str, use_map: bool) -> (S, bool) {
    let s = src.to_string();
    let out = guarded(lex_timeout(src.len()), move || {
        let (tree, diags) = parse_in_memory(&s, use_map);
        after_parse(&tree, &diags, use_map)
    });
    match out {
        Outcome::Done(f) => (S::kv("impl", [S::k1("status", S::atom("ok"))].into_iter().chain(f)), false),
        Outcome::Panic(m, l) => (S::kv("impl", [S::k1("status", S::atom("panic")), S::k1("panicmsg", S::str(&m)), S::k1("panicloc", S::atom(l))]), false),
        Outcome::Hang => (S::kv("impl", [S::k1("status", S::atom("hang"))]), true),
    }
}

/// the running binary itself, also when the file has been replaced by a rebuild in the meantime
fn self_exe() -> PathBuf {
    let p = PathBuf::from("/proc/self/exe");
    if p.exists() { p } else { std::env::current_exe().unwrap() }
}

/// Does parsing `text` (parse only) fail to finish within `secs`?  Runs in a child process, which is killed.
fn probe_hangs(text: &str, use_map: bool, secs: u64) -> bool {
    use std::io::Write;
    use std::process::{Command, Stdio};
    let mut cmd = Command::new(self_exe());
    cmd.args(["c13lex", "--probe"]);
    if use_map {
        cmd.arg("--map");
    }
    let Ok(mut child) = cmd.stdin(Stdio::piped()).stdout(Stdio::null()).stderr(Stdio::null()).spawn() else {
        return false;
    };
    if let Some(mut si) = child.stdin.take() {
        let _ = si.write_all(text.as_bytes());
    }
    let t0 = std::time::Instant::now();
    loop {
        match child.try_wait() {
            Ok(Some(_)) => return false,
            Ok(None) => {
                if t0.elapsed() > Duration::from_secs(secs) {
                    let _ = child.kill();
                    let _ = child.wait();
                    return true;
                }
                std::thread::sleep(Duration::from_millis(10));
            }
            Err(_) => return false,
        }
    }
}

/// Length of the shortest prefix of `src` (on a character boundary) on which the parser still does not finish,
/// by bisection (the parser reads left to right, so hanging is monotone in the prefix for all practical purposes).
/// The Lean driver names the hang after the last keyword in front of that point.
fn hang_prefix(src: &str, use_map: bool) -> usize {
    let secs = |len: usize| 5 + (len / 3000) as u64;
    let (mut lo, mut hi) = (0usize, src.len()); // invariant: prefix lo finishes (empty input does), prefix hi hangs
    while lo < hi {
        let mut mid = floor_boundary(src, (lo + hi) / 2);
        if mid <= lo {
            // next boundary after lo
            mid = lo + 1;
            while mid < hi && !src.is_char_boundary(mid) {
                mid += 1;
            }
            if mid >= hi {
                break;
            }
        }
        if probe_hangs(&src[..mid], use_map, secs(mid)) {
            hi = mid;
        } else {
            lo = mid;
        }
    }
    hi
}

fn hang_line(src: &str, use_map: bool) -> S {
    S::kv("impl", [S::k1("status", S::atom("hang")), S::k1("hangprefix", S::usize(hang_prefix(src, use_map)))])
}

/// Like `crate::run_cases`, but a case may report that it left a hung worker thread behind; the rest of the
/// range is then produced by a fresh process image (same binary, same seed) that replaces this one.
fn run_guarded_cases(stream: &str, args: &Args, f: impl Fn(usize, bool) -> (Vec<S>, bool)) {
    use std::io::Write;
    install_panic_hook();
    let stdout = std::io::stdout();
    let end = args.from + args.n;
    // `--hung-first`: this image replaced one whose worker thread got stuck on case `from`
    let hung_first = args.rest.iter().any(|a| a == "--hung-first");
    for i in args.from..end {
        let known_hang = hung_first && i == args.from;
        let (fields, hung) = f(i, known_hang);
        if hung && !known_hang {
            // the stuck worker thread keeps spinning (and allocating): replace this process image at once by a
            // fresh one that reports case `i` as a hang (without running it in-process) and produces the rest
            // of the range; `exec` only returns on failure
            use std::os::unix::process::CommandExt;
            stdout.lock().flush().unwrap();
            let e = std::process::Command::new(self_exe())
                .args([stream, "--seed", &args.seed.to_string(), "--from", &i.to_string(), "--n", &(end - i).to_string(), "--hung-first"])
                .exec();
            eprintln!("c13: could not start the continuation process: {e}");
            std::process::exit(1);
        }
        let mut out = stdout.lock();
        writeln!(out, "{}", crate::sexp::case_line(stream, i, fields)).unwrap();
        out.flush().unwrap();
    }
}

pub fn run_lex(args: &Args) {
    let seed = args.seed;
    // `--probe [--map]`: parse the text on stdin and exit (used by `probe_hangs`)
    if args.rest.iter().any(|a| a == "--probe") {
        use std::io::Read;
        install_panic_hook();
        let mut text = String::new();
        std::io::stdin().read_to_string(&mut text).expect("stdin");
        let use_map = args.rest.iter().any(|a| a == "--map");
        let r = catch_unwind(AssertUnwindSafe(|| parse_in_memory(&text, use_map).1.len()));
        std::process::exit(if r.is_ok() { 0 } else { 3 });
    }
    // `--text <hex|@file>` : run one given input (for replaying a reported failing input by hand)
    if let Some(pos) = args.rest.iter().position(|a| a == "--text") {
        let arg = &args.rest[pos + 1];
        let src = if let Some(p) = arg.strip_prefix('@') {
            std::fs::read_to_string(p).expect("read")
        } else {
            let bytes: Vec<u8> = (0..arg.len() / 2).map(|k| u8::from_str_radix(&arg[2 * k..2 * k + 2], 16).unwrap()).collect();
            String::from_utf8(bytes).expect("utf8")
        };
        let use_map = args.rest.iter().any(|a| a == "--map");
        install_panic_hook();
        let (imp, hung) = lex_impl(&src, use_map);
        let imp = if hung { hang_line(&src, use_map) } else { imp };
        let f = vec![S::k1("src", S::str(&src)), S::k1("gen", S::atom("given")), S::k1("gm", S::usize(use_map as usize)), imp];
        println!("{}", crate::sexp::case_line("c13lex", 0, f));
        if hung {
            std::process::exit(0);
        }
        return;
    }
    run_guarded_cases("c13lex", args, move |i, known_hang| {
        let mut rng = Rng::for_case(seed, "c13lex", i);
        let case = gen_lex_case(&mut rng, i);
        let (imp, hung) = if known_hang { (hang_line(&case.src, case.use_map), true) } else { lex_impl(&case.src, case.use_map) };
        (
            vec![
                S::k1("src", S::str(&case.src)),
                S::k1("gen", S::atom(case.genr.clone())),
                S::k1("gm", S::usize(case.use_map as usize)),
                imp,
            ],
            hung,
        )
    });
}

// ---------------------------------------------------------------------------------- include graphs

pub struct IncCase {
    pub shape: &'static str,
    /// edges[i] = targets of file i's include statements, in statement order; target >= n means a missing file
    pub edges: Vec<Vec<usize>>,
    /// statement k of file i is inside a feature block?
    pub in_feature: Vec<Vec<bool>>,
}

pub fn gen_inc_case(rng: &mut Rng) -> IncCase {
    let mut shape = "random";
    let mut edges: Vec<Vec<usize>>;
    match rng.below(12) {
        0 => {
            // chain around the depth limit
            let len = *rng.pick(&[2usize, 5, 20, 46, 47, 48, 49, 50, 51, 52, 60, 75]);
            edges = (0..len).map(|i| if i + 1 < len { vec![i + 1] } else { vec![] }).collect();
            shape = "chain";
        }
        1 => {
            // cycle of length k reached through a tail
            let tail = rng.below(4);
            let k = 1 + rng.below(6);
            let n = tail + k;
            edges = (0..n).map(|i| if i + 1 < n { vec![i + 1] } else { vec![tail] }).collect();
            shape = "cycle";
        }
        2 => {
            edges = vec![vec![0]];
            shape = "self";
        }
        3 => {
            // include of the root from deeper down
            let n = 2 + rng.below(5);
            edges = (0..n).map(|i| if i + 1 < n { vec![i + 1] } else { vec![0] }).collect();
            shape = "back-to-root";
        }
        4 => {
            // two chains, the second joining the head of the first (cross edge to a finished subtree)
            let a = *rng.pick(&[3usize, 10, 30, 40, 45]);
            let b = *rng.pick(&[3usize, 10, 30, 40, 45]);
            // files: 0 root; 1..=a chain A; a+1..=a+b chain B; B's last includes A's head
            let n = 1 + a + b;
            edges = vec![vec![]; n];
            edges[0] = vec![1, a + 1];
            for i in 1..a { edges[i] = vec![i + 1]; }
            for i in a + 1..a + b { edges[i] = vec![i + 1]; }
            edges[a + b] = vec![1];
            shape = "joined-chains";
        }
        5 => {
            // diamond / repeated include of the same file
            edges = vec![vec![1, 2, 1], vec![3], vec![3], vec![]];
            shape = "diamond";
        }
        6 => {
            let n = 1 + rng.below(4);
            edges = (0..n).map(|_| vec![]).collect();
            let m = n + rng.below(3);
            edges[0] = vec![m];
            shape = "missing";
        }
        _ => {
            let n = 1 + rng.below(8);
            edges = (0..n)
                .map(|_| {
                    let k = if rng.chance(1, 3) { 0 } else { 1 + rng.below(3) };
                    (0..k).map(|_| if rng.chance(1, 12) { n + rng.below(2) } else { rng.below(n) }).collect()
                })
                .collect();
        }
    }
    let in_feature = edges.iter().map(|es| es.iter().map(|_| rng.chance(1, 4)).collect()).collect();
    IncCase { shape, edges, in_feature }
}

fn file_name(i: usize) -> String {
    format!("f{i}.fea")
}

fn file_text(case: &IncCase, i: usize) -> String {
    let mut s = String::new();
    if i == 0 {
        s.push_str("languagesystem DFLT dflt;\n");
    }
    for (k, t) in case.edges[i].iter().enumerate() {
        // a file that is included inside a feature block is parsed as feature-block items; keep every file
        // meaningful in both scopes by using only includes and comments outside of file 0
        if case.in_feature[i][k] && i == 0 {
            s.push_str(&format!("feature liga {{\n  include({});\n}} liga;\n", file_name(*t)));
        } else {
            s.push_str(&format!("include({});\n", file_name(*t)));
        }
        s.push_str(&format!("# after include {k} of file {i}\n"));
    }
    s
}

/// `spelling`: how the root file's path is spelled — 0: the canonical absolute path; 1: with a `.` component
/// (`<dir>/real/./f0.fea`); 2: through a symlinked directory (`<dir>/link -> real`). The include graph and every
/// expected result are the same; only the relation between a file's resolved path and its canonical path differs
/// (the loader identifies files by canonical path).
pub fn inc_impl(case: &IncCase, spelling: usize) -> (S, bool) {
    let dir = match tempfile::Builder::new().prefix("c13inc").tempdir() {
        Ok(d) => d,
        Err(_) => return (S::kv("impl", [S::k1("status", S::atom("tmpdir-failed"))]), false),
    };
    let n = case.edges.len();
    let real = dir.path().canonicalize().unwrap_or(dir.path().to_path_buf()).join("real");
    std::fs::create_dir_all(&real).unwrap();
    for i in 0..n {
        std::fs::write(real.join(file_name(i)), file_text(case, i)).unwrap();
    }
    let root = match spelling {
        1 => real.join(".").join(file_name(0)),
        2 => {
            let link = real.parent().unwrap().join("link");
            match std::os::unix::fs::symlink(&real, &link) {
                Ok(()) => link.join(file_name(0)),
                Err(_) => real.join(file_name(0)),
            }
        }
        _ => real.join(file_name(0)),
    };
    let out = guarded(CASE_TIMEOUT_S, move || {
        match parse_root_file(root, None, None) {
            Err(_) => vec![S::k1("result", S::atom("loaderr"))],
            Ok((tree, diags)) => {
                let mut f = vec![
                    S::k1("result", S::atom("tree")),
                    S::k1("textlen", S::usize(tree.root().text_len())),
                    S::k1("ntoks", S::usize(tree.root().iter_tokens().count())),
                    S::k1("toklen", S::usize(tree.root().iter_tokens().map(|t| t.as_str().len()).sum())),
                    S::k1("diags", diag_list(&tree, &diags)),
                ];
                let fmt = catch_unwind(AssertUnwindSafe(|| diags.display().to_string().len()));
                f.push(S::k1("fmt", S::atom(if fmt.is_ok() { "ok" } else { "panic" })));
                f
            }
        }
    });
    let r = match out {
        Outcome::Done(f) => (S::kv("impl", [S::k1("status", S::atom("ok"))].into_iter().chain(f)), false),
        Outcome::Panic(m, l) => (S::kv("impl", [S::k1("status", S::atom("panic")), S::k1("panicmsg", S::str(&m)), S::k1("panicloc", S::atom(l))]), false),
        Outcome::Hang => (S::kv("impl", [S::k1("status", S::atom("hang"))]), true),
    };
    let _ = dir.close(); // remove the temp dir (also after a hang: the stuck thread only holds file contents)
    r
}

pub fn run_inc(args: &Args) {
    let seed = args.seed;
    run_guarded_cases("c13inc", args, move |i, known_hang| {
        let mut rng = Rng::for_case(seed, "c13inc", i);
        let case = gen_inc_case(&mut rng);
        let texts: Vec<String> = (0..case.edges.len()).map(|i| file_text(&case, i)).collect();
        let lens: Vec<S> = texts.iter().map(|t| S::usize(t.len())).collect();
        // byte range of every include statement (`include(...);`), per file, in statement order
        let stmts = texts.iter().map(|t| {
            let mut v = vec![];
            let mut from = 0;
            while let Some(k) = t[from..].find("include(") {
                let start = from + k;
                let end = start + t[start..].find(';').map(|e| e + 1).unwrap_or(t.len() - start);
                v.push(S::list([S::usize(start), S::usize(end)]));
                from = end;
            }
            S::list(v)
        });
        let (imp, hung) = if known_hang { (S::kv("impl", [S::k1("status", S::atom("hang"))]), true) } else { inc_impl(&case, i % 3) };
        (vec![
            S::k1("shape", S::atom(case.shape)),
            S::k1("n", S::usize(case.edges.len())),
            S::k1("edges", S::list(case.edges.iter().map(|es| S::list(es.iter().map(|t| S::usize(*t)))))),
            S::k1("lens", S::list(lens)),
            S::k1("stmts", S::list(stmts)),
            imp,
        ], hung)
    });
}
