//! C05: the emitted file is a well-formed, internally consistent OpenType font.
//!
//!  * `c05sfnt`: random `add_raw` sequences -> real `write_fonts::FontBuilder::build` bytes
//!    (model: lean/FontcModel/Sfnt.lean `build`, compared byte-exact; oracle: `wellFormedSfnt` + round trip
//!    on the implementation's bytes).
//!  * `c05font`: real sources (repo testdata + generated designs) -> `fontc::generate_font` in-process ->
//!    raw font bytes for the Lean whole-font oracle, plus an independent full read-fonts/skrifa traversal.
//!
//! `font_check_fields` is the reusable whole-font check: any e2e stream can append its fields to a line and
//! the Lean side evaluates them with `Driver.C05.checkFontFields`.
use crate::rng::Rng;
use crate::sexp::S;
use crate::Args;
use read_fonts::traversal::{FieldType, SomeArray, SomeTable};
use read_fonts::types::{GlyphId, Tag};
use read_fonts::{FontRef, ReadError, TableProvider};
use std::collections::BTreeSet;
use write_fonts::FontBuilder;

// ------------------------------------------------------------------------------------------------
// stream c05sfnt
// ------------------------------------------------------------------------------------------------

const KNOWN_TAGS: [&[u8; 4]; 24] = [
    b"head", b"hhea", b"maxp", b"OS/2", b"hmtx", b"LTSH", b"VDMX", b"hdmx", b"cmap", b"fpgm", b"prep", b"cvt ",
    b"loca", b"glyf", b"kern", b"name", b"post", b"gasp", b"PCLT", b"DSIG", b"CFF ", b"CFF2", b"GSUB", b"avar",
];

fn gen_tag(rng: &mut Rng) -> [u8; 4] {
    match rng.below(10) {
        0 | 1 => *b"head",
        2..=5 => **rng.pick(&KNOWN_TAGS),
        6 | 7 => {
            // printable ascii
            let mut t = [0u8; 4];
            for b in t.iter_mut() { *b = rng.range(0x20, 0x7e) as u8; }
            t
        }
        8 => {
            // near-collisions with `head`
            let mut t = *b"head";
            let i = rng.below(4);
            t[i] = t[i].wrapping_add(rng.range(-1, 1) as u8);
            t
        }
        _ => (rng.next() as u32).to_be_bytes(),
    }
}

fn gen_data(rng: &mut Rng, tag: &[u8; 4]) -> Vec<u8> {
    let len = match rng.below(8) {
        _ if tag == b"head" && rng.chance(5, 6) => rng.range(12, 64) as usize,
        0 => 0,
        1 => rng.below(4),
        2 if tag == b"head" => rng.range(8, 13) as usize, // around the 12-byte threshold
        3 => 4 * rng.below(17),
        _ => rng.below(65),
    };
    let style = rng.below(4);
    (0..len).map(|_| match style {
        0 => 0xff,
        1 => 0,
        _ => rng.next() as u8,
    }).collect()
}

pub fn run_sfnt(args: &Args) {
    let seed = args.seed;
    crate::run_cases("c05sfnt", args, move |i| {
        let mut rng = Rng::for_case(seed, "c05sfnt", i);
        let n = if rng.chance(1, 10) { rng.below(3) } else { rng.below(13) };
        let mut adds: Vec<([u8; 4], Vec<u8>)> = vec![];
        for _ in 0..n {
            let tag = if !adds.is_empty() && rng.chance(1, 8) {
                adds[rng.below(adds.len())].0 // replace an earlier table
            } else {
                gen_tag(&mut rng)
            };
            let data = gen_data(&mut rng, &tag);
            adds.push((tag, data));
        }
        let mut builder = FontBuilder::new();
        for (tag, data) in &adds {
            builder.add_raw(Tag::from_be_bytes(*tag), data.clone());
        }
        let bytes = builder.build();
        vec![
            S::k1("adds", S::list(adds.iter().map(|(t, d)| S::list([S::int(u32::from_be_bytes(*t)), S::hex(d)])))),
            S::kv("impl", [S::k1("bytes", S::hex(&bytes))]),
        ]
    });
}

// ------------------------------------------------------------------------------------------------
// independent reader: read-fonts generic traversal + typed checks + skrifa
// ------------------------------------------------------------------------------------------------

struct Walker {
    table: String,
    num_glyphs: u32,
    lookup_count: Option<usize>,
    feature_count: Option<usize>,
    errors: BTreeSet<String>,
    name_refs: BTreeSet<(String, u16)>,
    var_idx: Vec<(String, u16, u16)>,
    cond_axes: Vec<(String, u16)>,
    fields: usize,
    pending_outer: Option<u16>,
}

impl Walker {
    fn err(&mut self, what: impl Into<String>) {
        if self.errors.len() < 12 {
            self.errors.insert(format!("{}:{}", self.table, what.into()));
        }
    }

    fn table<'a>(&mut self, t: &(dyn SomeTable<'a> + 'a), depth: usize) {
        if depth > 64 {
            self.err("too-deep");
            return;
        }
        let ty = t.type_name().to_string();
        let mut class_start: Option<u32> = None;
        for field in t.iter() {
            // ClassDefFormat1: start + count must stay inside the glyph set
            if ty == "ClassDefFormat1" {
                match (&field.value, field.name) {
                    (FieldType::GlyphId16(g), "start_glyph_id") => class_start = Some(g.to_u32()),
                    (FieldType::U16(c), "glyph_count") => {
                        if class_start.unwrap_or(0) + *c as u32 > self.num_glyphs && *c > 0 {
                            self.err("gid-range:ClassDefFormat1");
                        }
                    }
                    _ => {}
                }
            }
            self.field(&ty, field.name, field.value, depth);
        }
    }

    fn array<'a>(&mut self, ty: &str, name: &'static str, a: &(dyn SomeArray<'a> + 'a), depth: usize) {
        for item in a.iter() {
            self.field(ty, name, item, depth);
        }
    }

    fn index(&mut self, name: &str, v: u16) {
        let otl = self.table == "GSUB" || self.table == "GPOS";
        if !otl {
            return;
        }
        match name {
            "lookup_list_index" | "lookup_list_indices" => {
                if let Some(n) = self.lookup_count {
                    if v as usize >= n { self.err(format!("lookup-index:{v}>={n}")); }
                }
            }
            "feature_index" | "feature_indices" => {
                if let Some(n) = self.feature_count {
                    if v as usize >= n { self.err(format!("feature-index:{v}>={n}")); }
                }
            }
            "required_feature_index" => {
                if let Some(n) = self.feature_count {
                    if v != 0xFFFF && v as usize >= n { self.err(format!("feature-index:{v}>={n}")); }
                }
            }
            _ => {}
        }
    }

    fn field<'a>(&mut self, ty: &str, name: &'static str, v: FieldType<'a>, depth: usize) {
        self.fields += 1;
        match v {
            FieldType::GlyphId16(g) => {
                if g.to_u32() >= self.num_glyphs { self.err(format!("gid-range:{ty}.{name}")); }
            }
            FieldType::GlyphId24(g) => {
                if g.to_u32() >= self.num_glyphs { self.err(format!("gid-range:{ty}.{name}")); }
            }
            FieldType::NameId(id) => {
                if self.table != "name" {
                    self.name_refs.insert((format!("{}.{}", ty, name), id.to_u16()));
                }
            }
            FieldType::U16(x) => {
                self.index(name, x);
                if ty == "ConditionFormat1" && name == "axis_index" { self.cond_axes.push((self.table.clone(), x)); }
                if ty == "VariationIndex" {
                    if name == "delta_set_outer_index" { self.pending_outer = Some(x); }
                    if name == "delta_set_inner_index" {
                        if let Some(o) = self.pending_outer.take() { self.var_idx.push((self.table.clone(), o, x)); }
                    }
                }
            }
            // device offsets inside a ValueRecord are relative to the enclosing PairSet / subtable, which the
            // generic record traversal does not know: they are checked by `gpos_value_records` instead
            FieldType::ResolvedOffset(_) if ty == "ValueRecord" => {}
            FieldType::ResolvedOffset(r) => match r.target {
                Ok(t) => self.table(&t, depth + 1),
                Err(e) => self.err(format!("offset:{ty}.{name}:{e}")),
            },
            FieldType::StringOffset(s) => {
                if let Err(e) = s.target { self.err(format!("string:{ty}.{name}:{e}")); }
            }
            FieldType::ArrayOffset(a) => match a.target {
                Ok(arr) => self.array(ty, name, &*arr, depth + 1),
                Err(e) => self.err(format!("array:{ty}.{name}:{e}")),
            },
            FieldType::Record(r) => self.table(&r, depth + 1),
            FieldType::Array(a) => self.array(ty, name, &*a, depth + 1),
            _ => {}
        }
    }
}

/// GPOS SinglePos / PairPos value records: every device / variation-index offset resolves (typed API, with
/// the base the spec prescribes); collects the variation indices.
fn gpos_value_records(font: &FontRef, errors: &mut Vec<String>, var_idx: &mut Vec<(String, u16, u16)>) -> Result<(), ReadError> {
    use read_fonts::tables::gpos::{PairPos, PositionSubtables, SinglePos, ValueRecord};
    use read_fonts::tables::layout::DeviceOrVariationIndex;
    use read_fonts::FontData;
    let Ok(gpos) = font.gpos() else { return Ok(()) };
    let mut check = |v: &ValueRecord, data: FontData| {
        for dev in [v.x_placement_device(data), v.y_placement_device(data), v.x_advance_device(data), v.y_advance_device(data)] {
            match dev {
                None => {}
                Some(Err(e)) => errors.push(format!("GPOS:value-record-device:{e}")),
                Some(Ok(DeviceOrVariationIndex::VariationIndex(vi))) => var_idx.push(("GPOS".to_string(), vi.delta_set_outer_index(), vi.delta_set_inner_index())),
                Some(Ok(_)) => {}
            }
        }
    };
    for l in gpos.lookup_list()?.lookups().iter() {
        match l?.subtables()? {
            PositionSubtables::Single(st) => for s in st.iter() {
                match s? {
                    SinglePos::Format1(p) => check(&p.value_record(), p.offset_data()),
                    SinglePos::Format2(p) => for v in p.value_records().iter() { check(&v?, p.offset_data()); },
                }
            },
            PositionSubtables::Pair(st) => for s in st.iter() {
                match s? {
                    PairPos::Format1(p) => for ps in p.pair_sets().iter() {
                        let ps = ps?;
                        for r in ps.pair_value_records().iter() {
                            let r = r?;
                            check(r.value_record1(), ps.offset_data());
                            check(r.value_record2(), ps.offset_data());
                        }
                    },
                    PairPos::Format2(p) => for c1 in p.class1_records().iter() {
                        for c2 in c1?.class2_records().iter() {
                            let c2 = c2?;
                            check(c2.value_record1(), p.offset_data());
                            check(c2.value_record2(), p.offset_data());
                        }
                    },
                }
            },
            _ => {}
        }
    }
    Ok(())
}

pub struct ReaderReport {
    pub errors: Vec<String>,
    pub fields: usize,
    pub untraversed: Vec<String>,
    /// numbers for the cross-check with the Lean parsers; same keys as `FontReport.info`
    pub info: Vec<(String, Vec<u64>)>,
}

fn note(info: &mut Vec<(String, Vec<u64>)>, k: &str, v: impl IntoIterator<Item = u64>) {
    info.push((k.to_string(), v.into_iter().collect()));
}

fn map_count(m: &read_fonts::tables::variations::DeltaSetIndexMap) -> u64 {
    use read_fonts::tables::variations::DeltaSetIndexMap as M;
    match m {
        M::Format0(t) => t.map_count() as u64,
        M::Format1(t) => t.map_count() as u64,
    }
}

fn ivs_info(info: &mut Vec<(String, Vec<u64>)>, tag: &str, ivs: &read_fonts::tables::variations::ItemVariationStore) -> Result<(), ReadError> {
    let rl = ivs.variation_region_list()?;
    note(info, &format!("{tag}.axisCount"), [rl.axis_count() as u64]);
    note(info, &format!("{tag}.regionCount"), [rl.region_count() as u64]);
    Ok(())
}

/// Full traversal of every table with read-fonts (+ skrifa for outlines/metrics/charmap).
pub fn independent_read(bytes: &[u8]) -> ReaderReport {
    let mut info = vec![];
    let mut untraversed = vec![];
    let font = match FontRef::new(bytes) {
        Ok(f) => f,
        Err(e) => return ReaderReport { errors: vec![format!("FontRef:{e}")], fields: 0, untraversed, info },
    };
    let records = font.table_directory().table_records();
    note(&mut info, "numTables", [records.len() as u64]);
    let num_glyphs = font.maxp().map(|m| m.num_glyphs() as u32).unwrap_or(0);
    let mut w = Walker {
        table: String::new(), num_glyphs, lookup_count: None, feature_count: None, errors: BTreeSet::new(),
        name_refs: BTreeSet::new(), var_idx: vec![], cond_axes: vec![], fields: 0, pending_outer: None,
    };

    macro_rules! walk {
        ($tag:expr, $e:expr) => {{
            w.table = $tag.to_string();
            match $e {
                Ok(t) => w.table(&t, 0),
                Err(e) => w.err(format!("parse:{e}")),
            }
        }};
    }
    for rec in records {
        let tag = rec.tag();
        let name = tag.to_string();
        w.lookup_count = None;
        w.feature_count = None;
        match &tag.to_be_bytes() {
            b"head" => walk!(name, font.head()),
            b"hhea" => walk!(name, font.hhea()),
            b"vhea" => walk!(name, font.vhea()),
            b"maxp" => walk!(name, font.maxp()),
            b"OS/2" => walk!(name, font.os2()),
            b"post" => walk!(name, font.post()),
            b"name" => walk!(name, font.name()),
            b"cmap" => walk!(name, font.cmap()),
            b"hmtx" => walk!(name, font.hmtx()),
            b"vmtx" => walk!(name, font.vmtx()),
            b"fvar" => walk!(name, font.fvar()),
            b"avar" => walk!(name, font.avar()),
            b"STAT" => walk!(name, font.stat()),
            b"HVAR" => walk!(name, font.hvar()),
            b"VVAR" => walk!(name, font.vvar()),
            b"MVAR" => walk!(name, font.mvar()),
            b"GDEF" => walk!(name, font.gdef()),
            b"BASE" => walk!(name, font.base()),
            b"COLR" => walk!(name, font.colr()),
            b"CPAL" => walk!(name, font.cpal()),
            b"gasp" => walk!(name, font.gasp()),
            b"meta" => walk!(name, font.meta()),
            b"gvar" => walk!(name, font.gvar()),
            b"GSUB" => {
                if let Ok(g) = font.gsub() {
                    w.lookup_count = g.lookup_list().ok().map(|l| l.lookup_count() as usize);
                    w.feature_count = g.feature_list().ok().map(|l| l.feature_count() as usize);
                }
                walk!(name, font.gsub())
            }
            b"GPOS" => {
                if let Ok(g) = font.gpos() {
                    w.lookup_count = g.lookup_list().ok().map(|l| l.lookup_count() as usize);
                    w.feature_count = g.feature_list().ok().map(|l| l.feature_count() as usize);
                }
                walk!(name, font.gpos())
            }
            b"loca" | b"glyf" => {} // walked per glyph below
            _ => untraversed.push(name),
        }
    }
    // ---- typed extraction + checks the generic walk cannot do
    let mut errors: Vec<String> = vec![];
    let mut typed = || -> Result<(), ReadError> {
        let maxp = font.maxp()?;
        let n = maxp.num_glyphs() as u64;
        note(&mut info, "numGlyphs", [n]);
        let head = font.head()?;
        note(&mut info, "indexToLocFormat", [head.index_to_loc_format() as u64]);
        note(&mut info, "checkSumAdjustment", [head.checksum_adjustment() as u64]);
        let hhea = font.hhea()?;
        note(&mut info, "hhea.numLongMetrics", [hhea.number_of_h_metrics() as u64]);
        if let Some(d) = font.data_for_tag(Tag::new(b"hmtx")) { note(&mut info, "hmtx.length", [d.len() as u64]); }
        if let Ok(vhea) = font.vhea() {
            note(&mut info, "vhea.numLongMetrics", [vhea.number_of_long_ver_metrics() as u64]);
            if let Some(d) = font.data_for_tag(Tag::new(b"vmtx")) { note(&mut info, "vmtx.length", [d.len() as u64]); }
        }
        if let Some(d) = font.data_for_tag(Tag::new(b"loca")) { note(&mut info, "loca.length", [d.len() as u64]); }
        // glyf: every glyph parses; component edges
        let loca = font.loca(None)?;
        let glyf = font.glyf()?;
        let mut edges = vec![];
        w.table = "glyf".into();
        for gid in 0..n as u32 {
            match loca.get_glyf(GlyphId::new(gid), &glyf) {
                Ok(None) => {}
                Ok(Some(g)) => {
                    if let read_fonts::tables::glyf::Glyph::Composite(c) = &g {
                        for comp in c.components() {
                            edges.push(gid as u64);
                            edges.push(comp.glyph.to_u32() as u64);
                        }
                    }
                    w.table(&g, 0);
                }
                Err(e) => errors.push(format!("glyf:gid{gid}:{e}")),
            }
        }
        note(&mut info, "components", edges);
        let post = font.post()?;
        note(&mut info, "post.version", [post.version().to_major_minor().0 as u64 * 65536 + post.version().to_major_minor().1 as u64]);
        if let Some(k) = post.num_glyphs() { note(&mut info, "post.numGlyphs", [k as u64]); }
        let name = font.name()?;
        let ids: BTreeSet<u64> = name.name_record().iter().map(|r| r.name_id().to_u16() as u64).collect();
        note(&mut info, "name.ids", ids.iter().copied());
        for r in name.name_record() {
            if let Err(e) = r.string(name.string_data()) { errors.push(format!("name:string:{e}")); }
        }
        // cmap: every mapped glyph id in range
        let cmap = font.cmap()?;
        for er in cmap.encoding_records() {
            use read_fonts::tables::cmap::CmapSubtable;
            match er.subtable(cmap.offset_data())? {
                CmapSubtable::Format4(t) => for (_, g) in t.iter() { if g.to_u32() as u64 >= n { errors.push("cmap:gid-range:format4".into()); break; } },
                CmapSubtable::Format12(t) => for (_, g) in t.iter() { if g.to_u32() as u64 >= n { errors.push("cmap:gid-range:format12".into()); break; } },
                CmapSubtable::Format14(t) => for (_, _, m) in t.iter() {
                    if let read_fonts::tables::cmap::MapVariant::Variant(g) = m { if g.to_u32() as u64 >= n { errors.push("cmap:gid-range:format14".into()); break; } }
                },
                _ => {}
            }
        }
        if let Ok(fvar) = font.fvar() {
            note(&mut info, "fvar.axisCount", [fvar.axis_count() as u64]);
            let mut ids: Vec<u64> = fvar.axes()?.iter().map(|a| a.axis_name_id().to_u16() as u64).collect();
            for inst in fvar.instances()?.iter() {
                let inst = inst?;
                ids.push(inst.subfamily_name_id.to_u16() as u64);
                if let Some(ps) = inst.post_script_name_id { if ps.to_u16() != 0xFFFF { ids.push(ps.to_u16() as u64); } }
            }
            note(&mut info, "fvar.nameIds", ids);
        }
        if let Ok(avar) = font.avar() { note(&mut info, "avar.axisCount", [avar.axis_count() as u64]); }
        if let Ok(gvar) = font.gvar() {
            note(&mut info, "gvar.axisCount", [gvar.axis_count() as u64]);
            note(&mut info, "gvar.glyphCount", [gvar.glyph_count() as u64]);
            for gid in 0..gvar.glyph_count() as u32 {
                match gvar.glyph_variation_data(GlyphId::new(gid)) {
                    Ok(Some(data)) => for t in data.tuples() { for d in t.deltas() { std::hint::black_box(d.x_delta); } },
                    Ok(None) => {}
                    Err(e) => errors.push(format!("gvar:gid{gid}:{e}")),
                }
            }
        }
        if let Ok(hvar) = font.hvar() {
            ivs_info(&mut info, "HVAR", &hvar.item_variation_store()?)?;
            match hvar.advance_width_mapping() {
                None => note(&mut info, "HVAR.mapCount", []),
                Some(m) => note(&mut info, "HVAR.mapCount", [map_count(&m?)]),
            }
        }
        if let Ok(vvar) = font.vvar() {
            ivs_info(&mut info, "VVAR", &vvar.item_variation_store()?)?;
            match vvar.advance_height_mapping() {
                None => note(&mut info, "VVAR.mapCount", []),
                Some(m) => note(&mut info, "VVAR.mapCount", [map_count(&m?)]),
            }
        }
        if let Ok(mvar) = font.mvar() {
            note(&mut info, "MVAR.valueRecordCount", [mvar.value_record_count() as u64]);
            if let Some(ivs) = mvar.item_variation_store() { ivs_info(&mut info, "MVAR", &ivs?)?; }
        }
        if let Ok(stat) = font.stat() {
            let mut ids: Vec<u64> = stat.design_axes()?.iter().map(|a| a.axis_name_id().to_u16() as u64).collect();
            if let Some(vals) = stat.offset_to_axis_values() {
                let vals = vals?;
                for v in vals.axis_values().iter() { ids.push(v?.value_name_id().to_u16() as u64); }
            }
            if let Some(e) = stat.elided_fallback_name_id() { ids.push(e.to_u16() as u64); }
            note(&mut info, "STAT.nameIds", ids);
        }
        // every NameId referenced from any table exists (0xFFFF = "none" in fvar; ids < 26 may be predefined but
        // must still be present to be usable)
        for (whence, id) in &w.name_refs {
            if *id != 0xFFFF && !ids.contains(&(*id as u64)) { errors.push(format!("name-id-missing:{whence}:{id}")); }
        }
        gpos_value_records(&font, &mut errors, &mut w.var_idx)?;
        // variation stores of layout / colour tables: axis count = fvar's
        let fvar_axes = font.fvar().ok().map(|f| f.axis_count() as u64);
        let mut store_axes = |info: &mut Vec<(String, Vec<u64>)>, errors: &mut Vec<String>, tag: &str,
                              ivs: Option<Result<read_fonts::tables::variations::ItemVariationStore, ReadError>>| -> Result<(), ReadError> {
            if let Some(ivs) = ivs {
                let ivs = ivs?;
                ivs_info(info, tag, &ivs)?;
                let rl = ivs.variation_region_list()?;
                if Some(rl.axis_count() as u64) != fvar_axes { errors.push(format!("{tag}:axis-count")); }
                for r in rl.variation_regions().iter() {
                    if r?.region_axes().len() as u64 != rl.axis_count() as u64 { errors.push(format!("{tag}:region-axes")); }
                }
                for d in ivs.item_variation_data().iter().flatten() {
                    for ri in d?.region_indexes() { if ri.get() >= rl.region_count() { errors.push(format!("{tag}:region-index")); } }
                }
            }
            Ok(())
        };
        if let Ok(gdef) = font.gdef() { store_axes(&mut info, &mut errors, "GDEF", gdef.item_var_store())?; }
        if let Ok(base) = font.base() { store_axes(&mut info, &mut errors, "BASE", base.item_var_store())?; }
        if let Ok(colr) = font.colr() { store_axes(&mut info, &mut errors, "COLR", colr.item_variation_store())?; }
        // FeatureVariations: condition axis indices index fvar
        let fv_records = [
            ("GSUB", font.gsub().ok().and_then(|g| g.feature_variations()).map(|fv| fv.map(|fv| fv.feature_variation_record_count()))),
            ("GPOS", font.gpos().ok().and_then(|g| g.feature_variations()).map(|fv| fv.map(|fv| fv.feature_variation_record_count()))),
        ];
        for (tag, n) in fv_records {
            if let Some(n) = n {
                let axes: Vec<u64> = w.cond_axes.iter().filter(|(t, _)| t == tag).map(|(_, a)| *a as u64).collect();
                if axes.iter().any(|a| *a >= fvar_axes.unwrap_or(0)) { errors.push(format!("{tag}:condition-axis")); }
                note(&mut info, &format!("{tag}.condAxes"), axes);
                note(&mut info, &format!("{tag}.featureVariationRecords"), [n? as u64]);
            }
        }
        // GPOS/GDEF variation indices inside the GDEF store (BASE: inside BASE's own store)
        let check_idx = |errors: &mut Vec<String>, what: &str, idx: &[(u16, u16)],
                         ivs: Option<Result<read_fonts::tables::variations::ItemVariationStore, ReadError>>| {
            if idx.is_empty() { return; }
            match ivs {
                Some(Ok(ivs)) => {
                    let data = ivs.item_variation_data();
                    for (o, i) in idx {
                        if *o == 0xFFFF && *i == 0xFFFF { continue; }
                        let ok = match data.get(*o as usize) { Some(Ok(d)) => *i < d.item_count(), _ => false };
                        if !ok { errors.push(format!("variation-index:{what}:{o}:{i}")); break; }
                    }
                }
                _ => errors.push(format!("variation-index:no-{what}-store")),
            }
        };
        let layout_idx: Vec<(u16, u16)> = w.var_idx.iter().filter(|(t, _, _)| t == "GPOS" || t == "GDEF").map(|(_, o, i)| (*o, *i)).collect();
        let base_idx: Vec<(u16, u16)> = w.var_idx.iter().filter(|(t, _, _)| t == "BASE").map(|(_, o, i)| (*o, *i)).collect();
        check_idx(&mut errors, "GDEF", &layout_idx, font.gdef().ok().and_then(|g| g.item_var_store()));
        check_idx(&mut errors, "BASE", &base_idx, font.base().ok().and_then(|b| b.item_var_store()));
        if font.gpos().is_ok() || font.gdef().is_ok() {
            let set: BTreeSet<u64> = layout_idx.iter().map(|(o, i)| *o as u64 * 65536 + *i as u64).collect();
            note(&mut info, "varIdx", set);
        }
        Ok(())
    };
    if let Err(e) = typed() { errors.push(format!("typed:{e}")); }
    // ---- skrifa: charmap, metrics and every outline at the default and at axis extremes
    {
        use skrifa::instance::{LocationRef, Size};
        use skrifa::outline::DrawSettings;
        use skrifa::MetadataProvider;
        struct NullPen(usize);
        impl skrifa::outline::OutlinePen for NullPen {
            fn move_to(&mut self, _: f32, _: f32) { self.0 += 1 }
            fn line_to(&mut self, _: f32, _: f32) { self.0 += 1 }
            fn quad_to(&mut self, _: f32, _: f32, _: f32, _: f32) { self.0 += 1 }
            fn curve_to(&mut self, _: f32, _: f32, _: f32, _: f32, _: f32, _: f32) { self.0 += 1 }
            fn close(&mut self) {}
        }
        if let Ok(sf) = skrifa::FontRef::new(bytes) {
            let n_axes = sf.axes().len();
            let mut locs: Vec<Vec<skrifa::instance::NormalizedCoord>> = vec![vec![]];
            for a in 0..n_axes.min(4) {
                for v in [-1.0f32, 1.0] {
                    let mut l = vec![skrifa::instance::NormalizedCoord::from_f32(0.0); n_axes];
                    l[a] = skrifa::instance::NormalizedCoord::from_f32(v);
                    locs.push(l);
                }
            }
            let outlines = sf.outline_glyphs();
            for (_, g) in sf.charmap().mappings() {
                if g.to_u32() >= num_glyphs { errors.push("skrifa:charmap-gid-range".into()); break; }
            }
            'outer: for loc in &locs {
                let lref = LocationRef::new(loc);
                let gm = sf.glyph_metrics(Size::unscaled(), lref);
                for gid in 0..num_glyphs {
                    let gid = GlyphId::new(gid);
                    if gm.advance_width(gid).is_none() { errors.push(format!("skrifa:advance:{gid}")); break 'outer; }
                    match outlines.get(gid) {
                        None => { errors.push(format!("skrifa:no-outline:{gid}")); break 'outer; }
                        Some(o) => {
                            let mut pen = NullPen(0);
                            if let Err(e) = o.draw(DrawSettings::unhinted(Size::unscaled(), lref), &mut pen) {
                                errors.push(format!("skrifa:draw:{gid}:{e}"));
                                break 'outer;
                            }
                        }
                    }
                }
            }
            for s in sf.named_instances().iter() { std::hint::black_box(s.subfamily_name_id()); }
        } else {
            errors.push("skrifa:FontRef".into());
        }
    }
    errors.extend(w.errors.iter().cloned());
    ReaderReport { errors, fields: w.fields, untraversed, info }
}

/// The whole-font check fields: `(font x…)` raw bytes for the Lean oracle, `(rf …)` the independent reader's
/// verdict and numbers. Append to any e2e line; Lean: `Driver.C05.checkFontFields`.
pub fn font_check_fields(bytes: &[u8]) -> Vec<S> {
    let r = match std::panic::catch_unwind(|| independent_read(bytes)) {
        Ok(r) => r,
        Err(_) => ReaderReport { errors: vec!["reader-panic".into()], fields: 0, untraversed: vec![], info: vec![] },
    };
    let status = if r.errors.is_empty() { S::atom("ok") } else { S::atom("err") };
    vec![
        S::k1("font", S::hex(bytes)),
        S::kv("rf", [
            S::k1("readfonts", status),
            S::k1("errors", S::list(r.errors.iter().map(|e| S::str(e)))),
            S::k1("fields", S::usize(r.fields)),
            S::k1("untraversed", S::list(r.untraversed.iter().map(|e| S::str(e)))),
            S::k1("info", S::list(r.info.iter().map(|(k, v)| S::list([S::str(k), S::list(v.iter().map(|x| S::int(*x as i128)))])))),
        ]),
    ]
}

// ------------------------------------------------------------------------------------------------
// stream c05font
// ------------------------------------------------------------------------------------------------

fn testdata() -> std::path::PathBuf {
    std::path::PathBuf::from("/repo/resources/testdata")
}

/// every source under resources/testdata that the compiler accepts as an input path
pub fn all_sources() -> Vec<std::path::PathBuf> {
    let root = testdata();
    let mut out = vec![];
    let mut dirs = vec![root.clone()];
    for sub in ["glyphs2", "glyphs3", "designspace_from_glyphs", "dspace_rules", "HVVAR", "COLRv0-var", "fea_include_ufo",
                "glyphs_fea_include", "codepoint_mismatch", "DoubleComponentError", "fontra"] {
        dirs.push(root.join(sub));
    }
    for d in dirs {
        let Ok(rd) = std::fs::read_dir(&d) else { continue };
        for e in rd.flatten() {
            let p = e.path();
            let ext = p.extension().and_then(|e| e.to_str()).unwrap_or("");
            if matches!(ext, "designspace" | "ufo" | "glyphs" | "glyphspackage" | "fontra") {
                out.push(p);
            }
        }
    }
    out.sort();
    out
}

pub struct FontOpts {
    pub flags: u32,
    pub skip_features: bool,
    pub compile_debg: bool,
}

pub fn compile(path: &std::path::Path, o: &FontOpts) -> Result<Vec<u8>, String> {
    let path = path.to_path_buf();
    let (flags, skip, debg) = (o.flags, o.skip_features, o.compile_debg);
    let r = std::panic::catch_unwind(move || {
        let input = fontc::Input::new(&path).map_err(|_| "input".to_string())?;
        let source = input.create_source().map_err(|_| "source".to_string())?;
        let mut options = fontc::Options::default();
        options.flags = fontir::orchestration::Flags::from_bits_truncate(flags);
        options.skip_features = skip;
        options.compile_debg = debg;
        fontc::generate_font(source, options).map_err(|e| {
            let s = format!("{e:?}");
            if std::env::var_os("C05_VERBOSE").is_some() { eprintln!("c05font build error: {e}"); }
            format!("build:{}", s.split(|c: char| !c.is_alphanumeric()).next().unwrap_or(""))
        })
    });
    match r {
        Ok(x) => x,
        Err(e) => {
            let msg = e.downcast_ref::<String>().cloned().or_else(|| e.downcast_ref::<&str>().map(|s| s.to_string())).unwrap_or_default();
            Err(format!("panic:{}", msg.chars().take(120).collect::<String>()))
        }
    }
}

// ---- capture of fontbe::font's debug log: which TABLES_TO_MERGE slots were absent / had no content
struct Capture;
static CAPTURE: Capture = Capture;
static LOGS: std::sync::Mutex<Vec<String>> = std::sync::Mutex::new(Vec::new());
impl log::Log for Capture {
    fn enabled(&self, m: &log::Metadata) -> bool {
        m.target().starts_with("fontbe::font") && m.level() <= log::Level::Debug
    }
    fn log(&self, r: &log::Record) {
        if self.enabled(r.metadata()) {
            LOGS.lock().unwrap().push(format!("{}", r.args()));
        }
    }
    fn flush(&self) {}
}

/// true if our logger is the process logger
fn init_capture() -> bool {
    static OK: std::sync::OnceLock<bool> = std::sync::OnceLock::new();
    *OK.get_or_init(|| {
        let ok = log::set_logger(&CAPTURE).is_ok();
        if ok { log::set_max_level(log::LevelFilter::Debug); }
        ok
    })
}

/// `(merge (skip tag…) (nocontent tag…))` from the log of `FontWork::exec` (font.rs:218-233)
fn merge_field(captured: bool) -> S {
    if !captured {
        return S::k1("merge", S::atom("nolog"));
    }
    let logs = std::mem::take(&mut *LOGS.lock().unwrap());
    let mut skip = vec![];
    let mut nocontent = vec![];
    let mut extra = vec![];
    for l in logs {
        if let Some(rest) = l.strip_prefix("Skip ") {
            skip.push(S::str(&rest[..4.min(rest.len())]));
        } else if let Some(rest) = l.strip_prefix("No content for ") {
            nocontent.push(S::str(rest));
        } else if l.starts_with("using BASE") {
            extra.push(S::str("BASE"));
        } else if l.starts_with("adding Debg") {
            extra.push(S::str("Debg"));
        }
    }
    S::kv("merge", [S::kv("skip", skip), S::kv("nocontent", nocontent), S::kv("fea", extra)])
}

fn fea_num(v: f64) -> String {
    if v == v.trunc() { format!("{}", v as i64) } else { format!("{v}") }
}

/// C05 additions to a generated design (additive post-processing of `e2e::design::Design`):
///  * a *point axis* (minimum == default == maximum; fontc drops it from fvar), placed before the variable
///    axes most of the time, so designspace axis indices and fvar axis indices differ;
///  * hand-written *variable feature code* on real axes: a `conditionset` + `variation` block (GSUB
///    FeatureVariations) and variable scalars in pair / single positioning (GPOS VariationIndex -> GDEF store).
/// Returns (index of the point axis, variable FEA written).
pub fn decorate_design(rng: &mut Rng, d: &mut crate::e2e::design::Design, point: bool, varfea: bool) -> (Option<usize>, bool) {
    use crate::e2e::design::AxisDef;
    let mut point_at = None;
    if point {
        let at = if rng.chance(3, 4) { 0 } else { rng.below(d.axes.len() + 1) };
        let (tag, name, v) = *rng.pick(&[("ital", "Italic", 0.0), ("slnt", "Slant", -8.0), ("opsz", "Optical Size", 12.0)]);
        let (tag, name) = if d.axes.iter().any(|a| a.tag == tag) { ("GRAD", "Grade") } else { (tag, name) };
        d.axes.insert(at, AxisDef { tag: tag.into(), name: name.into(), min: v, default: v, max: v, map: vec![] });
        for m in d.masters.iter_mut() { m.loc.insert(at, v); }
        for i in d.instances.iter_mut() { i.loc.insert(at, v); }
        for r in d.rules.iter_mut() {
            for cs in r.condsets.iter_mut() { for c in cs.iter_mut() { if c.0 >= at { c.0 += 1; } } }
        }
        point_at = Some(at);
    }
    let real: Vec<AxisDef> = d.axes.iter().filter(|a| a.min < a.max && a.map.is_empty()).cloned().collect();
    let names = d.glyph_names();
    let mut wrote = false;
    if varfea && !real.is_empty() && names.contains(&"a".to_string()) && names.contains(&"b".to_string()) {
        let range = |a: &AxisDef| -> (f64, f64) {
            if a.max > a.default { (((a.default + a.max) / 2.0).round(), a.max) } else { (a.min, ((a.min + a.default) / 2.0).round()) }
        };
        let scalar = |rng: &mut Rng, axes: &[AxisDef]| -> String {
            // value at the default and at every differing extreme of the first axis; corner on the second
            let a = &axes[0];
            let mut locs = vec![format!("{}={}", a.tag, fea_num(a.default))];
            if a.min < a.default { locs.push(format!("{}={}", a.tag, fea_num(a.min))); }
            if a.max > a.default { locs.push(format!("{}={}", a.tag, fea_num(a.max))); }
            if axes.len() > 1 && rng.chance(1, 2) {
                let b = &axes[1];
                let bv = if b.max > b.default { b.max } else { b.min };
                locs.push(format!("{}={},{}={}", a.tag, fea_num(a.default), b.tag, fea_num(bv)));
            }
            let vals: Vec<String> = locs.iter().map(|l| format!("{l}:{}", rng.range(-60, 60))).collect();
            format!("({})", vals.join(" "))
        };
        let mut fea = String::from("languagesystem DFLT dflt;\nlookup vswap { sub a by b; } vswap;\n");
        let (lo, hi) = range(&real[0]);
        fea.push_str(&format!("conditionset heavy {{ {} {} {};", real[0].tag, fea_num(lo), fea_num(hi)));
        if real.len() > 1 && rng.chance(1, 2) {
            let (lo, hi) = range(&real[1]);
            fea.push_str(&format!(" {} {} {};", real[1].tag, fea_num(lo), fea_num(hi)));
        }
        fea.push_str(" } heavy;\nvariation rvrn heavy { lookup vswap; } rvrn;\n");
        if real.len() > 1 && rng.chance(1, 2) {
            let (lo, hi) = range(&real[1]);
            fea.push_str(&format!("conditionset wide {{ {} {} {}; }} wide;\nvariation rvrn wide {{ lookup vswap; }} rvrn;\n", real[1].tag, fea_num(lo), fea_num(hi)));
        }
        let has_kerning = d.masters.iter().any(|m| !m.kerning.is_empty());
        let feat = if has_kerning { "dist" } else { "kern" };
        fea.push_str(&format!("feature {feat} {{\n  pos a b {};\n", scalar(rng, &real)));
        if rng.chance(2, 3) { fea.push_str(&format!("  pos b <0 0 {} 0>;\n", scalar(rng, &real))); }
        fea.push_str(&format!("}} {feat};\n"));
        d.features = Some(match d.features.take() { Some(old) => format!("{old}\n{fea}"), None => fea });
        wrote = true;
    }
    (point_at, wrote)
}

/// Composites whose summary limits peak in *different* glyphs: one with many points (one component of a 24-point
/// polygon), one with many contours (three components of a 4-point box) and one that is deep (a chain of three),
/// so that maxp's composite fields cannot be taken from any single glyph.
fn add_maxp_spread(d: &mut crate::e2e::design::Design) {
    use crate::e2e::design::{Comp, GlyphDef, Pt, PtType};
    let line = |x: f64, y: f64| Pt { x, y, typ: PtType::Line };
    let poly: Vec<Pt> = (0..24).map(|k| {
        let (a, r) = (k as f64, if k % 2 == 0 { 300.0 } else { 200.0 });
        // a 24-gon on integer coordinates (octant-wise, no trigonometry needed for distinct points)
        line(400.0 + r - 10.0 * a * ((k % 3) as f64), 100.0 + 17.0 * a + if k > 12 { -9.0 * (a - 12.0) } else { 0.0 })
    }).collect();
    let boxc = vec![line(0.0, 0.0), line(100.0, 0.0), line(100.0, 100.0), line(0.0, 100.0)];
    let c = |base: &str, dx: f64, dy: f64| Comp { base: base.to_string(), t: [1.0, 0.0, 0.0, 1.0, dx, dy] };
    let new: Vec<(&str, GlyphDef)> = vec![
        ("mxpoly", GlyphDef { advance: 800.0, contours: vec![poly], ..Default::default() }),
        ("mxbox", GlyphDef { advance: 300.0, contours: vec![boxc], ..Default::default() }),
        ("mxpolyref", GlyphDef { advance: 800.0, components: vec![c("mxpoly", 10.0, 0.0)], ..Default::default() }),
        ("mxtriple", GlyphDef { advance: 500.0, components: vec![c("mxbox", 0.0, 0.0), c("mxbox", 150.0, 0.0), c("mxbox", 300.0, 0.0)], ..Default::default() }),
        ("mxn1", GlyphDef { advance: 300.0, components: vec![c("mxbox", 5.0, 5.0)], ..Default::default() }),
        ("mxn2", GlyphDef { advance: 300.0, components: vec![c("mxn1", 5.0, 5.0)], ..Default::default() }),
        ("mxn3", GlyphDef { advance: 300.0, components: vec![c("mxn2", 5.0, 5.0)], ..Default::default() }),
    ];
    for m in d.masters.iter_mut() {
        if m.sparse { continue; }
        for (n, g) in &new {
            let mut g = g.clone();
            if let Some(h) = m.glyphs.values().next().and_then(|x| x.height) { g.height = Some(h); }
            m.glyphs.insert(n.to_string(), g);
        }
    }
    if let Some(order) = d.glyph_order.as_mut() {
        for (n, _) in &new { order.push(n.to_string()); }
    }
}

pub fn run_font(args: &Args) {
    let seed = args.seed;
    let captured = init_capture();
    let sources = all_sources();
    crate::run_cases("c05font", args, move |i| {
        let mut rng = Rng::for_case(seed, "c05font", i);
        // two thirds repo testdata (every source in turn), one third generated variable designs
        let generated = i % 3 == 2;
        let default_flags = fontir::orchestration::Flags::default().bits();
        let flags = match rng.below(4) {
            0 => default_flags,
            1 => default_flags | 0b1000,          // FLATTEN_COMPONENTS
            2 => default_flags | 0b1_0000_0000,   // DECOMPOSE_COMPONENTS
            _ => {
                let all = [0b100u32, 0b1000, 0b1_0000, 0b100_0000, 0b1000_0000, 0b1_0000_0000, 0b10_0000_0000, 0b100_0000_0000];
                all.iter().filter(|_| rng.chance(1, 2)).fold(0, |a, b| a | b)
            }
        };
        let o = FontOpts { flags, skip_features: rng.chance(1, 6), compile_debg: rng.chance(1, 6) };
        let mut f = vec![
            S::k1("flags", S::int(flags)),
            S::k1("skip_features", S::bool(o.skip_features)),
            S::k1("compile_debg", S::bool(o.compile_debg)),
        ];
        if captured { LOGS.lock().unwrap().clear(); }
        let res = if generated {
            use crate::e2e::{design, write};
            let mut go = design::GenOpts::default();
            go.vertical = rng.chance(1, 3);
            go.metrics_vary = rng.chance(1, 2);
            go.nested = rng.chance(1, 2);
            let mut d = design::gen_design(&mut rng, &go);
            if rng.chance(1, 2) { add_maxp_spread(&mut d); }
            let (want_point, want_fea) = (rng.chance(1, 2), rng.chance(2, 3));
            let (point_at, varfea) = decorate_design(&mut rng, &mut d, want_point, want_fea);
            f.push(S::k1("pointaxis", S::opt(point_at.map(S::usize))));
            f.push(S::k1("varfea", S::bool(varfea)));
            f.push(S::k1("axes", S::list(d.axes.iter().map(|a| S::str(&a.tag)))));
            let tmp = crate::e2e::build::tmpdir("c05font");
            let ds = write::write_design(tmp.path(), &d);
            f.push(S::k1("source", S::str("generated")));
            compile(&ds, &o)
        } else {
            let src = &sources[(i - i / 3) % sources.len()];
            f.push(S::k1("source", S::str(&src.strip_prefix(testdata()).unwrap_or(src).to_string_lossy())));
            compile(src, &o)
        };
        let merge = merge_field(captured);
        match res {
            Ok(bytes) => {
                f.push(S::k1("result", S::atom("ok")));
                f.push(merge);
                f.extend(font_check_fields(&bytes));
            }
            Err(e) => f.push(S::kv("result", [S::atom("err"), S::str(&e)])),
        }
        f
    });
}
