//! C15 — bad input ends in a reported error, never a crash, hang or bogus font.
//!
//! The real compiler runs in CHILD PROCESSES (`vharness c15child <path> <outfile> [flags]`, which calls the
//! real `fontc::run`, the function behind `fontc`'s `main`) under a wall-clock limit, an address-space limit
//! and the default 8 MB main-thread stack. The parent only observes: exit code | signal | timeout, stderr,
//! whether a font file was written, and the font's bytes (checked by C05's oracle).
//!
//! * `c15graph`: random component graphs (acyclic, self loops, 2-cycles, long cycles, cycles behind non-export
//!   glyphs, dangling references) written as static UFOs. The real `fontdrasil::util::depth_sorted_composite_glyphs`
//!   is also called in-process on the same graph (it is iterative) and compared with the Lean model `depthSort`.
//! * `c15mut`: structural mutations of valid sources (generated designs + copies of /repo/resources/testdata).
//! * `c15corpus`: minimised reproducers of past findings (/verif/corpus/c15) + testdata sources known to end in a panic.
//!
//! Knobs: `--timeout S` / C15_TIMEOUT_S (60), C15_AS_MB (4096), C15_KEEP=<dir> (keep the mutated source tree of each case
//! under <dir>/<stream>-<index>, for minimisation), C15_CHILD=<exe> (run another vharness build as the child, e.g. one
//! built against a patched checkout).
use crate::e2e::{build, design, write};
use crate::rng::Rng;
use crate::sexp::S;
use crate::Args;
use std::collections::{BTreeMap, BTreeSet};
use std::fs;
use std::io::Read;
use std::path::{Path, PathBuf};
use std::time::{Duration, Instant};

// ------------------------------------------------------------------------------------------------
// child
// ------------------------------------------------------------------------------------------------

/// `vharness c15child <path> <outfile> [flag-bits]`: exactly what `fontc <path> -o <outfile>` does after
/// argument parsing (fontc/src/main.rs: `run(args)`; `Err(e)` => message + exit 1).
pub fn run_child(args: &Args) {
    let path = PathBuf::from(args.rest.first().expect("c15child <path> <outfile>"));
    let out = PathBuf::from(args.rest.get(1).expect("c15child <path> <outfile>"));
    let flags = args.rest.get(2).and_then(|f| f.parse::<u32>().ok());
    let r = (|| -> Result<(), fontc::Error> {
        let input = fontc::Input::new(&path)?;
        let mut options = fontc::Options::default();
        if let Some(bits) = flags {
            options.flags = fontir::orchestration::Flags::from_bits_truncate(bits);
        }
        options.output_file = Some(out.clone());
        fontc::run(input, options, fontc::JobTimer::default())
    })();
    match r {
        Ok(()) => std::process::exit(0),
        Err(e) => {
            eprintln!("error: {e}");
            std::process::exit(1);
        }
    }
}

// ------------------------------------------------------------------------------------------------
// running a child under limits
// ------------------------------------------------------------------------------------------------

#[derive(Debug, Clone)]
pub struct Outcome {
    /// "exit" | "signal" | "timeout"
    pub kind: &'static str,
    /// exit code or signal number
    pub code: i32,
    pub stderr: String,
    pub font: Option<Vec<u8>>,
    pub millis: u128,
}

fn env_u64(k: &str, d: u64) -> u64 {
    std::env::var(k).ok().and_then(|v| v.parse().ok()).unwrap_or(d)
}

/// wall-clock limit per child: `--timeout S` on the command line, else C15_TIMEOUT_S, else 60 s
static TIMEOUT_S: std::sync::OnceLock<u64> = std::sync::OnceLock::new();
fn set_timeout(args: &Args) {
    let cli = args.rest.iter().position(|a| a == "--timeout").and_then(|p| args.rest.get(p + 1)).and_then(|v| v.parse().ok());
    let _ = TIMEOUT_S.set(cli.unwrap_or_else(|| env_u64("C15_TIMEOUT_S", 60)));
}

pub fn run_limited(src: &Path, out: &Path, flags: Option<u32>) -> Outcome {
    use std::os::unix::process::ExitStatusExt;
    // our own image through /proc/<pid>/exe: still executable if a concurrent `cargo build` replaced the file on disk
    let exe = std::env::var("C15_CHILD").map(PathBuf::from).unwrap_or_else(|_| PathBuf::from(format!("/proc/{}/exe", std::process::id())));
    let timeout = Duration::from_secs(*TIMEOUT_S.get_or_init(|| env_u64("C15_TIMEOUT_S", 60)));
    let as_kb = env_u64("C15_AS_MB", 4096) * 1024;
    let _ = fs::remove_file(out);
    // limits are set by the shell that then exec()s the child: address space, default 8 MB stack, no core files
    let script = format!("ulimit -v {as_kb}; ulimit -s 8192; ulimit -c 0; exec \"$0\" \"$@\"");
    let mut cmd = std::process::Command::new("/bin/sh");
    cmd.arg("-c").arg(script).arg(&exe).arg("c15child").arg(src).arg(out);
    if let Some(f) = flags {
        cmd.arg(f.to_string());
    }
    cmd.env("RAYON_NUM_THREADS", "4").env_remove("RUST_LOG").env_remove("RUST_MIN_STACK").env_remove("RUST_BACKTRACE")
        .stdin(std::process::Stdio::null()).stdout(std::process::Stdio::null()).stderr(std::process::Stdio::piped());
    let t0 = Instant::now();
    let mut child = cmd.spawn().expect("spawn c15child");
    // drain stderr on a thread (bounded) so a chatty child never blocks on the pipe
    let mut pipe = child.stderr.take().unwrap();
    let reader = std::thread::spawn(move || {
        let mut keep: Vec<u8> = Vec::new();
        let mut buf = [0u8; 8192];
        loop {
            match pipe.read(&mut buf) {
                Ok(0) | Err(_) => break,
                Ok(n) => {
                    keep.extend_from_slice(&buf[..n]);
                    if keep.len() > 1 << 16 {
                        let cut = keep.len() - (1 << 15);
                        keep.drain(..cut);
                    }
                }
            }
        }
        keep
    });
    let mut timed_out = false;
    let status = loop {
        match child.try_wait().expect("try_wait") {
            Some(st) => break st,
            None => {
                if t0.elapsed() > timeout {
                    timed_out = true;
                    let _ = child.kill();
                    break child.wait().expect("wait");
                }
                std::thread::sleep(Duration::from_millis(5));
            }
        }
    };
    let millis = t0.elapsed().as_millis();
    let stderr = String::from_utf8_lossy(&reader.join().unwrap_or_default()).to_string();
    let font = fs::read(out).ok();
    let (kind, code) = if timed_out {
        ("timeout", 0)
    } else if let Some(c) = status.code() {
        ("exit", c)
    } else {
        ("signal", status.signal().unwrap_or(0))
    };
    Outcome { kind, code, stderr, font, millis }
}

/// The lines of stderr that matter: error/panic/overflow/abort messages (a panic's message is on the line after
/// `panicked at`), else the tail.
fn stderr_digest(stderr: &str) -> String {
    let key = ["error", "panicked", "overflowed", "memory allocation", "abort", "Stuck", "fatal"];
    let all: Vec<&str> = stderr.lines().collect();
    let mut keep: Vec<usize> = vec![];
    for (i, l) in all.iter().enumerate() {
        if key.iter().any(|k| l.contains(k)) {
            keep.push(i);
            if l.contains("panicked at") && i + 1 < all.len() { keep.push(i + 1); }
        }
    }
    keep.sort(); keep.dedup();
    let mut lines: Vec<&str> = keep.iter().map(|i| all[*i]).collect();
    if lines.is_empty() {
        lines = all.iter().rev().take(3).rev().cloned().collect();
    }
    if lines.len() > 5 { lines = lines[lines.len() - 5..].to_vec(); }
    let mut s = lines.join(" | ");
    if s.len() > 700 {
        let mut cut = 700;
        while !s.is_char_boundary(cut) { cut -= 1; }
        s.truncate(cut);
    }
    s
}

fn outcome_fields(o: &Outcome) -> Vec<S> {
    let mut f = vec![S::kv("outcome", [
        S::k1("kind", S::atom(o.kind)),
        S::k1("code", S::int(o.code)),
        S::k1("font_written", S::bool(o.font.is_some())),
        S::k1("stderr_empty", S::bool(o.stderr.trim().is_empty())),
        S::k1("caught_panic", S::bool(o.stderr.contains("panicked"))),
        S::k1("stack_overflow", S::bool(o.stderr.contains("has overflowed its stack"))),
        S::k1("alloc_failed", S::bool(o.stderr.contains("memory allocation of"))),
        S::k1("msg", S::str(&stderr_digest(&o.stderr))),
    ])];
    if o.kind == "exit" && o.code == 0 {
        if let Some(bytes) = &o.font {
            f.extend(crate::c05::font_check_fields(bytes));
        }
    }
    f
}

fn keep_dir(stream: &str, i: usize, tmp: &Path) {
    if let Ok(k) = std::env::var("C15_KEEP") {
        let dst = Path::new(&k).join(format!("{stream}-{i}"));
        let _ = fs::remove_dir_all(&dst);
        let _ = copy_tree(tmp, &dst);
    }
}

fn copy_tree(src: &Path, dst: &Path) -> std::io::Result<()> {
    if src.is_dir() {
        fs::create_dir_all(dst)?;
        for e in fs::read_dir(src)? {
            let e = e?;
            copy_tree(&e.path(), &dst.join(e.file_name()))?;
        }
    } else {
        if let Some(p) = dst.parent() { fs::create_dir_all(p)?; }
        fs::copy(src, dst)?;
    }
    Ok(())
}

// ------------------------------------------------------------------------------------------------
// c15graph
// ------------------------------------------------------------------------------------------------

struct Node {
    name: smol_str::SmolStr,
    comps: Vec<smol_str::SmolStr>,
}

impl fontdrasil::util::CompositeLike for Node {
    fn name(&self) -> smol_str::SmolStr { self.name.clone() }
    fn has_components(&self) -> bool { !self.comps.is_empty() }
    fn component_names(&self) -> impl Iterator<Item = smol_str::SmolStr> { self.comps.iter().cloned() }
}

/// the real fontdrasil::util::depth_sorted_composite_glyphs on an abstract graph
fn real_depth_sort(g: &BTreeMap<String, Vec<String>>) -> Vec<String> {
    let glyphs: BTreeMap<smol_str::SmolStr, Node> = g.iter().map(|(n, cs)| {
        (n.as_str().into(), Node { name: n.as_str().into(), comps: cs.iter().map(|c| c.as_str().into()).collect() })
    }).collect();
    fontdrasil::util::depth_sorted_composite_glyphs(&glyphs).into_iter().map(|s| s.to_string()).collect()
}

pub struct GraphCase {
    pub kind: &'static str,
    /// glyph -> component base names (duplicates allowed, may name absent glyphs)
    pub graph: BTreeMap<String, Vec<String>>,
    pub skip: Vec<String>,
    /// composite glyphs that also carry a contour
    pub mixed: BTreeSet<String>,
    pub flags: Option<u32>,
}

pub const GRAPH_KINDS: [&str; 8] = ["acyclic", "self-loop", "two-cycle", "long-cycle", "cycle-behind-nonexport", "dangling", "dangling+cycle", "nonexport-acyclic"];

pub fn gen_graph(rng: &mut Rng, i: usize) -> GraphCase {
    let kind = GRAPH_KINDS[i % GRAPH_KINDS.len()];
    let n = 3 + rng.below(6);
    let mut names: Vec<String> = design::GLYPH_NAMES[..n].iter().map(|s| s.to_string()).collect();
    rng.shuffle(&mut names);
    let mut graph: BTreeMap<String, Vec<String>> = names.iter().map(|n| (n.clone(), vec![])).collect();
    // a random DAG: names[k] may refer to names[j], j < k
    for k in 1..n {
        if rng.chance(1, 2) {
            for _ in 0..1 + rng.below(2) {
                let j = rng.below(k);
                graph.get_mut(&names[k]).unwrap().push(names[j].clone());
            }
        }
    }
    let mut skip: Vec<String> = vec![];
    let add_cycle = |rng: &mut Rng, graph: &mut BTreeMap<String, Vec<String>>, members: &[String]| {
        for (a, b) in members.iter().zip(members.iter().cycle().skip(1)) {
            let cs = graph.get_mut(a).unwrap();
            let at = rng.below(cs.len() + 1);
            cs.insert(at, b.clone());
        }
    };
    match kind {
        "self-loop" => { let m = vec![rng.pick(&names).clone()]; add_cycle(rng, &mut graph, &m); }
        "two-cycle" => {
            let a = rng.below(n); let b = (a + 1 + rng.below(n - 1)) % n;
            add_cycle(rng, &mut graph, &[names[a].clone(), names[b].clone()]);
        }
        "long-cycle" => {
            let len = 3 + rng.below(n - 2);
            let mut m = names.clone(); rng.shuffle(&mut m); m.truncate(len);
            add_cycle(rng, &mut graph, &m);
        }
        "cycle-behind-nonexport" => {
            // exported e -> non-export x -> cycle among non-export glyphs (x may be a member)
            let mut m = names.clone(); rng.shuffle(&mut m);
            let clen = 1 + rng.below((n - 1).min(3));
            let members: Vec<String> = m[..clen].to_vec();
            add_cycle(rng, &mut graph, &members);
            skip.extend(members.iter().cloned());
            if rng.chance(2, 3) {
                let e = m[clen].clone();
                graph.get_mut(&e).unwrap().push(members[0].clone());
            }
        }
        "dangling" | "dangling+cycle" => {
            for _ in 0..1 + rng.below(3) {
                let g = rng.pick(&names).clone();
                let missing = rng.pick(&["zz", "missing", "a.alt"]).to_string();
                let cs = graph.get_mut(&g).unwrap();
                let at = rng.below(cs.len() + 1);
                cs.insert(at, missing);
            }
            if kind == "dangling+cycle" {
                let a = rng.below(n); let b = (a + 1 + rng.below(n - 1)) % n;
                add_cycle(rng, &mut graph, &[names[a].clone(), names[b].clone()]);
            }
        }
        "nonexport-acyclic" => {
            for nm in &names { if rng.chance(1, 3) { skip.push(nm.clone()); } }
        }
        _ => {}
    }
    if kind != "cycle-behind-nonexport" && kind != "nonexport-acyclic" && rng.chance(1, 4) {
        skip.push(rng.pick(&names).clone());
    }
    skip.sort(); skip.dedup();
    if skip.len() == n { skip.pop(); }
    let mut mixed = BTreeSet::new();
    for (g, cs) in &graph {
        if !cs.is_empty() && rng.chance(1, 5) { mixed.insert(g.clone()); }
    }
    // half the cases the CLI default flags; else flatten / decompose / decompose-transformed on top of them
    let default_flags = fontir::orchestration::Flags::default().bits();
    let flags = match rng.below(6) {
        0 => Some(default_flags | 0b1000),          // FLATTEN_COMPONENTS
        1 => Some(default_flags | 0b1_0000_0000),   // DECOMPOSE_COMPONENTS
        2 => Some(default_flags | 0b1_0000),        // DECOMPOSE_TRANSFORMED_COMPONENTS
        _ => None,
    };
    GraphCase { kind, graph, skip, mixed, flags }
}

fn triangle(k: usize) -> Vec<design::Pt> {
    let o = 10.0 * k as f64;
    vec![
        design::Pt { x: 100.0 + o, y: 0.0, typ: design::PtType::Line },
        design::Pt { x: 300.0 + o, y: 0.0 + o, typ: design::PtType::Line },
        design::Pt { x: 200.0, y: 400.0 + o, typ: design::PtType::Line },
    ]
}

pub fn graph_design(c: &GraphCase) -> design::Design {
    let mut m = design::Master { name: "M0".into(), style: "Regular".into(), loc: vec![], ..Default::default() };
    for (k, (name, comps)) in c.graph.iter().enumerate() {
        let mut g = design::GlyphDef { advance: 500.0 + k as f64, ..Default::default() };
        if comps.is_empty() || c.mixed.contains(name) {
            g.contours.push(triangle(k));
        }
        for (j, b) in comps.iter().enumerate() {
            g.components.push(design::Comp { base: b.clone(), t: [1.0, 0.0, 0.0, 1.0, 20.0 * j as f64, 10.0 * k as f64] });
        }
        m.glyphs.insert(name.clone(), g);
    }
    m.info = vec![("ascender".into(), 800.0), ("descender".into(), -200.0), ("xHeight".into(), 500.0), ("capHeight".into(), 700.0)];
    let mut d = design::Design { family: "Verif Graph".into(), upem: 1000, masters: vec![m], ..Default::default() };
    d.glyph_order = Some(c.graph.keys().cloned().collect());
    d.skip_export = c.skip.clone();
    for (i, n) in c.graph.keys().enumerate() {
        d.codepoints.insert(n.clone(), vec![0x61 + i as u32]);
    }
    d
}

pub fn run_graph(args: &Args) {
    set_timeout(args);
    let seed = args.seed;
    crate::run_cases("c15graph", args, move |i| {
        let mut rng = Rng::for_case(seed, "c15graph", i);
        let c = gen_graph(&mut rng, i);
        let d = graph_design(&c);
        let tmp = build::tmpdir("c15graph");
        write::write_design(tmp.path(), &d);
        let ufo = tmp.path().join(write::ufo_name(&d, 0));
        keep_dir("c15graph", i, tmp.path());
        let out = tmp.path().join("out.ttf");
        let o = run_limited(&ufo, &out, c.flags);
        // the real depth sort on the raw graph and on the graph with dangling references pruned
        let present: BTreeSet<&String> = c.graph.keys().collect();
        let pruned: BTreeMap<String, Vec<String>> = c.graph.iter()
            .map(|(n, cs)| (n.clone(), cs.iter().filter(|b| present.contains(b)).cloned().collect())).collect();
        let mut f = vec![
            S::k1("kind", S::atom(c.kind)),
            S::k1("graph", S::list(c.graph.iter().map(|(n, cs)| S::list([S::str(n), S::list(cs.iter().map(|b| S::str(b)))])))),
            S::k1("skip", S::list(c.skip.iter().map(|n| S::str(n)))),
            S::k1("mixed", S::list(c.mixed.iter().map(|n| S::str(n)))),
            S::k1("flags", S::opt(c.flags.map(|b| S::int(b)))),
            S::kv("impl", [
                S::k1("sorted", S::list(real_depth_sort(&c.graph).iter().map(|n| S::str(n)))),
                S::k1("sorted_pruned", S::list(real_depth_sort(&pruned).iter().map(|n| S::str(n)))),
            ]),
            S::k1("millis", S::int(o.millis as i128)),
        ];
        f.extend(outcome_fields(&o));
        f
    });
}

// ------------------------------------------------------------------------------------------------
// c15mut: structural mutation of valid sources
// ------------------------------------------------------------------------------------------------

const TESTDATA: &str = "/repo/resources/testdata";

/// (label, paths under testdata to copy, entry path)
const REAL_BASES: &[(&str, &[&str], &str)] = &[
    ("wght_var.designspace", &["wght_var.designspace", "WghtVar-Regular.ufo", "WghtVar-Bold.ufo"], "wght_var.designspace"),
    ("static.designspace", &["static.designspace", "Static-Regular.ufo", "static.fea"], "static.designspace"),
    ("glyphs3/WghtVar.glyphs", &["glyphs3/WghtVar.glyphs"], "glyphs3/WghtVar.glyphs"),
    ("glyphs2/WghtVar.glyphs", &["glyphs2/WghtVar.glyphs"], "glyphs2/WghtVar.glyphs"),
    ("glyphs3/NestedComponent.glyphs", &["glyphs3/NestedComponent.glyphs"], "glyphs3/NestedComponent.glyphs"),
    ("glyphs2/Component.glyphs", &["glyphs2/Component.glyphs"], "glyphs2/Component.glyphs"),
    ("fea_include.designspace", &["fea_include.designspace", "fea_include_ufo"], "fea_include.designspace"),
    ("WghtVar-Regular.ufo", &["WghtVar-Regular.ufo"], "WghtVar-Regular.ufo"),
    ("glyphs3/IntermediateLayer.glyphs", &["glyphs3/IntermediateLayer.glyphs"], "glyphs3/IntermediateLayer.glyphs"),
    ("glyphs3/WghtVar.glyphspackage", &["glyphs3/WghtVar.glyphspackage"], "glyphs3/WghtVar.glyphspackage"),
    ("glyphs3/Fea_Labels.glyphs", &["glyphs3/Fea_Labels.glyphs"], "glyphs3/Fea_Labels.glyphs"),
    ("glyphs_fea_include", &["glyphs_fea_include"], "glyphs_fea_include/glyphs_include.glyphs"),
];

pub const MUT_KINDS: [&str; 14] = ["xml-drop", "xml-dup", "plist-drop", "plist-dup", "number", "truncate", "bytes", "delete",
    "swap-default", "empty-axes", "fea-soup", "fea-include-cycle", "comp-cycle", "empty-file"];

struct MutLog { kind: &'static str, file: String, detail: String }

fn walk(root: &Path, rel: &Path, files: &mut Vec<PathBuf>, dirs: &mut Vec<PathBuf>) {
    let Ok(rd) = fs::read_dir(root.join(rel)) else { return };
    let mut es: Vec<_> = rd.flatten().map(|e| e.file_name()).collect();
    es.sort();
    for name in es {
        let r = rel.join(&name);
        if root.join(&r).is_dir() {
            dirs.push(r.clone());
            walk(root, &r, files, dirs);
        } else {
            files.push(r);
        }
    }
}

fn ext_of(p: &Path) -> &str { p.extension().and_then(|e| e.to_str()).unwrap_or("") }
fn is_xml(p: &Path) -> bool { matches!(ext_of(p), "designspace" | "glif" | "plist") && !is_openstep(p) }
/// OpenStep-plist text files of the Glyphs formats (.glyphs, and the .glyph/.plist files inside a .glyphspackage)
fn is_openstep(p: &Path) -> bool {
    matches!(ext_of(p), "glyphs" | "glyph") || p.components().any(|c| c.as_os_str().to_string_lossy().ends_with(".glyphspackage"))
}
fn is_text_source(p: &Path) -> bool { is_xml(p) || is_openstep(p) || ext_of(p) == "fea" }

/// every XML element as (start, end) byte span
fn xml_elements(b: &[u8]) -> Vec<(usize, usize)> {
    let mut out = vec![];
    let mut i = 0;
    while i + 1 < b.len() {
        if b[i] == b'<' && (b[i + 1].is_ascii_alphabetic()) {
            let ns = i + 1;
            let mut ne = ns;
            while ne < b.len() && (b[ne].is_ascii_alphanumeric() || b[ne] == b'.' || b[ne] == b'_' || b[ne] == b'-') { ne += 1; }
            let name = &b[ns..ne];
            // end of the opening tag
            let mut j = ne;
            let mut quote: Option<u8> = None;
            while j < b.len() {
                match quote {
                    Some(q) => { if b[j] == q { quote = None; } }
                    None => {
                        if b[j] == b'"' || b[j] == b'\'' { quote = Some(b[j]); }
                        else if b[j] == b'>' { break; }
                    }
                }
                j += 1;
            }
            if j >= b.len() { break; }
            if b[j - 1] == b'/' {
                out.push((i, j + 1));
            } else {
                // matching close tag with nesting of the same name
                let mut depth = 1;
                let mut k = j + 1;
                let mut end = None;
                while k < b.len() {
                    if b[k] == b'<' {
                        if b[k..].starts_with(b"</") && b[k + 2..].starts_with(name) && b.get(k + 2 + name.len()).is_some_and(|c| *c == b'>' || c.is_ascii_whitespace()) {
                            depth -= 1;
                            if depth == 0 {
                                let mut e = k;
                                while e < b.len() && b[e] != b'>' { e += 1; }
                                end = Some((e + 1).min(b.len()));
                                break;
                            }
                        } else if b[k + 1..].starts_with(name) && b.get(k + 1 + name.len()).is_some_and(|c| *c == b'>' || *c == b'/' || c.is_ascii_whitespace()) {
                            // nested element of the same name (skip self-closing ones)
                            let mut e = k;
                            while e < b.len() && b[e] != b'>' { e += 1; }
                            if e < b.len() && b[e - 1] != b'/' { depth += 1; }
                        }
                    }
                    k += 1;
                }
                if let Some(e) = end { out.push((i, e)); }
            }
        }
        i += 1;
    }
    out
}

/// balanced `{…}` / `(…)` blocks of an OpenStep plist (strings respected) as (start, end)
fn plist_blocks(b: &[u8]) -> Vec<(usize, usize)> {
    let mut out = vec![];
    let mut stack: Vec<(u8, usize)> = vec![];
    let mut i = 0;
    let mut in_str = false;
    while i < b.len() {
        let c = b[i];
        if in_str {
            if c == b'\\' { i += 1; } else if c == b'"' { in_str = false; }
        } else {
            match c {
                b'"' => in_str = true,
                b'{' | b'(' => stack.push((c, i)),
                b'}' | b')' => {
                    if let Some((o, s)) = stack.pop() {
                        if (o == b'{') == (c == b'}') { out.push((s, i + 1)); }
                    }
                }
                _ => {}
            }
        }
        i += 1;
    }
    out
}

/// numeric tokens (start, end): optional '-', digits, optional fraction; not glued to a letter
fn number_tokens(b: &[u8]) -> Vec<(usize, usize)> {
    let mut out = vec![];
    let mut i = 0;
    while i < b.len() {
        if b[i].is_ascii_digit() && (i == 0 || !(b[i - 1].is_ascii_alphanumeric() || b[i - 1] == b'_' || b[i - 1] == b'.')) {
            let mut s = i;
            if s > 0 && b[s - 1] == b'-' { s -= 1; }
            let mut e = i;
            while e < b.len() && b[e].is_ascii_digit() { e += 1; }
            if e + 1 < b.len() && b[e] == b'.' && b[e + 1].is_ascii_digit() {
                e += 1;
                while e < b.len() && b[e].is_ascii_digit() { e += 1; }
            }
            if e >= b.len() || !(b[e].is_ascii_alphabetic() || b[e] == b'_') {
                out.push((s, e));
            }
            i = e;
        } else {
            i += 1;
        }
    }
    out
}

const WILD_NUMBERS: &[&str] = &["99999999999999999999", "-99999999999999999999", "1e308", "-1e308", "1e309", "1e-320", "NaN", "nan", "inf",
    "-inf", "-1", "0", "-0", "65535", "65536", "-32769", "32768", "4294967296", "2147483648", "-2147483649", "1e40", "0.0000001",
    "16777217", "9007199254740993", "", "1.5", "0x10", "1,5", "+7"];

const FEA_TOKENS: &[&str] = &["feature", "lookup", "liga", "kern", "mark", "test", "{", "}", ";", ";", "sub", "pos", "by", "from", "'", "@c", "@c = [a b];",
    "[", "]", "a", "b", "bar", "plus", "c", "-", "10", "-32769", "99999999999", "<", ">", "<anchor 1 2>", "anchor", "NULL", "include(", ")", "table", "GDEF",
    "name", "languagesystem", "DFLT", "dflt", "latn", "script", "language", "#", "\\", "\"", "\\1", "\\99999", "useExtension", "ignore", "lookupflag",
    "RightToLeft", "markClass", "anonymous", "anon", "enum", "rsub", "\u{0}", "\u{feff}", "é", "\n", "\r\n", "variation", "conditionset", "wght", "=", ",", "(", "0x", "1.5", "a-b", ".notdef", "cid1"];

fn glyph_names_in_glif(b: &[u8]) -> Option<String> {
    let s = String::from_utf8_lossy(b);
    let at = s.find("<glyph ")?;
    let rest = &s[at..];
    let n = rest.find("name=\"")? + 6;
    let e = rest[n..].find('"')?;
    Some(rest[n..n + e].to_string())
}

fn find_all(hay: &[u8], needle: &[u8]) -> Vec<usize> {
    let mut out = vec![];
    if needle.is_empty() || hay.len() < needle.len() { return out; }
    for i in 0..=hay.len() - needle.len() {
        if &hay[i..i + needle.len()] == needle { out.push(i); }
    }
    out
}

fn rand_bytes(rng: &mut Rng) -> u8 {
    const POOL: &[u8] = b"<>\"'/{}();=\0\xff\xfe\x80&\\\n\r\t -+.eE0123456789";
    if rng.chance(2, 3) { *rng.pick(POOL) } else { rng.below(256) as u8 }
}

/// Apply one mutation of `kind` under `root`; None = not applicable here.
fn mutate_once(rng: &mut Rng, root: &Path, kind: &'static str) -> Option<MutLog> {
    let mut files = vec![];
    let mut dirs = vec![];
    walk(root, Path::new(""), &mut files, &mut dirs);
    files.retain(|f| f.file_name().is_some_and(|n| n != "out.ttf"));
    let pick_file = |rng: &mut Rng, pred: &dyn Fn(&Path) -> bool| -> Option<PathBuf> {
        let c: Vec<&PathBuf> = files.iter().filter(|f| pred(f)).collect();
        if c.is_empty() { None } else { Some((*rng.pick(&c)).clone()) }
    };
    let log = |file: &Path, detail: String| Some(MutLog { kind, file: file.to_string_lossy().to_string(), detail });
    match kind {
        "xml-drop" | "xml-dup" => {
            let f = pick_file(rng, &|p| is_xml(p))?;
            let b = fs::read(root.join(&f)).ok()?;
            let els = xml_elements(&b);
            if els.is_empty() { return None; }
            let (s, e) = *rng.pick(&els);
            let mut nb = b[..s].to_vec();
            if kind == "xml-dup" { nb.extend_from_slice(&b[s..e]); nb.extend_from_slice(&b[s..e]); }
            nb.extend_from_slice(&b[e..]);
            fs::write(root.join(&f), nb).ok()?;
            let head: String = String::from_utf8_lossy(&b[s..e.min(s + 40)]).replace('\n', " ");
            log(&f, format!("{s}..{e} {head}"))
        }
        "plist-drop" | "plist-dup" => {
            let f = pick_file(rng, &|p| is_openstep(p))?;
            let b = fs::read(root.join(&f)).ok()?;
            let (s, e) = if rng.chance(1, 2) {
                let blocks = plist_blocks(&b);
                if blocks.is_empty() { return None; }
                *rng.pick(&blocks)
            } else {
                // one line
                let starts: Vec<usize> = std::iter::once(0).chain(find_all(&b, b"\n").into_iter().map(|i| i + 1)).filter(|i| *i < b.len()).collect();
                if starts.is_empty() { return None; }
                let s = *rng.pick(&starts);
                let e = b[s..].iter().position(|c| *c == b'\n').map(|k| s + k + 1).unwrap_or(b.len());
                (s, e)
            };
            let mut nb = b[..s].to_vec();
            if kind == "plist-dup" { nb.extend_from_slice(&b[s..e]); nb.extend_from_slice(&b[s..e]); }
            nb.extend_from_slice(&b[e..]);
            fs::write(root.join(&f), nb).ok()?;
            let head: String = String::from_utf8_lossy(&b[s..e.min(s + 40)]).replace('\n', " ");
            log(&f, format!("{s}..{e} {head}"))
        }
        "number" => {
            let f = pick_file(rng, &|p| is_text_source(p))?;
            let b = fs::read(root.join(&f)).ok()?;
            // skip the XML prolog / DOCTYPE / root open tag (version="1.0" …): numbers of the document body only
            let body = if is_xml(&f) {
                ["<plist", "<designspace", "<glyph"].iter().filter_map(|r| find_all(&b, r.as_bytes()).first().copied()).min()
                    .map(|r| r + b[r..].iter().position(|c| *c == b'>').unwrap_or(0)).unwrap_or(0)
            } else { 0 };
            let toks: Vec<(usize, usize)> = number_tokens(&b).into_iter().filter(|t| t.0 >= body).collect();
            if toks.is_empty() { return None; }
            let (s, e) = *rng.pick(&toks);
            let w = *rng.pick(WILD_NUMBERS);
            let mut nb = b[..s].to_vec();
            nb.extend_from_slice(w.as_bytes());
            nb.extend_from_slice(&b[e..]);
            fs::write(root.join(&f), nb).ok()?;
            let ctx_s = s.saturating_sub(24);
            let ctx: String = String::from_utf8_lossy(&b[ctx_s..e]).replace('\n', " ");
            log(&f, format!("@{s} '{ctx}' -> '{w}'"))
        }
        "truncate" => {
            let f = pick_file(rng, &|_| true)?;
            let b = fs::read(root.join(&f)).ok()?;
            if b.is_empty() { return None; }
            let at = rng.below(b.len());
            fs::write(root.join(&f), &b[..at]).ok()?;
            log(&f, format!("at {at} of {}", b.len()))
        }
        "empty-file" => {
            let f = pick_file(rng, &|_| true)?;
            fs::write(root.join(&f), b"").ok()?;
            log(&f, String::new())
        }
        "bytes" => {
            let f = pick_file(rng, &|_| true)?;
            let mut b = fs::read(root.join(&f)).ok()?;
            if b.is_empty() { return None; }
            let n = 1 + rng.below(8);
            let mut d = vec![];
            for _ in 0..n {
                let at = rng.below(b.len().max(1));
                match rng.below(3) {
                    0 => { let v = rand_bytes(rng); if at < b.len() { b[at] = v; } d.push(format!("r{at}={v:02x}")); }
                    1 => { let v = rand_bytes(rng); b.insert(at.min(b.len()), v); d.push(format!("i{at}={v:02x}")); }
                    _ => { if at < b.len() { b.remove(at); d.push(format!("d{at}")); } }
                }
            }
            fs::write(root.join(&f), b).ok()?;
            log(&f, d.join(","))
        }
        "delete" => {
            if rng.chance(1, 3) && !dirs.is_empty() {
                let d = rng.pick(&dirs).clone();
                fs::remove_dir_all(root.join(&d)).ok()?;
                log(&d, "dir".into())
            } else {
                let f = pick_file(rng, &|_| true)?;
                fs::remove_file(root.join(&f)).ok()?;
                log(&f, "file".into())
            }
        }
        "swap-default" => {
            let f = pick_file(rng, &|p| ext_of(p) == "designspace")?;
            let s = fs::read_to_string(root.join(&f)).ok()?;
            let hits = find_all(s.as_bytes(), b" default=\"");
            if hits.is_empty() { return None; }
            let at = *rng.pick(&hits) + 10;
            let end = at + s[at..].find('"')?;
            // another master's coordinate, an extreme, or something outside the axis
            let xs: Vec<String> = find_all(s.as_bytes(), b"xvalue=\"").into_iter().filter_map(|i| { let a = i + 8; s[a..].find('"').map(|e| s[a..a + e].to_string()) }).collect();
            let mut cands: Vec<String> = xs;
            cands.extend(["0", "-1000", "1000000", "550.5"].map(String::from));
            let v = rng.pick(&cands).clone();
            let ns = format!("{}{}{}", &s[..at], v, &s[end..]);
            fs::write(root.join(&f), ns).ok()?;
            log(&f, format!("default {} -> {v}", &s[at..end]))
        }
        "empty-axes" => {
            if let Some(f) = pick_file(rng, &|p| ext_of(p) == "designspace") {
                let s = fs::read_to_string(root.join(&f)).ok()?;
                let a = s.find("<axes")?;
                let e = s.find("</axes>")? + 7;
                let rep = *rng.pick(&["<axes/>", "<axes></axes>", ""]);
                fs::write(root.join(&f), format!("{}{}{}", &s[..a], rep, &s[e..])).ok()?;
                log(&f, format!("axes -> '{rep}'"))
            } else {
                let f = pick_file(rng, &|p| is_openstep(p))?;
                let s = fs::read_to_string(root.join(&f)).ok()?;
                let key = if s.contains("\naxes = (") { "\naxes = (" } else { "Axes;\nvalue = (" };
                let a = s.find(key)? + key.len();
                let e = a + s[a..].find(");")?;
                fs::write(root.join(&f), format!("{}{}", &s[..a], &s[e..])).ok()?;
                log(&f, "axes = ()".into())
            }
        }
        "fea-soup" => {
            let n = 3 + rng.below(40);
            let soup: Vec<&str> = (0..n).map(|_| *rng.pick(FEA_TOKENS)).collect();
            let soup = soup.join(" ");
            write_fea(rng, root, &files, &dirs, &soup, kind)
        }
        "fea-include-cycle" => {
            match rng.below(3) {
                0 => write_fea(rng, root, &files, &dirs, "include(features.fea);\n", kind),
                1 => {
                    let r = write_fea(rng, root, &files, &dirs, "include(cyc_a.fea);\n", kind)?;
                    // the include is resolved relative to the UFO's parent or the fea file: put the pair in every directory
                    for d in dirs.iter().chain(std::iter::once(&PathBuf::new())) {
                        let _ = fs::write(root.join(d).join("cyc_a.fea"), "include(cyc_b.fea);\n");
                        let _ = fs::write(root.join(d).join("cyc_b.fea"), "include(cyc_a.fea);\n");
                    }
                    Some(r)
                }
                _ => {
                    let r = write_fea(rng, root, &files, &dirs, "include(deep0.fea);\n", kind)?;
                    for d in dirs.iter().chain(std::iter::once(&PathBuf::new())) {
                        for k in 0..120 {
                            let _ = fs::write(root.join(d).join(format!("deep{k}.fea")), format!("include(deep{}.fea);\n", k + 1));
                        }
                    }
                    Some(r)
                }
            }
        }
        "comp-cycle" => {
            // UFO: two glifs of one layer refer to each other (or one to itself)
            let glifs: Vec<&PathBuf> = files.iter().filter(|f| ext_of(f) == "glif").collect();
            if !glifs.is_empty() {
                let a = (*rng.pick(&glifs)).clone();
                let same_layer: Vec<&PathBuf> = glifs.iter().filter(|g| g.parent() == a.parent()).cloned().collect();
                let b = if rng.chance(1, 4) { a.clone() } else { (*rng.pick(&same_layer)).clone() };
                let na = glyph_names_in_glif(&fs::read(root.join(&a)).ok()?)?;
                let nb = glyph_names_in_glif(&fs::read(root.join(&b)).ok()?)?;
                for (file, base) in [(&a, &nb), (&b, &na)] {
                    let s = fs::read_to_string(root.join(file)).ok()?;
                    let comp = format!("<component base=\"{}\"/>", write::xml_escape(base));
                    let ns = if let Some(p) = s.find("<outline>") {
                        format!("{}{}{}", &s[..p + 9], comp, &s[p + 9..])
                    } else if let Some(p) = s.find("<outline/>") {
                        format!("{}<outline>{}</outline>{}", &s[..p], comp, &s[p + 10..])
                    } else {
                        let p = s.rfind("</glyph>")?;
                        format!("{}<outline>{}</outline>{}", &s[..p], comp, &s[p..])
                    };
                    fs::write(root.join(file), ns).ok()?;
                    if a == b { break; }
                }
                log(&a, format!("{na} <-> {nb}"))
            } else {
                // Glyphs source: a glyph's layer gets a component referring to the glyph itself
                let f = pick_file(rng, &|p| matches!(ext_of(p), "glyphs" | "glyph"))?;
                let s = fs::read_to_string(root.join(&f)).ok()?;
                let (key, ins): (&str, fn(&str) -> String) = if s.contains("shapes = (") {
                    ("shapes = (", |n| format!("\n{{\nref = {n};\n}},"))
                } else if s.contains("components = (") {
                    ("components = (", |n| format!("\n{{\nname = {n};\n}},"))
                } else {
                    ("paths = (", |_| String::new())
                };
                let hits = find_all(s.as_bytes(), key.as_bytes());
                if hits.is_empty() { return None; }
                let at = *rng.pick(&hits);
                let gn_at = s[..at].rfind("glyphname = ")? + 12;
                let gn_end = gn_at + s[gn_at..].find(';')?;
                let name = s[gn_at..gn_end].to_string();
                let ns = if key == "paths = (" {
                    format!("{}components = (\n{{\nname = {name};\n}}\n);\n{}", &s[..at], &s[at..])
                } else {
                    format!("{}{}{}", &s[..at + key.len()], ins(&name), &s[at + key.len()..])
                };
                fs::write(root.join(&f), ns).ok()?;
                log(&f, format!("{name} -> {name}"))
            }
        }
        _ => None,
    }
}

/// Put feature text into the source: a UFO's features.fea (prepended, appended or replacing), or the first
/// `code = "…";` of a Glyphs file.
fn write_fea(rng: &mut Rng, root: &Path, files: &[PathBuf], dirs: &[PathBuf], text: &str, kind: &'static str) -> Option<MutLog> {
    let ufos: Vec<&PathBuf> = dirs.iter().filter(|d| ext_of(d) == "ufo").collect();
    if !ufos.is_empty() {
        // prefer a UFO that already has features (the default master's)
        let with: Vec<&PathBuf> = ufos.iter().filter(|u| root.join(u).join("features.fea").exists()).cloned().collect();
        let u = if !with.is_empty() && rng.chance(3, 4) { (*rng.pick(&with)).clone() } else { (*rng.pick(&ufos)).clone() };
        let p = u.join("features.fea");
        let old = fs::read_to_string(root.join(&p)).unwrap_or_default();
        let (new, how) = match rng.below(3) { 0 => (format!("{text}\n{old}"), "prepend"), 1 => (format!("{old}\n{text}"), "append"), _ => (text.to_string(), "replace") };
        fs::write(root.join(&p), new).ok()?;
        return Some(MutLog { kind, file: p.to_string_lossy().to_string(), detail: format!("{how}: {}", text.chars().take(200).collect::<String>().replace('\n', " ")) });
    }
    let gl: Vec<&PathBuf> = files.iter().filter(|f| matches!(ext_of(f), "glyphs") || f.file_name().is_some_and(|n| n == "fontinfo.plist")).collect();
    if gl.is_empty() { return None; }
    let f = (*rng.pick(&gl)).clone();
    let s = fs::read_to_string(root.join(&f)).ok()?;
    let esc = text.replace('\\', "\\\\").replace('"', "\\\"").replace('\u{0}', "");
    let ns = if let Some(p) = s.find("code = \"") {
        let a = p + 8;
        // end of the string literal
        let mut e = a;
        let b = s.as_bytes();
        while e < b.len() && b[e] != b'"' { if b[e] == b'\\' { e += 1; } e += 1; }
        format!("{}{}{}", &s[..a], esc, &s[e.min(s.len())..])
    } else {
        // no feature code yet: add a prefix entry right after the opening brace
        let p = s.find('{')? + 1;
        format!("{}\nfeaturePrefixes = (\n{{\ncode = \"{esc}\";\nname = Prefix;\n}}\n);{}", &s[..p], &s[p..])
    };
    fs::write(root.join(&f), ns).ok()?;
    Some(MutLog { kind, file: f.to_string_lossy().to_string(), detail: text.chars().take(200).collect::<String>().replace('\n', " ") })
}

/// Materialise base source number `k` under `root`; returns (label, entry path).
fn make_base(rng: &mut Rng, k: usize, root: &Path) -> (String, PathBuf) {
    let n_bases = REAL_BASES.len() + 3;
    match k % n_bases {
        0 | 1 => {
            let mut o = design::GenOpts::default();
            o.nested = true; o.non_export = rng.chance(1, 2); o.transforms = rng.chance(1, 2); o.mapping = rng.chance(1, 3);
            o.vertical = rng.chance(1, 4); o.metrics_vary = rng.chance(1, 3);
            let mut d = design::gen_design(rng, &o);
            let names = d.glyph_names();
            d.features = Some(format!("languagesystem DFLT dflt;\nfeature test {{\n  sub {} by {};\n}} test;\n", names[0], names[1]));
            (String::from("generated.designspace"), write::write_design(root, &d))
        }
        2 => {
            // a generated static UFO with nested components, entered directly
            let mut c = gen_graph(rng, 0);
            c.flags = None;
            let d = graph_design(&c);
            write::write_design(root, &d);
            (String::from("generated.ufo"), root.join(write::ufo_name(&d, 0)))
        }
        j => {
            let (label, paths, entry) = REAL_BASES[j - 3];
            for p in paths.iter() {
                copy_tree(&Path::new(TESTDATA).join(p), &root.join(p)).expect("copy testdata");
            }
            (label.to_string(), root.join(entry))
        }
    }
}

pub fn run_mut(args: &Args) {
    set_timeout(args);
    let seed = args.seed;
    crate::run_cases("c15mut", args, move |i| {
        let mut rng = Rng::for_case(seed, "c15mut", i);
        let tmp = build::tmpdir("c15mut");
        let src_root = tmp.path().join("src");
        fs::create_dir_all(&src_root).unwrap();
        // C15_PRISTINE=1: base number i, unmutated (checks that every base source builds)
        let pristine_all = std::env::var("C15_PRISTINE").is_ok();
        let k = if pristine_all { rng.below(1 << 20); i } else { rng.below(1 << 20) };
        let (label, entry) = make_base(&mut rng, k, &src_root);
        // every 16th case is the unmutated base (control: must build)
        let n_muts = if i % 16 == 0 || pristine_all { 0 } else { match rng.below(20) { 0..=11 => 1, 12..=16 => 2, _ => 3 } };
        let mut logs: Vec<MutLog> = vec![];
        let mut tries = 0;
        while logs.len() < n_muts && tries < 40 {
            tries += 1;
            let kind = MUT_KINDS[rng.below(MUT_KINDS.len())];
            if let Some(l) = mutate_once(&mut rng, &src_root, kind) { logs.push(l); }
        }
        keep_dir("c15mut", i, &src_root);
        let out = tmp.path().join("out.ttf");
        let o = run_limited(&entry, &out, None);
        let mut f = vec![
            S::k1("source", S::str(&label)),
            S::k1("muts", S::list(logs.iter().map(|l| S::list([S::atom(l.kind), S::str(&l.file), S::str(&l.detail)])))),
            S::k1("millis", S::int(o.millis as i128)),
        ];
        f.extend(outcome_fields(&o));
        f
    });
}

// ------------------------------------------------------------------------------------------------
// c15corpus: minimised reproducers of past findings, always run
// ------------------------------------------------------------------------------------------------

/// sources under /verif/corpus/c15 (files and .ufo directories, sorted) + sources in the repo's own testdata that
/// are known to end badly
pub fn corpus_entries() -> Vec<(String, PathBuf)> {
    let mut out: Vec<(String, PathBuf)> = vec![];
    if let Ok(rd) = fs::read_dir("/verif/corpus/c15") {
        let mut es: Vec<PathBuf> = rd.flatten().map(|e| e.path()).collect();
        es.sort();
        for p in es {
            if matches!(ext_of(&p), "glyphs" | "ufo" | "designspace" | "glyphspackage" | "fontra") {
                out.push((p.file_name().unwrap().to_string_lossy().to_string(), p));
            }
        }
    }
    for rel in ["glyphs2/Unicode-QuotedHexSequence.glyphs", "glyphs2/Unicode-UnquotedHex.glyphs", "fontra/minimal.fontra",
                "fontra/2glyphs.fontra", "fontra/codepoints.fontra", "fontra/component.fontra"] {
        out.push((format!("testdata/{rel}"), Path::new(TESTDATA).join(rel)));
    }
    out
}

pub fn run_corpus(args: &Args) {
    set_timeout(args);
    let entries = corpus_entries();
    crate::run_cases("c15corpus", args, move |i| {
        let (label, path) = &entries[i % entries.len()];
        let tmp = build::tmpdir("c15corpus");
        // work on a copy: nothing the compiler writes next to its input can touch the corpus
        let entry = tmp.path().join("src").join(path.file_name().unwrap());
        copy_tree(path, &entry).expect("copy corpus entry");
        let out = tmp.path().join("out.ttf");
        let o = run_limited(&entry, &out, None);
        let mut f = vec![S::k1("source", S::str(label)), S::k1("millis", S::int(o.millis as i128))];
        f.extend(outcome_fields(&o));
        f
    });
}
