//! C15 — bad input ends in a reported error, never a crash, hang or bogus font.
//!
//! The real compiler runs in CHILD PROCESSES (`vharness c15child <path> <outfile> [flags]`, which calls the
//! real `fontc::run`, the function behind `fontc`'s `main`) under a wall-clock limit, an address-space limit
//! and the default 8 MB main-thread stack. The parent only observes: exit code | signal | timeout, stderr,
//! whether a font file was written, and the font's bytes (checked by C05's oracle).
//!
//! * `c15graph`: random component graphs (acyclic, self loops, 2-cycles, long cycles, cycles behind non-export
//!   glyphs, dangling references) written as static UFOs. The real `fontdrasil::util::depth_sorted_composite_glyphs`
//!   is also called in-process on the same graph (it is iterative) and compared with the Lean model `depthSort`.
//! * `c15mut`: structural mutations of valid sources (generated designs + copies of /repo/resources/testdata).
//!
//! Environment knobs: C15_TIMEOUT_S (60), C15_AS_MB (4096), C15_KEEP=<dir> (keep the mutated source tree of each case
//! under <dir>/<stream>-<index>, for minimisation), C15_CHILD=<exe> (run another vharness build as the child, e.g. one
//! built against a patched checkout).
use crate::e2e::{build, design, write};
use crate::rng::Rng;
use crate::sexp::S;
use crate::Args;
use std::collections::{BTreeMap, BTreeSet};
use std::fs;
use std::io::Read;
use std::path::{Path, PathBuf};
use std::time::{Duration, Instant};

// ------------------------------------------------------------------------------------------------
// child
// ------------------------------------------------------------------------------------------------

/// `vharness c15child <path> <outfile> [flag-bits]`: exactly what `fontc <path> -o <outfile>` does after
/// argument parsing (fontc/src/main.rs: `run(args)`; `Err(e)` => message + exit 1).
pub fn run_child(args: &Args) {
    let path = PathBuf::from(args.rest.first().expect("c15child <path> <outfile>"));
    let out = PathBuf::from(args.rest.get(1).expect("c15child <path> <outfile>"));
    let flags = args.rest.get(2).and_then(|f| f.parse::<u32>().ok());
    let r = (|| -> Result<(), fontc::Error> {
        let input = fontc::Input::new(&path)?;
        let mut options = fontc::Options::default();
        if let Some(bits) = flags {
            options.flags = fontir::orchestration::Flags::from_bits_truncate(bits);
        }
        options.output_file = Some(out.clone());
        fontc::run(input, options, fontc::JobTimer::default())
    })();
    match r {
        Ok(()) => std::process::exit(0),
        Err(e) => {
            eprintln!("error: {e}");
            std::process::exit(1);
        }
    }
}

// ------------------------------------------------------------------------------------------------
// running a child under limits
// ------------------------------------------------------------------------------------------------

#[derive(Debug, Clone)]
pub struct Outcome {
    /// "exit" | "signal" | "timeout"
    pub kind: &'static str,
    /// exit code or signal number
    pub code: i32,
    pub stderr: String,
    pub font: Option<Vec<u8>>,
    pub millis: u128,
}

fn env_u64(k: &str, d: u64) -> u64 {
    std::env::var(k).ok().and_then(|v| v.parse().ok()).unwrap_or(d)
}

pub fn run_limited(src: &Path, out: &Path, flags: Option<u32>) -> Outcome {
    use std::os::unix::process::ExitStatusExt;
    let exe = std::env::var("C15_CHILD").map(PathBuf::from).unwrap_or_else(|_| std::env::current_exe().expect("current_exe"));
    let timeout = Duration::from_secs(env_u64("C15_TIMEOUT_S", 60));
    let as_kb = env_u64("C15_AS_MB", 4096) * 1024;
    let _ = fs::remove_file(out);
    // limits are set by the shell that then exec()s the child: address space, default 8 MB stack, no core files
    let script = format!("ulimit -v {as_kb}; ulimit -s 8192; ulimit -c 0; exec \"$0\" \"$@\"");
    let mut cmd = std::process::Command::new("/bin/sh");
    cmd.arg("-c").arg(script).arg(&exe).arg("c15child").arg(src).arg(out);
    if let Some(f) = flags {
        cmd.arg(f.to_string());
    }
    cmd.env("RAYON_NUM_THREADS", "4").env_remove("RUST_LOG").env_remove("RUST_MIN_STACK").env_remove("RUST_BACKTRACE")
        .stdin(std::process::Stdio::null()).stdout(std::process::Stdio::null()).stderr(std::process::Stdio::piped());
    let t0 = Instant::now();
    let mut child = cmd.spawn().expect("spawn c15child");
    // drain stderr on a thread (bounded) so a chatty child never blocks on the pipe
    let mut pipe = child.stderr.take().unwrap();
    let reader = std::thread::spawn(move || {
        let mut keep: Vec<u8> = Vec::new();
        let mut buf = [0u8; 8192];
        loop {
            match pipe.read(&mut buf) {
                Ok(0) | Err(_) => break,
                Ok(n) => {
                    keep.extend_from_slice(&buf[..n]);
                    if keep.len() > 1 << 16 {
                        let cut = keep.len() - (1 << 15);
                        keep.drain(..cut);
                    }
                }
            }
        }
        keep
    });
    let mut timed_out = false;
    let status = loop {
        match child.try_wait().expect("try_wait") {
            Some(st) => break st,
            None => {
                if t0.elapsed() > timeout {
                    timed_out = true;
                    let _ = child.kill();
                    break child.wait().expect("wait");
                }
                std::thread::sleep(Duration::from_millis(5));
            }
        }
    };
    let millis = t0.elapsed().as_millis();
    let stderr = String::from_utf8_lossy(&reader.join().unwrap_or_default()).to_string();
    let font = fs::read(out).ok();
    let (kind, code) = if timed_out {
        ("timeout", 0)
    } else if let Some(c) = status.code() {
        ("exit", c)
    } else {
        ("signal", status.signal().unwrap_or(0))
    };
    Outcome { kind, code, stderr, font, millis }
}

/// The last lines of stderr that matter: error/panic/overflow/abort messages, else the tail.
fn stderr_digest(stderr: &str) -> String {
    let key = ["error", "panicked", "overflowed", "memory allocation", "abort", "Stuck", "fatal"];
    let mut lines: Vec<&str> = stderr.lines().filter(|l| key.iter().any(|k| l.contains(k))).collect();
    if lines.is_empty() {
        lines = stderr.lines().rev().take(3).collect::<Vec<_>>().into_iter().rev().collect();
    }
    let mut s = lines.into_iter().rev().take(4).collect::<Vec<_>>().into_iter().rev().collect::<Vec<_>>().join(" | ");
    if s.len() > 600 {
        let mut cut = 600;
        while !s.is_char_boundary(cut) { cut -= 1; }
        s.truncate(cut);
    }
    s
}

fn outcome_fields(o: &Outcome) -> Vec<S> {
    let mut f = vec![S::kv("outcome", [
        S::k1("kind", S::atom(o.kind)),
        S::k1("code", S::int(o.code)),
        S::k1("font_written", S::bool(o.font.is_some())),
        S::k1("stderr_empty", S::bool(o.stderr.trim().is_empty())),
        S::k1("caught_panic", S::bool(o.stderr.contains("panicked"))),
        S::k1("stack_overflow", S::bool(o.stderr.contains("has overflowed its stack"))),
        S::k1("alloc_failed", S::bool(o.stderr.contains("memory allocation of"))),
        S::k1("msg", S::str(&stderr_digest(&o.stderr))),
    ])];
    if o.kind == "exit" && o.code == 0 {
        if let Some(bytes) = &o.font {
            f.extend(crate::c05::font_check_fields(bytes));
        }
    }
    f
}

fn keep_dir(stream: &str, i: usize, tmp: &Path) {
    if let Ok(k) = std::env::var("C15_KEEP") {
        let dst = Path::new(&k).join(format!("{stream}-{i}"));
        let _ = fs::remove_dir_all(&dst);
        let _ = copy_tree(tmp, &dst);
    }
}

fn copy_tree(src: &Path, dst: &Path) -> std::io::Result<()> {
    if src.is_dir() {
        fs::create_dir_all(dst)?;
        for e in fs::read_dir(src)? {
            let e = e?;
            copy_tree(&e.path(), &dst.join(e.file_name()))?;
        }
    } else {
        if let Some(p) = dst.parent() { fs::create_dir_all(p)?; }
        fs::copy(src, dst)?;
    }
    Ok(())
}

// ------------------------------------------------------------------------------------------------
// c15graph
// ------------------------------------------------------------------------------------------------

struct Node {
    name: smol_str::SmolStr,
    comps: Vec<smol_str::SmolStr>,
}

impl fontdrasil::util::CompositeLike for Node {
    fn name(&self) -> smol_str::SmolStr { self.name.clone() }
    fn has_components(&self) -> bool { !self.comps.is_empty() }
    fn component_names(&self) -> impl Iterator<Item = smol_str::SmolStr> { self.comps.iter().cloned() }
}

/// the real fontdrasil::util::depth_sorted_composite_glyphs on an abstract graph
fn real_depth_sort(g: &BTreeMap<String, Vec<String>>) -> Vec<String> {
    let glyphs: BTreeMap<smol_str::SmolStr, Node> = g.iter().map(|(n, cs)| {
        (n.as_str().into(), Node { name: n.as_str().into(), comps: cs.iter().map(|c| c.as_str().into()).collect() })
    }).collect();
    fontdrasil::util::depth_sorted_composite_glyphs(&glyphs).into_iter().map(|s| s.to_string()).collect()
}

pub struct GraphCase {
    pub kind: &'static str,
    /// glyph -> component base names (duplicates allowed, may name absent glyphs)
    pub graph: BTreeMap<String, Vec<String>>,
    pub skip: Vec<String>,
    /// composite glyphs that also carry a contour
    pub mixed: BTreeSet<String>,
    pub flags: Option<u32>,
}

pub const GRAPH_KINDS: [&str; 8] = ["acyclic", "self-loop", "two-cycle", "long-cycle", "cycle-behind-nonexport", "dangling", "dangling+cycle", "nonexport-acyclic"];

pub fn gen_graph(rng: &mut Rng, i: usize) -> GraphCase {
    let kind = GRAPH_KINDS[i % GRAPH_KINDS.len()];
    let n = 3 + rng.below(6);
    let mut names: Vec<String> = design::GLYPH_NAMES[..n].iter().map(|s| s.to_string()).collect();
    rng.shuffle(&mut names);
    let mut graph: BTreeMap<String, Vec<String>> = names.iter().map(|n| (n.clone(), vec![])).collect();
    // a random DAG: names[k] may refer to names[j], j < k
    for k in 1..n {
        if rng.chance(1, 2) {
            for _ in 0..1 + rng.below(2) {
                let j = rng.below(k);
                graph.get_mut(&names[k]).unwrap().push(names[j].clone());
            }
        }
    }
    let mut skip: Vec<String> = vec![];
    let add_cycle = |rng: &mut Rng, graph: &mut BTreeMap<String, Vec<String>>, members: &[String]| {
        for (a, b) in members.iter().zip(members.iter().cycle().skip(1)) {
            let cs = graph.get_mut(a).unwrap();
            let at = rng.below(cs.len() + 1);
            cs.insert(at, b.clone());
        }
    };
    match kind {
        "self-loop" => { let m = vec![rng.pick(&names).clone()]; add_cycle(rng, &mut graph, &m); }
        "two-cycle" => {
            let a = rng.below(n); let b = (a + 1 + rng.below(n - 1)) % n;
            add_cycle(rng, &mut graph, &[names[a].clone(), names[b].clone()]);
        }
        "long-cycle" => {
            let len = 3 + rng.below(n - 2);
            let mut m = names.clone(); rng.shuffle(&mut m); m.truncate(len);
            add_cycle(rng, &mut graph, &m);
        }
        "cycle-behind-nonexport" => {
            // exported e -> non-export x -> cycle among non-export glyphs (x may be a member)
            let mut m = names.clone(); rng.shuffle(&mut m);
            let clen = 1 + rng.below((n - 1).min(3));
            let members: Vec<String> = m[..clen].to_vec();
            add_cycle(rng, &mut graph, &members);
            skip.extend(members.iter().cloned());
            if rng.chance(2, 3) {
                let e = m[clen].clone();
                graph.get_mut(&e).unwrap().push(members[0].clone());
            }
        }
        "dangling" | "dangling+cycle" => {
            for _ in 0..1 + rng.below(3) {
                let g = rng.pick(&names).clone();
                let missing = rng.pick(&["zz", "missing", "a.alt"]).to_string();
                let cs = graph.get_mut(&g).unwrap();
                let at = rng.below(cs.len() + 1);
                cs.insert(at, missing);
            }
            if kind == "dangling+cycle" {
                let a = rng.below(n); let b = (a + 1 + rng.below(n - 1)) % n;
                add_cycle(rng, &mut graph, &[names[a].clone(), names[b].clone()]);
            }
        }
        "nonexport-acyclic" => {
            for nm in &names { if rng.chance(1, 3) { skip.push(nm.clone()); } }
        }
        _ => {}
    }
    if kind != "cycle-behind-nonexport" && kind != "nonexport-acyclic" && rng.chance(1, 4) {
        skip.push(rng.pick(&names).clone());
    }
    skip.sort(); skip.dedup();
    if skip.len() == n { skip.pop(); }
    let mut mixed = BTreeSet::new();
    for (g, cs) in &graph {
        if !cs.is_empty() && rng.chance(1, 5) { mixed.insert(g.clone()); }
    }
    // mostly the CLI default flags; sometimes flatten / decompose / erase-open-corners-free variants
    let default_flags = fontir::orchestration::Flags::default().bits();
    let flags = match rng.below(6) {
        0 => Some(default_flags | 0b1000),          // FLATTEN_COMPONENTS
        1 => Some(default_flags | 0b1_0000_0000),   // DECOMPOSE_COMPONENTS
        2 => Some(default_flags | 0b1_0000),        // DECOMPOSE_TRANSFORMED_COMPONENTS
        _ => None,
    };
    GraphCase { kind, graph, skip, mixed, flags }
}

fn triangle(k: usize) -> Vec<design::Pt> {
    let o = 10.0 * k as f64;
    vec![
        design::Pt { x: 100.0 + o, y: 0.0, typ: design::PtType::Line },
        design::Pt { x: 300.0 + o, y: 0.0 + o, typ: design::PtType::Line },
        design::Pt { x: 200.0, y: 400.0 + o, typ: design::PtType::Line },
    ]
}

pub fn graph_design(c: &GraphCase) -> design::Design {
    let mut m = design::Master { name: "M0".into(), style: "Regular".into(), loc: vec![], ..Default::default() };
    for (k, (name, comps)) in c.graph.iter().enumerate() {
        let mut g = design::GlyphDef { advance: 500.0 + k as f64, ..Default::default() };
        if comps.is_empty() || c.mixed.contains(name) {
            g.contours.push(triangle(k));
        }
        for (j, b) in comps.iter().enumerate() {
            g.components.push(design::Comp { base: b.clone(), t: [1.0, 0.0, 0.0, 1.0, 20.0 * j as f64, 10.0 * k as f64] });
        }
        m.glyphs.insert(name.clone(), g);
    }
    m.info = vec![("ascender".into(), 800.0), ("descender".into(), -200.0), ("xHeight".into(), 500.0), ("capHeight".into(), 700.0)];
    let mut d = design::Design { family: "Verif Graph".into(), upem: 1000, masters: vec![m], ..Default::default() };
    d.glyph_order = Some(c.graph.keys().cloned().collect());
    d.skip_export = c.skip.clone();
    for (i, n) in c.graph.keys().enumerate() {
        d.codepoints.insert(n.clone(), vec![0x61 + i as u32]);
    }
    d
}

pub fn run_graph(args: &Args) {
    let seed = args.seed;
    crate::run_cases("c15graph", args, move |i| {
        let mut rng = Rng::for_case(seed, "c15graph", i);
        let c = gen_graph(&mut rng, i);
        let d = graph_design(&c);
        let tmp = build::tmpdir("c15graph");
        write::write_design(tmp.path(), &d);
        let ufo = tmp.path().join(write::ufo_name(&d, 0));
        keep_dir("c15graph", i, tmp.path());
        let out = tmp.path().join("out.ttf");
        let o = run_limited(&ufo, &out, c.flags);
        // the real depth sort on the raw graph and on the graph with dangling references pruned
        let present: BTreeSet<&String> = c.graph.keys().collect();
        let pruned: BTreeMap<String, Vec<String>> = c.graph.iter()
            .map(|(n, cs)| (n.clone(), cs.iter().filter(|b| present.contains(b)).cloned().collect())).collect();
        let mut f = vec![
            S::k1("kind", S::atom(c.kind)),
            S::k1("graph", S::list(c.graph.iter().map(|(n, cs)| S::list([S::str(n), S::list(cs.iter().map(|b| S::str(b)))])))),
            S::k1("skip", S::list(c.skip.iter().map(|n| S::str(n)))),
            S::k1("mixed", S::list(c.mixed.iter().map(|n| S::str(n)))),
            S::k1("flags", S::opt(c.flags.map(|b| S::int(b)))),
            S::kv("impl", [
                S::k1("sorted", S::list(real_depth_sort(&c.graph).iter().map(|n| S::str(n)))),
                S::k1("sorted_pruned", S::list(real_depth_sort(&pruned).iter().map(|n| S::str(n)))),
            ]),
            S::k1("millis", S::int(o.millis as i128)),
        ];
        f.extend(outcome_fields(&o));
        f
    });
}
