//! C16: fontir::feature_variations::overlay_feature_variations through its public API.
//!
//! Line:  (c16 i (naxes k) (rules ((boxes subs) …)) (impl (maps (m …)) (out ((box (mapid …)) …))))
//!   box  = ((axis min|none max|none) …)   axis = index into TAGS (index order == Tag order == BTreeMap order)
//!   subs = ((from to) …)                 glyph = numeric id, name = format!("g{id:04}") so id order == name order
//! The output's substitution maps are interned (`maps`, first-seen order) and boxes refer to them by index.
use crate::rng::Rng;
use crate::sexp::S;
use crate::Args;
use fontdrasil::coords::NormalizedCoord;
use fontdrasil::types::GlyphName;
use fontir::feature_variations::{overlay_feature_variations, NBox, Region};
use std::collections::BTreeMap;
use std::str::FromStr;
use write_fonts::types::Tag;

// sorted: index order is Tag order
const TAGS: [&str; 3] = ["opsz", "wdth", "wght"];

pub type RawBox = Vec<(usize, Option<f64>, Option<f64>)>;
pub struct RawRule {
    pub boxes: Vec<RawBox>,
    pub subs: Vec<(u32, u32)>,
}
pub struct Case {
    pub naxes: usize,
    pub rules: Vec<RawRule>,
}

fn tag(i: usize) -> Tag {
    Tag::from_str(TAGS[i]).unwrap()
}
fn gname(id: u32) -> GlyphName {
    GlyphName::from(format!("g{id:04}").as_str())
}
fn gid(n: &GlyphName) -> u32 {
    n.as_str()[1..].parse().unwrap()
}

const GRID: [f64; 9] = [-1.0, -0.75, -0.5, -0.25, 0.0, 0.25, 0.5, 0.75, 1.0];

/// one axis range on the coarse grid
fn range(rng: &mut Rng) -> (Option<f64>, Option<f64>) {
    let k = rng.below(100);
    if k < 3 {
        // degenerate: min == max
        let v = *rng.pick(&GRID);
        return (Some(v), Some(v));
    }
    if k < 5 {
        // inverted (empty)
        return (Some(0.5), Some(0.25));
    }
    if k < 8 {
        // out of range: NBox::insert clamps
        return (Some(-1.5), Some(*rng.pick(&GRID[1..])));
    }
    let a = rng.below(GRID.len() - 1);
    let b = a + 1 + rng.below(GRID.len() - 1 - a);
    let lo = if rng.chance(1, 5) { None } else { Some(GRID[a]) };
    let hi = if rng.chance(1, 5) { None } else { Some(GRID[b]) };
    (lo, hi)
}

fn random_box(rng: &mut Rng, naxes: usize) -> RawBox {
    let mut b = RawBox::new();
    for a in 0..naxes {
        if rng.chance(2, 3) {
            let (lo, hi) = range(rng);
            b.push((a, lo, hi));
        }
    }
    if b.is_empty() && rng.chance(9, 10) {
        let (lo, hi) = range(rng);
        b.push((rng.below(naxes), lo, hi));
    }
    // insertion order into the BTreeMap is irrelevant: shuffle
    rng.shuffle(&mut b);
    b
}

/// a box derived from `base`: nested, shifted (partial overlap) or sharing a face
fn related_box(rng: &mut Rng, naxes: usize, base: &RawBox) -> RawBox {
    let mut b = base.clone();
    for e in b.iter_mut() {
        let lo = e.1.unwrap_or(-1.0);
        let hi = e.2.unwrap_or(1.0);
        match rng.below(5) {
            0 => {} // same range
            1 => { // nested
                if hi - lo >= 0.5 { e.1 = Some(lo + 0.25); }
                if hi - lo >= 0.75 && rng.chance(1, 2) { e.2 = Some(hi - 0.25); }
            }
            2 => { // shifted right
                e.1 = Some((lo + 0.25).min(0.75));
                e.2 = Some((hi + 0.25).min(1.0));
            }
            3 => { // touching: starts where base ends
                if hi < 1.0 { e.1 = Some(hi); e.2 = Some(1.0); }
            }
            _ => { // shifted left
                e.1 = Some((lo - 0.25).max(-1.0));
                e.2 = Some((hi - 0.25).max(-0.75));
            }
        }
    }
    if rng.chance(1, 4) && b.len() > 1 {
        b.remove(rng.below(b.len()));
    }
    if rng.chance(1, 4) {
        let a = rng.below(naxes);
        if !b.iter().any(|e| e.0 == a) {
            let (lo, hi) = range(rng);
            b.push((a, lo, hi));
        }
    }
    b
}

/// filler rule j of a long list: a small box in the far corner of axis 0 on a fine grid
fn filler_box(style: usize, j: usize, naxes: usize) -> RawBox {
    let step = 1.0 / 512.0;
    let mut b = match style {
        0 => vec![(0usize, Some(-1.0), Some(-1.0 + step * (j + 1) as f64))], // nested chain
        1 => vec![(0usize, Some(-1.0 + step * j as f64), Some(-1.0 + step * (j + 1) as f64))], // touching chain
        _ => vec![(0usize, Some(-1.0 + step * j as f64), Some(-1.0 + step * (j + 3) as f64))], // sliding overlap
    };
    if naxes > 1 {
        b.push((1, Some(-1.0), Some(-0.875)));
    }
    b
}

pub fn gen_case(rng: &mut Rng) -> Case {
    let naxes = 1 + rng.below(3);
    let shape = rng.below(100);
    if shape >= 95 {
        // the documented word-count reproduction, 60..=80 rules (fails from 65 rules on)
        return directed_case(60 + rng.below(21));
    }
    let mut rules: Vec<RawRule> = vec![];
    let mut next_alt = 1000u32;
    let mut next_key = 0u32;
    // conflicts (two rules substituting the same glyph differently) are a separate, rare shape;
    // otherwise every rule gets source glyphs of its own
    let conflict = rng.chance(1, 30);
    let mut fresh_subs = |rng: &mut Rng| -> Vec<(u32, u32)> {
        let n = 1 + rng.below(3);
        let mut m = BTreeMap::new();
        for _ in 0..n {
            let from = if conflict { 900 + rng.below(3) as u32 } else { next_key += 1; next_key };
            next_alt += 1;
            m.insert(from, next_alt);
        }
        m.into_iter().collect()
    };
    // a rule without any condition set (empty region) is a separate, rare shape too
    let allow_empty = rng.chance(1, 60);
    let (n_real_head, n_fill, n_real_tail) = if shape < 45 {
        (1 + rng.below(6), 0, 0)
    } else if shape < 70 {
        (5 + rng.below(8), 0, 0)
    } else {
        let head = 1 + rng.below(3);
        let tail = 1 + rng.below(3);
        let total = 50 + rng.below(31); // 50..=80 rules
        (head, total - head - tail, tail)
    };
    let fill_style = rng.below(3);
    let mut real_rule = |rng: &mut Rng, rules: &mut Vec<RawRule>| {
        let nb = if allow_empty && rng.chance(1, 4) { 0 } else { 1 + rng.below(3) };
        let mut boxes: Vec<RawBox> = vec![];
        for _ in 0..nb {
            let all: Vec<&RawBox> = rules.iter().flat_map(|r| r.boxes.iter()).chain(boxes.iter()).collect();
            let b = if !all.is_empty() && rng.chance(3, 5) {
                let base = (*rng.pick(&all)).clone();
                related_box(rng, naxes, &base)
            } else {
                random_box(rng, naxes)
            };
            boxes.push(b);
        }
        // same region as an earlier rule (merge_same_region_rules), possibly permuted
        if !rules.is_empty() && rng.chance(1, 8) {
            boxes = rules[rng.below(rules.len())].boxes.clone();
            rng.shuffle(&mut boxes);
        }
        // same substitutions as an earlier rule (merge_same_sub_rules)
        let subs = if !rules.is_empty() && rng.chance(1, 8) {
            rules[rng.below(rules.len())].subs.clone()
        } else {
            fresh_subs(rng)
        };
        rules.push(RawRule { boxes, subs });
    };
    for _ in 0..n_real_head {
        real_rule(rng, &mut rules);
    }
    for j in 0..n_fill {
        let subs = vec![(300 + j as u32, 2000 + j as u32)];
        rules.push(RawRule { boxes: vec![filler_box(fill_style, j, naxes)], subs });
    }
    for _ in 0..n_real_tail {
        real_rule(rng, &mut rules);
    }
    Case { naxes, rules }
}

/// the documented ≥65-rule reproduction (DESIGN §7 F5), parameterised by the number of rules; for 65 rules
/// it is exactly `manyRules 63` of lean/FontcProofs/FeatVarsWitness.lean (axis 0 = wdth, axis 1 = wght)
pub fn directed_case(n_rules: usize) -> Case {
    let mut rules = vec![RawRule { boxes: vec![vec![(1, Some(0.5), Some(1.0))]], subs: vec![(0, 1000)] }];
    for j in 0..n_rules.saturating_sub(2) {
        let lo = -1.0 + j as f64 / 64.0;
        rules.push(RawRule { boxes: vec![vec![(1, Some(lo), Some(lo + 1.0 / 64.0))]], subs: vec![(300 + j as u32, 2000 + j as u32)] });
    }
    rules.push(RawRule {
        boxes: vec![vec![(0, Some(0.5), Some(1.0)), (1, Some(0.25), Some(0.75))]],
        subs: vec![(1, 1001)],
    });
    Case { naxes: 2, rules }
}

pub fn to_impl_input(case: &Case) -> Vec<(Region, BTreeMap<GlyphName, GlyphName>)> {
    case.rules.iter().map(|r| {
        let mut region = Region::default();
        for b in &r.boxes {
            let mut nb = NBox::default();
            for (a, lo, hi) in b {
                nb.insert(tag(*a), lo.map(NormalizedCoord::new), hi.map(NormalizedCoord::new));
            }
            region.push(nb);
        }
        let subs = r.subs.iter().map(|(f, t)| (gname(*f), gname(*t))).collect();
        (region, subs)
    }).collect()
}

fn s_optf(x: Option<f64>) -> S {
    S::opt(x.map(S::f64))
}

pub fn input_fields(case: &Case) -> Vec<S> {
    vec![
        S::k1("naxes", S::usize(case.naxes)),
        S::k1("rules", S::list(case.rules.iter().map(|r| {
            S::list([
                S::list(r.boxes.iter().map(|b| S::list(b.iter().map(|(a, lo, hi)| S::list([S::usize(*a), s_optf(*lo), s_optf(*hi)]))))),
                S::list(r.subs.iter().map(|(f, t)| S::list([S::int(*f), S::int(*t)]))),
            ])
        }))),
    ]
}

pub fn impl_fields(case: &Case) -> S {
    let out = overlay_feature_variations(to_impl_input(case));
    let mut maps: Vec<BTreeMap<GlyphName, GlyphName>> = vec![];
    let mut boxes = vec![];
    for (nbox, substs) in &out {
        let ids: Vec<S> = substs.iter().map(|m| {
            let k = match maps.iter().position(|x| x == m) {
                Some(k) => k,
                None => { maps.push(m.clone()); maps.len() - 1 }
            };
            S::usize(k)
        }).collect();
        let b = S::list(nbox.iter().map(|(t, (lo, hi))| {
            let a = TAGS.iter().position(|x| Tag::from_str(x).unwrap() == t).unwrap();
            S::list([S::usize(a), S::f64(lo.to_f64()), S::f64(hi.to_f64())])
        }));
        boxes.push(S::list([b, S::list(ids)]));
    }
    S::kv("impl", [
        S::k1("maps", S::list(maps.iter().map(|m| S::list(m.iter().map(|(f, t)| S::list([S::int(gid(f)), S::int(gid(t))])))))),
        S::k1("out", S::list(boxes)),
    ])
}

pub fn run(args: &Args) {
    let seed = args.seed;
    // `vharness c16 directed` : case i = the documented reproduction with 60+i rules
    let directed = args.rest.iter().any(|a| a == "directed");
    crate::run_cases("c16", args, move |i| {
        let case = if directed {
            directed_case(60 + i)
        } else {
            let mut rng = Rng::for_case(seed, "c16", i);
            gen_case(&mut rng)
        };
        let mut f = input_fields(&case);
        // keep the input on the line when the implementation panics
        match std::panic::catch_unwind(|| impl_fields(&case)) {
            Ok(out) => f.push(out),
            Err(e) => {
                let msg = e.downcast_ref::<String>().cloned()
                    .or_else(|| e.downcast_ref::<&str>().map(|s| s.to_string()))
                    .unwrap_or_default();
                f.push(S::k1("panic", S::str(&msg)));
            }
        }
        f
    });
}

// ------------------------------------------------------------------------------------------------------
// c16e2e: designspace <rules> -> real fontc build -> GSUB FeatureVariations read back with read-fonts.
//
// Line: (c16e2e i (naxes k) (conflict 0|1) (rules ((boxes subs) …)) (result ok) (impl (features ((idx (lookup…)) …))
//          (records (((axis min max) …) ((featidx (lookup …)) …)) …) (lookups (((from to) …) | other …)))
//   boxes are in normalized coordinates (harness-side normalisation of the design coordinates it wrote; `none` = open end),
//   glyphs are indices into e2e::design::GLYPH_NAMES.
use crate::e2e::{build, design, dump, write};
use write_fonts::read::tables::gsub::{SingleSubst, SubstitutionLookup};
use write_fonts::read::tables::layout::Condition;
use write_fonts::read::{FontRef, TableProvider};

fn e2e_design(rng: &mut Rng) -> (design::Design, bool) {
    let o = design::GenOpts {
        max_axes: 2, max_glyphs: 8, composites: false, sparse: false, quads: false, vertical: false,
        intermediate: false, corner: false, metrics_vary: false, mapping: false, nested: false,
        transforms: false, non_export: false,
    };
    let mut d = loop {
        let d = design::gen_design(rng, &o);
        if d.glyph_names().len() >= 6 { break d; }
    };
    d.features = None;
    let names = d.glyph_names();
    let half = names.len() / 2;
    let (sources, targets) = names.split_at(half);
    let conflict = rng.chance(1, 3);
    let n_rules = 1 + rng.below(5);
    let mut rules = vec![];
    for r in 0..n_rules {
        let nb = 1 + rng.below(2);
        let mut condsets = vec![];
        for _ in 0..nb {
            let mut cs = vec![];
            for a in 0..d.axes.len() {
                if rng.chance(2, 3) || (a + 1 == d.axes.len() && cs.is_empty()) {
                    let (lo, hi) = (d.axes[a].min, d.axes[a].max);
                    let i = rng.below(8);
                    let j = i + 1 + rng.below(8 - i);
                    let v = |k: usize| lo + (hi - lo) * k as f64 / 8.0;
                    let min = if rng.chance(1, 5) { None } else { Some(v(i)) };
                    let max = if rng.chance(1, 5) && min.is_some() { None } else { Some(v(j)) };
                    cs.push((a, min, max));
                }
            }
            condsets.push(cs);
        }
        // without `conflict` every rule substitutes glyphs of its own
        let mut subs = vec![];
        if conflict {
            let s = rng.pick(sources).clone();
            subs.push((s, rng.pick(targets).clone()));
        } else if r < sources.len() {
            subs.push((sources[r].clone(), rng.pick(targets).clone()));
        } else {
            continue;
        }
        rules.push(design::Rule { name: format!("r{r}"), condsets, subs });
    }
    d.rules = rules;
    d.rules_processing_last = rng.chance(1, 4);
    (d, conflict)
}

fn gidx(name: &str) -> S {
    match design::GLYPH_NAMES.iter().position(|n| *n == name) {
        Some(i) => S::usize(i),
        None => S::atom("other"),
    }
}

fn dump_gsub(bytes: &[u8], axis_rank: &[usize]) -> Result<S, String> {
    let font = FontRef::new(bytes).map_err(|e| e.to_string())?;
    let names = dump::names(&font);
    let g = |gid: u32| gidx(names.get(gid as usize).map(|s| s.as_str()).unwrap_or(""));
    let gsub = font.gsub().map_err(|e| e.to_string())?;
    let fl = gsub.feature_list().map_err(|e| e.to_string())?;
    let mut features = vec![];
    for rec in fl.feature_records() {
        let f = rec.feature(fl.offset_data()).map_err(|e| e.to_string())?;
        features.push(S::list([S::str(&rec.feature_tag().to_string()), S::list(f.lookup_list_indices().iter().map(|i| S::usize(i.get() as usize)))]));
    }
    let mut lookups = vec![];
    let ll = gsub.lookup_list().map_err(|e| e.to_string())?;
    for lk in ll.lookups().iter() {
        let lk = lk.map_err(|e| e.to_string())?;
        match lk {
            SubstitutionLookup::Single(l) => {
                let mut pairs = vec![];
                for st in l.subtables().iter() {
                    match st.map_err(|e| e.to_string())? {
                        SingleSubst::Format1(t) => {
                            let d = t.delta_glyph_id() as i32;
                            for c in t.coverage().map_err(|e| e.to_string())?.iter() {
                                let from = c.to_u32();
                                pairs.push(S::list([g(from), g(((from as i32 + d) & 0xffff) as u32)]));
                            }
                        }
                        SingleSubst::Format2(t) => {
                            let subs = t.substitute_glyph_ids();
                            for (k, c) in t.coverage().map_err(|e| e.to_string())?.iter().enumerate() {
                                pairs.push(S::list([g(c.to_u32()), g(subs[k].get().to_u32())]));
                            }
                        }
                    }
                }
                lookups.push(S::list(pairs));
            }
            _ => lookups.push(S::atom("other")),
        }
    }
    let mut records = vec![];
    if let Some(fv) = gsub.feature_variations() {
        let fv = fv.map_err(|e| e.to_string())?;
        for rec in fv.feature_variation_records() {
            let mut conds = vec![];
            if let Some(cs) = rec.condition_set(fv.offset_data()) {
                let cs = cs.map_err(|e| e.to_string())?;
                for c in cs.conditions().iter() {
                    match c.map_err(|e| e.to_string())? {
                        Condition::Format1AxisRange(c) => conds.push(S::list([
                            S::usize(axis_rank.get(c.axis_index() as usize).copied().unwrap_or(99)),
                            S::f64(c.filter_range_min_value().to_f32() as f64),
                            S::f64(c.filter_range_max_value().to_f32() as f64),
                        ])),
                        _ => conds.push(S::atom("other")),
                    }
                }
            }
            let mut substs = vec![];
            if let Some(fts) = rec.feature_table_substitution(fv.offset_data()) {
                let fts = fts.map_err(|e| e.to_string())?;
                for s in fts.substitutions() {
                    let alt = s.alternate_feature(fts.offset_data()).map_err(|e| e.to_string())?;
                    substs.push(S::list([
                        S::usize(s.feature_index() as usize),
                        S::list(alt.lookup_list_indices().iter().map(|i| S::usize(i.get() as usize))),
                    ]));
                }
            }
            records.push(S::list([S::list(conds), S::list(substs)]));
        }
    }
    Ok(S::kv("impl", [
        S::k1("features", S::list(features)),
        S::k1("records", S::list(records)),
        S::k1("lookups", S::list(lookups)),
    ]))
}

pub fn run_e2e(args: &Args) {
    let seed = args.seed;
    crate::run_cases("c16e2e", args, move |i| {
        let mut rng = Rng::for_case(seed, "c16e2e", i);
        let (d, conflict) = e2e_design(&mut rng);
        let tmp = build::tmpdir("c16e2e");
        let ds = write::write_design(tmp.path(), &d);
        let res = build::compile(&ds, &build::BuildOpts::default());
        let norm = |a: usize, v: Option<f64>| S::opt(v.map(|v| S::f64(d.normalize(a, d.user_to_design(a, v)))));
        // the model's axis index is the position in Tag order (= BTreeMap order inside NBox)
        let mut by_tag: Vec<usize> = (0..d.axes.len()).collect();
        by_tag.sort_by_key(|a| d.axes[*a].tag.clone());
        let mut axis_rank = vec![0usize; d.axes.len()];
        for (pos, a) in by_tag.iter().enumerate() { axis_rank[*a] = pos; }
        let mut f = vec![
            S::k1("naxes", S::usize(d.axes.len())),
            S::k1("conflict", S::usize(conflict as usize)),
            S::k1("range", S::list(by_tag.iter().map(|&a| S::list([
                S::f64(d.normalize(a, d.user_to_design(a, d.axes[a].min))),
                S::f64(d.normalize(a, d.user_to_design(a, d.axes[a].max))),
            ])))),
            S::k1("rules", S::list(d.rules.iter().map(|r| S::list([
                S::list(r.condsets.iter().map(|cs| S::list(cs.iter().map(|(a, lo, hi)| S::list([
                    S::usize(axis_rank[*a]),
                    norm(*a, *lo),
                    norm(*a, *hi),
                ]))))),
                S::list(r.subs.iter().map(|(x, y)| S::list([gidx(x), gidx(y)]))),
            ])))),
        ];
        match res {
            Ok(bytes) => match dump_gsub(&bytes, &axis_rank) {
                Ok(s) => { f.push(S::k1("result", S::atom("ok"))); f.push(s); }
                Err(e) => f.push(S::kv("result", [S::atom("readerr"), S::str(&e)])),
            },
            Err(e) => f.push(S::kv("result", [S::atom("err"), S::str(&e)])),
        }
        f
    });
}
