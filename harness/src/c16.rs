//! C16: fontir::feature_variations::overlay_feature_variations through its public API.
//!
//! Line:  (c16 i (naxes k) (rules ((boxes subs) …)) (impl (maps (m …)) (out ((box (mapid …)) …))))
//!   box  = ((axis min|none max|none) …)   axis = index into TAGS (index order == Tag order == BTreeMap order)
//!   subs = ((from to) …)                 glyph = numeric id, name = format!("g{id:04}") so id order == name order
//! The output's substitution maps are interned (`maps`, first-seen order) and boxes refer to them by index.
use crate::rng::Rng;
use crate::sexp::S;
use crate::Args;
use fontdrasil::coords::NormalizedCoord;
use fontdrasil::types::GlyphName;
use fontir::feature_variations::{overlay_feature_variations, NBox, Region};
use std::collections::BTreeMap;
use std::str::FromStr;
use write_fonts::types::Tag;

// sorted: index order is Tag order
const TAGS: [&str; 3] = ["opsz", "wdth", "wght"];

pub type RawBox = Vec<(usize, Option<f64>, Option<f64>)>;
pub struct RawRule {
    pub boxes: Vec<RawBox>,
    pub subs: Vec<(u32, u32)>,
}
pub struct Case {
    pub naxes: usize,
    pub rules: Vec<RawRule>,
}

fn tag(i: usize) -> Tag {
    Tag::from_str(TAGS[i]).unwrap()
}
fn gname(id: u32) -> GlyphName {
    GlyphName::from(format!("g{id:04}").as_str())
}
fn gid(n: &GlyphName) -> u32 {
    n.as_str()[1..].parse().unwrap()
}

const GRID: [f64; 9] = [-1.0, -0.75, -0.5, -0.25, 0.0, 0.25, 0.5, 0.75, 1.0];

/// one axis range on the coarse grid
fn range(rng: &mut Rng) -> (Option<f64>, Option<f64>) {
    let k = rng.below(100);
    if k < 3 {
        // degenerate: min == max
        let v = *rng.pick(&GRID);
        return (Some(v), Some(v));
    }
    if k < 5 {
        // inverted (empty)
        return (Some(0.5), Some(0.25));
    }
    if k < 8 {
        // out of range: NBox::insert clamps
        return (Some(-1.5), Some(*rng.pick(&GRID[1..])));
    }
    let a = rng.below(GRID.len() - 1);
    let b = a + 1 + rng.below(GRID.len() - 1 - a);
    let lo = if rng.chance(1, 5) { None } else { Some(GRID[a]) };
    let hi = if rng.chance(1, 5) { None } else { Some(GRID[b]) };
    (lo, hi)
}

fn random_box(rng: &mut Rng, naxes: usize) -> RawBox {
    let mut b = RawBox::new();
    for a in 0..naxes {
        if rng.chance(2, 3) {
            let (lo, hi) = range(rng);
            b.push((a, lo, hi));
        }
    }
    if b.is_empty() && rng.chance(9, 10) {
        let (lo, hi) = range(rng);
        b.push((rng.below(naxes), lo, hi));
    }
    // insertion order into the BTreeMap is irrelevant: shuffle
    rng.shuffle(&mut b);
    b
}

/// a box derived from `base`: nested, shifted (partial overlap) or sharing a face
fn related_box(rng: &mut Rng, naxes: usize, base: &RawBox) -> RawBox {
    let mut b = base.clone();
    for e in b.iter_mut() {
        let lo = e.1.unwrap_or(-1.0);
        let hi = e.2.unwrap_or(1.0);
        match rng.below(5) {
            0 => {} // same range
            1 => { // nested
                if hi - lo >= 0.5 { e.1 = Some(lo + 0.25); }
                if hi - lo >= 0.75 && rng.chance(1, 2) { e.2 = Some(hi - 0.25); }
            }
            2 => { // shifted right
                e.1 = Some((lo + 0.25).min(0.75));
                e.2 = Some((hi + 0.25).min(1.0));
            }
            3 => { // touching: starts where base ends
                if hi < 1.0 { e.1 = Some(hi); e.2 = Some(1.0); }
            }
            _ => { // shifted left
                e.1 = Some((lo - 0.25).max(-1.0));
                e.2 = Some((hi - 0.25).max(-0.75));
            }
        }
    }
    if rng.chance(1, 4) && b.len() > 1 {
        b.remove(rng.below(b.len()));
    }
    if rng.chance(1, 4) {
        let a = rng.below(naxes);
        if !b.iter().any(|e| e.0 == a) {
            let (lo, hi) = range(rng);
            b.push((a, lo, hi));
        }
    }
    b
}

/// filler rule j of a long list: a small box in the far corner of axis 0 on a fine grid
fn filler_box(style: usize, j: usize, naxes: usize) -> RawBox {
    let step = 1.0 / 512.0;
    let mut b = match style {
        0 => vec![(0usize, Some(-1.0), Some(-1.0 + step * (j + 1) as f64))], // nested chain
        1 => vec![(0usize, Some(-1.0 + step * j as f64), Some(-1.0 + step * (j + 1) as f64))], // touching chain
        _ => vec![(0usize, Some(-1.0 + step * j as f64), Some(-1.0 + step * (j + 3) as f64))], // sliding overlap
    };
    if naxes > 1 {
        b.push((1, Some(-1.0), Some(-0.875)));
    }
    b
}

pub fn gen_case(rng: &mut Rng) -> Case {
    let naxes = 1 + rng.below(3);
    let shape = rng.below(100);
    if shape >= 95 {
        // the documented word-count reproduction, 60..=80 rules (fails from 65 rules on)
        return directed_case(60 + rng.below(21));
    }
    let mut rules: Vec<RawRule> = vec![];
    let mut next_alt = 1000u32;
    let mut next_key = 0u32;
    // conflicts (two rules substituting the same glyph differently) are a separate, rare shape;
    // otherwise every rule gets source glyphs of its own
    let conflict = rng.chance(1, 30);
    let mut fresh_subs = |rng: &mut Rng| -> Vec<(u32, u32)> {
        let n = 1 + rng.below(3);
        let mut m = BTreeMap::new();
        for _ in 0..n {
            let from = if conflict { 900 + rng.below(3) as u32 } else { next_key += 1; next_key };
            next_alt += 1;
            m.insert(from, next_alt);
        }
        m.into_iter().collect()
    };
    // a rule without any condition set (empty region) is a separate, rare shape too
    let allow_empty = rng.chance(1, 60);
    let (n_real_head, n_fill, n_real_tail) = if shape < 45 {
        (1 + rng.below(6), 0, 0)
    } else if shape < 70 {
        (5 + rng.below(8), 0, 0)
    } else {
        let head = 1 + rng.below(3);
        let tail = 1 + rng.below(3);
        let total = 50 + rng.below(31); // 50..=80 rules
        (head, total - head - tail, tail)
    };
    let fill_style = rng.below(3);
    let mut real_rule = |rng: &mut Rng, rules: &mut Vec<RawRule>| {
        let nb = if allow_empty && rng.chance(1, 4) { 0 } else { 1 + rng.below(3) };
        let mut boxes: Vec<RawBox> = vec![];
        for _ in 0..nb {
            let all: Vec<&RawBox> = rules.iter().flat_map(|r| r.boxes.iter()).chain(boxes.iter()).collect();
            let b = if !all.is_empty() && rng.chance(3, 5) {
                let base = (*rng.pick(&all)).clone();
                related_box(rng, naxes, &base)
            } else {
                random_box(rng, naxes)
            };
            boxes.push(b);
        }
        // same region as an earlier rule (merge_same_region_rules), possibly permuted
        if !rules.is_empty() && rng.chance(1, 8) {
            boxes = rules[rng.below(rules.len())].boxes.clone();
            rng.shuffle(&mut boxes);
        }
        // same substitutions as an earlier rule (merge_same_sub_rules)
        let subs = if !rules.is_empty() && rng.chance(1, 8) {
            rules[rng.below(rules.len())].subs.clone()
        } else {
            fresh_subs(rng)
        };
        rules.push(RawRule { boxes, subs });
    };
    for _ in 0..n_real_head {
        real_rule(rng, &mut rules);
    }
    for j in 0..n_fill {
        let subs = vec![(300 + j as u32, 2000 + j as u32)];
        rules.push(RawRule { boxes: vec![filler_box(fill_style, j, naxes)], subs });
    }
    for _ in 0..n_real_tail {
        real_rule(rng, &mut rules);
    }
    Case { naxes, rules }
}

/// the documented ≥65-rule reproduction (DESIGN §7 F5), parameterised by the number of rules; for 65 rules
/// it is exactly `manyRules 63` of lean/FontcProofs/FeatVarsWitness.lean (axis 0 = wdth, axis 1 = wght)
pub fn directed_case(n_rules: usize) -> Case {
    let mut rules = vec![RawRule { boxes: vec![vec![(1, Some(0.5), Some(1.0))]], subs: vec![(0, 1000)] }];
    for j in 0..n_rules.saturating_sub(2) {
        let lo = -1.0 + j as f64 / 64.0;
        rules.push(RawRule { boxes: vec![vec![(1, Some(lo), Some(lo + 1.0 / 64.0))]], subs: vec![(300 + j as u32, 2000 + j as u32)] });
    }
    rules.push(RawRule {
        boxes: vec![vec![(0, Some(0.5), Some(1.0)), (1, Some(0.25), Some(0.75))]],
        subs: vec![(1, 1001)],
    });
    Case { naxes: 2, rules }
}

pub fn to_impl_input(case: &Case) -> Vec<(Region, BTreeMap<GlyphName, GlyphName>)> {
    case.rules.iter().map(|r| {
        let mut region = Region::default();
        for b in &r.boxes {
            let mut nb = NBox::default();
            for (a, lo, hi) in b {
                nb.insert(tag(*a), lo.map(NormalizedCoord::new), hi.map(NormalizedCoord::new));
            }
            region.push(nb);
        }
        let subs = r.subs.iter().map(|(f, t)| (gname(*f), gname(*t))).collect();
        (region, subs)
    }).collect()
}

fn s_optf(x: Option<f64>) -> S {
    S::opt(x.map(S::f64))
}

pub fn input_fields(case: &Case) -> Vec<S> {
    vec![
        S::k1("naxes", S::usize(case.naxes)),
        S::k1("rules", S::list(case.rules.iter().map(|r| {
            S::list([
                S::list(r.boxes.iter().map(|b| S::list(b.iter().map(|(a, lo, hi)| S::list([S::usize(*a), s_optf(*lo), s_optf(*hi)]))))),
                S::list(r.subs.iter().map(|(f, t)| S::list([S::int(*f), S::int(*t)]))),
            ])
        }))),
    ]
}

pub fn impl_fields(case: &Case) -> S {
    let out = overlay_feature_variations(to_impl_input(case));
    let mut maps: Vec<BTreeMap<GlyphName, GlyphName>> = vec![];
    let mut boxes = vec![];
    for (nbox, substs) in &out {
        let ids: Vec<S> = substs.iter().map(|m| {
            let k = match maps.iter().position(|x| x == m) {
                Some(k) => k,
                None => { maps.push(m.clone()); maps.len() - 1 }
            };
            S::usize(k)
        }).collect();
        let b = S::list(nbox.iter().map(|(t, (lo, hi))| {
            let a = TAGS.iter().position(|x| Tag::from_str(x).unwrap() == t).unwrap();
            S::list([S::usize(a), S::f64(lo.to_f64()), S::f64(hi.to_f64())])
        }));
        boxes.push(S::list([b, S::list(ids)]));
    }
    S::kv("impl", [
        S::k1("maps", S::list(maps.iter().map(|m| S::list(m.iter().map(|(f, t)| S::list([S::int(gid(f)), S::int(gid(t))])))))),
        S::k1("out", S::list(boxes)),
    ])
}

pub fn run(args: &Args) {
    let seed = args.seed;
    // `vharness c16 directed` : case i = the documented reproduction with 60+i rules
    let directed = args.rest.iter().any(|a| a == "directed");
    crate::run_cases("c16", args, move |i| {
        let case = if directed {
            directed_case(60 + i)
        } else {
            let mut rng = Rng::for_case(seed, "c16", i);
            gen_case(&mut rng)
        };
        let mut f = input_fields(&case);
        // keep the input on the line when the implementation panics
        match std::panic::catch_unwind(|| impl_fields(&case)) {
            Ok(out) => f.push(out),
            Err(e) => {
                let msg = e.downcast_ref::<String>().cloned()
                    .or_else(|| e.downcast_ref::<&str>().map(|s| s.to_string()))
                    .unwrap_or_default();
                f.push(S::k1("panic", S::str(&msg)));
            }
        }
        f
    });
}
