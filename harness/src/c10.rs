//! C10: mark attachment.
//!  * `c10`     pure: generated anchor names through the real `AnchorKind::new`, generated anchor sets through the real
//!              `MarkLookupBuilder` (hook `fontbe::features::verif_build_marks`), dumped through its `Serialize` impl.
//!  * `c10e2e`  generated designs with anchors -> real fontc build -> GPOS mark/mkmk lookups + GDEF classes + GDEF
//!              item variation store dumped with read-fonts; the Lean oracle evaluates every anchor at every master.
use crate::e2e::{build, design, dump, write};
use crate::rng::Rng;
use crate::sexp::S;
use crate::Args;
use fontdrasil::coords::{CoordConverter, NormalizedCoord, NormalizedLocation, UserCoord};
use fontdrasil::types::{Axis, GlyphName};
use fontir::ir::{self, AnchorKind, GdefCategories, GlyphAnchors, GlyphOrder, StaticMetadata};
use kurbo::Point;
use std::collections::{BTreeMap, HashMap, HashSet};
use std::path::Path;
use std::str::FromStr;
use write_fonts::read::tables::gpos::{AnchorTable, PositionSubtables};
use write_fonts::read::tables::layout::DeviceOrVariationIndex;
use write_fonts::read::{FontData, FontRef, TableProvider};
use write_fonts::tables::gdef::GlyphClassDef;
use write_fonts::types::{GlyphId16, Tag};

// ------------------------------------------------------------------------------------------------ pure stream

const AXIS_TAGS: [&str; 2] = ["wght", "wdth"];

#[derive(Clone, Debug)]
pub struct PAnchor {
    pub name: String,
    /// (index into the case's global locations, x, y)
    pub pos: Vec<(usize, f64, f64)>,
}

#[derive(Clone, Debug)]
pub struct PGlyph {
    pub name: String,
    pub in_order: bool,
    /// 1 base 2 ligature 3 mark 4 component
    pub class: Option<u16>,
    pub anchors: Vec<PAnchor>,
}

#[derive(Clone, Debug)]
pub struct PCase {
    pub n_axes: usize,
    pub locs: Vec<Vec<f64>>,
    pub glyphs: Vec<PGlyph>,
    pub names: Vec<String>,
}

const NAME_PIECES: [&str; 30] = [
    "top", "bottom", "_", "_", "_", "1", "2", "0", "+", "12", "007", "caret", "vcaret", "caret_", "vcaret_", "entry", "exit", "x",
    "-", " ", "\u{e9}", "ogonek", "18446744073709551615", "18446744073709551616", "99999999999999999999999", "_top", "top_1", "*origin",
    "_1", "\u{0661}",
];

const GOOD_NAMES: [&str; 26] = [
    "top", "bottom", "_top", "_bottom", "top_1", "top_2", "bottom_1", "bottom_2", "ogonek", "_ogonek", "top_3", "_1", "_2", "_3",
    "caret_1", "vcaret_1", "entry", "exit", "top_+1", "top_01", "center", "_center", "topright", "_topright", "top_right_1", "*origin",
];

fn gen_name(rng: &mut Rng) -> String {
    if rng.chance(1, 3) {
        return rng.pick(&GOOD_NAMES).to_string();
    }
    let k = 1 + rng.below(4);
    let mut s = String::new();
    for _ in 0..k {
        s.push_str(*rng.pick(&NAME_PIECES[..]));
    }
    s
}

fn grid(rng: &mut Rng) -> f64 {
    *rng.pick(&[-1.0, -0.5, 0.25, 0.5, 0.75, 1.0])
}

pub fn gen_pure(rng: &mut Rng) -> PCase {
    let n_axes = rng.below(3);
    let mut locs: Vec<Vec<f64>> = vec![vec![0.0; n_axes]];
    if n_axes > 0 {
        let want = 1 + rng.below(4);
        let mut tries = 0;
        while locs.len() < want && tries < 20 {
            tries += 1;
            let l: Vec<f64> = if rng.chance(1, 2) {
                let a = rng.below(n_axes);
                (0..n_axes).map(|i| if i == a { grid(rng) } else { 0.0 }).collect()
            } else {
                (0..n_axes).map(|_| if rng.chance(1, 3) { 0.0 } else { grid(rng) }).collect()
            };
            if !locs.contains(&l) {
                locs.push(l);
            }
        }
    }
    let n_glyphs = 2 + rng.below(7);
    // 0: no classes at all; 1: all classified; 2: partially classified
    let class_mode = rng.below(3);
    let pool: Vec<&str> = match rng.below(4) {
        0 => vec!["top", "_top", "bottom", "_bottom", "top_1", "top_2"],
        1 => vec!["top", "_top", "top_1", "top_2", "top_3", "_2", "ogonek", "_ogonek", "bottom_1", "_bottom"],
        _ => GOOD_NAMES[..25].to_vec(),
    };
    let mut glyphs = vec![];
    for gi in 0..n_glyphs {
        let mut names: Vec<String> = vec![];
        // roles make matching pairs likely: the first glyphs are a base, a mark, (often) a ligature
        let role = match gi { 0 => 0, 1 => 1, 2 => if rng.chance(1, 2) { 2 } else { rng.below(5) }, _ => rng.below(5) };
        let n_anchors = if role <= 2 { 1 + rng.below(4) } else { rng.below(5) };
        for _ in 0..n_anchors {
            let n = match role {
                0 => rng.pick(&["top", "bottom", "top", "bottom", "ogonek", "center"]).to_string(),
                1 => rng.pick(&["_top", "_bottom", "_top", "_ogonek", "top", "bottom", "_center"]).to_string(),
                2 => rng.pick(&["top_1", "top_2", "bottom_1", "bottom_2", "_2", "top_3", "top_+1", "top"]).to_string(),
                _ => rng.pick(&pool).to_string(),
            };
            if !names.contains(&n) {
                names.push(n);
            }
        }
        let anchors = names.into_iter().map(|name| {
            let mut pos = vec![];
            let sparse = rng.chance(1, 4);
            for li in 0..locs.len() {
                if li == 0 || !sparse || rng.chance(1, 2) {
                    let mut x = rng.range(-300, 900) as f64;
                    let mut y = rng.range(-300, 900) as f64;
                    if rng.chance(1, 6) { x += 0.5; }
                    if rng.chance(1, 6) { y -= 0.5; }
                    if rng.chance(1, 12) { x += 0.25; }
                    // a master less than half a unit away from the default, possibly across a rounding boundary
                    if li > 0 && rng.chance(1, 5) {
                        let (_, x0, y0) = pos[0];
                        x = x0 + rng.range(-3, 3) as f64 / 8.0;
                        y = y0 + rng.range(-3, 3) as f64 / 8.0;
                    }
                    pos.push((li, x, y));
                }
            }
            // sometimes no variation at all
            if rng.chance(1, 4) {
                let (_, x0, y0) = pos[0];
                for p in pos.iter_mut() { p.1 = x0; p.2 = y0; }
            }
            PAnchor { name, pos }
        }).collect();
        let class = match class_mode {
            0 => None,
            1 => Some(match role { 0 => 1, 1 => 3, 2 => 2, _ => 1 + rng.below(4) as u16 }),
            _ => if rng.chance(1, 3) { None } else { Some(match role { 0 => 1, 1 => 3, 2 => 2, _ => 1 + rng.below(4) as u16 }) },
        };
        // a role-consistent class most of the time, any class otherwise
        let class = if class.is_some() && rng.chance(1, 6) { Some(1 + rng.below(4) as u16) } else { class };
        glyphs.push(PGlyph { name: format!("g{gi}"), in_order: !rng.chance(1, 10), class, anchors });
    }
    let names = (0..6).map(|_| gen_name(rng)).collect();
    PCase { n_axes, locs, glyphs, names }
}

fn nloc(case: &PCase, li: usize) -> NormalizedLocation {
    case.locs[li].iter().enumerate().map(|(a, c)| (Tag::from_str(AXIS_TAGS[a]).unwrap(), NormalizedCoord::new(*c))).collect()
}

fn class_def(c: u16) -> GlyphClassDef {
    match c { 1 => GlyphClassDef::Base, 2 => GlyphClassDef::Ligature, 3 => GlyphClassDef::Mark, _ => GlyphClassDef::Component }
}

pub fn kind_sexp(r: &Result<AnchorKind, fontir::error::BadAnchorReason>) -> S {
    match r {
        Ok(AnchorKind::Base(g)) => S::list([S::atom("base"), S::str(g)]),
        Ok(AnchorKind::Mark(g)) => S::list([S::atom("mark"), S::str(g)]),
        Ok(AnchorKind::Ligature { group_name, index }) => S::list([S::atom("lig"), S::str(group_name), S::atom(index.to_string())]),
        Ok(AnchorKind::ComponentMarker(i)) => S::list([S::atom("comp"), S::atom(i.to_string())]),
        Ok(AnchorKind::Caret(i)) => S::list([S::atom("caret"), S::atom(i.to_string())]),
        Ok(AnchorKind::VCaret(i)) => S::list([S::atom("vcaret"), S::atom(i.to_string())]),
        Ok(AnchorKind::CursiveEntry) => S::list([S::atom("entry")]),
        Ok(AnchorKind::CursiveExit) => S::list([S::atom("exit")]),
        Err(e) => S::list([S::atom("err"), S::atom(format!("{e:?}"))]),
    }
}

pub fn first_pass(glyph_order: &GlyphOrder, fea: &str) -> fontbe::orchestration::FeaFirstPassOutput {
    let glyph_map = fea_rs::GlyphMap::new(glyph_order.names().cloned()).unwrap();
    let text: std::sync::Arc<str> = fea.into();
    let (ast, _) = fea_rs::parse::parse_root(
        "memory".into(),
        Some(&glyph_map),
        Box::new(move |x: &Path| if x == Path::new("memory") { Ok(text.clone()) } else { unreachable!() }),
    ).unwrap();
    let (compilation, _) = fea_rs::compile::compile::<fea_rs::compile::NopVariationInfo, fea_rs::compile::NopFeatureProvider>(
        &ast, &glyph_map, None, None, fea_rs::Opts::new().compile_gpos(false),
    ).map_err(|_| "fea").unwrap();
    fontbe::orchestration::FeaFirstPassOutput::new(ast, compilation).unwrap()
}

fn j_metric(m: &serde_json::Value, n_axes: usize) -> (S, S) {
    let d = S::int(m["default"].as_i64().unwrap());
    let dd = &m["device_or_deltas"];
    let deltas = if let Some(ds) = dd.get("Deltas") {
        S::list(ds.as_array().unwrap().iter().map(|pair| {
            let region = &pair[0]["region_axes"];
            let axes = region.as_array().unwrap();
            assert_eq!(axes.len(), n_axes);
            let f = |v: &serde_json::Value| -> S {
                // F2Dot14 serialises as its raw bits or as float depending on font-types; accept both
                if let Some(i) = v.as_i64() { S::f64(i as f64 / 16384.0) } else { S::f64(v.as_f64().unwrap()) }
            };
            S::list([
                S::list(axes.iter().map(|a| S::list([f(&a["start_coord"]), f(&a["peak_coord"]), f(&a["end_coord"])]))),
                S::int(pair[1].as_i64().unwrap()),
            ])
        }))
    } else if dd.as_str() == Some("None") {
        S::atom("none")
    } else {
        S::atom("device")
    };
    (d, deltas)
}

fn j_anchor(a: &serde_json::Value, n_axes: usize) -> S {
    if a.is_null() {
        return S::atom("none");
    }
    let (x, xd) = j_metric(&a["x"], n_axes);
    let (y, yd) = j_metric(&a["y"], n_axes);
    S::list([x, y, xd, yd])
}

fn j_sorted_keys(v: &serde_json::Value) -> Vec<(u64, &serde_json::Value)> {
    let mut out: Vec<(u64, &serde_json::Value)> = v.as_object().map(|o| o.iter().map(|(k, v)| (k.parse::<u64>().unwrap(), v)).collect()).unwrap_or_default();
    out.sort_by_key(|x| x.0);
    out
}

fn j_marklist(ml: &serde_json::Value, n_axes: usize) -> (Vec<(u64, String)>, S) {
    let mut classes: Vec<(u64, String)> = ml["classes"].as_object().unwrap().iter().map(|(k, v)| (v.as_u64().unwrap(), k.clone())).collect();
    classes.sort();
    let marks = S::list(j_sorted_keys(&ml["glyphs"]).into_iter().map(|(gid, v)| {
        S::list([S::usize(gid as usize), S::usize(v[0].as_u64().unwrap() as usize), j_anchor(&v[1], n_axes)])
    }));
    (classes, marks)
}

/// One lookup: (kind (classes xname…) flags filter (marks (gid class anchor)…) (bases (gid ((class anchor)…)… )…))
fn j_lookup(kind: &str, lk: &serde_json::Value, n_axes: usize) -> S {
    let flags = lk["flags"].clone();
    let flags = flags.as_u64().or_else(|| flags.get("bits").and_then(|b| b.as_u64())).map(|b| S::usize(b as usize)).unwrap_or_else(|| S::atom(format!("{}", lk["flags"]).replace(' ', "")));
    let filter = match &lk["mark_filter_set"] {
        serde_json::Value::Null => S::atom("none"),
        v => {
            // GlyphSet serialises as its bit pages: read it back through its Deserialize impl
            let set: fea_rs::GlyphSet = serde_json::from_value(v.clone()).expect("glyph set");
            let mut ids: Vec<u64> = set.iter().map(|g| g.to_u16() as u64).collect();
            ids.sort();
            S::list(ids.into_iter().map(|i| S::usize(i as usize)))
        }
    };
    let subs = lk["subtables"].as_array().unwrap();
    S::list([
        S::atom(kind), flags, filter,
        S::list(subs.iter().map(|b| {
            let (ml, bases): (&serde_json::Value, S) = match kind {
                "base" => (&b["marks"], S::list(j_sorted_keys(&b["bases"]).into_iter().map(|(gid, v)| {
                    S::list([S::usize(gid as usize), S::list([S::list(v.as_array().unwrap().iter().map(|ca| S::list([S::usize(ca[0].as_u64().unwrap() as usize), j_anchor(&ca[1], n_axes)])))])])
                }))),
                "mkmk" => (&b["attaching_marks"], S::list(j_sorted_keys(&b["base_marks"]).into_iter().map(|(gid, v)| {
                    S::list([S::usize(gid as usize), S::list([S::list(v.as_array().unwrap().iter().map(|ca| S::list([S::usize(ca[0].as_u64().unwrap() as usize), j_anchor(&ca[1], n_axes)])))])])
                }))),
                _ => (&b["marks"], S::list(j_sorted_keys(&b["ligatures"]).into_iter().map(|(gid, comps)| {
                    S::list([S::usize(gid as usize), S::list(comps.as_array().unwrap().iter().map(|c| {
                        let mut es: Vec<(&String, &serde_json::Value)> = c.as_object().unwrap().iter().collect();
                        es.sort_by_key(|e| e.0.clone());
                        S::list(es.into_iter().map(|(cls, a)| S::list([S::str(cls), j_anchor(a, n_axes)])))
                    }))])
                }))),
            };
            let (classes, marks) = j_marklist(ml, n_axes);
            S::list([S::list(classes.iter().map(|(i, n)| S::list([S::usize(*i as usize), S::str(n)]))), marks, bases])
        })),
    ])
}

pub fn run_pure_case(case: &PCase) -> Vec<S> {
    let mut fields = vec![
        S::k1("naxes", S::usize(case.n_axes)),
        S::k1("locs", S::list(case.locs.iter().map(|l| S::list(l.iter().map(|c| S::f64(*c)))))),
    ];
    // names through the real AnchorKind::new
    let kinds: Vec<_> = case.names.iter().map(|n| AnchorKind::new(n)).collect();
    fields.push(S::k1("names", S::list(case.names.iter().map(|n| S::str(n)))));
    // glyphs: drop the anchors the real parser rejects (a source with such an anchor does not build at all)
    let mut order = GlyphOrder::new();
    for g in case.glyphs.iter().filter(|g| g.in_order) {
        order.insert(GlyphName::new(&g.name));
    }
    let mut all_anchors: Vec<GlyphAnchors> = vec![];
    let mut gl_sexp = vec![];
    for g in &case.glyphs {
        let mut anchors = vec![];
        let mut a_sexp = vec![];
        for a in &g.anchors {
            let Ok(kind) = AnchorKind::new(&a.name) else { continue };
            let positions: HashMap<NormalizedLocation, Point> = a.pos.iter().map(|(li, x, y)| (nloc(case, *li), Point::new(*x, *y))).collect();
            anchors.push(ir::Anchor { kind, original_name: a.name.as_str().into(), positions });
            a_sexp.push(S::list([S::str(&a.name), S::list(a.pos.iter().map(|(li, x, y)| S::list([S::usize(*li), S::f64(*x), S::f64(*y)])))]));
        }
        all_anchors.push(GlyphAnchors::new(GlyphName::new(&g.name), anchors));
        gl_sexp.push(S::list([
            S::str(&g.name),
            S::opt(order.glyph_id(&GlyphName::new(&g.name)).map(|g| S::usize(g.to_u16() as usize))),
            S::opt(g.class.map(|c| S::usize(c as usize))),
            S::list(a_sexp),
        ]));
    }
    fields.push(S::k1("glyphs", S::list(gl_sexp)));
    let categories = GdefCategories {
        categories: case.glyphs.iter().filter_map(|g| g.class.map(|c| (GlyphName::new(&g.name), class_def(c)))).collect(),
    };
    let (min, default, max) = (UserCoord::new(-1.0), UserCoord::new(0.0), UserCoord::new(1.0));
    let axes: Vec<Axis> = (0..case.n_axes).map(|a| Axis {
        name: AXIS_TAGS[a].to_string(), tag: Tag::from_str(AXIS_TAGS[a]).unwrap(), min, default, max, hidden: false,
        converter: CoordConverter::unmapped(min, default, max), localized_names: Default::default(),
    }).collect();
    let global: HashSet<NormalizedLocation> = (0..case.locs.len()).map(|i| nloc(case, i)).collect();
    let sm = StaticMetadata::new(1000, Default::default(), axes, vec![], global, None, 0.0, None, false).expect("static metadata");
    let fp = first_pass(&order, "languagesystem DFLT dflt;");
    // hand the glyphs over in a different order than the glyph order
    let mut refs: Vec<&GlyphAnchors> = all_anchors.iter().collect();
    refs.reverse();
    let res = fontbe::features::verif_build_marks(refs, &order, &categories, &sm, &fp, HashMap::new());
    let mut im = vec![S::k1("kinds", S::list(kinds.iter().map(kind_sexp)))];
    match res {
        Ok(marks) => {
            let j = serde_json::to_value(&marks).expect("json");
            if std::env::var("VERIF_DEBUG").is_ok() {
                eprintln!("{}", serde_json::to_string_pretty(&j).unwrap());
            }
            im.push(S::k1("result", S::atom("ok")));
            let mm = &j["mark_mkmk"];
            let mut lookups = vec![];
            for (kind, key) in [("base", "mark_base"), ("lig", "mark_lig"), ("mkmk", "mark_mark")] {
                for lk in mm[key].as_array().unwrap() {
                    lookups.push(j_lookup(kind, lk, case.n_axes));
                }
            }
            im.push(S::k1("lookups", S::list(lookups)));
            let n_abvm: usize = ["abvm", "blwm"].iter().map(|k| ["mark_base", "mark_lig", "mark_mark"].iter().map(|t| j[*k][*t].as_array().map(|a| a.len()).unwrap_or(0)).sum::<usize>()).sum();
            im.push(S::k1("abvm", S::usize(n_abvm)));
            im.push(S::k1("curs", S::usize(j["curs"].as_array().map(|a| a.len()).unwrap_or(0))));
        }
        Err(e) => {
            let d = format!("{e:?}");
            im.push(S::kv("result", [S::atom("err"), S::atom(d.split(|c: char| !c.is_alphanumeric()).next().unwrap_or("err").to_string())]));
        }
    }
    fields.push(S::kv("impl", im));
    fields
}

pub fn run(args: &Args) {
    let seed = args.seed;
    crate::run_cases("c10", args, move |i| {
        let mut rng = Rng::for_case(seed, "c10", i);
        let case = gen_pure(&mut rng);
        run_pure_case(&case)
    });
}

// ------------------------------------------------------------------------------------------------ e2e stream

const BASES: [&str; 8] = ["a", "e", "o", "u", "c", "n", "i", "y"];
const MARKS: [&str; 8] = ["acutecomb", "gravecomb", "dieresiscomb", "macroncomb", "cedillacomb", "ogonekcomb", "dotbelowcomb", "tildecomb"];
const MARK_CPS: [u32; 8] = [0x301, 0x300, 0x308, 0x304, 0x327, 0x328, 0x323, 0x303];
const LIGS: [&str; 4] = ["f_i", "f_l", "f_f_i", "f_f"];
const COMPOSITES: [&str; 16] = ["aacute", "eacute", "oacute", "uacute", "agrave", "egrave", "ograve", "ugrave", "adieresis", "edieresis",
    "odieresis", "udieresis", "amacron", "emacron", "omacron", "umacron"];

#[derive(Clone, Copy, Debug, PartialEq)]
pub enum Role { Base, Mark, Lig, Composite }

pub struct E2ECase {
    pub design: design::Design,
    /// 0 explicit public.openTypeCategories, 1 no categories, 2 propagateAnchors filter (categories from GlyphData)
    pub variant: usize,
    pub cats: Vec<(String, String)>,
}

fn rename_design(d: &mut design::Design, map: &BTreeMap<String, String>) {
    let r = |n: &String| map.get(n).cloned().unwrap_or_else(|| n.clone());
    for m in d.masters.iter_mut() {
        let old = std::mem::take(&mut m.glyphs);
        for (n, mut g) in old {
            for c in g.components.iter_mut() { c.base = r(&c.base); }
            m.glyphs.insert(r(&n), g);
        }
    }
    if let Some(o) = d.glyph_order.as_mut() { for n in o.iter_mut() { *n = r(n); } }
    for n in d.skip_export.iter_mut() { *n = r(n); }
    d.codepoints = std::mem::take(&mut d.codepoints).into_iter().map(|(n, c)| (r(&n), c)).collect();
}

fn jitter(rng: &mut Rng, v: f64) -> f64 {
    // sometimes less than half a unit away from the default master's value (possibly across a rounding boundary)
    if rng.chance(1, 5) { return v + rng.range(-3, 3) as f64 / 8.0; }
    let mut o = v + rng.range(-60, 60) as f64;
    if rng.chance(1, 5) { o += 0.5; }
    if rng.chance(1, 12) { o += 0.25; }
    o
}

pub fn gen_e2e(rng: &mut Rng) -> E2ECase {
    let variant = rng.below(3);
    let mut o = design::GenOpts::default();
    o.max_axes = 2;
    o.max_glyphs = 10;
    o.quads = false;
    o.composites = variant == 2 || rng.chance(1, 2);
    o.sparse = variant != 2;
    let mut d = design::gen_design(rng, &o);
    let dm = d.default_master;
    // roles by structure, names by role
    let order: Vec<String> = d.glyph_order.clone().unwrap();
    let mut map = BTreeMap::new();
    let mut roles: BTreeMap<String, Role> = BTreeMap::new();
    let (mut nb, mut nm, mut nl, mut nc) = (0, 0, 0, 0);
    let pattern = [Role::Base, Role::Mark, Role::Base, Role::Mark, Role::Lig, Role::Mark, Role::Base, Role::Lig];
    let mut k = rng.below(2);
    for n in &order {
        let g = &d.masters[dm].glyphs[n];
        let role = if !g.components.is_empty() { Role::Composite } else { let r = pattern[k % pattern.len()]; k += 1; r };
        let new = match role {
            Role::Base => { nb += 1; BASES[(nb - 1) % 8].to_string() }
            Role::Mark => { nm += 1; MARKS[(nm - 1) % 8].to_string() }
            Role::Lig => { nl += 1; LIGS[(nl - 1) % 4].to_string() }
            Role::Composite => { nc += 1; COMPOSITES[(nc - 1) % 16].to_string() }
        };
        roles.insert(new.clone(), role);
        map.insert(n.clone(), new);
    }
    rename_design(&mut d, &map);
    // codepoints by role
    d.codepoints.clear();
    for (n, role) in &roles {
        match role {
            Role::Base => { d.codepoints.insert(n.clone(), vec![n.as_bytes()[0] as u32]); }
            Role::Mark => { let i = MARKS.iter().position(|m| m == n).unwrap(); d.codepoints.insert(n.clone(), vec![MARK_CPS[i]]); }
            _ => {}
        }
    }
    // anchors in the default master
    let mut used_pts: Vec<(i64, i64)> = vec![];
    let mut fresh = |rng: &mut Rng| -> (f64, f64) {
        loop {
            let p = (rng.range(-100, 700), rng.range(-250, 900));
            if !used_pts.contains(&p) { used_pts.push(p); return (p.0 as f64, p.1 as f64); }
        }
    };
    let names: Vec<String> = d.glyph_order.clone().unwrap();
    for n in &names {
        let role = roles[n];
        let mut an: Vec<&str> = vec![];
        match role {
            Role::Base => {
                for c in ["top", "bottom", "ogonek", "center"] { if rng.chance(3, 5) { an.push(c); } }
                if an.is_empty() { an.push("top"); }
            }
            Role::Mark => {
                let attach = *rng.pick(&["_top", "_bottom", "_top", "_ogonek", "_center"]);
                an.push(attach);
                if rng.chance(1, 6) { let second = *rng.pick(&["_bottom", "_top"]); if second != attach { an.push(second); } }
                if rng.chance(1, 2) { an.push(if attach == "_bottom" { "bottom" } else { "top" }); }
                if rng.chance(1, 6) { an.push("center"); }
            }
            Role::Lig => {
                for c in ["top_1", "top_2", "bottom_1", "bottom_2", "top_3", "ogonek_2"] { if rng.chance(1, 2) { an.push(c); } }
                if an.is_empty() { an.push("top_1"); }
                if rng.chance(1, 8) { an.push("_3"); }
                if rng.chance(1, 8) { an.push("caret_1"); }
            }
            Role::Composite => {
                if variant != 2 && rng.chance(1, 2) { an.push("top"); if rng.chance(1, 2) { an.push("bottom"); } }
            }
        }
        let g = d.masters[dm].glyphs.get_mut(n).unwrap();
        g.anchors = an.iter().map(|a| {
            let (mut x, mut y) = fresh(rng);
            if rng.chance(1, 8) { x += 0.5; }
            if rng.chance(1, 8) { y += 0.5; }
            if rng.chance(1, 6) { x += rng.range(1, 7) as f64 / 8.0; }
            if rng.chance(1, 6) { y += rng.range(1, 7) as f64 / 8.0; }
            (a.to_string(), x, y)
        }).collect();
    }
    // other masters: vary, keep some anchors static, rarely drop one in a non-default master
    let base_anchors: BTreeMap<String, Vec<(String, f64, f64)>> = d.masters[dm].glyphs.iter().map(|(n, g)| (n.clone(), g.anchors.clone())).collect();
    let statics: HashSet<(String, String)> = base_anchors.iter().flat_map(|(g, an)| an.iter().map(move |a| (g.clone(), a.0.clone())))
        .filter(|_| rng.chance(1, 4)).collect();
    // "near" anchors: every master within half a unit of the default master, around a rounding boundary
    let nears: HashSet<(String, String)> = base_anchors.iter().flat_map(|(g, an)| an.iter().map(move |a| (g.clone(), a.0.clone())))
        .filter(|_| rng.chance(1, 6)).collect();
    let base_anchors: BTreeMap<String, Vec<(String, f64, f64)>> = base_anchors.into_iter().map(|(g, an)| {
        let an = an.into_iter().map(|(a, x, y)| if nears.contains(&(g.clone(), a.clone())) {
            (a, x.floor() + rng.range(2, 6) as f64 / 8.0, y.floor() + rng.range(2, 6) as f64 / 8.0)
        } else { (a, x, y) }).collect();
        (g, an)
    }).collect();
    for (n, an) in &base_anchors { d.masters[dm].glyphs.get_mut(n).unwrap().anchors = an.clone(); }
    for (mi, m) in d.masters.iter_mut().enumerate() {
        if mi == dm { continue; }
        for (n, g) in m.glyphs.iter_mut() {
            let mut out = vec![];
            for (an, x, y) in &base_anchors[n] {
                if variant != 2 && !m.sparse && rng.chance(1, 16) { continue; }
                if nears.contains(&(n.clone(), an.clone())) {
                    out.push((an.clone(), *x + rng.range(-3, 3) as f64 / 8.0, *y + rng.range(-3, 3) as f64 / 8.0));
                    continue;
                }
                if statics.contains(&(n.clone(), an.clone())) { out.push((an.clone(), *x, *y)); }
                else { out.push((an.clone(), jitter(rng, *x), jitter(rng, *y))); }
            }
            g.anchors = out;
        }
    }
    // categories / filters
    let mut cats = vec![];
    match variant {
        0 => {
            let mut dict = String::from("<dict>");
            for n in &names {
                if rng.chance(1, 10) { continue; } // unassigned
                let c = match roles[n] { Role::Base | Role::Composite => "base", Role::Mark => "mark", Role::Lig => "ligature" };
                // rarely a category that contradicts the anchors
                let c = if rng.chance(1, 16) { *rng.pick(&["base", "mark", "ligature", "component"]) } else { c };
                dict.push_str(&format!("<key>{n}</key><string>{c}</string>"));
                cats.push((n.clone(), c.to_string()));
            }
            dict.push_str("</dict>");
            d.lib_extra.push(("public.openTypeCategories".into(), dict));
        }
        2 => {
            d.lib_extra.push(("com.github.googlei18n.ufo2ft.filters".into(),
                "<array><dict><key>name</key><string>propagateAnchors</string><key>pre</key><true/></dict></array>".into()));
        }
        _ => {}
    }
    E2ECase { design: d, variant, cats }
}

fn s_anchor(a: Option<AnchorTable>) -> S {
    let Some(a) = a else { return S::atom("none") };
    let dev = |d: Option<Result<DeviceOrVariationIndex, write_fonts::read::ReadError>>| -> S {
        match d {
            None => S::atom("none"),
            Some(Ok(DeviceOrVariationIndex::VariationIndex(v))) => S::list([S::usize(v.delta_set_outer_index() as usize), S::usize(v.delta_set_inner_index() as usize)]),
            Some(Ok(DeviceOrVariationIndex::Device(_))) => S::atom("device"),
            Some(Err(_)) => S::atom("unreadable"),
        }
    };
    match a {
        AnchorTable::Format1(f) => S::list([S::int(f.x_coordinate()), S::int(f.y_coordinate()), S::atom("none"), S::atom("none")]),
        AnchorTable::Format2(f) => S::list([S::int(f.x_coordinate()), S::int(f.y_coordinate()), S::atom("point"), S::atom("point")]),
        AnchorTable::Format3(f) => S::list([S::int(f.x_coordinate()), S::int(f.y_coordinate()), dev(f.x_device()), dev(f.y_device())]),
    }
}

fn s_cov(c: Result<write_fonts::read::tables::layout::CoverageTable, write_fonts::read::ReadError>) -> S {
    match c {
        Ok(c) => S::list(c.iter().map(|g| S::usize(g.to_u16() as usize))),
        Err(_) => S::atom("unreadable"),
    }
}

fn s_marks(ma: Result<write_fonts::read::tables::gpos::MarkArray, write_fonts::read::ReadError>) -> S {
    match ma {
        Ok(ma) => {
            let data: FontData = ma.offset_data();
            S::list(ma.mark_records().iter().map(|r| S::list([S::usize(r.mark_class() as usize), s_anchor(r.mark_anchor(data).ok())])))
        }
        Err(_) => S::atom("unreadable"),
    }
}

/// GPOS mark-attachment lookups, the feature list, GDEF glyph classes and the GDEF item variation store.
pub fn dump_gpos_marks(bytes: &[u8]) -> S {
    let Ok(font) = FontRef::new(bytes) else { return S::kv("gposmarks", [S::k1("unreadable", S::atom("font"))]) };
    let n = font.maxp().map(|m| m.num_glyphs()).unwrap_or(0);
    let mut out = vec![];
    if let Ok(gpos) = font.gpos() {
        if let Ok(fl) = gpos.feature_list() {
            out.push(S::k1("features", S::list(fl.feature_records().iter().map(|fr| {
                let lookups = fr.feature(fl.offset_data()).map(|f| f.lookup_list_indices().iter().map(|i| S::usize(i.get() as usize)).collect::<Vec<_>>()).unwrap_or_default();
                S::list([S::str(&fr.feature_tag().to_string()), S::list(lookups)])
            }))));
        }
        if let Ok(ll) = gpos.lookup_list() {
            out.push(S::k1("lookups", S::list(ll.lookups().iter().map(|lk| {
                let Ok(lk) = lk else { return S::atom("unreadable") };
                let flags = S::usize(lk.lookup_flag().to_bits() as usize);
                let fset = S::opt(lk.mark_filtering_set().map(|x| S::usize(x as usize)));
                let subs: Vec<S> = match lk.subtables() {
                    Ok(PositionSubtables::MarkToBase(st)) => st.iter().map(|t| match t {
                        Ok(t) => {
                            let bases = match t.base_array() {
                                Ok(ba) => { let data = ba.offset_data(); S::list(ba.base_records().iter().map(|r| match r {
                                    Ok(r) => S::list(r.base_anchors(data).iter().map(|a| s_anchor(a.and_then(|a| a.ok())))),
                                    Err(_) => S::atom("unreadable") })) }
                                Err(_) => S::atom("unreadable"),
                            };
                            S::list([S::atom("base"), s_cov(t.mark_coverage()), s_cov(t.base_coverage()), s_marks(t.mark_array()), bases])
                        }
                        Err(_) => S::atom("unreadable"),
                    }).collect(),
                    Ok(PositionSubtables::MarkToMark(st)) => st.iter().map(|t| match t {
                        Ok(t) => {
                            let bases = match t.mark2_array() {
                                Ok(ba) => { let data = ba.offset_data(); S::list(ba.mark2_records().iter().map(|r| match r {
                                    Ok(r) => S::list(r.mark2_anchors(data).iter().map(|a| s_anchor(a.and_then(|a| a.ok())))),
                                    Err(_) => S::atom("unreadable") })) }
                                Err(_) => S::atom("unreadable"),
                            };
                            S::list([S::atom("mkmk"), s_cov(t.mark1_coverage()), s_cov(t.mark2_coverage()), s_marks(t.mark1_array()), bases])
                        }
                        Err(_) => S::atom("unreadable"),
                    }).collect(),
                    Ok(PositionSubtables::MarkToLig(st)) => st.iter().map(|t| match t {
                        Ok(t) => {
                            let ligs = match t.ligature_array() {
                                Ok(la) => S::list(la.ligature_attaches().iter().map(|l| match l {
                                    Ok(l) => { let data = l.offset_data(); S::list(l.component_records().iter().map(|c| match c {
                                        Ok(c) => S::list(c.ligature_anchors(data).iter().map(|a| s_anchor(a.and_then(|a| a.ok())))),
                                        Err(_) => S::atom("unreadable") })) }
                                    Err(_) => S::atom("unreadable") })),
                                Err(_) => S::atom("unreadable"),
                            };
                            S::list([S::atom("lig"), s_cov(t.mark_coverage()), s_cov(t.ligature_coverage()), s_marks(t.mark_array()), ligs])
                        }
                        Err(_) => S::atom("unreadable"),
                    }).collect(),
                    Ok(_) => vec![],
                    Err(_) => vec![S::atom("unreadable")],
                };
                S::list([S::usize(lk.lookup_type() as usize), flags, fset, S::list(subs)])
            }))));
        }
    }
    if let Ok(gdef) = font.gdef() {
        if let Some(Ok(cd)) = gdef.glyph_class_def() {
            out.push(S::k1("gdefclasses", S::list((0..n).map(|g| S::usize(cd.get(GlyphId16::new(g)) as usize)))));
        }
        if let Some(Ok(ivs)) = gdef.item_var_store() {
            out.push(S::kv("ivs", [dump::dump_ivs(&ivs)]));
        }
        if let Some(Ok(ms)) = gdef.mark_glyph_sets_def() {
            out.push(S::k1("marksets", S::list(ms.coverages().iter().map(|c| s_cov(c)))));
        }
    }
    S::kv("gposmarks", out)
}

pub fn run_e2e(args: &Args) {
    let seed = args.seed;
    crate::run_cases("c10e2e", args, move |i| {
        let mut rng = Rng::for_case(seed, "c10e2e", i);
        let case = gen_e2e(&mut rng);
        let tmp = build::tmpdir("c10e2e");
        let ds = write::write_design(tmp.path(), &case.design);
        if let Ok(keep) = std::env::var("VERIF_KEEP") {
            let _ = std::process::Command::new("cp").arg("-r").arg(tmp.path()).arg(&keep).status();
        }
        let res = build::compile(&ds, &build::BuildOpts::default());
        let mut f = vec![
            case.design.to_sexp(),
            S::k1("variant", S::usize(case.variant)),
            S::k1("cats", S::list(case.cats.iter().map(|(n, c)| S::list([S::str(n), S::atom(c.clone())])))),
        ];
        match res {
            Ok(bytes) => {
                f.push(S::k1("result", S::atom("ok")));
                f.push(dump::dump_all(&bytes));
                f.push(dump_gpos_marks(&bytes));
            }
            Err(e) => f.push(S::kv("result", [S::atom("err"), S::str(&e)])),
        }
        f
    });
}

// ------------------------------------------------------------------------------------------------ directed stream

/// What one directed case builds.
#[derive(Clone, Copy, Debug)]
pub enum Big {
    /// `n` base glyphs `b0..` with one `top` anchor each (pairwise different positions) and the mark `acutecomb` (`_top`)
    Bases { n: usize, variable: bool },
    /// a ligature `f_i` with `top_1` and `top_<index>`, and the mark `acutecomb` (`_top`)
    LigIndex { index: usize },
}

pub fn big_case(i: usize) -> Big {
    match i {
        0 => Big::Bases { n: 8200, variable: false },
        1 => Big::Bases { n: 5500, variable: true },
        2 => Big::LigIndex { index: 32767 },
        3 => Big::Bases { n: 2000, variable: false },
        4 => Big::LigIndex { index: 300 },
        _ => Big::Bases { n: 100 + 37 * (i % 50), variable: i % 2 == 0 },
    }
}

pub fn big_design(case: Big) -> design::Design {
    let mut rng = Rng::new(1);
    let mut o = design::GenOpts::default();
    o.max_axes = 1; o.max_glyphs = 2; o.composites = false; o.sparse = false; o.intermediate = false;
    let mut d = design::gen_design(&mut rng, &o);
    d.masters.truncate(1);
    let dm = d.default_master;
    let mut order = vec![];
    d.masters[dm].glyphs.clear();
    d.codepoints.clear();
    let mut variable = false;
    match case {
        Big::Bases { n, variable: v } => {
            variable = v;
            for i in 0..n {
                let name = format!("b{i}");
                let g = design::GlyphDef { advance: 500.0, anchors: vec![("top".into(), (i % 3000) as f64, 500.0 + (i / 3000) as f64)], ..Default::default() };
                d.masters[dm].glyphs.insert(name.clone(), g);
                order.push(name);
            }
        }
        Big::LigIndex { index } => {
            let g = design::GlyphDef { advance: 500.0, anchors: vec![("top_1".into(), 10.0, 20.0), (format!("top_{index}"), 100.0, 200.0)], ..Default::default() };
            d.masters[dm].glyphs.insert("f_i".into(), g);
            order.push("f_i".into());
        }
    }
    d.masters[dm].glyphs.insert("acutecomb".into(), design::GlyphDef { advance: 0.0, anchors: vec![("_top".into(), 50.0, 60.0)], ..Default::default() });
    order.push("acutecomb".into());
    d.glyph_order = Some(order);
    if variable {
        // a second master at the other end of the axis with every anchor moved by a different amount
        let a = &d.axes[0];
        let other = if a.default < a.max { a.max } else { a.min };
        let mut m = d.masters[dm].clone();
        m.name = "M1".into(); m.style = "Other".into(); m.loc = vec![other];
        for (i, (_, g)) in m.glyphs.iter_mut().enumerate() {
            for an in g.anchors.iter_mut() { an.1 += 1.0 + (i % 97) as f64; an.2 += 1.0 + (i % 89) as f64; }
        }
        d.masters.push(m);
    }
    d
}

/// `c10big`: sources whose mark lookups are large. The line carries the size parameters instead of the whole design
/// (`VERIF_KEEP=<dir>` copies the generated UFO/designspace there), the compile result and, read back from the font:
/// whether GPOS exists, and which attaching glyphs the mark-to-base / mark-to-ligature subtables cover for the mark.
pub fn run_big(args: &Args) {
    crate::run_cases("c10big", args, move |i| {
        let case = big_case(i);
        let d = big_design(case);
        let names: Vec<String> = d.glyph_order.clone().unwrap();
        let n_attaching = names.len() - 1;
        let tmp = build::tmpdir("c10big");
        let ds = write::write_design(tmp.path(), &d);
        if let Ok(keep) = std::env::var("VERIF_KEEP") {
            let _ = std::process::Command::new("cp").arg("-r").arg(tmp.path()).arg(&keep).status();
        }
        let res = build::compile(&ds, &build::BuildOpts::default());
        let mut f = vec![match case {
            Big::Bases { n, variable } => S::kv("case", [S::atom("bases"), S::usize(n), S::bool(variable)]),
            Big::LigIndex { index } => S::kv("case", [S::atom("ligindex"), S::usize(index), S::bool(false)]),
        }, S::k1("attaching", S::usize(n_attaching))];
        match res {
            Ok(bytes) => {
                let font = FontRef::new(&bytes).unwrap();
                let fnames = dump::names(&font);
                let mark_gid = fnames.iter().position(|n| n == "acutecomb").unwrap_or(usize::MAX);
                let mut covered: Vec<usize> = vec![];
                if let Ok(gpos) = font.gpos() {
                    if let Ok(ll) = gpos.lookup_list() {
                        for lk in ll.lookups().iter().flatten() {
                            match lk.subtables() {
                                Ok(PositionSubtables::MarkToBase(st)) => for t in st.iter().flatten() {
                                    if t.mark_coverage().map(|c| c.iter().any(|g| g.to_u16() as usize == mark_gid)).unwrap_or(false) {
                                        covered.extend(t.base_coverage().map(|c| c.iter().map(|g| g.to_u16() as usize).collect::<Vec<_>>()).unwrap_or_default());
                                    }
                                },
                                Ok(PositionSubtables::MarkToLig(st)) => for t in st.iter().flatten() {
                                    if t.mark_coverage().map(|c| c.iter().any(|g| g.to_u16() as usize == mark_gid)).unwrap_or(false) {
                                        covered.extend(t.ligature_coverage().map(|c| c.iter().map(|g| g.to_u16() as usize).collect::<Vec<_>>()).unwrap_or_default());
                                    }
                                },
                                _ => {}
                            }
                        }
                    }
                }
                covered.sort(); covered.dedup();
                f.push(S::k1("result", S::atom("ok")));
                f.push(S::k1("glyphs", S::usize(fnames.len())));
                f.push(S::k1("has_gpos", S::bool(font.gpos().is_ok())));
                f.push(S::k1("has_gdef", S::bool(font.gdef().is_ok())));
                f.push(S::k1("covered", S::usize(covered.len())));
            }
            Err(e) => f.push(S::kv("result", [S::atom("err"), S::str(&e)])),
        }
        f
    });
}
