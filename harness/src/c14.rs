//! C14: where intermediate state goes on disk, and whether writing it changes anything.
//!   c14names  fontdrasil::paths::string_to_filename on batches of related names
//!   c14paths  fontir / fontbe Paths::target_file on sets of distinct work ids
//!   c14emit   whole builds through fontc's library API with and without an IR directory
use crate::rng::Rng;
use crate::sexp::S;
use crate::Args;
use fontbe::orchestration::WorkId as BeId;
use fontdrasil::coords::{NormalizedCoord, NormalizedLocation};
use fontdrasil::paths::string_to_filename;
use fontdrasil::types::{GlyphName, Tag};
use fontir::orchestration::WorkId as FeId;
use std::collections::{BTreeSet, HashSet};
use std::path::Path;

// ------------------------------------------------------------------------------------------ names

const RESERVED: &[char] = &[
    '\0', '\x01', '\x1f', '\x7f', '^', '>', '|', '[', '?', '+', '\\', '"', ':', '/', '<', '%', ']', '*',
];
const DEVICES: &[&str] = &[
    "CON", "PRN", "AUX", "CLOCK$", "NUL", "COM1", "COM2", "COM3", "COM4", "COM5", "COM9", "LPT1", "LPT2",
    "LPT3", "LPT4", "LPT9", "CONIN$", "con", "nul", "Nul", "com1", "lpt1", "clock$", "aux", "prn",
];
const WORDS: &[&str] = &[
    "a", "A", "aa", "Aa", "aA", "AA", "a_a", "A_", "_", "__", "space", "Aacute", "aacute", "AE", "ae", "Ae",
    "f_f_i", "F_F_I", "uni0041", "uni0041.ss01", "A.sc", "a.sc", ".notdef", ".null", ".", "..", "a.", "a ",
    " a", "glyph00001", "T_h", "Th", "t_h", "IJ", "ij", "Ij", "iJ", "OE", "oe", "Germandbls", "germandbls",
    "a^1", "A^1", "a^0", "con^0", "%2E", "%2Enotdef", "a%41", "a^", "^", "^1", "%", "%25", "A_a_", "a.yml",
    "a.yml.yml", "kern_wght_1.00", "static_metadata", "glyph_order",
];
const NONASCII: &[&str] = &[
    "\u{c9}", "\u{e9}", "e\u{301}", "E\u{301}", "\u{df}", "\u{1e9e}", "\u{3a9}", "\u{3c9}", "\u{2126}", "\u{130}",
    "\u{131}", "i", "I", "\u{4e00}", "\u{1f600}", "\u{1d400}", "\u{ff21}", "\u{ff41}", "\u{10ffff}", "\u{80}",
    "\u{7ff}", "\u{800}", "\u{ffff}", "\u{10000}", "\u{410}", "\u{430}",
];

fn flip_ascii_case(s: &str, rng: &mut Rng) -> String {
    s.chars()
        .map(|c| {
            if c.is_ascii_alphabetic() && rng.chance(1, 2) {
                if c.is_ascii_uppercase() { c.to_ascii_lowercase() } else { c.to_ascii_uppercase() }
            } else {
                c
            }
        })
        .collect()
}

fn random_name(rng: &mut Rng) -> String {
    match rng.below(9) {
        0 => rng.pick(DEVICES).to_string(),
        1 | 2 => rng.pick(WORDS).to_string(),
        3 => {
            // letters only, random case, length around chunk boundaries (5, 10, 15 bytes)
            let len = *rng.pick(&[1usize, 2, 4, 5, 6, 9, 10, 11, 15, 16, 26]);
            (0..len).map(|_| (if rng.chance(1, 2) { b'a' } else { b'A' } + rng.below(26) as u8) as char).collect()
        }
        4 => {
            let mut s = String::new();
            for _ in 0..1 + rng.below(4) {
                s.push_str(*rng.pick(NONASCII));
                if rng.chance(1, 2) {
                    s.push_str(*rng.pick(WORDS));
                }
            }
            s
        }
        5 => {
            // arbitrary scalar values
            let len = rng.below(7);
            (0..len)
                .map(|_| loop {
                    let v = match rng.below(4) {
                        0 => rng.below(0x80) as u32,
                        1 => rng.below(0x800) as u32,
                        2 => rng.below(0x10000) as u32,
                        _ => rng.below(0x110000) as u32,
                    };
                    if let Some(c) = char::from_u32(v) {
                        break c;
                    }
                })
                .collect()
        }
        6 => {
            // reserved characters sprinkled into a word
            let mut s: Vec<char> = rng.pick(WORDS).chars().collect();
            for _ in 0..1 + rng.below(3) {
                let at = rng.below(s.len() + 1);
                s.insert(at, *rng.pick(RESERVED));
            }
            s.into_iter().collect()
        }
        7 => String::new(),
        _ => {
            // very long
            let unit = rng.pick(WORDS).to_string() + *rng.pick(NONASCII);
            let n = 20 + rng.below(200);
            let mut s = String::new();
            while s.chars().count() < n {
                s.push_str(&unit);
            }
            s
        }
    }
}

/// a name related to `base`: the kind of pair that could collide
fn related_name(base: &str, rng: &mut Rng) -> String {
    let chars: Vec<char> = base.chars().collect();
    match rng.below(12) {
        0 | 1 | 2 => flip_ascii_case(base, rng),
        3 => base.to_uppercase(),
        4 => base.to_lowercase(),
        5 => {
            // what the result for some other name might look like: append a case code by hand
            let code: String = (0..1 + rng.below(2)).map(|_| *rng.pick(&['0', '1', '2', 'A', 'V', 'v'])).collect();
            format!("{base}^{code}")
        }
        6 => format!(".{base}"),
        7 => {
            // escape one character by hand
            if chars.is_empty() {
                "%".to_string()
            } else {
                let at = rng.below(chars.len());
                let mut s = String::new();
                for (i, c) in chars.iter().enumerate() {
                    if i == at {
                        s.push_str(&format!("%{:02X}", *c as u32));
                    } else {
                        s.push(*c);
                    }
                }
                s
            }
        }
        8 => {
            // UFO-style: underscore after capitals
            let mut s = String::new();
            for c in &chars {
                s.push(*c);
                if c.is_uppercase() {
                    s.push('_');
                }
            }
            s
        }
        9 => {
            let mut s = chars.clone();
            let at = rng.below(s.len() + 1);
            s.insert(at, *rng.pick(RESERVED));
            s.into_iter().collect()
        }
        10 => {
            // move/add a trailing dot, space or suffix-like tail
            format!("{base}{}", rng.pick(&[".", " ", ".yml", ".glyf", "^", "_"]))
        }
        _ => {
            if chars.is_empty() {
                base.to_string()
            } else {
                // drop one character
                let at = rng.below(chars.len());
                chars.iter().enumerate().filter(|(i, _)| *i != at).map(|(_, c)| *c).collect()
            }
        }
    }
}

pub fn name_batch(rng: &mut Rng) -> Vec<String> {
    let mut names: Vec<String> = vec![];
    let groups = 1 + rng.below(3);
    for _ in 0..groups {
        let base = random_name(rng);
        names.push(base.clone());
        for _ in 0..1 + rng.below(4) {
            let src = if rng.chance(1, 3) && !names.is_empty() { names[rng.below(names.len())].clone() } else { base.clone() };
            names.push(related_name(&src, rng));
        }
    }
    // distinct, order kept
    let mut seen = HashSet::new();
    names.retain(|n| seen.insert(n.clone()));
    names
}

fn run_names(args: &Args) {
    let seed = args.seed;
    crate::run_cases("c14names", args, move |i| {
        let mut rng = Rng::for_case(seed, "c14names", i);
        let names = name_batch(&mut rng);
        let suffix = if rng.chance(5, 6) {
            rng.pick(&[".yml", ".glyf", ".gvar", ".bin", ""]).to_string()
        } else {
            rng.pick(&["^1", ".Yml", "^", "_", ".a^B"]).to_string()
        };
        let outs: Vec<String> = names.iter().map(|n| string_to_filename(n, &suffix)).collect();
        // advisory only: would a file system that folds case with full Unicode tables merge two outputs?
        let folded: HashSet<String> = outs.iter().map(|o| o.to_lowercase()).collect();
        vec![
            S::k1("suffix", S::str(&suffix)),
            S::k1("names", S::list(names.iter().map(|n| S::str(n)))),
            S::kv("impl", [
                S::k1("out", S::list(outs.iter().map(|n| S::str(n)))),
                S::k1("unicode_fold_merged", S::usize(outs.len() - folded.len())),
            ]),
        ]
    });
}

// ------------------------------------------------------------------------------------------ paths

const FE_FIXED: &[&str] = &[
    "static_metadata", "global_metrics", "preliminary_glyph_order", "glyph_order", "preliminary_gdef_categories",
    "gdef_categories", "features", "kerning_locations", "color_palettes", "paint_graph",
];
const BE_FIXED: &[&str] = &[
    "features", "features_ast", "avar", "cmap", "colr", "cpal", "font", "fvar", "gasp", "glyf", "gpos", "gsub",
    "gdef", "gvar", "head", "hhea", "hmtx", "hvar", "meta", "vhea", "vmtx", "vvar", "gather_ir_kerning",
    "gather_be_kerning", "loca", "loca_format", "marks", "maxp", "mvar", "name", "os2", "post", "stat",
    "extra_fea_tables",
];

fn fe_fixed(w: &str) -> FeId {
    match w {
        "static_metadata" => FeId::StaticMetadata,
        "global_metrics" => FeId::GlobalMetrics,
        "preliminary_glyph_order" => FeId::PreliminaryGlyphOrder,
        "glyph_order" => FeId::GlyphOrder,
        "preliminary_gdef_categories" => FeId::PreliminaryGdefCategories,
        "gdef_categories" => FeId::GdefCategories,
        "features" => FeId::Features,
        "kerning_locations" => FeId::KerningLocations,
        "color_palettes" => FeId::ColorPalettes,
        "paint_graph" => FeId::PaintGraph,
        _ => unreachable!(),
    }
}

fn be_fixed(w: &str) -> BeId {
    match w {
        "features" => BeId::Features,
        "features_ast" => BeId::FeaturesAst,
        "avar" => BeId::Avar,
        "cmap" => BeId::Cmap,
        "colr" => BeId::Colr,
        "cpal" => BeId::Cpal,
        "font" => BeId::Font,
        "fvar" => BeId::Fvar,
        "gasp" => BeId::Gasp,
        "glyf" => BeId::Glyf,
        "gpos" => BeId::Gpos,
        "gsub" => BeId::Gsub,
        "gdef" => BeId::Gdef,
        "gvar" => BeId::Gvar,
        "head" => BeId::Head,
        "hhea" => BeId::Hhea,
        "hmtx" => BeId::Hmtx,
        "hvar" => BeId::Hvar,
        "meta" => BeId::Meta,
        "vhea" => BeId::Vhea,
        "vmtx" => BeId::Vmtx,
        "vvar" => BeId::Vvar,
        "gather_ir_kerning" => BeId::GatherIrKerning,
        "gather_be_kerning" => BeId::GatherBeKerning,
        "loca" => BeId::Loca,
        "loca_format" => BeId::LocaFormat,
        "marks" => BeId::Marks,
        "maxp" => BeId::Maxp,
        "mvar" => BeId::Mvar,
        "name" => BeId::Name,
        "os2" => BeId::Os2,
        "post" => BeId::Post,
        "stat" => BeId::Stat,
        "extra_fea_tables" => BeId::ExtraFeaTables,
        _ => unreachable!(),
    }
}

#[derive(Clone, PartialEq, Eq, Hash, PartialOrd, Ord)]
enum AnyId {
    Fe(FeId),
    Be(BeId),
}

const AXIS_TAGS: &[&[u8; 4]] = &[
    b"wght", b"wdth", b"opsz", b"slnt", b"ital", b"WGHT", b"GRAD", b"XTRA", b"loca", b"a/b ", b"a_b_", b"1.00",
    b"{0x0", b"-0.0", b"x   ",
];

fn coord(rng: &mut Rng) -> f64 {
    match rng.below(10) {
        0 => *rng.pick(&[-1.0, -0.5, 0.0, 0.5, 1.0]),
        1 => rng.range(-16384, 16384) as f64 / 16384.0, // F2Dot14 grid
        2 => {
            // user value on a 400..700 style axis: (u - lo) / (hi - lo)
            let lo = *rng.pick(&[100.0, 300.0, 400.0]);
            let hi = *rng.pick(&[700.0, 900.0, 1000.0]);
            let u = rng.range(lo as i64, hi as i64) as f64;
            (u - lo) / (hi - lo)
        }
        3 => rng.range(-100, 100) as f64 / 100.0, // two-decimal grid (as the nearest f64)
        4 => *rng.pick(&[0.125, 0.375, 0.625, 0.875, -0.125, 0.005, 0.015, 0.025, -0.005, 1.005, 0.995]), // ties and near-ties
        5 => *rng.pick(&[-0.001, -0.004, -0.005, -0.0049, 0.0049, 0.001, 1e-9, -1e-9]), // rounds to (-)0.00
        6 => *rng.pick(&[1.5, -2.0, 10.25, 99.995, 100.0, 123456.789, -1234.5, 1e15, 0.9999999]), // outside [-1, 1]
        7 => rng.range(-1000, 1000) as f64 / 1000.0,
        8 => rng.range(-300, 300) as f64 / 300.0,
        _ => (rng.next() % (1u64 << 53)) as f64 / (1u64 << 52) as f64 - 1.0,
    }
}

/// a value that differs from `x` but usually prints the same with two decimals
fn nearby(x: f64, rng: &mut Rng) -> f64 {
    let d = *rng.pick(&[1.0 / 16384.0, 0.001, 0.003, 1.0 / 300.0, 0.0049, 1e-12]);
    if rng.chance(1, 2) { x + d } else { x - d }
}

fn gen_ids(rng: &mut Rng) -> Vec<AnyId> {
    let mut ids: Vec<AnyId> = vec![];
    // glyph names: one batch serves Glyph / Anchor / GlyfFragment / GvarFragment
    let names = name_batch(rng);
    for n in &names {
        let g: GlyphName = n.as_str().into();
        for k in 0..4 {
            if rng.chance(1, 2) {
                ids.push(match k {
                    0 => AnyId::Fe(FeId::Glyph(g.clone())),
                    1 => AnyId::Fe(FeId::Anchor(g.clone())),
                    2 => AnyId::Be(BeId::GlyfFragment(g.clone())),
                    _ => AnyId::Be(BeId::GvarFragment(g.clone())),
                });
            }
        }
    }
    // kerning locations over one axis set (as in a real font), a few of them close together
    if rng.chance(3, 4) {
        let n_axes = if rng.chance(1, 8) { 0 } else { 1 + rng.below(3) };
        let mut tags: Vec<Tag> = vec![];
        while tags.len() < n_axes {
            let t = if rng.chance(1, 12) {
                // not reachable through Tag::from_str: raw bytes
                Tag::new(&[rng.below(256) as u8, b'a', rng.below(256) as u8, b'b'])
            } else {
                Tag::new(*rng.pick(AXIS_TAGS))
            };
            if !tags.contains(&t) {
                tags.push(t);
            }
        }
        let n_locs = 1 + rng.below(5);
        let mut locs: Vec<Vec<f64>> = vec![];
        for _ in 0..n_locs {
            let l: Vec<f64> = if !locs.is_empty() && rng.chance(1, 3) {
                let base = locs[rng.below(locs.len())].clone();
                let at = rng.below(base.len().max(1));
                base.iter().enumerate().map(|(i, c)| if i == at { nearby(*c, rng) } else { *c }).collect()
            } else {
                (0..n_axes).map(|_| coord(rng)).collect()
            };
            locs.push(l);
        }
        for l in locs {
            let loc: NormalizedLocation = tags
                .iter()
                .zip(&l)
                .map(|(t, c)| (*t, NormalizedCoord::new(if *c == 0.0 { 0.0 } else { *c })))
                .collect();
            ids.push(AnyId::Fe(FeId::KernInstance(loc)));
        }
    }
    for _ in 0..rng.below(4) {
        let seg = match rng.below(4) {
            0 => rng.below(10),
            1 => rng.below(1000),
            2 => usize::MAX - rng.below(3),
            _ => rng.next() as usize,
        };
        ids.push(AnyId::Be(BeId::KernFragment(seg)));
    }
    let all_fixed = rng.chance(1, 10);
    for w in FE_FIXED {
        if all_fixed || rng.chance(1, 5) {
            ids.push(AnyId::Fe(fe_fixed(w)));
        }
    }
    for w in BE_FIXED {
        if all_fixed || rng.chance(1, 8) {
            ids.push(AnyId::Be(be_fixed(w)));
        }
    }
    // distinct by the real Eq / Hash of the ids
    let mut seen = HashSet::new();
    ids.retain(|id| seen.insert(id.clone()));
    rng.shuffle(&mut ids);
    ids
}

fn s_loc(l: &NormalizedLocation) -> S {
    S::list(l.iter().map(|(t, c)| S::list([S::hex(&t.to_be_bytes()), S::f64(c.to_f64())])))
}

fn s_id(id: &AnyId) -> S {
    match id {
        AnyId::Fe(FeId::Glyph(n)) => S::list([S::atom("fe"), S::atom("glyph"), S::str(n.as_str())]),
        AnyId::Fe(FeId::Anchor(n)) => S::list([S::atom("fe"), S::atom("anchor"), S::str(n.as_str())]),
        AnyId::Fe(FeId::KernInstance(l)) => S::list([S::atom("fe"), S::atom("kern_instance"), s_loc(l)]),
        AnyId::Fe(other) => {
            let w = FE_FIXED.iter().find(|w| fe_fixed(w) == *other).expect("fixed FE id");
            S::list([S::atom("fe"), S::atom(*w)])
        }
        AnyId::Be(BeId::GlyfFragment(n)) => S::list([S::atom("be"), S::atom("glyf_fragment"), S::str(n.as_str())]),
        AnyId::Be(BeId::GvarFragment(n)) => S::list([S::atom("be"), S::atom("gvar_fragment"), S::str(n.as_str())]),
        AnyId::Be(BeId::KernFragment(k)) => S::list([S::atom("be"), S::atom("kern_fragment"), S::atom(k.to_string())]),
        AnyId::Be(other) => {
            let w = BE_FIXED.iter().find(|w| be_fixed(w) == *other).expect("fixed BE id");
            S::list([S::atom("be"), S::atom(*w)])
        }
    }
}

fn real_path(id: &AnyId) -> String {
    let dir = Path::new("");
    let p = match id {
        AnyId::Fe(id) => fontir::paths::Paths::target_file(dir, id),
        AnyId::Be(id) => fontbe::paths::Paths::target_file(dir, id),
    };
    p.to_str().expect("utf-8 path").to_string()
}

fn run_paths(args: &Args) {
    let seed = args.seed;
    crate::run_cases("c14paths", args, move |i| {
        let mut rng = Rng::for_case(seed, "c14paths", i);
        let ids = gen_ids(&mut rng);
        let paths: Vec<String> = ids.iter().map(real_path).collect();
        vec![
            S::k1("ids", S::list(ids.iter().map(s_id))),
            S::kv("impl", [S::k1("paths", S::list(paths.iter().map(|p| S::str(p))))]),
        ]
    });
}

pub fn run(stream: &str, args: &Args) {
    match stream {
        "c14names" => run_names(args),
        "c14paths" => run_paths(args),
        _ => unreachable!(),
    }
}

#[allow(dead_code)]
fn _unused(_: BTreeSet<u8>) {}
