//! C14: where intermediate state goes on disk, and whether writing it changes anything.
//!   c14names  fontdrasil::paths::string_to_filename on batches of related names
//!   c14paths  fontir / fontbe Paths::target_file on sets of distinct work ids
//!   c14emit   whole builds through fontc's library API with and without an IR directory
use crate::rng::Rng;
use crate::sexp::S;
use crate::Args;
use fontbe::orchestration::WorkId as BeId;
use fontdrasil::coords::{NormalizedCoord, NormalizedLocation};
use fontdrasil::paths::string_to_filename;
use fontdrasil::types::{GlyphName, Tag};
use fontir::orchestration::WorkId as FeId;
use std::collections::HashSet;
use std::path::Path;

// ------------------------------------------------------------------------------------------ names

const RESERVED: &[char] = &[
    '\0', '\x01', '\x1f', '\x7f', '^', '>', '|', '[', '?', '+', '\\', '"', ':', '/', '<', '%', ']', '*',
];
const DEVICES: &[&str] = &[
    "CON", "PRN", "AUX", "CLOCK$", "NUL", "COM1", "COM2", "COM3", "COM4", "COM5", "COM9", "LPT1", "LPT2",
    "LPT3", "LPT4", "LPT9", "CONIN$", "con", "nul", "Nul", "com1", "lpt1", "clock$", "aux", "prn",
];
const WORDS: &[&str] = &[
    "a", "A", "aa", "Aa", "aA", "AA", "a_a", "A_", "_", "__", "space", "Aacute", "aacute", "AE", "ae", "Ae",
    "f_f_i", "F_F_I", "uni0041", "uni0041.ss01", "A.sc", "a.sc", ".notdef", ".null", ".", "..", "a.", "a ",
    " a", "glyph00001", "T_h", "Th", "t_h", "IJ", "ij", "Ij", "iJ", "OE", "oe", "Germandbls", "germandbls",
    "a^1", "A^1", "a^0", "con^0", "%2E", "%2Enotdef", "a%41", "a^", "^", "^1", "%", "%25", "A_a_", "a.yml",
    "a.yml.yml", "kern_wght_1.00", "static_metadata", "glyph_order",
];
const NONASCII: &[&str] = &[
    "\u{c9}", "\u{e9}", "e\u{301}", "E\u{301}", "\u{df}", "\u{1e9e}", "\u{3a9}", "\u{3c9}", "\u{2126}", "\u{130}",
    "\u{131}", "i", "I", "\u{4e00}", "\u{1f600}", "\u{1d400}", "\u{ff21}", "\u{ff41}", "\u{10ffff}", "\u{80}",
    "\u{7ff}", "\u{800}", "\u{ffff}", "\u{10000}", "\u{410}", "\u{430}",
];

fn flip_ascii_case(s: &str, rng: &mut Rng) -> String {
    s.chars()
        .map(|c| {
            if c.is_ascii_alphabetic() && rng.chance(1, 2) {
                if c.is_ascii_uppercase() { c.to_ascii_lowercase() } else { c.to_ascii_uppercase() }
            } else {
                c
            }
        })
        .collect()
}

fn random_name(rng: &mut Rng) -> String {
    match rng.below(9) {
        0 => rng.pick(DEVICES).to_string(),
        1 | 2 => rng.pick(WORDS).to_string(),
        3 => {
            // letters only, random case, length around chunk boundaries (5, 10, 15 bytes)
            let len = *rng.pick(&[1usize, 2, 4, 5, 6, 9, 10, 11, 15, 16, 26]);
            (0..len).map(|_| (if rng.chance(1, 2) { b'a' } else { b'A' } + rng.below(26) as u8) as char).collect()
        }
        4 => {
            let mut s = String::new();
            for _ in 0..1 + rng.below(4) {
                s.push_str(*rng.pick(NONASCII));
                if rng.chance(1, 2) {
                    s.push_str(*rng.pick(WORDS));
                }
            }
            s
        }
        5 => {
            // arbitrary scalar values
            let len = rng.below(7);
            (0..len)
                .map(|_| loop {
                    let v = match rng.below(4) {
                        0 => rng.below(0x80) as u32,
                        1 => rng.below(0x800) as u32,
                        2 => rng.below(0x10000) as u32,
                        _ => rng.below(0x110000) as u32,
                    };
                    if let Some(c) = char::from_u32(v) {
                        break c;
                    }
                })
                .collect()
        }
        6 => {
            // reserved characters sprinkled into a word
            let mut s: Vec<char> = rng.pick(WORDS).chars().collect();
            for _ in 0..1 + rng.below(3) {
                let at = rng.below(s.len() + 1);
                s.insert(at, *rng.pick(RESERVED));
            }
            s.into_iter().collect()
        }
        7 => String::new(),
        _ => {
            // very long
            let unit = rng.pick(WORDS).to_string() + *rng.pick(NONASCII);
            let n = 20 + rng.below(200);
            let mut s = String::new();
            while s.chars().count() < n {
                s.push_str(&unit);
            }
            s
        }
    }
}

/// a name related to `base`: the kind of pair that could collide
fn related_name(base: &str, rng: &mut Rng) -> String {
    let chars: Vec<char> = base.chars().collect();
    match rng.below(12) {
        0 | 1 | 2 => flip_ascii_case(base, rng),
        3 => base.to_uppercase(),
        4 => base.to_lowercase(),
        5 => {
            // what the result for some other name might look like: append a case code by hand
            let code: String = (0..1 + rng.below(2)).map(|_| *rng.pick(&['0', '1', '2', 'A', 'V', 'v'])).collect();
            format!("{base}^{code}")
        }
        6 => format!(".{base}"),
        7 => {
            // escape one character by hand
            if chars.is_empty() {
                "%".to_string()
            } else {
                let at = rng.below(chars.len());
                let mut s = String::new();
                for (i, c) in chars.iter().enumerate() {
                    if i == at {
                        s.push_str(&format!("%{:02X}", *c as u32));
                    } else {
                        s.push(*c);
                    }
                }
                s
            }
        }
        8 => {
            // UFO-style: underscore after capitals
            let mut s = String::new();
            for c in &chars {
                s.push(*c);
                if c.is_uppercase() {
                    s.push('_');
                }
            }
            s
        }
        9 => {
            let mut s = chars.clone();
            let at = rng.below(s.len() + 1);
            s.insert(at, *rng.pick(RESERVED));
            s.into_iter().collect()
        }
        10 => {
            // move/add a trailing dot, space or suffix-like tail
            format!("{base}{}", rng.pick(&[".", " ", ".yml", ".glyf", "^", "_"]))
        }
        _ => {
            if chars.is_empty() {
                base.to_string()
            } else {
                // drop one character
                let at = rng.below(chars.len());
                chars.iter().enumerate().filter(|(i, _)| *i != at).map(|(_, c)| *c).collect()
            }
        }
    }
}

pub fn name_batch(rng: &mut Rng) -> Vec<String> {
    let mut names: Vec<String> = vec![];
    let groups = 1 + rng.below(3);
    for _ in 0..groups {
        let base = random_name(rng);
        names.push(base.clone());
        for _ in 0..1 + rng.below(4) {
            let src = if rng.chance(1, 3) && !names.is_empty() { names[rng.below(names.len())].clone() } else { base.clone() };
            names.push(related_name(&src, rng));
        }
    }
    // distinct, order kept
    let mut seen = HashSet::new();
    names.retain(|n| seen.insert(n.clone()));
    names
}

fn run_names(args: &Args) {
    let seed = args.seed;
    crate::run_cases("c14names", args, move |i| {
        let mut rng = Rng::for_case(seed, "c14names", i);
        let names = name_batch(&mut rng);
        let suffix = if rng.chance(5, 6) {
            rng.pick(&[".yml", ".glyf", ".gvar", ".bin", ""]).to_string()
        } else {
            rng.pick(&["^1", ".Yml", "^", "_", ".a^B"]).to_string()
        };
        let outs: Vec<String> = names.iter().map(|n| string_to_filename(n, &suffix)).collect();
        // advisory only: would a file system that folds case with full Unicode tables merge two outputs?
        let folded: HashSet<String> = outs.iter().map(|o| o.to_lowercase()).collect();
        vec![
            S::k1("suffix", S::str(&suffix)),
            S::k1("names", S::list(names.iter().map(|n| S::str(n)))),
            S::kv("impl", [
                S::k1("out", S::list(outs.iter().map(|n| S::str(n)))),
                S::k1("unicode_fold_merged", S::usize(outs.len() - folded.len())),
            ]),
        ]
    });
}

// ------------------------------------------------------------------------------------------ paths

const FE_FIXED: &[&str] = &[
    "static_metadata", "global_metrics", "preliminary_glyph_order", "glyph_order", "preliminary_gdef_categories",
    "gdef_categories", "features", "kerning_locations", "color_palettes", "paint_graph",
];
const BE_FIXED: &[&str] = &[
    "features", "features_ast", "avar", "cmap", "colr", "cpal", "font", "fvar", "gasp", "glyf", "gpos", "gsub",
    "gdef", "gvar", "head", "hhea", "hmtx", "hvar", "meta", "vhea", "vmtx", "vvar", "gather_ir_kerning",
    "gather_be_kerning", "loca", "loca_format", "marks", "maxp", "mvar", "name", "os2", "post", "stat",
    "extra_fea_tables",
];

fn fe_fixed(w: &str) -> FeId {
    match w {
        "static_metadata" => FeId::StaticMetadata,
        "global_metrics" => FeId::GlobalMetrics,
        "preliminary_glyph_order" => FeId::PreliminaryGlyphOrder,
        "glyph_order" => FeId::GlyphOrder,
        "preliminary_gdef_categories" => FeId::PreliminaryGdefCategories,
        "gdef_categories" => FeId::GdefCategories,
        "features" => FeId::Features,
        "kerning_locations" => FeId::KerningLocations,
        "color_palettes" => FeId::ColorPalettes,
        "paint_graph" => FeId::PaintGraph,
        _ => unreachable!(),
    }
}

fn be_fixed(w: &str) -> BeId {
    match w {
        "features" => BeId::Features,
        "features_ast" => BeId::FeaturesAst,
        "avar" => BeId::Avar,
        "cmap" => BeId::Cmap,
        "colr" => BeId::Colr,
        "cpal" => BeId::Cpal,
        "font" => BeId::Font,
        "fvar" => BeId::Fvar,
        "gasp" => BeId::Gasp,
        "glyf" => BeId::Glyf,
        "gpos" => BeId::Gpos,
        "gsub" => BeId::Gsub,
        "gdef" => BeId::Gdef,
        "gvar" => BeId::Gvar,
        "head" => BeId::Head,
        "hhea" => BeId::Hhea,
        "hmtx" => BeId::Hmtx,
        "hvar" => BeId::Hvar,
        "meta" => BeId::Meta,
        "vhea" => BeId::Vhea,
        "vmtx" => BeId::Vmtx,
        "vvar" => BeId::Vvar,
        "gather_ir_kerning" => BeId::GatherIrKerning,
        "gather_be_kerning" => BeId::GatherBeKerning,
        "loca" => BeId::Loca,
        "loca_format" => BeId::LocaFormat,
        "marks" => BeId::Marks,
        "maxp" => BeId::Maxp,
        "mvar" => BeId::Mvar,
        "name" => BeId::Name,
        "os2" => BeId::Os2,
        "post" => BeId::Post,
        "stat" => BeId::Stat,
        "extra_fea_tables" => BeId::ExtraFeaTables,
        _ => unreachable!(),
    }
}

#[derive(Clone, PartialEq, Eq, Hash, PartialOrd, Ord)]
enum AnyId {
    Fe(FeId),
    Be(BeId),
}

const AXIS_TAGS: &[&[u8; 4]] = &[
    b"wght", b"wdth", b"opsz", b"slnt", b"ital", b"WGHT", b"GRAD", b"XTRA", b"loca", b"a/b ", b"a_b_", b"1.00",
    b"{0x0", b"-0.0", b"x   ",
];

fn coord(rng: &mut Rng) -> f64 {
    match rng.below(10) {
        0 => *rng.pick(&[-1.0, -0.5, 0.0, -0.0, 0.5, 1.0]),
        1 => rng.range(-16384, 16384) as f64 / 16384.0, // F2Dot14 grid
        2 => {
            // user value on a 400..700 style axis: (u - lo) / (hi - lo)
            let lo = *rng.pick(&[100.0, 300.0, 400.0]);
            let hi = *rng.pick(&[700.0, 900.0, 1000.0]);
            let u = rng.range(lo as i64, hi as i64) as f64;
            (u - lo) / (hi - lo)
        }
        3 => rng.range(-100, 100) as f64 / 100.0, // two-decimal grid (as the nearest f64)
        4 => *rng.pick(&[0.125, 0.375, 0.625, 0.875, -0.125, 0.005, 0.015, 0.025, -0.005, 1.005, 0.995]), // ties and near-ties
        5 => *rng.pick(&[-0.001, -0.004, -0.005, -0.0049, 0.0049, 0.001, 1e-9, -1e-9]), // rounds to (-)0.00
        6 => *rng.pick(&[1.5, -2.0, 10.25, 99.995, 100.0, 123456.789, -1234.5, 1e15, 0.9999999]), // outside [-1, 1]
        7 => rng.range(-1000, 1000) as f64 / 1000.0,
        8 => rng.range(-300, 300) as f64 / 300.0,
        _ => (rng.next() % (1u64 << 53)) as f64 / (1u64 << 52) as f64 - 1.0,
    }
}

/// a value that differs from `x` but usually prints the same with two decimals
fn nearby(x: f64, rng: &mut Rng) -> f64 {
    let d = *rng.pick(&[1.0 / 16384.0, 0.001, 0.003, 1.0 / 300.0, 0.0049, 1e-12]);
    if rng.chance(1, 2) { x + d } else { x - d }
}

fn gen_ids(rng: &mut Rng) -> Vec<AnyId> {
    let mut ids: Vec<AnyId> = vec![];
    // glyph names: one batch serves Glyph / Anchor / GlyfFragment / GvarFragment
    let names = name_batch(rng);
    for n in &names {
        let g: GlyphName = n.as_str().into();
        for k in 0..4 {
            if rng.chance(1, 2) {
                ids.push(match k {
                    0 => AnyId::Fe(FeId::Glyph(g.clone())),
                    1 => AnyId::Fe(FeId::Anchor(g.clone())),
                    2 => AnyId::Be(BeId::GlyfFragment(g.clone())),
                    _ => AnyId::Be(BeId::GvarFragment(g.clone())),
                });
            }
        }
    }
    // kerning locations over one axis set (as in a real font), a few of them close together
    if rng.chance(3, 4) {
        let n_axes = if rng.chance(1, 8) { 0 } else { 1 + rng.below(3) };
        let mut tags: Vec<Tag> = vec![];
        while tags.len() < n_axes {
            let t = if rng.chance(1, 12) {
                // not reachable through Tag::from_str: raw bytes
                Tag::new(&[rng.below(256) as u8, b'a', rng.below(256) as u8, b'b'])
            } else {
                // mostly everyday tags, sometimes the odd (but legal) ones
                Tag::new(if rng.chance(5, 6) { AXIS_TAGS[rng.below(9)] } else { *rng.pick(AXIS_TAGS) })
            };
            if !tags.contains(&t) {
                tags.push(t);
            }
        }
        let n_locs = 1 + rng.below(5);
        let mut locs: Vec<Vec<f64>> = vec![];
        for _ in 0..n_locs {
            let l: Vec<f64> = if !locs.is_empty() && rng.chance(1, 6) {
                let base = locs[rng.below(locs.len())].clone();
                let at = rng.below(base.len().max(1));
                base.iter().enumerate().map(|(i, c)| if i == at { nearby(*c, rng) } else { *c }).collect()
            } else {
                (0..n_axes).map(|_| coord(rng)).collect()
            };
            locs.push(l);
        }
        for l in locs {
            let loc: NormalizedLocation = tags
                .iter()
                .zip(&l)
                .map(|(t, c)| (*t, NormalizedCoord::new(*c)))
                .collect();
            ids.push(AnyId::Fe(FeId::KernInstance(loc)));
        }
    }
    for _ in 0..rng.below(4) {
        let seg = match rng.below(4) {
            0 => rng.below(10),
            1 => rng.below(1000),
            2 => usize::MAX - rng.below(3),
            _ => rng.next() as usize,
        };
        ids.push(AnyId::Be(BeId::KernFragment(seg)));
    }
    let all_fixed = rng.chance(1, 10);
    for w in FE_FIXED {
        if all_fixed || rng.chance(1, 5) {
            ids.push(AnyId::Fe(fe_fixed(w)));
        }
    }
    for w in BE_FIXED {
        if all_fixed || rng.chance(1, 8) {
            ids.push(AnyId::Be(be_fixed(w)));
        }
    }
    // distinct by the real Eq / Hash of the ids
    let mut seen = HashSet::new();
    ids.retain(|id| seen.insert(id.clone()));
    rng.shuffle(&mut ids);
    ids
}

/// the text f64's `Display` gives a coordinate (−0.0 and 0.0 are one coordinate value: both cross as 0)
fn display_text(v: f64) -> String {
    if v == 0.0 { format!("{}", 0.0f64) } else { format!("{v}") }
}

fn s_loc(l: &NormalizedLocation) -> S {
    S::list(l.iter().map(|(t, c)| S::list([S::hex(&t.to_be_bytes()), S::f64(c.to_f64()), S::str(&display_text(c.to_f64()))])))
}

fn s_id(id: &AnyId) -> S {
    match id {
        AnyId::Fe(FeId::Glyph(n)) => S::list([S::atom("fe"), S::atom("glyph"), S::str(n.as_str())]),
        AnyId::Fe(FeId::Anchor(n)) => S::list([S::atom("fe"), S::atom("anchor"), S::str(n.as_str())]),
        AnyId::Fe(FeId::KernInstance(l)) => S::list([S::atom("fe"), S::atom("kern_instance"), s_loc(l)]),
        AnyId::Fe(other) => {
            let w = FE_FIXED.iter().find(|w| fe_fixed(w) == *other).expect("fixed FE id");
            S::list([S::atom("fe"), S::atom(*w)])
        }
        AnyId::Be(BeId::GlyfFragment(n)) => S::list([S::atom("be"), S::atom("glyf_fragment"), S::str(n.as_str())]),
        AnyId::Be(BeId::GvarFragment(n)) => S::list([S::atom("be"), S::atom("gvar_fragment"), S::str(n.as_str())]),
        AnyId::Be(BeId::KernFragment(k)) => S::list([S::atom("be"), S::atom("kern_fragment"), S::atom(k.to_string())]),
        AnyId::Be(other) => {
            let w = BE_FIXED.iter().find(|w| be_fixed(w) == *other).expect("fixed BE id");
            S::list([S::atom("be"), S::atom(*w)])
        }
    }
}

fn real_path(id: &AnyId) -> String {
    let dir = Path::new("");
    let p = match id {
        AnyId::Fe(id) => fontir::paths::Paths::target_file(dir, id),
        AnyId::Be(id) => fontbe::paths::Paths::target_file(dir, id),
    };
    p.to_str().expect("utf-8 path").to_string()
}

fn run_paths(args: &Args) {
    let seed = args.seed;
    crate::run_cases("c14paths", args, move |i| {
        let mut rng = Rng::for_case(seed, "c14paths", i);
        let ids = if i == 0 {
            // the confirmed witness: kerning masters at wght 699 and 700 on a 400..700 axis
            let at = |u: f64| -> AnyId {
                let loc: NormalizedLocation =
                    [(Tag::new(b"wght"), NormalizedCoord::new((u - 400.0) / (700.0 - 400.0)))].into_iter().collect();
                AnyId::Fe(FeId::KernInstance(loc))
            };
            vec![at(699.0), at(700.0), at(400.0)]
        } else {
            gen_ids(&mut rng)
        };
        let paths: Vec<String> = ids.iter().map(real_path).collect();
        vec![
            S::k1("ids", S::list(ids.iter().map(s_id))),
            S::kv("impl", [S::k1("paths", S::list(paths.iter().map(|p| S::str(p))))]),
        ]
    });
}

// ------------------------------------------------------------------------------------------- emit

use fontbe::orchestration::{AnyWorkId, Context as BeContext, ExtraFeaTables};
use fontir::orchestration::{Context as FeContext, Persistable};
use std::path::PathBuf;
use std::sync::Arc;

const TESTDATA: &str = "/repo/resources/testdata";

fn fnv(bytes: &[u8]) -> String {
    let mut h: u64 = 0xcbf29ce484222325;
    for b in bytes {
        h ^= *b as u64;
        h = h.wrapping_mul(0x100000001b3);
    }
    format!("h{h:016x}n{}", bytes.len())
}

fn copy_dir(from: &Path, to: &Path) {
    std::fs::create_dir_all(to).unwrap();
    for e in std::fs::read_dir(from).unwrap() {
        let e = e.unwrap();
        let dst = to.join(e.file_name());
        if e.file_type().unwrap().is_dir() {
            copy_dir(&e.path(), &dst);
        } else {
            std::fs::copy(e.path(), &dst).unwrap();
        }
    }
}

/// every source of the test corpus that fontc accepts by extension, sorted
fn corpus_sources() -> Vec<PathBuf> {
    let mut out = vec![];
    for sub in ["", "glyphs3", "glyphs2", "dspace_rules"] {
        let dir = Path::new(TESTDATA).join(sub);
        let Ok(rd) = std::fs::read_dir(&dir) else { continue };
        let mut here: Vec<PathBuf> = rd
            .filter_map(|e| e.ok().map(|e| e.path()))
            .filter(|p| matches!(p.extension().and_then(|e| e.to_str()), Some("designspace" | "glyphs" | "glyphspackage" | "ufo")))
            .collect();
        here.sort();
        out.extend(here);
    }
    out
}

/// The confirmed defect as a source: wght_var with a third kerning master at 699 on the 400-700 axis.
fn close_masters_source(dir: &Path) -> PathBuf {
    let td = Path::new(TESTDATA);
    copy_dir(&td.join("WghtVar-Regular.ufo"), &dir.join("WghtVar-Regular.ufo"));
    copy_dir(&td.join("WghtVar-Bold.ufo"), &dir.join("WghtVar-Bold.ufo"));
    copy_dir(&td.join("WghtVar-Bold.ufo"), &dir.join("WghtVar-Bold699.ufo"));
    let kern = dir.join("WghtVar-Bold699.ufo/kerning.plist");
    let text = std::fs::read_to_string(&kern).unwrap().replace("-200", "-150");
    std::fs::write(&kern, text).unwrap();
    let ds = r#"<?xml version='1.0' encoding='UTF-8'?>
<designspace format="4.1">
  <axes>
    <axis tag="wght" name="Weight" minimum="400" maximum="700" default="400"/>
  </axes>
  <sources>
    <source filename="WghtVar-Regular.ufo" name="Wght Var Regular" familyname="Wght Var" stylename="Regular">
      <location><dimension name="Weight" xvalue="400"/></location>
    </source>
    <source filename="WghtVar-Bold699.ufo" name="Wght Var Bold 699" familyname="Wght Var" stylename="Bold699">
      <location><dimension name="Weight" xvalue="699"/></location>
    </source>
    <source filename="WghtVar-Bold.ufo" name="Wght Var Bold" familyname="Wght Var" stylename="Bold">
      <location><dimension name="Weight" xvalue="700"/></location>
    </source>
  </sources>
</designspace>
"#;
    let p = dir.join("close_masters.designspace");
    std::fs::write(&p, ds).unwrap();
    p
}

/// An axis whose (legal) tag contains a path separator: the tag goes into the kerning file name verbatim.
fn slash_tag_source(dir: &Path) -> PathBuf {
    let td = Path::new(TESTDATA);
    copy_dir(&td.join("WghtVar-Regular.ufo"), &dir.join("WghtVar-Regular.ufo"));
    copy_dir(&td.join("WghtVar-Bold.ufo"), &dir.join("WghtVar-Bold.ufo"));
    let ds = r#"<?xml version='1.0' encoding='UTF-8'?>
<designspace format="4.1">
  <axes>
    <axis tag="a/b" name="Weight" minimum="400" maximum="700" default="400"/>
  </axes>
  <sources>
    <source filename="WghtVar-Regular.ufo" name="Wght Var Regular" familyname="Wght Var" stylename="Regular">
      <location><dimension name="Weight" xvalue="400"/></location>
    </source>
    <source filename="WghtVar-Bold.ufo" name="Wght Var Bold" familyname="Wght Var" stylename="Bold">
      <location><dimension name="Weight" xvalue="700"/></location>
    </source>
  </sources>
</designspace>
"#;
    let p = dir.join("slash_tag.designspace");
    std::fs::write(&p, ds).unwrap();
    p
}

const DIRECTED: usize = 2;

fn status_of<T>(r: std::thread::Result<Result<T, fontc::Error>>) -> (String, Option<T>) {
    let (w, _, v) = status_msg_of(r);
    (w, v)
}

fn status_msg_of<T>(r: std::thread::Result<Result<T, fontc::Error>>) -> (String, String, Option<T>) {
    match r {
        Ok(Ok(v)) => ("ok".into(), String::new(), Some(v)),
        Ok(Err(e)) => {
            let d = format!("{e:?}");
            let word: String = d.chars().take_while(|c| c.is_ascii_alphanumeric()).collect();
            (format!("err:{word}"), d, None)
        }
        Err(_) => ("panic".into(), String::new(), None),
    }
}

#[derive(Default)]
struct Audit {
    /// (id description, item kind, path, read-back equals memory). The kind names the context field
    /// (`fe.glyph`, `be.gpos`, …) and, where a recorded defect has a recognisable signature in the
    /// in-memory value, that signature (`be.post.empty-string-data`, `be.fvar.psname-ffff`,
    /// `be.glyf_fragment.empty`).
    items: Vec<(String, String, PathBuf, Option<bool>)>,
}

impl Audit {
    fn item<T: Persistable + PartialEq>(&mut self, desc: String, kind: &str, path: PathBuf, mem: Option<Arc<T>>) {
        self.item_with(desc, kind, path, mem, |a, b| a == b)
    }
    /// write-fonts tables: `==`, or the same bytes when serialised again (their `PartialEq` also looks at
    /// representation details that do not survive, and do not matter to, serialisation)
    fn table<T>(&mut self, desc: String, kind: &str, path: PathBuf, mem: Option<Arc<T>>)
    where
        T: Persistable + PartialEq + write_fonts::FontWrite + write_fonts::validate::Validate,
    {
        self.item_with(desc, kind, path, mem, |a, b| {
            a == b || matches!((write_fonts::dump_table(a), write_fonts::dump_table(b)), (Ok(x), Ok(y)) if x == y)
        })
    }
    fn item_with<T: Persistable>(
        &mut self,
        desc: String,
        kind: &str,
        path: PathBuf,
        mem: Option<Arc<T>>,
        eq: impl Fn(&T, &T) -> bool,
    ) {
        let Some(mem) = mem else { return }; // never produced in this build
        let same = match std::fs::File::open(&path) {
            Ok(mut f) => {
                let ok = std::panic::catch_unwind(std::panic::AssertUnwindSafe(|| {
                    let back = T::read(&mut f);
                    eq(&back, &mem)
                }));
                Some(ok.unwrap_or(false))
            }
            Err(_) => None,
        };
        self.items.push((desc, kind.to_string(), path, same));
    }
}

/// every item that is in memory after the build, with the file it should be in
fn audit(dir: &Path, fe: &FeContext, be: &BeContext) -> Audit {
    use fontbe::paths::Paths as BeP;
    use fontir::paths::Paths as FeP;
    let mut a = Audit::default();
    macro_rules! fe_item {
        ($field:ident, $id:expr) => {
            a.item(format!("fe.{}", stringify!($field)), concat!("fe.", stringify!($field)), FeP::target_file(dir, &$id), fe.$field.try_get());
        };
    }
    fe_item!(static_metadata, FeId::StaticMetadata);
    fe_item!(preliminary_glyph_order, FeId::PreliminaryGlyphOrder);
    fe_item!(glyph_order, FeId::GlyphOrder);
    fe_item!(preliminary_gdef_categories, FeId::PreliminaryGdefCategories);
    fe_item!(gdef_categories, FeId::GdefCategories);
    fe_item!(global_metrics, FeId::GlobalMetrics);
    fe_item!(features, FeId::Features);
    fe_item!(kerning_locations, FeId::KerningLocations);
    fe_item!(colors, FeId::ColorPalettes);
    fe_item!(paint_graph, FeId::PaintGraph);
    for (id, v) in fe.glyphs.all() {
        a.item(format!("{id:?}"), "fe.glyph", FeP::target_file(dir, &id), Some(v));
    }
    for (id, v) in fe.anchors.all() {
        a.item(format!("{id:?}"), "fe.anchor", FeP::target_file(dir, &id), Some(v));
    }
    for (id, v) in fe.kerning_at.all() {
        a.item(format!("{id:?}"), "fe.kern_instance", FeP::target_file(dir, &id), Some(v));
    }
    macro_rules! be_table {
        ($field:ident, $id:expr, $kind:expr) => {
            a.table(format!("be.{}", stringify!($field)), $kind, BeP::target_file(dir, &$id), be.$field.try_get());
        };
    }
    macro_rules! be_item {
        ($field:ident, $id:expr) => {
            a.item(format!("be.{}", stringify!($field)), concat!("be.", stringify!($field)), BeP::target_file(dir, &$id), be.$field.try_get());
        };
    }
    be_item!(avar, BeId::Avar);
    be_table!(cmap, BeId::Cmap, concat!("be.", stringify!(cmap)));
    be_table!(colr, BeId::Colr, concat!("be.", stringify!(colr)));
    be_table!(cpal, BeId::Cpal, concat!("be.", stringify!(cpal)));
    // signature of the recorded fvar defect: some, not all, instances carry the "no name" marker 0xFFFF
    let fvar_kind = match be.fvar.try_get() {
        Some(f) if f.axis_instance_arrays.instances.iter().any(|i| i.post_script_name_id.map(|n| n.to_u16()) == Some(0xFFFF)) => {
            "be.fvar.psname-ffff"
        }
        _ => "be.fvar",
    };
    be_table!(fvar, BeId::Fvar, fvar_kind);
    be_table!(gasp, BeId::Gasp, concat!("be.", stringify!(gasp)));
    be_item!(glyf, BeId::Glyf);
    be_table!(gsub, BeId::Gsub, concat!("be.", stringify!(gsub)));
    be_table!(gpos, BeId::Gpos, concat!("be.", stringify!(gpos)));
    be_table!(gdef, BeId::Gdef, concat!("be.", stringify!(gdef)));
    be_item!(gvar, BeId::Gvar);
    // signature of the recorded post defect: version 2 with an empty string pool
    let post_kind = match be.post.try_get() {
        Some(p) if p.string_data.as_ref().is_some_and(|d| d.is_empty()) => "be.post.empty-string-data",
        _ => "be.post",
    };
    be_table!(post, BeId::Post, post_kind);
    be_table!(meta, BeId::Meta, concat!("be.", stringify!(meta)));
    be_item!(loca, BeId::Loca);
    be_item!(loca_format, BeId::LocaFormat);
    be_table!(maxp, BeId::Maxp, concat!("be.", stringify!(maxp)));
    be_table!(name, BeId::Name, concat!("be.", stringify!(name)));
    be_table!(os2, BeId::Os2, concat!("be.", stringify!(os2)));
    be_table!(head, BeId::Head, concat!("be.", stringify!(head)));
    be_table!(hhea, BeId::Hhea, concat!("be.", stringify!(hhea)));
    be_item!(hmtx, BeId::Hmtx);
    be_table!(hvar, BeId::Hvar, concat!("be.", stringify!(hvar)));
    be_table!(mvar, BeId::Mvar, concat!("be.", stringify!(mvar)));
    be_table!(vhea, BeId::Vhea, concat!("be.", stringify!(vhea)));
    be_item!(vmtx, BeId::Vmtx);
    be_table!(vvar, BeId::Vvar, concat!("be.", stringify!(vvar)));
    be_item!(all_kerning_pairs, BeId::GatherIrKerning);
    be_item!(fea_ast, BeId::FeaturesAst);
    be_item!(fea_rs_kerns, BeId::GatherBeKerning);
    be_item!(fea_rs_marks, BeId::Marks);
    be_table!(stat, BeId::Stat, concat!("be.", stringify!(stat)));
    be_item!(font, BeId::Font);
    // `os2_builder` is documented as session-only ("Not serialized")
    a.item_with(
        "be.extra_fea_tables".into(),
        "be.extra_fea_tables",
        BeP::target_file(dir, &BeId::ExtraFeaTables),
        be.extra_fea_tables.try_get(),
        |x: &ExtraFeaTables, y: &ExtraFeaTables| {
            x.name == y.name && x.head == y.head && x.hhea == y.hhea && x.vhea == y.vhea && x.os2 == y.os2
                && x.base == y.base && x.stat == y.stat && x.debg == y.debg
        },
    );
    for (id, v) in be.glyphs.all() {
        if let AnyWorkId::Be(bid) = &id {
            // no PartialEq: compare name and binary glyph
            let kind = if matches!(v.data, write_fonts::tables::glyf::Glyph::Empty) { "be.glyf_fragment.empty" } else { "be.glyf_fragment" };
            a.item_with(format!("{id:?}"), kind, BeP::target_file(dir, bid), Some(v), |x: &fontbe::orchestration::Glyph, y| {
                x.name == y.name && x.to_bytes() == y.to_bytes()
            });
        }
    }
    for (id, v) in be.gvar_fragments.all() {
        if let AnyWorkId::Be(bid) = &id {
            // no PartialEq on the struct: compare its two fields
            a.item_with(format!("{id:?}"), "be.gvar_fragment", BeP::target_file(dir, bid), Some(v), |x: &fontbe::orchestration::GvarFragment, y| {
                x.glyph_name == y.glyph_name && x.deltas == y.deltas
            });
        }
    }
    for (id, v) in be.kern_fragments.all() {
        if let AnyWorkId::Be(bid) = &id {
            a.item(format!("{id:?}"), "be.kern_fragment", BeP::target_file(dir, bid), Some(v));
        }
    }
    a
}

fn walk_files(dir: &Path, out: &mut Vec<PathBuf>) {
    if let Ok(rd) = std::fs::read_dir(dir) {
        for e in rd.flatten() {
            let p = e.path();
            if p.is_dir() {
                walk_files(&p, out);
            } else {
                out.push(p);
            }
        }
    }
}

fn emit_case(i: usize, sources: &[PathBuf]) -> Vec<S> {
    let scratch = tempfile::tempdir().expect("tempdir");
    let source_path = match i {
        0 => close_masters_source(&scratch.path().join("src")),
        1 => slash_tag_source(&scratch.path().join("src")),
        _ => sources[(i - DIRECTED) % sources.len()].clone(),
    };
    // every other pass over the corpus builds with different flags
    let pass = if i < DIRECTED { 0 } else { (i - DIRECTED) / sources.len() };
    let flags = match pass % 3 {
        0 => fontc::Flags::default(),
        1 => fontc::Flags::default() | fontc::Flags::FLATTEN_COMPONENTS | fontc::Flags::KEEP_DIRECTION,
        _ => fontc::Flags::DECOMPOSE_COMPONENTS | fontc::Flags::PROPAGATE_ANCHORS,
    };
    let label = match i {
        0 => "directed:close_masters.designspace".to_string(),
        1 => "directed:slash_tag.designspace".to_string(),
        _ => source_path.strip_prefix(TESTDATA).unwrap_or(&source_path).to_string_lossy().to_string(),
    };
    let mut fields = vec![S::k1("source", S::str(&label)), S::k1("flags", S::usize(flags.bits() as usize))];

    let plain = std::panic::catch_unwind(|| {
        let source = fontc::Input::new(&source_path)?.create_source()?;
        fontc::generate_font(source, fontc::Options { flags, ..Default::default() })
    });
    let (plain_status, plain_bytes) = status_of(plain);

    let ir_dir = scratch.path().join("build");
    // every fourth case: the build directory is not fresh — another source was built into it (with IR) before
    let reused = i >= DIRECTED && i % 4 == 3 && sources.len() > 1;
    if reused {
        let other = sources[(i - DIRECTED + 7) % sources.len()].clone();
        let other = if other == source_path { sources[(i - DIRECTED + 8) % sources.len()].clone() } else { other };
        let _ = std::panic::catch_unwind(|| {
            let source = fontc::Input::new(&other)?.create_source()?;
            let options = fontc::Options { flags, ir_dir: Some(ir_dir.clone()), ..Default::default() };
            fontc::verif_generate_font_contexts(source, &options).map(|_| ())
        });
    }
    fields.push(S::k1("reused_build_dir", S::bool(reused)));
    let emit = std::panic::catch_unwind(|| {
        let source = fontc::Input::new(&source_path)?.create_source()?;
        let options = fontc::Options { flags, ir_dir: Some(ir_dir.clone()), ..Default::default() };
        fontc::verif_generate_font_contexts(source, &options)
    });
    let (emit_status, emit_message, ctx) = status_msg_of(emit);

    let (Some(plain_bytes), Some((fe, be))) = (plain_bytes, ctx) else {
        let status = if plain_status == emit_status { "both-failed" } else { "differ" };
        fields.push(S::kv("impl", [
            S::k1("status", S::atom(status)),
            S::k1("plain_status", S::atom(plain_status)),
            S::k1("emit_status", S::atom(emit_status)),
            // is the failure about a kerning file whose name has a directory part?
            S::k1("emit_failed_writing_kern_file", S::bool(emit_message.contains("Unable to write") && emit_message.contains("/kern_"))),
        ]));
        return fields;
    };
    let emit_bytes: Vec<u8> = be.font.get().get().to_vec();
    // A source whose plain builds differ among themselves (a repeatability defect, property C01) cannot
    // witness anything about --emit-ir: find out before blaming the IR directory.
    let mut plain_variants = 1;
    if plain_bytes != emit_bytes {
        let mut seen = vec![plain_bytes.clone()];
        for _ in 0..8 {
            let again = std::panic::catch_unwind(|| {
                let source = fontc::Input::new(&source_path)?.create_source()?;
                fontc::generate_font(source, fontc::Options { flags, ..Default::default() })
            });
            if let (_, Some(b)) = status_of(again) {
                if !seen.contains(&b) {
                    seen.push(b);
                }
            }
        }
        plain_variants = seen.len();
    }
    let file_bytes = std::fs::read(fontbe::paths::Paths::target_file(&ir_dir, &BeId::Font)).unwrap_or_default();

    let mut a = audit(&ir_dir, &fe, &be);
    a.items.sort_by(|x, y| (&x.0, &x.2).cmp(&(&y.0, &y.2))); // the maps are HashMaps
    let mut by_path: std::collections::BTreeMap<PathBuf, Vec<usize>> = Default::default();
    for (k, it) in a.items.iter().enumerate() {
        by_path.entry(it.2.clone()).or_default().push(k);
    }
    let shared: Vec<usize> = by_path.values().filter(|v| v.len() > 1).flatten().copied().collect();
    let shared_kern = shared.iter().filter(|k| a.items[**k].1 == "fe.kern_instance").count();
    let missing = a.items.iter().filter(|it| it.3.is_none()).count();
    let checked = a.items.iter().filter(|it| it.3.is_some()).count();
    let differs: Vec<usize> = (0..a.items.len()).filter(|k| a.items[*k].3 == Some(false)).collect();
    let differs_kern_shared = differs.iter().filter(|k| a.items[**k].1 == "fe.kern_instance" && shared.contains(k)).count();
    // differing items per kind (kern instances that share a file are counted above, not here)
    let mut by_kind: std::collections::BTreeMap<String, usize> = Default::default();
    for k in &differs {
        if !(a.items[*k].1 == "fe.kern_instance" && shared.contains(k)) {
            *by_kind.entry(a.items[*k].1.clone()).or_default() += 1;
        }
    }
    let mut files = vec![];
    walk_files(&ir_dir, &mut files);
    // `features.marker` is written by the FEA job itself (fontbe/src/features.rs), not through a context item
    let marker = fontbe::paths::Paths::target_file(&ir_dir, &BeId::Features);
    let unexpected: Vec<&PathBuf> = files.iter().filter(|f| !by_path.contains_key(*f) && **f != marker).collect();
    let mut notes: Vec<String> = vec![];
    for k in shared.iter().chain(differs.iter()).take(6) {
        notes.push(format!("{} -> {}", a.items[*k].0, a.items[*k].2.strip_prefix(&ir_dir).unwrap().display()));
    }
    for f in unexpected.iter().take(3) {
        notes.push(format!("file without id: {}", f.strip_prefix(&ir_dir).unwrap().display()));
    }
    fields.push(S::kv("impl", [
        S::k1("status", S::atom("ok")),
        S::k1("fonts_equal", S::bool(plain_bytes == emit_bytes && emit_bytes == file_bytes)),
        S::k1("plain_variants", S::usize(plain_variants)),
        S::k1("hash_plain", S::atom(fnv(&plain_bytes))),
        S::k1("hash_emit", S::atom(fnv(&emit_bytes))),
        S::k1("hash_font_file", S::atom(fnv(&file_bytes))),
        S::k1("n_ids", S::usize(a.items.len())),
        S::k1("n_files", S::usize(files.len())),
        S::k1("ids_without_file", S::usize(missing)),
        S::k1("ids_sharing_a_file", S::usize(shared.len())),
        S::k1("kern_ids_sharing_a_file", S::usize(shared_kern)),
        S::k1("files_without_id", S::usize(unexpected.len())),
        S::k1("readback_checked", S::usize(checked)),
        S::k1("readback_differs", S::usize(differs.len())),
        S::k1("readback_differs_kern_shared", S::usize(differs_kern_shared)),
        S::k1("readback_differs_kinds", S::list(by_kind.iter().map(|(k, n)| S::list([S::atom(k.clone()), S::usize(*n)])))),
        S::k1("notes", S::str(&notes.join("; "))),
    ]));
    fields
    // `scratch` is removed here (TempDir drop)
}

fn run_emit(args: &Args) {
    // head.created / head.modified come from the clock unless this is set
    unsafe { std::env::set_var("SOURCE_DATE_EPOCH", "1730302089") };
    let sources = corpus_sources();
    crate::run_cases("c14emit", args, move |i| emit_case(i, &sources));
}

pub fn run(stream: &str, args: &Args) {
    match stream {
        "c14names" => run_names(args),
        "c14paths" => run_paths(args),
        "c14emit" => run_emit(args),
        _ => unreachable!(),
    }
}
