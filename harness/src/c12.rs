//! C12 e2e: ONE generated design with nested / transformed / mixed / non-export components, compiled by the real
//! fontc under each of the 16 subsets of {PREFER_SIMPLE_GLYPHS, FLATTEN_COMPONENTS, DECOMPOSE_TRANSFORMED_COMPONENTS,
//! DECOMPOSE_COMPONENTS}; all 16 fonts are dumped on one protocol line. The Lean oracle (Driver/C12.lean) fully
//! resolves every exported glyph of every font at every master location and compares with the source's drawing.
use crate::e2e::{build, design, dump, write};
use crate::rng::Rng;
use crate::sexp::S;
use crate::Args;
use write_fonts::read::FontRef;

pub const PREFER_SIMPLE_GLYPHS: u32 = 0b100;
pub const FLATTEN_COMPONENTS: u32 = 0b1000;
pub const DECOMPOSE_TRANSFORMED_COMPONENTS: u32 = 0b10000;
pub const PRODUCTION_NAMES: u32 = 0b1000_0000;
pub const DECOMPOSE_COMPONENTS: u32 = 0b1_0000_0000;

/// the 16 flag sets, in a fixed order (bit k of the index selects the k-th option)
pub fn flag_sets() -> Vec<u32> {
    let opts = [PREFER_SIMPLE_GLYPHS, FLATTEN_COMPONENTS, DECOMPOSE_TRANSFORMED_COMPONENTS, DECOMPOSE_COMPONENTS];
    (0..16u32).map(|m| {
        let mut f = PRODUCTION_NAMES;
        for (k, o) in opts.iter().enumerate() { if m & (1 << k) != 0 { f |= o; } }
        f
    }).collect()
}

/// Only the tables the oracle reads (keeps the 16-font line small).
fn dump_small(bytes: &[u8]) -> S {
    match FontRef::new(bytes) {
        Err(e) => S::kv("font", [S::k1("unreadable", S::str(&format!("{e}")))]),
        Ok(font) => {
            let mut f = dump::dump_basic(&font);
            f.extend(dump::dump_glyf(&font));
            f.extend(dump::dump_gvar(&font));
            f.extend(dump::dump_metrics(&font));
            S::kv("font", f)
        }
    }
}

/// 2×2 parts used for components: identity, and dyadic flips / rotations / scales (exact in f64 and, except 2.0
/// which fontbe saturates to 32767/16384, in F2Dot14); rarely an entry outside [-2, 2] (forces decomposition).
const XFORMS: [[f64; 4]; 11] = [
    [-1.0, 0.0, 0.0, 1.0],   // mirror x (det < 0)
    [1.0, 0.0, 0.0, -1.0],   // mirror y (det < 0)
    [0.5, 0.0, 0.0, 0.5],    // scale 1/2
    [0.0, 1.0, -1.0, 0.0],   // rotate 90
    [-1.0, 0.0, 0.0, -1.0],  // rotate 180
    [0.0, -1.0, 1.0, 0.0],   // rotate 270
    [2.0, 0.0, 0.0, -1.0],   // scale 2, flipped (det < 0); 2.0 saturates in F2Dot14
    [-0.5, 0.0, 0.0, 1.5],   // anisotropic, det < 0
    [0.0, 1.0, 1.0, 0.0],    // transpose (det < 0)
    [1.0, 0.5, 0.0, 1.0],    // shear
    [2.5, 0.0, 0.0, 1.0],    // overflows F2Dot14: has_overflowing_component_transforms
];

/// The shared generator supplies axes, masters (incl. sparse layer masters) and simple outlines; this turns most
/// glyphs after the first into composites of earlier glyphs: nested (a base may itself be a composite),
/// transformed, mixed (contours kept next to the components), offsets varying per master, with one or two of
/// the glyphs that are used as components marked non-export.
pub fn gen_c12(rng: &mut Rng) -> design::Design {
    let o = design::GenOpts {
        max_axes: 2, max_glyphs: 6, composites: false, nested: false, transforms: false, non_export: false,
        sparse: rng.chance(1, 2), quads: rng.chance(1, 2), vertical: false, intermediate: rng.chance(1, 2),
        corner: true, metrics_vary: false, mapping: false,
    };
    let mut d = design::gen_design(rng, &o);
    let names: Vec<String> = d.glyph_order.clone().unwrap();
    let mut composite: Vec<String> = vec![];
    let mut used: Vec<String> = vec![];
    for gi in 1..names.len() {
        if !rng.chance(2, 3) { continue; }
        let n = names[gi].clone();
        let earlier: Vec<String> = names[..gi].to_vec();
        let nested_pool: Vec<String> = earlier.iter().filter(|x| composite.contains(x)).cloned().collect();
        let k = match rng.below(6) { 0 | 1 | 2 => 1, 3 | 4 => 2, _ => 3 };
        let mut comps: Vec<design::Comp> = vec![];
        for _ in 0..k {
            let base = if !nested_pool.is_empty() && rng.chance(1, 2) { rng.pick(&nested_pool).clone() } else { rng.pick(&earlier).clone() };
            let m = if rng.chance(1, 2) { [1.0, 0.0, 0.0, 1.0] } else {
                // the overflowing entry is rare
                let i = rng.below(XFORMS.len() + 4);
                XFORMS[if i >= XFORMS.len() { i % (XFORMS.len() - 1) } else { i }]
            };
            let t = [m[0], m[1], m[2], m[3], rng.range(-200, 300) as f64, rng.range(-200, 300) as f64];
            if !used.contains(&base) { used.push(base.clone()); }
            comps.push(design::Comp { base, t });
        }
        let mixed = rng.chance(1, 3);
        // rarely the 2x2 of the first component differs in one non-default master (has_consistent_components = false)
        let inconsistent_master = if rng.chance(1, 12) && d.masters.len() > 1 { Some(1 + rng.below(d.masters.len() - 1)) } else { None };
        for (mi, m) in d.masters.iter_mut().enumerate() {
            if let Some(g) = m.glyphs.get_mut(&n) {
                if !mixed { g.contours.clear(); }
                g.components = comps.iter().map(|c| {
                    let mut c = c.clone();
                    if mi != d.default_master {
                        c.t[4] += rng.range(-60, 60) as f64;
                        c.t[5] += rng.range(-60, 60) as f64;
                    }
                    c
                }).collect();
                if inconsistent_master == Some(mi) && mi != d.default_master {
                    g.components[0].t[0] *= 0.5;
                    g.components[0].t[3] *= 0.5;
                }
            }
        }
        composite.push(n);
    }
    // non-export: one or two of the glyphs used as components (simple or composite)
    if !used.is_empty() && rng.chance(2, 3) {
        let n = rng.pick(&used).clone();
        d.skip_export.push(n);
        if used.len() > 1 && rng.chance(1, 3) {
            let n2 = rng.pick(&used).clone();
            if !d.skip_export.contains(&n2) { d.skip_export.push(n2); }
        }
    }
    // at least one exported glyph must remain
    if names.iter().all(|n| d.skip_export.contains(n)) { d.skip_export.clear(); }
    d
}

pub fn run(args: &Args) {
    let seed = args.seed;
    crate::run_cases("c12e2e", args, move |i| {
        let mut rng = Rng::for_case(seed, "c12e2e", i);
        let d = gen_c12(&mut rng);
        case_fields(&d)
    });
}

pub fn case_fields(d: &design::Design) -> Vec<S> {
    let tmp = build::tmpdir("c12e2e");
    let ds = write::write_design(tmp.path(), d);
    if !d.skip_export.is_empty() {
        // a designspace source takes public.skipExportGlyphs from the designspace lib only (ufo2fontir/src/source.rs:285)
        let mut xml = std::fs::read_to_string(&ds).unwrap();
        let mut lib = String::from("  <lib>\n    <dict>\n      <key>public.skipExportGlyphs</key>\n      <array>\n");
        for g in &d.skip_export { lib.push_str(&format!("        <string>{}</string>\n", write::xml_escape(g))); }
        lib.push_str("      </array>\n    </dict>\n  </lib>\n</designspace>\n");
        xml = xml.replace("</designspace>\n", &lib);
        std::fs::write(&ds, xml).unwrap();
    }
    let mut builds = vec![];
    for flags in flag_sets() {
        let res = build::compile(&ds, &build::BuildOpts { flags: Some(flags), ..Default::default() });
        let mut f = vec![S::k1("flags", S::usize(flags as usize))];
        match res {
            Ok(bytes) => {
                f.push(S::k1("result", S::atom("ok")));
                f.push(dump_small(&bytes));
            }
            Err(e) => f.push(S::kv("result", [S::atom("err"), S::str(&e)])),
        }
        builds.push(S::list(f));
    }
    vec![d.to_sexp(), S::k1("builds", S::list(builds))]
}

// ------------------------------------------------------------------------------------------ directed cases

fn poly(pts: &[(i64, i64)]) -> Vec<design::Pt> {
    pts.iter().map(|(x, y)| design::Pt { x: *x as f64, y: *y as f64, typ: design::PtType::Line }).collect()
}

fn comp(base: &str, m: [f64; 4], dx: f64, dy: f64) -> design::Comp {
    design::Comp { base: base.into(), t: [m[0], m[1], m[2], m[3], dx, dy] }
}

const ID: [f64; 4] = [1.0, 0.0, 0.0, 1.0];

/// One weight axis (default at the minimum), masters at 400 and 900, optional sparse layer master at 650.
fn two_master(glyphs: Vec<(&str, design::GlyphDef)>, at_max: Vec<(&str, design::GlyphDef)>, sparse: Vec<(&str, design::GlyphDef)>) -> design::Design {
    use design::*;
    let mut d = Design { family: "Verif C12".into(), upem: 1000, ..Default::default() };
    d.axes.push(AxisDef { tag: "wght".into(), name: "Weight".into(), min: 400.0, default: 400.0, max: 900.0, map: vec![] });
    let info: Vec<(String, f64)> = vec![("ascender".into(), 800.0), ("descender".into(), -200.0), ("xHeight".into(), 500.0), ("capHeight".into(), 700.0)];
    let mut m0 = Master { name: "M0".into(), style: "Regular".into(), loc: vec![400.0], info: info.clone(), ..Default::default() };
    let mut m1 = Master { name: "M1".into(), style: "Black".into(), loc: vec![900.0], info: info.clone(), ..Default::default() };
    for (n, g) in &glyphs { m0.glyphs.insert(n.to_string(), g.clone()); m1.glyphs.insert(n.to_string(), g.clone()); }
    for (n, g) in &at_max { m1.glyphs.insert(n.to_string(), g.clone()); }
    d.glyph_order = Some(glyphs.iter().map(|(n, _)| n.to_string()).collect());
    for (i, (n, _)) in glyphs.iter().enumerate() { d.codepoints.insert(n.to_string(), vec![0x61 + i as u32]); }
    d.masters.push(m0);
    d.masters.push(m1);
    if !sparse.is_empty() {
        let mut s = Master { name: "S2".into(), style: "Sparse".into(), loc: vec![650.0], sparse: true, ..Default::default() };
        for (n, g) in &sparse { s.glyphs.insert(n.to_string(), g.clone()); }
        d.masters.push(s);
    }
    d
}

/// Hand-written designs: minimal reproductions of the recorded findings and of behaviours the random generator
/// reaches rarely.
pub fn directed(i: usize) -> design::Design {
    use design::GlyphDef;
    let sq = || GlyphDef { advance: 500.0, contours: vec![poly(&[(0, 0), (100, 0), (100, 100), (0, 100)])], ..Default::default() };
    let tri = || GlyphDef { advance: 600.0, contours: vec![poly(&[(10, 20), (300, 40), (120, 260)])], ..Default::default() };
    let of = |adv: f64, comps: Vec<design::Comp>| GlyphDef { advance: adv, components: comps, ..Default::default() };
    match i % 7 {
        // 6: three levels — the leaf `a` alone has an intermediate (sparse layer) master; the middle composite `b` has only
        //    the ordinary masters; its users are decomposed while `b` is still a composite: `c` is mixed (contour + component),
        //    `d` references `b` through a 2x2, `e` is a plain composite of `b` (decompose-all / flatten)
        6 => two_master(vec![
            ("e", of(640.0, vec![comp("b", ID, 15.0, -25.0)])),
            ("d", of(620.0, vec![comp("b", [0.5, 0.0, 0.0, 0.5], 40.0, 10.0)])),
            ("c", GlyphDef { advance: 600.0, contours: vec![poly(&[(500, 0), (560, 0), (530, 80)])],
                             components: vec![comp("b", ID, 20.0, 30.0)], ..Default::default() }),
            ("b", of(600.0, vec![comp("a", ID, 100.0, 0.0)])),
            ("a", GlyphDef { advance: 500.0, contours: vec![poly(&[(0, 0), (200, 0), (200, 200), (0, 200)])], ..Default::default() }),
        ], vec![
            ("a", GlyphDef { advance: 500.0, contours: vec![poly(&[(0, 0), (400, 0), (400, 200), (0, 200)])], ..Default::default() }),
        ], vec![
            // at 650 (halfway) the leaf is NOT halfway: 200 -> 220 -> 400
            ("a", GlyphDef { advance: 500.0, contours: vec![poly(&[(0, 0), (220, 0), (220, 200), (0, 200)])], ..Default::default() }),
        ]),
        // 0: nested scales 3/2 · 3/2 = 9/4: flattening composes a 2x2 that F2Dot14 cannot hold
        0 => two_master(vec![
            ("a", sq()),
            ("b", of(500.0, vec![comp("a", [1.5, 0.0, 0.0, 1.5], 0.0, 0.0)])),
            ("c", of(500.0, vec![comp("b", [1.5, 0.0, 0.0, 1.5], 10.0, 20.0)])),
        ], vec![], vec![]),
        // 1: the nested component `b` has an intermediate (sparse layer) master that its user `c` does not have
        1 => two_master(vec![
            ("a", sq()),
            ("b", of(500.0, vec![comp("a", ID, 100.0, 0.0)])),
            ("c", of(500.0, vec![comp("b", ID, 0.0, 50.0)])),
        ], vec![("b", of(500.0, vec![comp("a", ID, 200.0, 0.0)]))],
           vec![("b", of(500.0, vec![comp("a", ID, 190.0, 0.0)]))]),
        // 2: the same base reached twice with the same accumulated transform while a mixed glyph is decomposed (the
        //    `visited` set of convert_components_to_contours; b and c are still composites at that time)
        2 => two_master(vec![
            ("a", sq()),
            ("b", of(500.0, vec![comp("a", ID, 10.0, 0.0)])),
            ("c", of(500.0, vec![comp("a", ID, 10.0, 0.0)])),
            ("d", GlyphDef { advance: 500.0, contours: vec![poly(&[(300, 0), (400, 0), (350, 90)])],
                             components: vec![comp("b", ID, 0.0, 0.0), comp("c", ID, 0.0, 0.0)], ..Default::default() }),
        ], vec![], vec![]),
        // 3: flips through a non-exported composite into a mixed glyph
        3 => {
            let mut d = two_master(vec![
                ("a", tri()),
                ("b", of(600.0, vec![comp("a", [-1.0, 0.0, 0.0, 1.0], 400.0, 0.0)])),
                ("c", GlyphDef { advance: 700.0, contours: vec![poly(&[(500, 0), (650, 0), (650, 90), (500, 90)])],
                                 components: vec![comp("b", [1.0, 0.0, 0.0, -1.0], 30.0, 300.0), comp("a", [0.0, 1.0, -1.0, 0.0], 350.0, 10.0)], ..Default::default() }),
                ("d", of(650.0, vec![comp("c", [0.5, 0.0, 0.0, 0.5], 5.0, 5.0), comp("b", ID, 0.0, -100.0)])),
            ], vec![], vec![]);
            d.skip_export.push("b".into());
            d
        }
        // 5: as 2, with a third (sparse layer) master for b, c, d: the enumeration indices of the duplicate visits can
        //    coincide at some locations and differ at others
        5 => {
            let b = || of(500.0, vec![comp("a", ID, 10.0, 0.0)]);
            let dd = || GlyphDef { advance: 500.0, contours: vec![poly(&[(300, 0), (400, 0), (350, 90)])],
                             components: vec![comp("b", ID, 0.0, 0.0), comp("c", ID, 0.0, 0.0)], ..Default::default() };
            two_master(vec![("a", sq()), ("b", b()), ("c", b()), ("d", dd())], vec![],
                       vec![("b", b()), ("c", b()), ("d", dd())])
        }
        // 4: a static design (no axes at all would need a bare UFO; here both masters are equal), depth 4 chain of
        //    translate-only components with half-integer-free offsets
        _ => two_master(vec![
            ("a", tri()),
            ("b", of(600.0, vec![comp("a", ID, 11.0, 7.0)])),
            ("c", of(600.0, vec![comp("b", ID, -3.0, 9.0), comp("a", ID, 300.0, 0.0)])),
            ("d", of(600.0, vec![comp("c", ID, 1.0, 1.0)])),
            ("e", of(600.0, vec![comp("d", ID, 2.0, -5.0), comp("b", ID, 50.0, 50.0)])),
        ], vec![("b", of(610.0, vec![comp("a", ID, 31.0, -7.0)]))], vec![]),
    }
}

pub fn run_directed(args: &Args) {
    crate::run_cases("c12dir", args, move |i| case_fields(&directed(i)));
}

// ------------------------------------------------------------------------------------------ c12 (pure, IR level)

use fontdrasil::coords::NormalizedLocation;
use fontdrasil::orchestration::Access;
use fontdrasil::types::{Axis, GlyphName};
use fontir::ir;
use fontir::orchestration::{Context, Flags};
use kurbo::{Affine, BezPath, PathEl};
use std::collections::{BTreeMap, HashMap, HashSet};

#[derive(Clone)]
struct PGlyph {
    name: String,
    export: bool,
    /// per location
    adv: Vec<f64>,
    contours: Vec<Vec<Vec<(f64, f64)>>>,
    comps: Vec<Vec<(String, [f64; 6])>>,
}

fn pglyph_sexp(g: &PGlyph, l: usize) -> S {
    S::list([
        S::str(&g.name), S::f64(g.adv[l]),
        S::list(g.contours[l].iter().map(|c| S::list(c.iter().map(|(x, y)| S::list([S::f64(*x), S::f64(*y)]))))),
        S::list(g.comps[l].iter().map(|(b, t)| S::list([S::str(b), S::list(t.iter().map(|v| S::f64(*v)))]))),
    ])
}

fn bez(points: &[(f64, f64)]) -> BezPath {
    let mut p = BezPath::new();
    for (i, (x, y)) in points.iter().enumerate() {
        if i == 0 { p.move_to((*x, *y)); } else { p.line_to((*x, *y)); }
    }
    p.close_path();
    p
}

/// contours of a BezPath as point lists (a closing line back to the start point is not a point of its own)
fn unbez(p: &BezPath) -> Vec<Vec<(f64, f64)>> {
    let mut out: Vec<Vec<(f64, f64)>> = vec![];
    for el in p.elements() {
        match el {
            PathEl::MoveTo(q) => out.push(vec![(q.x, q.y)]),
            PathEl::LineTo(q) => out.last_mut().unwrap().push((q.x, q.y)),
            PathEl::ClosePath => {
                let c = out.last_mut().unwrap();
                if c.len() > 1 && c[0] == c[c.len() - 1] { c.pop(); }
            }
            other => panic!("unexpected element {other:?}"),
        }
    }
    out
}

fn gen_forest(rng: &mut Rng) -> (Vec<PGlyph>, usize) {
    let nloc = 1 + rng.below(2);
    let n = 3 + rng.below(7);
    let mut gs: Vec<PGlyph> = vec![];
    let mut sizes: Vec<usize> = vec![];
    // a contour whose last point coincides with its first is a different (shorter) contour once it is a closed path: the
    // closing segment of zero length is not a point. Not what is generated here: nudge such a last point (no extra draws).
    fn open_ended(mut c: Vec<(f64, f64)>) -> Vec<(f64, f64)> {
        let n = c.len();
        while n > 1 && c[0] == c[n - 1] { c[n - 1].0 += 1.0; }
        c
    }
    let contour = |rng: &mut Rng| -> Vec<(f64, f64)> {
        let k = 3 + rng.below(3);
        open_ended((0..k).map(|_| (rng.range(-50, 700) as f64, rng.range(-200, 800) as f64)).collect())
    };
    let vary = |rng: &mut Rng, c: &Vec<(f64, f64)>| -> Vec<(f64, f64)> { open_ended(c.iter().map(|(x, y)| (x + rng.range(-40, 40) as f64, y + rng.range(-40, 40) as f64)).collect()) };
    // .notdef first so that GlyphOrderWork neither synthesises nor moves it
    let nd = contour(rng);
    gs.push(PGlyph { name: ".notdef".into(), export: true, adv: vec![500.0; nloc], contours: vec![vec![nd]; nloc], comps: vec![vec![]; nloc] });
    for gi in 0..n {
        let name = format!("g{gi}");
        let kind = if gi == 0 { 0 } else { rng.below(10) };
        let mut c0: Vec<Vec<(f64, f64)>> = vec![];
        let mut k0: Vec<(String, [f64; 6])> = vec![];
        if kind <= 2 || kind >= 8 {
            for _ in 0..1 + rng.below(2) { c0.push(contour(rng)); }
        }
        let mut size = c0.len();
        if kind >= 4 {
            for _ in 0..1 + rng.below(3) {
                let bi = rng.below(gi);
                // keep the fully resolved outline small (the number of paths grows exponentially with nesting)
                if size + sizes[bi] > 40 { continue; }
                size += sizes[bi];
                let base = format!("g{bi}");
                let m = if rng.chance(2, 5) { [1.0, 0.0, 0.0, 1.0] } else {
                    let i = rng.below(XFORMS.len() + 6);
                    XFORMS[if i >= XFORMS.len() { i % (XFORMS.len() - 1) } else { i }]
                };
                // half-integer offsets now and then (exact in f64; exercise nothing but exact arithmetic)
                let h = if rng.chance(1, 6) { 0.5 } else { 0.0 };
                k0.push((base, [m[0], m[1], m[2], m[3], rng.range(-300, 300) as f64 + h, rng.range(-300, 300) as f64]));
            }
        }
        // kind 3: empty glyph
        let mut g = PGlyph { name, export: true, adv: vec![], contours: vec![], comps: vec![] };
        let a0 = rng.range(0, 900) as f64;
        for l in 0..nloc {
            if l == 0 {
                g.adv.push(a0); g.contours.push(c0.clone()); g.comps.push(k0.clone());
            } else {
                g.adv.push(a0 + rng.range(-30, 30) as f64);
                g.contours.push(c0.iter().map(|c| vary(rng, c)).collect());
                g.comps.push(k0.iter().map(|(b, t)| { let mut t = *t; t[4] += rng.range(-40, 40) as f64; t[5] += rng.range(-40, 40) as f64; (b.clone(), t) }).collect());
            }
        }
        gs.push(g);
        sizes.push(size);
    }
    // non-export: glyphs used as components, with probability 1/3 each (never all)
    let used: HashSet<String> = gs.iter().flat_map(|g| g.comps[0].iter().map(|c| c.0.clone())).collect();
    for g in gs.iter_mut().skip(1) {
        if used.contains(&g.name) && rng.chance(1, 3) { g.export = false; }
    }
    if gs.iter().skip(1).all(|g| !g.export) { for g in gs.iter_mut() { g.export = true; } }
    (gs, nloc)
}

fn loc_of(l: usize) -> NormalizedLocation {
    NormalizedLocation::for_pos(&[("wght", l as f64)])
}

/// Drives the real GlyphOrderWork through the public fontir Context on synthetic IR glyphs.
pub fn run_pure(args: &Args) {
    let seed = args.seed;
    crate::run_cases("c12", args, move |i| {
        let mut rng = Rng::for_case(seed, "c12", i);
        let (gs, nloc) = gen_forest(&mut rng);
        let bits = flag_sets()[rng.below(16)];
        let mut f = vec![
            S::k1("flags", S::usize(bits as usize)),
            S::k1("order", S::list(gs.iter().map(|g| S::str(&g.name)))),
            S::k1("skip", S::list(gs.iter().filter(|g| !g.export).map(|g| S::str(&g.name)))),
            S::k1("locs", S::list((0..nloc).map(|l| S::list(gs.iter().map(|g| pglyph_sexp(g, l)))))),
        ];
        let r = std::panic::catch_unwind(|| -> Result<(Vec<String>, Vec<Vec<PGlyph>>), String> {
            let locations: Vec<NormalizedLocation> = (0..nloc).map(loc_of).collect();
            let meta = ir::StaticMetadata::new(1000, Default::default(), vec![Axis::for_test("wght")], Vec::new(),
                locations.iter().cloned().collect(), None, 0.0, None, false).map_err(|e| format!("meta:{e}"))?;
            let ctx = Context::new_root(Flags::from_bits_truncate(bits), None).copy_for_work(Access::All, Access::All);
            ctx.static_metadata.set(meta);
            let mut order = ir::GlyphOrder::new();
            for g in &gs {
                order.insert(GlyphName::new(&g.name));
                let mut sources = HashMap::new();
                for l in 0..nloc {
                    sources.insert(loc_of(l), ir::GlyphInstance {
                        width: g.adv[l], height: None, vertical_origin: None,
                        contours: g.contours[l].iter().map(|c| bez(c)).collect(),
                        components: g.comps[l].iter().map(|(b, t)| ir::Component::new(b.as_str(), Affine::new(*t))).collect(),
                    });
                }
                let glyph = ir::Glyph::new(GlyphName::new(&g.name), g.export, Default::default(), sources).map_err(|e| format!("glyph:{e}"))?;
                ctx.glyphs.set(glyph);
            }
            ctx.preliminary_glyph_order.set(order);
            ctx.preliminary_gdef_categories.set(ir::PreliminaryGdefCategories { categories: BTreeMap::new(), infer_from_anchors: false, ..Default::default() });
            fontir::glyph::create_glyph_order_work().exec(&ctx).map_err(|e| format!("exec:{e}"))?;
            let final_order: Vec<String> = ctx.glyph_order.get().names().map(|n| n.to_string()).collect();
            let mut out: Vec<Vec<PGlyph>> = vec![];
            for l in 0..nloc {
                let mut v = vec![];
                for n in &final_order {
                    let g = ctx.get_glyph(n.as_str());
                    let Some(inst) = g.sources().get(&loc_of(l)) else { return Err(format!("glyph {n} lost location {l}")); };
                    v.push(PGlyph {
                        name: n.clone(), export: g.emit_to_binary, adv: vec![inst.width],
                        contours: vec![inst.contours.iter().flat_map(|c| unbez(c)).collect()],
                        comps: vec![inst.components.iter().map(|c| (c.base.to_string(), c.transform.as_coeffs())).collect()],
                    });
                }
                out.push(v);
            }
            Ok((final_order, out))
        });
        let imp = match r {
            Ok(Ok((order, locs))) => S::kv("impl", [
                S::k1("result", S::atom("ok")),
                S::k1("order", S::list(order.iter().map(|n| S::str(n)))),
                S::k1("locs", S::list(locs.iter().map(|v| S::list(v.iter().map(|g| pglyph_sexp(g, 0)))))),
            ]),
            Ok(Err(e)) => S::kv("impl", [S::kv("result", [S::atom("err"), S::str(&e)])]),
            Err(e) => {
                let msg = e.downcast_ref::<String>().cloned().or_else(|| e.downcast_ref::<&str>().map(|s| s.to_string())).unwrap_or_default();
                S::kv("impl", [S::kv("result", [S::atom("panic"), S::str(&msg)])])
            }
        };
        f.push(imp);
        f
    });
}
