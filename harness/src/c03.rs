//! C03/C04 e2e: generated variable designs -> real fontc build -> glyf/gvar/hmtx/HVAR/MVAR dump.
//! The Lean oracle instantiates the font at every master location and compares with the master drawings.
use crate::e2e::{build, design, dump, write};
use crate::rng::Rng;
use crate::sexp::S;
use crate::Args;

pub fn opts_for(stream: &str, rng: &mut Rng) -> design::GenOpts {
    let mut o = design::GenOpts::default();
    match stream {
        "c04e2e" => { o.metrics_vary = true; o.vertical = rng.chance(1, 2); o.max_glyphs = 5; o.quads = false; }
        _ => { o.vertical = rng.chance(1, 4); o.max_axes = 3; }
    }
    o
}

pub fn run(stream: &'static str, args: &Args) {
    let seed = args.seed;
    crate::run_cases(stream, args, move |i| {
        let mut rng = Rng::for_case(seed, stream, i);
        let o = opts_for(stream, &mut rng);
        let d = design::gen_design(&mut rng, &o);
        let tmp = build::tmpdir(stream);
        let ds = write::write_design(tmp.path(), &d);
        let res = build::compile(&ds, &build::BuildOpts::default());
        let mut f = vec![d.to_sexp()];
        match res {
            Ok(bytes) => {
                f.push(S::k1("result", S::atom("ok")));
                f.push(dump::dump_all(&bytes));
            }
            Err(e) => {
                f.push(S::kv("result", [S::atom("err"), S::str(&e)]));
            }
        }
        f
    });
}

// ------------------------------------------------------------------ c03glyphs: the same designs through a Glyphs 3 source
//
// The abstract design is the one `gen_design` makes (2-3 axes, identity axis mappings, sparse masters, composites), plus
// sometimes one more sparse master that sits OFF the default's trailing axes (it shares them with a non-default full
// master): written as a brace layer of that master with only the leading coordinates, the omitted axes must be taken
// from the associated master. The design is written by `write_glyphs` (seeded choice of master order / origin parameter
// / which master each brace layer is attached to / how many coordinates it states) and judged by the same oracle.
pub fn gen_glyphs_design(rng: &mut Rng) -> design::Design {
    let mut o = design::GenOpts::default();
    o.max_axes = 3;
    o.vertical = false;
    o.mapping = false;
    // non-export glyphs stay off as in c03e2e (partial decomposition of non-export components is C12's subject)
    let mut d = loop {
        let d = design::gen_design(rng, &o);
        if d.axes.len() >= 2 { break d; }
    };
    let n_axes = d.axes.len();
    let fulls: Vec<usize> = (0..d.masters.len()).filter(|&i| !d.masters[i].sparse && i != d.default_master).collect();
    if !fulls.is_empty() && rng.chance(1, 2) {
        let mi = *rng.pick(&fulls);
        // the first k coordinates may differ from master mi, the rest are mi's
        let k = 1 + rng.below(n_axes - 1);
        let a = rng.below(k);
        let ax = &d.axes[a];
        let (lo, hi) = if ax.max != ax.default { (ax.default, ax.max) } else { (ax.min, ax.default) };
        let mut l = d.masters[mi].loc.clone();
        l[a] = lo + (hi - lo) * (*rng.pick(&[0.25, 0.5, 0.75]));
        if !d.masters.iter().any(|m| m.loc == l) {
            let base = d.masters[d.default_master].glyphs.clone();
            let names = d.glyph_names();
            let cands: Vec<&String> = names.iter().filter(|n| !d.skip_export.contains(n)).collect();
            let mut m = design::Master { name: format!("S{}", d.masters.len()), style: "SparseOff".into(), loc: l, sparse: true, ..Default::default() };
            for _ in 0..1 + rng.below(2.min(cands.len())) {
                let n = (*rng.pick(&cands)).clone();
                m.glyphs.insert(n.clone(), design::vary_glyph(rng, &base[&n], 60, false));
            }
            d.masters.push(m);
        }
    }
    d
}

pub fn run_glyphs(args: &Args) {
    use crate::e2e::write_glyphs;
    let seed = args.seed;
    crate::run_cases("c03glyphs", args, move |i| {
        let mut rng = Rng::for_case(seed, "c03glyphs", i);
        let d = gen_glyphs_design(&mut rng);
        let wo = write_glyphs::GlyphsOpts::choose(&d, &mut rng);
        let tmp = build::tmpdir("c03glyphs");
        let src = write_glyphs::write_glyphs(tmp.path(), &d, &wo);
        // replay aid: VERIF_KEEP_SRC=<dir> keeps a copy of the generated source
        if let Ok(keep) = std::env::var("VERIF_KEEP_SRC") { let _ = std::fs::copy(&src, format!("{keep}/c03glyphs-{seed}-{i}.glyphs")); }
        let res = build::compile(&src, &build::BuildOpts::default());
        let mut f = vec![d.to_sexp()];
        match res {
            Ok(bytes) => {
                f.push(S::k1("result", S::atom("ok")));
                f.push(dump::dump_all(&bytes));
            }
            Err(e) => {
                f.push(S::kv("result", [S::atom("err"), S::str(&e)]));
            }
        }
        // how the source was written (not read by the oracle; for counting what the stream reaches)
        let (brace, nondef, partial, inherit) = wo.stats(&d);
        f.push(S::kv("gsrc", [
            S::k1("brace", S::usize(brace)), S::k1("nondef", S::usize(nondef)), S::k1("partial", S::usize(partial)),
            S::k1("inherit", S::usize(inherit)), S::k1("origin", S::bool(wo.origin_param)),
            S::k1("first", S::usize(wo.master_order[0])),
            S::k1("filters", S::bool(wo.explicit_filters)), S::k1("opencorner", S::bool(write_glyphs::has_open_corner(&d))),
        ]));
        f
    });
}

// ------------------------------------------------------------------ c04adv: coinciding advance sequences
//
// Advances (and advance heights) are drawn from two "profiles" shared by all glyphs, and the design has two or three
// sparse layer masters at *different* locations, each redrawing different glyphs: glyphs whose own location sets differ
// (but have the same size) then carry the same sequence of advances over their own masters. A per-glyph computation that
// is shared between glyphs by anything less than (location set, values) is exposed by these inputs.
pub fn gen_adv_design(rng: &mut Rng) -> design::Design { gen_adv_design_with(rng, false) }

/// `share_outlines`: glyphs of one profile also share their outlines (in every full master and in the sparse layers), so
/// that glyphs with different own location sets carry identical point sequences (stream `c03adv`).
pub fn gen_adv_design_with(rng: &mut Rng, share_outlines: bool) -> design::Design {
    let mut o = design::GenOpts::default();
    o.max_axes = 1 + rng.below(2);
    o.max_glyphs = 6;
    o.composites = false;
    o.quads = false;
    o.sparse = false;
    o.intermediate = rng.chance(1, 3);
    o.vertical = rng.chance(1, 2);
    let mut d = design::gen_design(rng, &o);
    let names = d.glyph_names();
    let n_full = d.masters.len();
    // two profiles: advance at full master i, advance at any sparse master
    let prof: Vec<(Vec<f64>, f64)> = (0..2).map(|_| {
        let base = rng.range(300, 700) as f64;
        let full: Vec<f64> = (0..n_full).map(|i| if i == 0 { base } else { base + rng.range(-120, 240) as f64 }).collect();
        (full, base + rng.range(-60, 200) as f64)
    }).collect();
    let which: Vec<usize> = names.iter().map(|_| rng.below(2)).collect();
    if share_outlines {
        for m in d.masters.iter_mut() {
            for p in 0..2 {
                let firsts: Vec<&String> = names.iter().zip(&which).filter(|(_, w)| **w == p).map(|(n, _)| n).collect();
                if let Some(first) = firsts.first() {
                    if let Some(src) = m.glyphs.get(*first).cloned() {
                        for n in firsts.iter().skip(1) {
                            if let Some(g) = m.glyphs.get_mut(*n) { g.contours = src.contours.clone(); g.components = src.components.clone(); }
                        }
                    }
                }
            }
        }
    }
    let mut sparse_shape: Vec<Option<design::GlyphDef>> = vec![None, None];
    for (mi, m) in d.masters.iter_mut().enumerate() {
        for (gi, n) in names.iter().enumerate() {
            if let Some(g) = m.glyphs.get_mut(n) {
                g.advance = prof[which[gi]].0[mi];
                if g.height.is_some() { g.height = Some(prof[which[gi]].0[mi] + 500.0); }
            }
        }
    }
    // sparse layer masters along axis 0, between the default and one extreme, at distinct fractions
    let a = &d.axes[0];
    let (dmin, ddef, dmax) = (d.user_to_design(0, a.min), d.user_to_design(0, a.default), d.user_to_design(0, a.max));
    let (lo, hi) = if dmax != ddef { (ddef, dmax) } else { (dmin, ddef) };
    let def_loc = d.masters[d.default_master].loc.clone();
    let base = d.masters[d.default_master].glyphs.clone();
    let mut fracs = vec![0.25, 0.5, 0.75];
    let k = 2 + rng.below(2);
    let mut free: Vec<String> = names.clone();
    for _ in 0..k {
        let f = fracs.remove(rng.below(fracs.len()));
        let mut l = def_loc.clone();
        l[0] = lo + (hi - lo) * f;
        if d.masters.iter().any(|m| m.loc == l) || free.is_empty() { continue; }
        let mut m = design::Master { name: format!("S{}", d.masters.len()), style: format!("Sparse{}", d.masters.len()), loc: l, sparse: true, ..Default::default() };
        for _ in 0..1 + rng.below(2.min(free.len())) {
            if free.is_empty() { break; }
            let n = free.remove(rng.below(free.len()));
            let gi = names.iter().position(|x| *x == n).unwrap();
            let mut g = design::vary_glyph(rng, &base[&n], 60, false);
            if share_outlines {
                match &sparse_shape[which[gi]] {
                    Some(shape) => { g.contours = shape.contours.clone(); g.components = shape.components.clone(); }
                    None => sparse_shape[which[gi]] = Some(g.clone()),
                }
            }
            g.advance = prof[which[gi]].1;
            if g.height.is_some() { g.height = Some(prof[which[gi]].1 + 500.0); }
            m.glyphs.insert(n, g);
        }
        d.masters.push(m);
    }
    d
}

pub fn run_adv(args: &Args) { run_adv_stream("c04adv", false, args) }
pub fn run_adv_shared(args: &Args) { run_adv_stream("c03adv", true, args) }

fn run_adv_stream(stream: &'static str, share_outlines: bool, args: &Args) {
    let seed = args.seed;
    crate::run_cases(stream, args, move |i| {
        let mut rng = Rng::for_case(seed, stream, i);
        let d = gen_adv_design_with(&mut rng, share_outlines);
        let tmp = build::tmpdir(stream);
        let ds = write::write_design(tmp.path(), &d);
        let res = build::compile(&ds, &build::BuildOpts::default());
        let mut f = vec![d.to_sexp()];
        match res {
            Ok(bytes) => {
                f.push(S::k1("result", S::atom("ok")));
                f.push(dump::dump_all(&bytes));
            }
            Err(e) => {
                f.push(S::kv("result", [S::atom("err"), S::str(&e)]));
            }
        }
        f
    });
}
