//! C03/C04 e2e: generated variable designs -> real fontc build -> glyf/gvar/hmtx/HVAR/MVAR dump.
//! The Lean oracle instantiates the font at every master location and compares with the master drawings.
use crate::e2e::{build, design, dump, write};
use crate::rng::Rng;
use crate::sexp::S;
use crate::Args;

pub fn opts_for(stream: &str, rng: &mut Rng) -> design::GenOpts {
    let mut o = design::GenOpts::default();
    match stream {
        "c04e2e" => { o.metrics_vary = true; o.vertical = rng.chance(1, 2); o.max_glyphs = 5; o.quads = false; }
        _ => { o.vertical = rng.chance(1, 4); o.max_axes = 3; }
    }
    o
}

pub fn run(stream: &'static str, args: &Args) {
    let seed = args.seed;
    crate::run_cases(stream, args, move |i| {
        let mut rng = Rng::for_case(seed, stream, i);
        let o = opts_for(stream, &mut rng);
        let d = design::gen_design(&mut rng, &o);
        let tmp = build::tmpdir(stream);
        let ds = write::write_design(tmp.path(), &d);
        let res = build::compile(&ds, &build::BuildOpts::default());
        let mut f = vec![d.to_sexp()];
        match res {
            Ok(bytes) => {
                f.push(S::k1("result", S::atom("ok")));
                f.push(dump::dump_all(&bytes));
            }
            Err(e) => {
                f.push(S::kv("result", [S::atom("err"), S::str(&e)]));
            }
        }
        f
    });
}
