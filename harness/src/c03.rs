//! C03/C04 e2e: generated variable designs -> real fontc build -> glyf/gvar/hmtx/HVAR/MVAR dump.
//! The Lean oracle instantiates the font at every master location and compares with the master drawings.
use crate::e2e::{build, design, dump, write};
use crate::rng::Rng;
use crate::sexp::S;
use crate::Args;

pub fn opts_for(stream: &str, rng: &mut Rng) -> design::GenOpts {
    let mut o = design::GenOpts::default();
    match stream {
        "c04e2e" => { o.metrics_vary = true; o.vertical = rng.chance(1, 2); o.max_glyphs = 5; o.quads = false; }
        _ => { o.vertical = rng.chance(1, 4); o.max_axes = 3; }
    }
    o
}

pub fn run(stream: &'static str, args: &Args) {
    let seed = args.seed;
    crate::run_cases(stream, args, move |i| {
        let mut rng = Rng::for_case(seed, stream, i);
        let o = opts_for(stream, &mut rng);
        let d = design::gen_design(&mut rng, &o);
        let tmp = build::tmpdir(stream);
        let ds = write::write_design(tmp.path(), &d);
        let res = build::compile(&ds, &build::BuildOpts::default());
        let mut f = vec![d.to_sexp()];
        match res {
            Ok(bytes) => {
                f.push(S::k1("result", S::atom("ok")));
                f.push(dump::dump_all(&bytes));
            }
            Err(e) => {
                f.push(S::kv("result", [S::atom("err"), S::str(&e)]));
            }
        }
        f
    });
}

// ------------------------------------------------------------------ c04adv: coinciding advance sequences
//
// Advances (and advance heights) are drawn from two "profiles" shared by all glyphs, and the design has two or three
// sparse layer masters at *different* locations, each redrawing different glyphs: glyphs whose own location sets differ
// (but have the same size) then carry the same sequence of advances over their own masters. A per-glyph computation that
// is shared between glyphs by anything less than (location set, values) is exposed by these inputs.
pub fn gen_adv_design(rng: &mut Rng) -> design::Design {
    let mut o = design::GenOpts::default();
    o.max_axes = 1 + rng.below(2);
    o.max_glyphs = 6;
    o.composites = false;
    o.quads = false;
    o.sparse = false;
    o.intermediate = rng.chance(1, 3);
    o.vertical = rng.chance(1, 2);
    let mut d = design::gen_design(rng, &o);
    let names = d.glyph_names();
    let n_full = d.masters.len();
    // two profiles: advance at full master i, advance at any sparse master
    let prof: Vec<(Vec<f64>, f64)> = (0..2).map(|_| {
        let base = rng.range(300, 700) as f64;
        let full: Vec<f64> = (0..n_full).map(|i| if i == 0 { base } else { base + rng.range(-120, 240) as f64 }).collect();
        (full, base + rng.range(-60, 200) as f64)
    }).collect();
    let which: Vec<usize> = names.iter().map(|_| rng.below(2)).collect();
    for (mi, m) in d.masters.iter_mut().enumerate() {
        for (gi, n) in names.iter().enumerate() {
            if let Some(g) = m.glyphs.get_mut(n) {
                g.advance = prof[which[gi]].0[mi];
                if g.height.is_some() { g.height = Some(prof[which[gi]].0[mi] + 500.0); }
            }
        }
    }
    // sparse layer masters along axis 0, between the default and one extreme, at distinct fractions
    let a = &d.axes[0];
    let (dmin, ddef, dmax) = (d.user_to_design(0, a.min), d.user_to_design(0, a.default), d.user_to_design(0, a.max));
    let (lo, hi) = if dmax != ddef { (ddef, dmax) } else { (dmin, ddef) };
    let def_loc = d.masters[d.default_master].loc.clone();
    let base = d.masters[d.default_master].glyphs.clone();
    let mut fracs = vec![0.25, 0.5, 0.75];
    let k = 2 + rng.below(2);
    let mut free: Vec<String> = names.clone();
    for _ in 0..k {
        let f = fracs.remove(rng.below(fracs.len()));
        let mut l = def_loc.clone();
        l[0] = lo + (hi - lo) * f;
        if d.masters.iter().any(|m| m.loc == l) || free.is_empty() { continue; }
        let mut m = design::Master { name: format!("S{}", d.masters.len()), style: format!("Sparse{}", d.masters.len()), loc: l, sparse: true, ..Default::default() };
        for _ in 0..1 + rng.below(2.min(free.len())) {
            if free.is_empty() { break; }
            let n = free.remove(rng.below(free.len()));
            let gi = names.iter().position(|x| *x == n).unwrap();
            let mut g = design::vary_glyph(rng, &base[&n], 60, false);
            g.advance = prof[which[gi]].1;
            if g.height.is_some() { g.height = Some(prof[which[gi]].1 + 500.0); }
            m.glyphs.insert(n, g);
        }
        d.masters.push(m);
    }
    d
}

pub fn run_adv(args: &Args) {
    let seed = args.seed;
    crate::run_cases("c04adv", args, move |i| {
        let mut rng = Rng::for_case(seed, "c04adv", i);
        let d = gen_adv_design(&mut rng);
        let tmp = build::tmpdir("c04adv");
        let ds = write::write_design(tmp.path(), &d);
        let res = build::compile(&ds, &build::BuildOpts::default());
        let mut f = vec![d.to_sexp()];
        match res {
            Ok(bytes) => {
                f.push(S::k1("result", S::atom("ok")));
                f.push(dump::dump_all(&bytes));
            }
            Err(e) => {
                f.push(S::kv("result", [S::atom("err"), S::str(&e)]));
            }
        }
        f
    });
}
