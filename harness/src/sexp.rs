//! Tiny S-expression writer for the line protocol (see lean/FontcModel/Sexp.lean).
use std::fmt::Write;

#[derive(Clone, Debug, PartialEq)]
pub enum S {
    A(String),
    L(Vec<S>),
}

impl S {
    pub fn atom(s: impl Into<String>) -> S {
        S::A(s.into())
    }
    pub fn int(i: impl Into<i128>) -> S {
        S::A(i.into().to_string())
    }
    pub fn usize(i: usize) -> S {
        S::A(i.to_string())
    }
    pub fn bool(b: bool) -> S {
        S::A(if b { "true" } else { "false" }.into())
    }
    /// exact binary float: `m:e` meaning m * 2^e; integers print plainly
    pub fn f64(x: f64) -> S {
        if x.is_nan() {
            return S::A("nan".into());
        }
        if x.is_infinite() {
            return S::A(if x > 0.0 { "inf" } else { "-inf" }.into());
        }
        if x == 0.0 {
            return S::A("0".into());
        }
        let bits = x.to_bits();
        let sign: i128 = if (bits >> 63) != 0 { -1 } else { 1 };
        let exp = ((bits >> 52) & 0x7ff) as i64;
        let frac = (bits & ((1u64 << 52) - 1)) as i128;
        let (mut m, mut e) = if exp == 0 {
            (frac, -1074i64)
        } else {
            (frac | (1i128 << 52), exp - 1075)
        };
        while m & 1 == 0 && m != 0 {
            m >>= 1;
            e += 1;
        }
        if e >= 0 && e < 60 {
            S::A((sign * (m << e)).to_string())
        } else {
            S::A(format!("{}:{}", sign * m, e))
        }
    }
    pub fn f32(x: f32) -> S {
        S::f64(x as f64)
    }
    pub fn hex(bytes: &[u8]) -> S {
        let mut s = String::with_capacity(1 + bytes.len() * 2);
        s.push('x');
        for b in bytes {
            write!(s, "{b:02x}").unwrap();
        }
        S::A(s)
    }
    pub fn str(st: &str) -> S {
        S::hex(st.as_bytes())
    }
    pub fn list(xs: impl IntoIterator<Item = S>) -> S {
        S::L(xs.into_iter().collect())
    }
    /// `(key v…)`
    pub fn kv(key: &str, vals: impl IntoIterator<Item = S>) -> S {
        let mut v = vec![S::atom(key)];
        v.extend(vals);
        S::L(v)
    }
    pub fn k1(key: &str, val: S) -> S {
        S::L(vec![S::atom(key), val])
    }
    pub fn opt(o: Option<S>) -> S {
        o.unwrap_or_else(|| S::atom("none"))
    }
    pub fn render(&self, out: &mut String) {
        match self {
            S::A(a) => out.push_str(a),
            S::L(xs) => {
                out.push('(');
                for (i, x) in xs.iter().enumerate() {
                    if i > 0 {
                        out.push(' ');
                    }
                    x.render(out);
                }
                out.push(')');
            }
        }
    }
    pub fn to_line(&self) -> String {
        let mut s = String::new();
        self.render(&mut s);
        s
    }
}

/// One protocol line: `(stream id field…)`
pub fn case_line(stream: &str, id: usize, fields: Vec<S>) -> String {
    let mut v = vec![S::atom(stream), S::usize(id)];
    v.extend(fields);
    S::L(v).to_line()
}
