//! Stream c02: run the REAL compiler (fontc::generate_font) on real sources under different thread counts
//! and seeded jitter, with the `fontc_verif` event log switched on, and turn the log of each run into
//!   * the *script* of the run (jobs created by Workload::new, and per handled completion: jobs added,
//!     read-access rewrites, BE-glyph skips),
//!   * the *trace* (launch-with-access-and-counters / finish / deliver, in log order),
//!   * the context accesses actually performed (who, read/write, item), deduplicated.
//! One protocol line per (source, run). The Lean driver replays the trace through the model's `step`,
//! runs the verified `checkScript` on the script and checks conflict-freedom of the recorded accesses.
//!
//! The compiler runs in a child process (`vharness c02 child <source> <threads> <jitter|-> <tracefile>`)
//! because the rayon pool size, the hook sink and the jitter seed are per-process.
use crate::rng::Rng;
use crate::sexp::{self, S};
use crate::Args;
use std::collections::{HashMap, HashSet};
use std::io::Write;
use std::path::{Path, PathBuf};
use std::process::Command;

const TESTDATA: &str = "/repo/resources/testdata";

/// Fixture sources (all build offline); the generated sources follow them in the case numbering.
const SOURCES: &[&str] = &[
    "wght_var.designspace",
    "static.designspace",
    "glyphs3/WghtVar.glyphs",
    "glyphs3/NestedComponent.glyphs",
    "glyphs2/Component.glyphs",
    "glyphs3/NestedNoExportComponent.glyphs",
    "glyphs3/LibreFranklin-bracketlayer.glyphs",
    "glyphs3/KernFloats.glyphs",
    "glyphs3/IntermediateLayer.glyphs",
    "glyphs3/Oswald-AE-comb.glyphs",
    "glyphs2/MixedContourComponent.glyphs",
    "glyphs3/PropagateAnchorsTest.glyphs",
    "glyphs3/CornerComponents.glyphs",
    "glyphs3/SmartComponents.glyphs",
    "DecomposeTransformed.ufo",
    "OpenCorners.ufo",
    "KernlessMid.designspace",
    "PartialKernException.designspace",
    "MVAR.designspace",
    "dspace_rules/Basic.designspace",
    "glyphs3/NonExportWithBraceLayer.glyphs",
    "glyphs3/IncompatibleUnexported.glyphs",
    "glyphs3/MissingComponent.glyphs",
    "glyphs3/WghtVar_NoExport.glyphs",
];

const THREADS: &[usize] = &[2, 4, 1, 8, 3, 16, 5, 2];

/// build options of one source
#[derive(Clone, Default)]
struct Bo {
    flags_off: u32,
    skip_features: bool,
}

/// Directed schedules (`FONTC_VERIF_DELAY`), by run number; `None` = undisturbed / jitter only.
///  * lag:      IR glyph completion messages arrive 25 ms after the counters were decremented, the GlyphOrder worker
///              decrements its counter 60 ms after it finished executing (the schedule that exposed F-C02-1);
///  * slowgo:   GlyphOrder starts 40 ms late and lingers 40 ms: every back-end glyph job whose access does not name
///              GlyphOrder is launchable (and runs) before GlyphOrder finishes;
///  * latemsg:  the completion messages of the jobs whose success spawns work (GlyphOrder, KerningLocations,
///              GatherIrKerning) and of the IR glyph jobs arrive 30 ms late.
const SCHEDULES: &[(&str, Option<&str>, bool)] = &[
    ("none", None, false),
    ("lag", Some("send:IrGlyph:25,post:IrGlyphOrder:60"), false),
    ("none", None, true),
    ("slowgo", Some("pre:IrGlyphOrder:40,post:IrGlyphOrder:40"), false),
    ("latemsg", Some("send:IrGlyphOrder:30,send:IrKerningLocations:30,send:BeGatherIr:30,send:IrGlyph:30"), true),
];

// ------------------------------------------------------------------ generated sources
use crate::e2e::design::{AxisDef, Comp, Design, GlyphDef, Master, Pt, PtType};

/// number of generated sources per run (each is built under every schedule)
const N_GEN: usize = 8;
const PREFER_SIMPLE_GLYPHS: u32 = 0b100;

fn square(x: f64, y: f64, w: f64) -> Vec<Pt> {
    [(x, y), (x + w, y), (x + w, y + w), (x, y + w)].iter().map(|(x, y)| Pt { x: *x, y: *y, typ: PtType::Line }).collect()
}

fn comp(base: &str, dx: f64, dy: f64) -> Comp {
    Comp { base: base.to_string(), t: [1.0, 0.0, 0.0, 1.0, dx, dy] }
}

/// An unusual-but-valid source. `g` selects which job-graph shapes it contains; the rng only varies details.
/// Returns the design, its build options and the list of shape words (for the distribution tags).
fn gen_source(g: usize, rng: &mut Rng) -> (Design, Bo, Vec<&'static str>) {
    let variable = g % 2 == 1 || g == 6;
    let dangling = matches!(g, 0 | 1 | 6 | 7);
    let nonexport = matches!(g, 1 | 3 | 6 | 7);
    let nested = matches!(g, 1 | 2 | 6 | 7);
    let mixed = matches!(g, 2 | 3 | 6 | 7);
    let simple_off = matches!(g, 3 | 6);
    let kerning = matches!(g, 4 | 5 | 6 | 7);
    let skip_features = matches!(g, 5 | 7);
    let mut feats: Vec<&'static str> = vec![if variable { "variable" } else { "static" }];

    let mut glyphs: std::collections::BTreeMap<String, GlyphDef> = Default::default();
    let mut order: Vec<String> = vec![];
    let add = |glyphs: &mut std::collections::BTreeMap<String, GlyphDef>, order: &mut Vec<String>, n: &str, gd: GlyphDef| {
        glyphs.insert(n.to_string(), gd);
        order.push(n.to_string());
    };
    let n_simple = 3 + rng.below(3);
    let simple_names = ["a", "b", "c", "d", "e"];
    for (i, n) in simple_names.iter().take(n_simple).enumerate() {
        let w = 100.0 + 40.0 * i as f64 + rng.range(0, 30) as f64;
        add(&mut glyphs, &mut order, n, GlyphDef { advance: 400.0 + 50.0 * i as f64, contours: vec![square(50.0 + 10.0 * i as f64, 0.0, w)], ..Default::default() });
    }
    add(&mut glyphs, &mut order, "space", GlyphDef { advance: 250.0, ..Default::default() });
    let mut skip_export = vec![];
    if dangling {
        // every component is a dangling reference: fontc prunes them (with a warning) and the glyph ends up empty
        add(&mut glyphs, &mut order, "dgl", GlyphDef { advance: 500.0, components: vec![comp("ghost.one", 10.0, 0.0), comp("ghost.two", 0.0, 20.0)], ..Default::default() });
        add(&mut glyphs, &mut order, "dgl2", GlyphDef { advance: 510.0, components: vec![comp("ghost.one", 0.0, 0.0)], ..Default::default() });
        // dangling and real components mixed
        add(&mut glyphs, &mut order, "dmix", GlyphDef { advance: 520.0, components: vec![comp("ghost.one", 5.0, 5.0), comp("a", 30.0, 0.0), comp("b", 300.0, 10.0)], ..Default::default() });
        feats.push("dangling-only");
        feats.push("dangling-mixed");
    }
    if nonexport {
        // a non-export glyph used as a component of exported composites
        add(&mut glyphs, &mut order, "ne", GlyphDef { advance: 300.0, contours: vec![square(20.0, 20.0, 150.0)], ..Default::default() });
        skip_export.push("ne".to_string());
        add(&mut glyphs, &mut order, "cne", GlyphDef { advance: 600.0, components: vec![comp("ne", 0.0, 0.0), comp("b", 250.0, 0.0)], ..Default::default() });
        add(&mut glyphs, &mut order, "cne2", GlyphDef { advance: 610.0, components: vec![comp("ne", 100.0, 100.0)], ..Default::default() });
        feats.push("nonexport-component");
    }
    if nested {
        // n4 -> n3 -> n2 -> n1 -> a
        add(&mut glyphs, &mut order, "n1", GlyphDef { advance: 450.0, components: vec![comp("a", 10.0, 0.0)], ..Default::default() });
        add(&mut glyphs, &mut order, "n2", GlyphDef { advance: 460.0, components: vec![comp("n1", 0.0, 10.0), comp("b", 200.0, 0.0)], ..Default::default() });
        add(&mut glyphs, &mut order, "n3", GlyphDef { advance: 470.0, components: vec![comp("n2", 5.0, 5.0)], ..Default::default() });
        add(&mut glyphs, &mut order, "n4", GlyphDef { advance: 480.0, components: vec![comp("n3", 0.0, 0.0), comp("c", 100.0, 300.0)], ..Default::default() });
        if nonexport {
            // and a nested chain through the non-export glyph
            add(&mut glyphs, &mut order, "n5", GlyphDef { advance: 490.0, components: vec![comp("cne", 0.0, 0.0)], ..Default::default() });
        }
        feats.push("nested3");
    }
    if mixed {
        add(&mut glyphs, &mut order, "mx", GlyphDef { advance: 530.0, contours: vec![square(0.0, 300.0, 120.0)], components: vec![comp("a", 150.0, 0.0)], ..Default::default() });
        add(&mut glyphs, &mut order, "mx2", GlyphDef { advance: 540.0, contours: vec![square(10.0, 310.0, 100.0)], components: vec![comp("b", 0.0, 0.0), comp("c", 200.0, 0.0)], ..Default::default() });
        feats.push("mixed-contour-component");
        feats.push(if simple_off { "prefer-simple-off" } else { "prefer-simple-on" });
    }
    let (mut kern, mut groups) = (vec![], vec![]);
    if kerning {
        groups.push(("public.kern1.A".to_string(), vec!["a".to_string(), "b".to_string()]));
        groups.push(("public.kern2.C".to_string(), vec!["b".to_string(), "c".to_string()]));
        kern.push(("public.kern1.A".to_string(), "public.kern2.C".to_string(), -40.0 - rng.range(0, 20) as f64));
        kern.push(("a".to_string(), "c".to_string(), -25.0));
        kern.push(("c".to_string(), "public.kern2.C".to_string(), 15.0));
        kern.push(("c".to_string(), "a".to_string(), -10.0 - rng.range(0, 5) as f64));
        kern.push(("space".to_string(), "a".to_string(), 12.0));
        feats.push("kerning-groups");
    }
    if skip_features {
        feats.push("skip-features");
    }

    let mut d = Design { family: "Verif Sched".into(), upem: 1000, ..Default::default() };
    let info: Vec<(String, f64)> = vec![("ascender".into(), 800.0), ("descender".into(), -200.0), ("xHeight".into(), 500.0), ("capHeight".into(), 700.0)];
    let n_masters = if variable { 2 + (g == 6) as usize } else { 1 };
    if variable {
        d.axes.push(AxisDef { tag: "wght".into(), name: "Weight".into(), min: 400.0, default: 400.0, max: 900.0, map: vec![] });
    }
    for mi in 0..n_masters {
        let shift = 30.0 * mi as f64;
        let mut gl = glyphs.clone();
        for gd in gl.values_mut() {
            gd.advance += shift;
            for c in gd.contours.iter_mut() {
                for (k, p) in c.iter_mut().enumerate() {
                    if k == 1 || k == 2 { p.x += shift; }
                }
            }
            for c in gd.components.iter_mut() {
                c.t[4] += shift / 2.0;
            }
        }
        let loc = if variable { vec![[400.0, 900.0, 650.0][mi]] } else { vec![] };
        d.masters.push(Master {
            name: format!("M{mi}"),
            style: if mi == 0 { "Regular".into() } else { format!("Style{mi}") },
            loc,
            glyphs: gl,
            kerning: kern.iter().map(|(a, b, v)| (a.clone(), b.clone(), v - 5.0 * mi as f64)).collect(),
            groups: groups.clone(),
            info: info.clone(),
            ..Default::default()
        });
    }
    for (i, n) in order.iter().enumerate() {
        if n != "ne" {
            d.codepoints.insert(n.clone(), vec![if n == "space" { 0x20 } else { 0x61 + i as u32 }]);
        }
    }
    d.glyph_order = Some(order);
    d.skip_export = skip_export;
    let bo = Bo { flags_off: if simple_off { PREFER_SIMPLE_GLYPHS } else { 0 }, skip_features };
    (d, bo, feats)
}

// ------------------------------------------------------------------ child: one real build
fn child(rest: &[String]) {
    // rest = ["child", source, threads, jitter, delay-spec, tracefile, flags_off, skip_features]
    let source = &rest[1];
    // SAFETY: single-threaded at this point
    unsafe {
        std::env::set_var("RAYON_NUM_THREADS", &rest[2]);
        if rest[3] != "-" {
            std::env::set_var("FONTC_VERIF_JITTER", &rest[3]);
        } else {
            std::env::remove_var("FONTC_VERIF_JITTER");
        }
        if rest[4] != "-" {
            std::env::set_var("FONTC_VERIF_DELAY", &rest[4]);
        } else {
            std::env::remove_var("FONTC_VERIF_DELAY");
        }
        std::env::set_var("FONTC_VERIF_TRACE", &rest[5]);
    }
    let opts = crate::e2e::build::BuildOpts {
        flags: None,
        flags_off: rest.get(6).and_then(|v| v.parse().ok()).unwrap_or(0),
        skip_features: rest.get(7).map(|v| v == "1").unwrap_or(false),
        ir_dir: None,
    };
    let result = crate::e2e::build::compile(Path::new(source), &opts);
    let out = std::io::stdout();
    let mut out = out.lock();
    match result {
        Ok(bytes) => {
            // cheap content hash (FNV-1a 64) — enough to notice schedule-dependent output
            let mut h: u64 = 0xcbf29ce484222325;
            for b in &bytes {
                h = (h ^ (*b as u64)).wrapping_mul(0x100000001b3);
            }
            writeln!(out, "ok {} {h:016x}", bytes.len()).unwrap();
        }
        Err(e) => writeln!(out, "err {}", S::str(&e).to_line()).unwrap(),
    }
}

// ------------------------------------------------------------------ log reader
#[derive(Clone, Debug, PartialEq)]
enum L {
    A(String),
    L(Vec<L>),
}

fn parse_line(line: &str) -> Option<L> {
    let mut stack: Vec<Vec<L>> = vec![vec![]];
    let mut cur = String::new();
    let flush = |cur: &mut String, stack: &mut Vec<Vec<L>>| {
        if !cur.is_empty() {
            stack.last_mut().unwrap().push(L::A(std::mem::take(cur)));
        }
    };
    for c in line.chars() {
        match c {
            '(' => {
                flush(&mut cur, &mut stack);
                stack.push(vec![]);
            }
            ')' => {
                flush(&mut cur, &mut stack);
                let top = stack.pop()?;
                stack.last_mut()?.push(L::L(top));
            }
            ' ' | '\t' | '\n' | '\r' => flush(&mut cur, &mut stack),
            c => cur.push(c),
        }
    }
    flush(&mut cur, &mut stack);
    if stack.len() != 1 {
        return None;
    }
    let mut top = stack.pop()?;
    if top.len() == 1 { top.pop() } else { None }
}

fn unhex(s: &str) -> Option<String> {
    let s = s.strip_prefix('x')?;
    let bytes: Option<Vec<u8>> = (0..s.len() / 2).map(|i| u8::from_str_radix(&s[2 * i..2 * i + 2], 16).ok()).collect();
    String::from_utf8(bytes?).ok()
}

/// `Fe(X)` / `Be(X)` (Debug of AnyWorkId) and plain `X` (Debug of the FE WorkId) name the same thing
fn normalise_key(k: &str) -> String {
    for p in ["Fe(", "Be("] {
        if let Some(inner) = k.strip_prefix(p).and_then(|r| r.strip_suffix(')')) {
            return inner.to_string();
        }
    }
    k.to_string()
}

#[derive(Default)]
struct Interner {
    ids: Vec<(String, String)>,
    index: HashMap<(String, String), usize>,
}

impl Interner {
    fn id(&mut self, l: &L) -> Option<usize> {
        let L::L(v) = l else { return None };
        let (L::A(disc), L::A(key)) = (v.first()?, v.get(1)?) else { return None };
        let k = (disc.clone(), normalise_key(&unhex(key)?));
        if let Some(i) = self.index.get(&k) {
            return Some(*i);
        }
        self.ids.push(k.clone());
        self.index.insert(k, self.ids.len() - 1);
        Some(self.ids.len() - 1)
    }

    /// access as protocol S, ids interned; set members sorted (canonical)
    fn access(&mut self, l: &L) -> Option<S> {
        match l {
            L::A(w) => Some(S::atom(w.clone())),
            L::L(v) => {
                let mut deps: Vec<(u8, String, usize)> = vec![];
                for d in v.iter().skip(1) {
                    let L::L(d) = d else { return None };
                    match d.first()? {
                        L::A(t) if t == "v" => {
                            let L::A(disc) = d.get(1)? else { return None };
                            deps.push((0, disc.clone(), 0));
                        }
                        L::A(t) if t == "s" => deps.push((1, String::new(), self.id(d.get(1)?)?)),
                        _ => return None,
                    }
                }
                deps.sort();
                deps.dedup();
                let mut out = vec![S::atom("set")];
                for (t, disc, id) in deps {
                    out.push(if t == 0 { S::kv("v", [S::atom(disc)]) } else { S::kv("s", [S::usize(id)]) });
                }
                Some(S::L(out))
            }
        }
    }
}

struct Extracted {
    ids: Vec<(String, String)>,
    init: Vec<S>,
    on: Vec<(usize, Vec<S>)>,
    trace: Vec<S>,
    acc: Vec<S>,
    n_jobs: usize,
    n_spawned: usize,
    n_rewrites: usize,
    n_skips: usize,
    ended: bool,
    problems: Vec<String>,
    /// canonical text of the script with full ids, for cross-run comparison
    canon: Vec<String>,
}

fn word(l: &L) -> &str {
    match l {
        L::A(s) => s,
        _ => "",
    }
}

fn extract(log: &str) -> Extracted {
    let mut it = Interner::default();
    let mut init = vec![];
    let mut on: Vec<(usize, Vec<S>)> = vec![];
    let mut trace = vec![];
    let mut acc = vec![];
    let mut acc_seen: HashSet<String> = HashSet::new();
    let mut pending_also: HashMap<usize, Vec<usize>> = HashMap::new();
    let mut expect_placeholders: Vec<usize> = vec![];
    let mut current: Option<usize> = None; // delivery being handled
    let mut problems = vec![];
    let (mut n_jobs, mut n_spawned, mut n_rewrites, mut n_skips) = (0, 0, 0, 0);
    let mut ended = false;
    let mut canon: Vec<String> = vec![];

    for (ln, line) in log.lines().enumerate() {
        let Some(L::L(v)) = parse_line(line) else {
            problems.push(format!("unparseable log line {ln}"));
            continue;
        };
        if word(&v[0]) != "1" {
            problems.push("more than one build in the log".to_string());
            continue;
        }
        let full = |it: &Interner, i: usize| format!("{}:{}", it.ids[i].0, it.ids[i].1);
        let r: Option<()> = (|| {
            match word(v.get(1)?) {
                "begin" => {}
                "alsomap" => {
                    let p = it.id(v.get(2)?)?;
                    let L::L(ids) = v.get(3)? else { return None };
                    let ids: Option<Vec<usize>> = ids.iter().map(|i| it.id(i)).collect();
                    pending_also.insert(p, ids?);
                }
                "ins" => {
                    let id = it.id(v.get(2)?)?;
                    let kind = word(v.get(3)?).to_string();
                    let reads = it.access(v.get(4)?)?;
                    let writes = it.access(v.get(5)?)?;
                    let creator = match v.get(6)? {
                        L::A(w) if w == "init" => None,
                        l => Some(it.id(l)?),
                    };
                    if creator != current {
                        problems.push(format!("insert of {} tagged with creator {:?} while handling {:?}", full(&it, id), creator, current));
                    }
                    if kind == "also" {
                        // placeholder: must be one of the also-completes ids announced by the parent's alsomap
                        if !pending_also.values().any(|a| a.contains(&id)) {
                            problems.push(format!("placeholder {} without alsomap", full(&it, id)));
                        }
                        expect_placeholders.push(id);
                        return Some(());
                    }
                    let also = pending_also.remove(&id).unwrap_or_default();
                    if expect_placeholders != also {
                        problems.push(format!("placeholders before {} do not match its also-completes", full(&it, id)));
                    }
                    expect_placeholders.clear();
                    n_jobs += 1;
                    let job = S::kv("job", [S::usize(id), S::atom(kind.clone()), reads.clone(), writes.clone(), S::list(also.iter().map(|a| S::usize(*a)))]);
                    let also_txt: Vec<String> = also.iter().map(|a| full(&it, *a)).collect();
                    let txt = format!("job {} {} r={} w={} also={:?}", full(&it, id), kind, render_access(&it, &reads), render_access(&it, &writes), also_txt);
                    match creator {
                        None => {
                            init.push(job);
                            canon.push(format!("init {txt}"));
                        }
                        Some(c) => {
                            n_spawned += 1;
                            push_effect(&mut on, c, S::kv("add", [job]));
                            canon.push(format!("on {} #{} add {txt}", full(&it, c), on.iter().find(|(k, _)| *k == c).unwrap().1.len()));
                        }
                    }
                }
                "rw" => {
                    let id = it.id(v.get(2)?)?;
                    let a = it.access(v.get(3)?)?;
                    let must = word(v.get(4)?).to_string();
                    n_rewrites += 1;
                    let Some(c) = current else {
                        problems.push("rewrite outside a delivery".to_string());
                        return Some(());
                    };
                    push_effect(&mut on, c, S::kv("rw", [S::usize(id), a.clone(), S::atom(must.clone())]));
                    canon.push(format!("on {} #{} rw {} {} {}", full(&it, c), on.iter().find(|(k, _)| *k == c).unwrap().1.len(), full(&it, id), render_access(&it, &a), must));
                }
                "skip" => {
                    let id = it.id(v.get(2)?)?;
                    n_skips += 1;
                    let Some(c) = current else {
                        problems.push("skip outside a delivery".to_string());
                        return Some(());
                    };
                    if word(v.get(3)?) == "running" {
                        problems.push(format!("skip of RUNNING job {}", full(&it, id)));
                    }
                    push_effect(&mut on, c, S::kv("skip", [S::usize(id)]));
                    canon.push(format!("on {} #{} skip {}", full(&it, c), on.iter().find(|(k, _)| *k == c).unwrap().1.len(), full(&it, id)));
                }
                "guard" => {
                    // the scheduler inspected the state of job `id` (idle = pending, not launched; running; gone) before acting
                    let id = it.id(v.get(2)?)?;
                    let st = word(v.get(3)?).to_string();
                    let Some(c) = current else {
                        problems.push("guard outside a delivery".to_string());
                        return Some(());
                    };
                    push_effect(&mut on, c, S::kv("g", [S::usize(id), S::atom(st.clone())]));
                    canon.push(format!("on {} #{} guard {} {}", full(&it, c), on.iter().find(|(k, _)| *k == c).unwrap().1.len(), full(&it, id), st));
                }
                "deliver" => {
                    let id = it.id(v.get(2)?)?;
                    current = Some(id);
                    if !on.iter().any(|(k, _)| *k == id) {
                        on.push((id, vec![]));
                    }
                    trace.push(S::kv("d", [S::usize(id)]));
                }
                "delivered" => {
                    current = None;
                }
                "launch" => {
                    let id = it.id(v.get(2)?)?;
                    let a = it.access(v.get(3)?)?;
                    let L::L(cs) = v.get(4)? else { return None };
                    let mut counters = vec![];
                    for c in cs {
                        let L::L(c) = c else { return None };
                        counters.push(S::list([S::atom(word(c.first()?)), S::atom(word(c.get(1)?))]));
                    }
                    trace.push(S::kv("l", [S::usize(id), a, S::list(counters)]));
                }
                "finish" => {
                    let id = it.id(v.get(2)?)?;
                    if word(v.get(3)?) == "ok" {
                        trace.push(S::kv("f", [S::usize(id)]));
                    } else {
                        trace.push(S::kv("e", [S::usize(id)]));
                    }
                }
                "error" => {
                    let id = it.id(v.get(2)?)?;
                    trace.push(S::kv("err", [S::usize(id)]));
                }
                "stuck" => trace.push(S::kv("stuck", [S::atom(word(v.get(2)?))])),
                "end" => {
                    ended = word(v.get(2)?) == word(v.get(3)?);
                }
                "acc" => {
                    let who = match v.get(2)? {
                        L::L(w) if word(&w[0]) == "main" => match w.get(1)? {
                            L::A(a) => S::kv("m", [S::atom(a.clone())]),
                            l => S::kv("m", [S::usize(it.id(l)?)]),
                        },
                        l => S::usize(it.id(l)?),
                    };
                    let kind = word(v.get(3)?).to_string();
                    let item = it.id(v.get(4)?)?;
                    let a = S::kv("a", [who, S::atom(kind), S::usize(item)]);
                    if acc_seen.insert(a.to_line()) {
                        acc.push(a);
                    }
                }
                other => problems.push(format!("unknown log event {other}")),
            }
            Some(())
        })();
        if r.is_none() {
            problems.push(format!("malformed log line {ln}: {}", &line[..line.len().min(120)]));
        }
    }
    if !expect_placeholders.is_empty() {
        problems.push("dangling placeholder inserts".to_string());
    }
    canon.sort();
    Extracted { ids: it.ids, init, on, trace, acc, n_jobs, n_spawned, n_rewrites, n_skips, ended, problems, canon }
}

fn push_effect(on: &mut Vec<(usize, Vec<S>)>, c: usize, e: S) {
    match on.iter_mut().find(|(k, _)| *k == c) {
        Some((_, v)) => v.push(e),
        None => on.push((c, vec![e])),
    }
}

fn render_access(it: &Interner, a: &S) -> String {
    match a {
        S::A(w) => w.clone(),
        S::L(v) => {
            let mut parts = vec![];
            for d in v.iter().skip(1) {
                if let S::L(d) = d {
                    match (&d[0], &d[1]) {
                        (S::A(t), S::A(x)) if t == "v" => parts.push(format!("v:{x}")),
                        (S::A(_), S::A(x)) => {
                            let i: usize = x.parse().unwrap();
                            parts.push(format!("s:{}:{}", it.ids[i].0, it.ids[i].1))
                        }
                        _ => {}
                    }
                }
            }
            parts.sort();
            format!("{{{}}}", parts.join(","))
        }
    }
}

// ------------------------------------------------------------------ parent
struct RunOut {
    status: String, // "ok <len> <hash>" | "err x.." | "panic x.." | "crash"
    log: String,
}

fn run_child(source: &Path, threads: usize, jitter: Option<u64>, delay: Option<&str>, bo: &Bo, tag: &str) -> RunOut {
    // the same per-property binary, whatever its path is now
    let exe = PathBuf::from("/proc/self/exe");
    let dir = PathBuf::from("/verif/build/run/C02");
    let _ = std::fs::create_dir_all(&dir);
    let trace = dir.join(format!("trace-{}-{}.log", std::process::id(), tag));
    let _ = std::fs::remove_file(&trace);
    // the binary may be replaced by a concurrent `cargo build`: retry the spawn for a while
    let mut attempt = 0;
    let out = loop {
        let r = Command::new(&exe)
            .arg("c02")
            .arg("child")
            .arg(source)
            .arg(threads.to_string())
            .arg(jitter.map(|j| j.to_string()).unwrap_or_else(|| "-".into()))
            .arg(delay.unwrap_or("-"))
            .arg(&trace)
            .arg(bo.flags_off.to_string())
            .arg(if bo.skip_features { "1" } else { "0" })
            .env_remove("RUST_LOG")
            .env("SOURCE_DATE_EPOCH", "1700000000")
            .output();
        match r {
            Ok(o) => break o,
            Err(e) if attempt < 100 => {
                attempt += 1;
                let _ = e;
                std::thread::sleep(std::time::Duration::from_millis(200));
            }
            Err(e) => panic!("spawn child: {e}"),
        }
    };
    let status = String::from_utf8_lossy(&out.stdout).trim().to_string();
    let status = if status.is_empty() { format!("crash {:?}", out.status.code()) } else { status };
    let log = std::fs::read_to_string(&trace).unwrap_or_default();
    let _ = std::fs::remove_file(&trace);
    RunOut { status, log }
}

fn case(seed: u64, i: usize) -> Vec<S> {
    let n_sources = SOURCES.len() + N_GEN;
    let si = i % n_sources;
    let run = i / n_sources;
    let mut rng = Rng::for_case(seed, "c02", i);
    let threads = THREADS[run % THREADS.len()];
    // run 0 of every source is the undisturbed schedule, runs 1, 3, 4 are directed ones, run 2 and all runs >= 5 are jittered
    let (sched_name, delay, with_jitter) = if run < SCHEDULES.len() { SCHEDULES[run] } else { ("none", None, true) };
    let jitter = if with_jitter { Some(rng.next() % 1_000_000) } else { None };
    // the source: a fixture, or a generated design (the same one for every schedule of this seed)
    let mut _tmp = None;
    let (src_name, source, bo, feats): (String, PathBuf, Bo, Vec<&'static str>) = if si < SOURCES.len() {
        (SOURCES[si].to_string(), Path::new(TESTDATA).join(SOURCES[si]), Bo::default(), vec!["fixture"])
    } else {
        let g = si - SOURCES.len();
        let mut grng = Rng::for_case(seed, "c02gen", g);
        let (d, bo, mut feats) = gen_source(g, &mut grng);
        let dir = crate::e2e::build::tmpdir("c02-");
        let mut path = crate::e2e::write::write_design(dir.path(), &d);
        if d.axes.is_empty() {
            // a static source is its single UFO (lib keys such as public.skipExportGlyphs are read from it)
            path = dir.path().join(crate::e2e::write::ufo_name(&d, 0));
        } else if !d.skip_export.is_empty() {
            // for a designspace fontc reads public.skipExportGlyphs from the designspace lib
            let xml = std::fs::read_to_string(&path).unwrap();
            let names: String = d.skip_export.iter().map(|n| format!("<string>{n}</string>")).collect();
            let lib = format!("  <lib><dict><key>public.skipExportGlyphs</key><array>{names}</array></dict></lib>\n</designspace>");
            std::fs::write(&path, xml.replace("</designspace>", &lib)).unwrap();
        }
        _tmp = Some(dir);
        feats.push("generated");
        (format!("gen{g}"), path, bo, feats)
    };
    let mut fields = vec![
        S::k1("source", S::str(&src_name)),
        S::k1("threads", S::usize(threads)),
        S::k1("jitter", jitter.map(|j| S::int(j as i128)).unwrap_or(S::atom("none"))),
        S::k1("delay", S::atom(sched_name)),
        S::kv("feats", feats.iter().map(|f| S::atom(*f))),
    ];
    if !source.exists() {
        fields.push(S::k1("status", S::atom("missing")));
        return fields;
    }
    let out = run_child(&source, threads, jitter, delay, &bo, &format!("{i}"));
    let st: Vec<&str> = out.status.split(' ').collect();
    let ex = extract(&out.log);
    // reference run (other thread count, no jitter) to see whether the script depends on the schedule
    let reference = run_child(&source, if threads == 2 { 4 } else { 2 }, None, None, &bo, &format!("{i}r"));
    let rex = extract(&reference.log);
    let script_cmp = if ex.canon == rex.canon {
        S::k1("scriptcmp", S::atom("same"))
    } else {
        let a: HashSet<&String> = ex.canon.iter().collect();
        let b: HashSet<&String> = rex.canon.iter().collect();
        let mut only_a: Vec<&&String> = a.difference(&b).collect();
        let mut only_b: Vec<&&String> = b.difference(&a).collect();
        only_a.sort();
        only_b.sort();
        let d = format!(
            "this-run-only: {:?} reference-only: {:?}",
            only_a.iter().take(4).collect::<Vec<_>>(),
            only_b.iter().take(4).collect::<Vec<_>>()
        );
        S::kv("scriptcmp", [S::atom("differs"), S::str(&d)])
    };
    let out_cmp = if out.status == reference.status { "same" } else { "differs" };

    fields.push(S::kv("status", st.iter().map(|w| S::atom(*w))));
    fields.push(S::k1("ended", S::bool(ex.ended)));
    fields.push(S::kv("counts", [S::usize(ex.n_jobs), S::usize(ex.n_spawned), S::usize(ex.n_rewrites), S::usize(ex.n_skips)]));
    fields.push(S::kv("problems", ex.problems.iter().map(|p| S::str(p))));
    fields.push(script_cmp);
    fields.push(S::k1("outcmp", S::atom(out_cmp)));
    fields.push(S::kv("ids", ex.ids.iter().map(|(d, k)| S::list([S::atom(d.clone()), S::str(k)]))));
    let mut script = vec![S::kv("init", ex.init)];
    for (k, effs) in ex.on {
        let mut v = vec![S::usize(k)];
        v.extend(effs);
        script.push(S::kv("on", v));
    }
    fields.push(S::kv("script", script));
    fields.push(S::kv("trace", ex.trace));
    fields.push(S::kv("acc", ex.acc));
    fields
}

pub fn run(args: &Args) {
    if args.rest.first().map(|s| s.as_str()) == Some("child") {
        child(&args.rest);
        return;
    }
    let seed = args.seed;
    // cases are whole compiler runs in child processes; no in-process panics to catch, but keep the common shape
    let stdout = std::io::stdout();
    let mut out = std::io::BufWriter::new(stdout.lock());
    for i in args.from..args.from + args.n {
        let line = sexp::case_line("c02", i, case(seed, i));
        writeln!(out, "{line}").unwrap();
    }
}
