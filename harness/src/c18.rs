//! C18: names referenced from other tables exist and say what the source says.
//!
//! `c18` (pure): generated naming configurations -> real `NameBuilder::build` (fallback chain) ->
//! real `StaticMetadata::new` (name-id allocation) -> real `generate_fvar` / `make_stat` (hooks).
//! Every case is run several times in-process (fresh `HashMap`s, whose iteration order is recorded and
//! handed to the Lean model as its explicit `order` parameter) and in `k` child processes
//! (`vharness c18child`, different `RandomState` seeds); all runs must give the same names and ids.
//!
//! `c18e2e`: generated designspaces with instances / colliding family and style strings / FEA feature
//! names -> real `fontc::generate_font` -> name, fvar, STAT and GSUB feature-parameter name ids.
use crate::e2e::{build, design, dump, write};
use crate::rng::Rng;
use crate::sexp::S;
use crate::Args;
use fontdrasil::coords::{CoordConverter, NormalizedCoord, NormalizedLocation, UserCoord, UserLocation};
use fontdrasil::types::{Axis, Tag};
use fontir::ir::{NameBuilder, NameKey, NamedInstance, StaticMetadata};
use std::collections::{HashMap, HashSet};
use std::str::FromStr;
use write_fonts::types::NameId;

// ------------------------------------------------------------------ abstract naming configuration

#[derive(Clone, Debug)]
pub struct AxisSrc {
    pub name: String,
    /// `<labelname xml:lang="en">`
    pub label: Option<String>,
    pub tag: String,
    pub min: f64,
    pub default: f64,
    pub max: f64,
}

#[derive(Clone, Debug)]
pub struct InstSrc {
    pub name: String,
    pub ps: Option<String>,
    /// user coordinates, one per axis of the case (point axes included)
    pub loc: Vec<f64>,
}

#[derive(Clone, Debug, Default)]
pub struct Case {
    /// `NameBuilder::add` calls in order: (name id, value)
    pub adds: Vec<(u16, String)>,
    pub version: (i32, u32),
    pub vendor: String,
    pub axes: Vec<AxisSrc>,
    pub insts: Vec<InstSrc>,
    /// how many in-process runs
    pub runs: usize,
}

const FAMILIES: [&str; 7] = ["Regular", "Fam", "My Font", "Bold", "Weight", "Söhne", "Fam Light"];
const STYLES: [&str; 11] = ["Regular", "Bold", "Italic", "Bold Italic", "Light", "Condensed Thin", "regular", "BOLD", "", "Weight", "Semi Bold"];
const RIBBI: [&str; 4] = ["Regular", "Italic", "Bold", "Bold Italic"];
const AXES: [(&str, &str, f64, f64, f64); 4] = [
    ("wght", "Weight", 100.0, 400.0, 900.0),
    ("wdth", "Width", 50.0, 100.0, 200.0),
    ("opsz", "Optical Size", 8.0, 14.0, 72.0),
    ("slnt", "Slant", -12.0, 0.0, 0.0),
];

/// Directed cases come first in the stream (indices 0..DIRECTED), then seeded random ones.
pub const DIRECTED: usize = 10;

fn wght() -> AxisSrc {
    AxisSrc { name: "Weight".into(), label: None, tag: "wght".into(), min: 100.0, default: 400.0, max: 900.0 }
}

fn directed(i: usize) -> Case {
    let s = |x: &str| x.to_string();
    match i {
        // F2 witness (f2Witness in FontcProps/C18.lean): family name == default instance's style name == style name.
        // After the fallback chain: id1 = id2 = "Regular"; before c4dd162 which of the two `find_map` met first decided.
        0 => Case {
            adds: vec![(16, s("Regular")), (17, s("Regular"))],
            vendor: s("NONE"),
            axes: vec![wght()],
            insts: vec![InstSrc { name: s("Regular"), ps: None, loc: vec![400.0] }, InstSrc { name: s("Bold"), ps: None, loc: vec![700.0] }],
            runs: 64,
            ..Default::default()
        },
        // reservedWitness: default instance named like the family (before 6370354 reserved id 1 ended up in fvar)
        1 => Case {
            adds: vec![(16, s("Fam")), (17, s("Regular"))],
            vendor: s("NONE"),
            axes: vec![wght()],
            insts: vec![InstSrc { name: s("Fam"), ps: None, loc: vec![400.0] }],
            runs: 8,
            ..Default::default()
        },
        // clashWitness: the source supplies font-specific name id 256 = "Weight"; before ba69b97 the allocator handed 256
        // out again for "Width" and one of the two axis names no longer resolved
        2 => Case {
            adds: vec![(16, s("Fam")), (17, s("Regular")), (256, s("Weight"))],
            vendor: s("NONE"),
            axes: vec![wght(), AxisSrc { name: s("Width"), label: None, tag: s("wdth"), min: 50.0, default: 100.0, max: 200.0 }],
            insts: vec![],
            runs: 16,
            ..Default::default()
        },
        // same root, other symptom (before ba69b97): source id 256 = "Custom" overwritten by the axis name, or fvar panicked
        8 => Case {
            adds: vec![(16, s("Fam")), (17, s("Regular")), (256, s("Custom"))],
            vendor: s("NONE"),
            axes: vec![wght()],
            insts: vec![],
            runs: 16,
            ..Default::default()
        },
        // static font with instances: no fvar, nothing allocated
        3 => Case {
            adds: vec![(16, s("Fam")), (17, s("Bold"))],
            vendor: s("NONE"),
            axes: vec![AxisSrc { min: 400.0, max: 400.0, ..wght() }],
            insts: vec![InstSrc { name: s("Bold"), ps: None, loc: vec![400.0] }],
            runs: 4,
            ..Default::default()
        },
        // plain well-behaved variable font; default instance reuses id 2, repeated strings share ids
        4 => Case {
            adds: vec![(16, s("Fam")), (17, s("Regular"))],
            vendor: s("ACME"),
            version: (1, 5),
            axes: vec![wght(), AxisSrc { name: s("Width"), label: None, tag: s("wdth"), min: 50.0, default: 100.0, max: 200.0 }],
            insts: vec![
                InstSrc { name: s("Regular"), ps: Some(s("Fam-Regular")), loc: vec![400.0, 100.0] },
                InstSrc { name: s("Bold"), ps: None, loc: vec![700.0, 100.0] },
                InstSrc { name: s("Bold"), ps: Some(s("Fam-Bold")), loc: vec![700.0, 200.0] },
                InstSrc { name: s("Width"), ps: None, loc: vec![400.0, 200.0] },
            ],
            runs: 8,
            ..Default::default()
        },
        // non-RIBBI style, missing legacy names: family gets the suffix, subfamily "Regular"
        5 => Case {
            adds: vec![(16, s("Fam")), (17, s("Condensed Thin"))],
            vendor: s("NONE"),
            axes: vec![wght()],
            insts: vec![InstSrc { name: s("Condensed Thin"), ps: None, loc: vec![400.0] }, InstSrc { name: s("Regular"), ps: None, loc: vec![400.0] }],
            runs: 8,
            ..Default::default()
        },
        // reuse of a source-supplied font-specific id far above the allocator's range
        6 => Case {
            adds: vec![(16, s("Fam")), (17, s("Regular")), (300, s("Weight")), (301, s("Black"))],
            vendor: s("NONE"),
            axes: vec![wght()],
            insts: vec![InstSrc { name: s("Black"), ps: None, loc: vec![900.0] }],
            runs: 8,
            ..Default::default()
        },
        // outside the property's domain (LabelsNonempty): an instance whose style name is the empty string.
        // Recorded to show what the real code does there: an empty name record is written and referenced, no failure.
        9 => Case {
            adds: vec![(16, s("Fam")), (17, s("Regular"))],
            vendor: s("NONE"),
            axes: vec![wght()],
            insts: vec![InstSrc { name: s(""), ps: None, loc: vec![700.0] }, InstSrc { name: s("Regular"), ps: None, loc: vec![400.0] }],
            runs: 8,
            ..Default::default()
        },
        // instance name equals the full name / nothing given at all (defaults "New Font" / "Regular")
        _ => Case {
            adds: vec![],
            vendor: s("NONE"),
            axes: vec![wght()],
            insts: vec![InstSrc { name: s("New Font Regular"), ps: None, loc: vec![400.0] }, InstSrc { name: s("New Font"), ps: None, loc: vec![100.0] }],
            runs: 8,
            ..Default::default()
        },
    }
}

pub fn gen_case(rng: &mut Rng) -> Case {
    let mut c = Case { runs: 6, vendor: "NONE".into(), ..Default::default() };
    let family = rng.pick(&FAMILIES).to_string();
    let style = rng.pick(&STYLES).to_string();
    // the order of ufo2fontir::names(): 1, 2, 3, 5, 6, 16, 17, then openTypeNameRecords
    if rng.chance(1, 4) { c.adds.push((1, if rng.chance(1, 2) { family.clone() } else { rng.pick(&FAMILIES).to_string() })); }
    if rng.chance(1, 4) { c.adds.push((2, rng.pick(&RIBBI).to_string())); }
    if rng.chance(1, 8) { c.adds.push((3, "uniq;id".into())); }
    if rng.chance(1, 6) { c.adds.push((5, (*rng.pick(&["Version 2.001", "Version 1.000;fontc 0.1", "", "2.5"])).into())); }
    if rng.chance(1, 6) { c.adds.push((6, (*rng.pick(&["Fam-Regular", "My PS Name", "Regular"])).into())); }
    if rng.chance(7, 8) { c.adds.push((16, family.clone())); }
    if rng.chance(7, 8) { c.adds.push((17, style.clone())); }
    if rng.chance(1, 10) { c.adds.push((4, (*rng.pick(&["Full Name", "Regular", "Bold"])).into())); }
    if rng.chance(1, 12) { c.adds.push((0, "(c) nobody".into())); }
    if rng.chance(1, 25) {
        // font-specific ids supplied by the source: mostly out of the allocator's reach, sometimes (rare) inside it
        let id = if rng.chance(1, 3) { 256 + rng.below(3) as u16 } else { 300 + rng.below(4) as u16 };
        c.adds.push((id, (*rng.pick(&["Weight", "Custom", "Bold", "Alt a"])).into()));
    }
    if rng.chance(1, 3) { c.version = (rng.range(-1, 12) as i32, rng.below(1200) as u32); }
    if rng.chance(1, 5) { c.vendor = (*rng.pick(&["ACME", "GOOG", "x"])).into(); }

    let n_axes = match rng.below(10) { 0 => 0, 1..=5 => 1, 6..=8 => 2, _ => 3 };
    let mut order = [0usize, 1, 2, 3];
    rng.shuffle(&mut order);
    for k in 0..n_axes {
        let (tag, label, min, def, max) = AXES[order[k]];
        let point = rng.chance(1, 10);
        let (name, lab): (String, Option<String>) = match rng.below(8) {
            0 => (label.to_lowercase().split(' ').next().unwrap().to_string(), None), // 'weight' -> 'Weight', 'optical' -> 'Optical Size'
            1 => (label.to_string(), Some(rng.pick(&[family.as_str(), style.as_str(), "Regular", "Bold", label]).to_string())),
            2 => (rng.pick(&[family.as_str(), "Regular", "Bold", label]).to_string(), None),
            _ => (label.to_string(), None),
        };
        let default = match rng.below(4) { 0 => min, 1 => max, _ => def };
        c.axes.push(AxisSrc { name, label: lab, tag: tag.into(), min: if point { default } else { min }, default, max: if point { default } else { max } });
    }
    // an empty label makes no sense in a source; keep the generator inside the property's domain
    for a in c.axes.iter_mut() {
        if a.name.is_empty() { a.name = "Axis".into(); }
        if a.label.as_deref() == Some("") { a.label = None; }
    }
    let n_inst = if n_axes == 0 { rng.below(2) } else { rng.below(6) };
    let full = format!("{family} {style}");
    for _ in 0..n_inst {
        let name = match rng.below(10) {
            0 | 1 => style.clone(),
            2 => family.clone(),
            3 => "Regular".to_string(),
            4 => full.clone(),
            5 => c.axes.first().map(|a| a.label.clone().unwrap_or(a.name.clone())).unwrap_or("Bold".into()),
            6 if !c.insts.is_empty() => c.insts[rng.below(c.insts.len())].name.clone(),
            _ => rng.pick(&STYLES).to_string(),
        };
        let name = if name.is_empty() { "Regular".to_string() } else { name };
        let ps = if rng.chance(1, 3) {
            Some(match rng.below(4) {
                0 => name.clone(),
                1 => "Fam-Regular".to_string(),
                2 if !c.insts.is_empty() => c.insts[rng.below(c.insts.len())].ps.clone().unwrap_or("Fam-Bold".into()),
                _ => format!("{}-{}", family.replace(' ', ""), name.replace(' ', "")),
            })
        } else { None };
        let at_default = rng.chance(2, 5);
        let loc = c.axes.iter().map(|a| {
            if at_default || a.min == a.max { a.default } else { *rng.pick(&[a.min, a.max, a.default, (a.min + a.max) / 2.0]) }
        }).collect();
        c.insts.push(InstSrc { name, ps, loc });
    }
    c
}

pub fn case_for(seed: u64, i: usize) -> Case {
    if i < DIRECTED {
        directed(i)
    } else {
        let mut rng = Rng::for_case(seed, "c18", i);
        gen_case(&mut rng)
    }
}

// ------------------------------------------------------------------ calling the real code

fn tag(t: &str) -> Tag {
    Tag::from_str(t).unwrap()
}

fn ir_axis(a: &AxisSrc) -> Axis {
    let (min, default, max) = (UserCoord::new(a.min), UserCoord::new(a.default), UserCoord::new(a.max));
    Axis {
        name: a.name.clone(),
        tag: tag(&a.tag),
        min,
        default,
        max,
        hidden: false,
        converter: CoordConverter::default_normalization(min, default, max),
        localized_names: a.label.iter().map(|l| ("en".to_string(), l.clone())).collect(),
    }
}

/// The fallback chain: what `ufo2fontir::source::names` does with a `NameBuilder`.
pub fn built_names(c: &Case) -> Vec<(NameKey, String)> {
    let mut b = NameBuilder::default();
    b.set_version(c.version.0, c.version.1);
    for (id, v) in &c.adds {
        b.add(NameId::new(*id), v.clone());
    }
    let mut v: Vec<(NameKey, String)> = b.build(&c.vendor).into_iter().collect();
    v.sort();
    v
}

#[derive(Clone, PartialEq, Debug)]
pub struct Out {
    pub names: Vec<(NameKey, String)>,
    pub fvar: S,
    pub stat: S,
    pub err: Option<String>,
}

fn key_sexp(k: &NameKey) -> S {
    S::list([S::usize(k.name_id.to_u16() as usize), S::usize(k.platform_id as usize), S::usize(k.encoding_id as usize), S::usize(k.lang_id as usize)])
}

fn names_sexp(names: &[(NameKey, String)]) -> S {
    S::list(names.iter().map(|(k, v)| {
        S::list([S::usize(k.name_id.to_u16() as usize), S::usize(k.platform_id as usize), S::usize(k.encoding_id as usize), S::usize(k.lang_id as usize), S::str(v)])
    }))
}

/// One run of the real allocation + fvar + STAT. `shuffle` varies the insertion order (each `HashMap` has its own
/// `RandomState` anyway). Returns the iteration order of the very map that is handed to `StaticMetadata::new`.
pub fn run_once(c: &Case, built: &[(NameKey, String)], shuffle: u64) -> (Vec<NameKey>, Out) {
    let mut idx: Vec<usize> = (0..built.len()).collect();
    if shuffle != 0 {
        Rng::new(shuffle).shuffle(&mut idx);
    }
    let mut names: HashMap<NameKey, String> = HashMap::new();
    for i in idx {
        names.insert(built[i].0, built[i].1.clone());
    }
    // moving the map does not rehash: this is the order `names.iter()` has inside `StaticMetadata::new`
    let order: Vec<NameKey> = names.keys().copied().collect();
    let axes: Vec<Axis> = c.axes.iter().map(ir_axis).collect();
    let insts: Vec<NamedInstance> = c.insts.iter().map(|i| NamedInstance {
        name: i.name.clone(),
        postscript_name: i.ps.clone(),
        location: c.axes.iter().zip(&i.loc).map(|(a, v)| (tag(&a.tag), UserCoord::new(*v))).collect::<UserLocation>(),
    }).collect();
    let default: NormalizedLocation = c.axes.iter().map(|a| (tag(&a.tag), NormalizedCoord::new(0.0))).collect();
    let locs: HashSet<NormalizedLocation> = HashSet::from([default]);
    let sm = match StaticMetadata::new(1000, names, axes, insts, locs, None, 0.0, None, false) {
        Ok(sm) => sm,
        Err(e) => {
            return (order, Out { names: vec![], fvar: S::atom("none"), stat: S::atom("none"), err: Some(format!("{e:?}")) });
        }
    };
    let mut out_names: Vec<(NameKey, String)> = sm.names.iter().map(|(k, v)| (*k, v.clone())).collect();
    out_names.sort();
    let fvar = match std::panic::catch_unwind(std::panic::AssertUnwindSafe(|| fontbe::fvar::verif_generate_fvar(&sm))) {
        Err(_) => S::atom("panic"),
        Ok(None) => S::atom("none"),
        Ok(Some(f)) => {
            let a = &f.axis_instance_arrays;
            S::list([
                S::k1("axes", S::list(a.axes.iter().map(|x| S::usize(x.axis_name_id.to_u16() as usize)))),
                S::k1("insts", S::list(a.instances.iter().map(|x| S::list([
                    S::usize(x.subfamily_name_id.to_u16() as usize),
                    S::opt(x.post_script_name_id.map(|p| S::usize(p.to_u16() as usize))),
                ])))),
            ])
        }
    };
    // StatWork::exec: no STAT for a static font
    let stat = if sm.axes.is_empty() {
        S::atom("none")
    } else {
        match std::panic::catch_unwind(std::panic::AssertUnwindSafe(|| fontbe::stat::verif_make_stat(&sm))) {
            Err(_) => S::atom("panic"),
            Ok(st) => S::list([
                S::k1("axes", S::list(st.design_axes.iter().map(|x| S::usize(x.axis_name_id.to_u16() as usize)))),
                S::k1("elided", S::opt(st.elided_fallback_name_id.map(|x| S::usize(x.to_u16() as usize)))),
            ]),
        }
    };
    (order, Out { names: out_names, fvar, stat, err: None })
}

fn out_fields(order: &[NameKey], o: &Out) -> Vec<S> {
    vec![
        S::k1("order", S::list(order.iter().map(key_sexp))),
        S::k1("names", names_sexp(&o.names)),
        S::k1("fvar", o.fvar.clone()),
        S::k1("stat", o.stat.clone()),
        S::k1("err", S::opt(o.err.as_ref().map(|e| S::str(e)))),
    ]
}

/// canonical text of one output (what the child processes print and what runs are compared by)
fn canon(o: &Out) -> String {
    S::list(out_fields(&[], o)).to_line()
}

pub fn input_fields(c: &Case) -> Vec<S> {
    vec![
        S::k1("adds", S::list(c.adds.iter().map(|(id, v)| S::list([S::usize(*id as usize), S::str(v)])))),
        S::kv("version", [S::int(c.version.0), S::usize(c.version.1 as usize)]),
        S::k1("vendor", S::str(&c.vendor)),
        S::k1("axes", S::list(c.axes.iter().map(|a| S::list([
            S::str(&a.name), S::opt(a.label.as_ref().map(|l| S::str(l))), S::str(&a.tag), S::f64(a.min), S::f64(a.default), S::f64(a.max),
        ])))),
        S::k1("insts", S::list(c.insts.iter().map(|i| S::list([
            S::str(&i.name), S::opt(i.ps.as_ref().map(|p| S::str(p))), S::list(i.loc.iter().map(|v| S::f64(*v))),
        ])))),
    ]
}

/// `vharness c18child --seed S --from I --n N`: one line per case, `<index> <canonical output of one run>`.
pub fn run_child(args: &Args) {
    use std::io::Write;
    let stdout = std::io::stdout();
    let mut out = std::io::BufWriter::new(stdout.lock());
    std::panic::set_hook(Box::new(|_| {}));
    for i in args.from..args.from + args.n {
        let line = std::panic::catch_unwind(|| {
            let c = case_for(args.seed, i);
            let built = built_names(&c);
            canon(&run_once(&c, &built, 0).1)
        }).unwrap_or_else(|_| "panic".to_string());
        writeln!(out, "{i} {line}").unwrap();
    }
}

fn children_arg(args: &Args) -> usize {
    args.rest.iter().position(|a| a == "--children").and_then(|p| args.rest.get(p + 1)).and_then(|v| v.parse().ok()).unwrap_or(2)
}

/// Spawn `k` child processes over the same case range; returns per child the map index -> canonical output.
fn spawn_children(args: &Args, k: usize) -> Vec<HashMap<usize, String>> {
    let exe = std::env::current_exe().expect("current_exe");
    let procs: Vec<_> = (0..k).map(|_| {
        std::process::Command::new(&exe)
            .args(["c18child", "--seed", &args.seed.to_string(), "--from", &args.from.to_string(), "--n", &args.n.to_string()])
            .stdout(std::process::Stdio::piped())
            .stderr(std::process::Stdio::null())
            .spawn()
            .expect("spawn c18child")
    }).collect();
    procs.into_iter().map(|p| {
        let o = p.wait_with_output().expect("child output");
        String::from_utf8_lossy(&o.stdout).lines().filter_map(|l| {
            let (i, rest) = l.split_once(' ')?;
            Some((i.parse().ok()?, rest.to_string()))
        }).collect()
    }).collect()
}

pub fn run(args: &Args) {
    let seed = args.seed;
    let k = children_arg(args);
    let children = spawn_children(args, k);
    crate::run_cases("c18", args, move |i| {
        let c = case_for(seed, i);
        let built = built_names(&c);
        let mut f = input_fields(&c);
        f.push(S::k1("built", names_sexp(&built)));
        let (order0, out0) = run_once(&c, &built, 0);
        let mut variants: Vec<String> = vec![canon(&out0)];
        let mut alt: Option<(Vec<NameKey>, Out)> = None;
        for r in 1..c.runs.max(1) {
            let (o, out) = run_once(&c, &built, 0x5eed_0000 + (i as u64) * 131 + r as u64);
            let cn = canon(&out);
            if !variants.contains(&cn) {
                variants.push(cn);
                if alt.is_none() { alt = Some((o, out)); }
            }
        }
        let mut child_missing = 0;
        for ch in &children {
            match ch.get(&i) {
                Some(cn) => { if !variants.contains(cn) { variants.push(cn.clone()); } }
                None => child_missing += 1,
            }
        }
        f.push(S::kv("impl", out_fields(&order0, &out0)));
        if let Some((o, out)) = &alt {
            f.push(S::kv("alt", out_fields(o, out)));
        }
        f.push(S::kv("runs", [S::usize(c.runs.max(1)), S::usize(k), S::usize(child_missing), S::usize(variants.len())]));
        f
    });
}

// ------------------------------------------------------------------ e2e

/// STAT + GSUB feature-parameter name ids (new trailing dump fields, see AGENT_GUIDE e2e section)
pub fn dump_stat(bytes: &[u8]) -> Vec<S> {
    use write_fonts::read::{FontRef, TableProvider};
    use write_fonts::read::tables::layout::FeatureParams;
    let mut out = vec![];
    let Ok(font) = FontRef::new(bytes) else { return out };
    if let Ok(stat) = font.stat() {
        let axes: Vec<S> = stat.design_axes().map(|a| a.iter().map(|r| {
            S::list([S::str(&r.axis_tag().to_string()), S::usize(r.axis_name_id().to_u16() as usize), S::usize(r.axis_ordering() as usize)])
        }).collect()).unwrap_or_default();
        let mut values: Vec<S> = vec![];
        if let Some(Ok(arr)) = stat.offset_to_axis_values() {
            for v in arr.axis_values().iter().filter_map(|v| v.ok()) {
                use write_fonts::read::tables::stat::AxisValue;
                let id = match &v {
                    AxisValue::Format1(t) => t.value_name_id(),
                    AxisValue::Format2(t) => t.value_name_id(),
                    AxisValue::Format3(t) => t.value_name_id(),
                    AxisValue::Format4(t) => t.value_name_id(),
                };
                values.push(S::usize(id.to_u16() as usize));
            }
        }
        out.push(S::kv("STAT", [
            S::k1("axes", S::list(axes)),
            S::k1("values", S::list(values)),
            S::k1("elided", S::opt(stat.elided_fallback_name_id().map(|x| S::usize(x.to_u16() as usize)))),
        ]));
    }
    if let Ok(gsub) = font.gsub() {
        let mut params: Vec<S> = vec![];
        if let Ok(fl) = gsub.feature_list() {
            for rec in fl.feature_records() {
                if let Ok(feat) = rec.feature(fl.offset_data()) {
                    match feat.feature_params() {
                        Some(Ok(FeatureParams::StylisticSet(p))) => params.push(S::list([S::str(&rec.feature_tag().to_string()), S::usize(p.ui_name_id().to_u16() as usize)])),
                        Some(Ok(FeatureParams::CharacterVariant(p))) => params.push(S::list([S::str(&rec.feature_tag().to_string()), S::usize(p.feat_ui_label_name_id().to_u16() as usize)])),
                        _ => {}
                    }
                }
            }
        }
        out.push(S::k1("featparams", S::list(params)));
    }
    out
}

const E2E_FAMILIES: [&str; 5] = ["Verif Test", "Regular", "Bold", "Weight", "Fam"];

pub fn gen_e2e(rng: &mut Rng, i: usize) -> (design::Design, &'static str) {
    let mut o = design::GenOpts::default();
    o.max_glyphs = 3;
    o.sparse = false;
    o.composites = false;
    o.max_axes = 2;
    let mut d = design::gen_design(rng, &o);
    let mut kind = "random";
    // family / style strings that collide with instance names and axis labels
    d.family = if i == 0 { "Regular".into() } else { rng.pick(&E2E_FAMILIES).to_string() };
    let default_style = if i == 0 { "Regular".to_string() } else { rng.pick(&["Regular", "Bold", "Light", "Condensed Thin", "Weight"]).to_string() };
    let dm = d.default_master;
    d.masters[dm].style = default_style.clone();
    if rng.chance(1, 6) && i != 0 {
        // axis label colliding with a name string
        d.axes[0].name = rng.pick(&[d.family.as_str(), default_style.as_str(), "Regular"]).to_string();
    }
    let n_inst = if i == 0 { 2 } else { rng.below(5) };
    let def_loc: Vec<f64> = d.masters[dm].loc.clone();
    for k in 0..n_inst {
        let at_default = if i == 0 { k == 0 } else { rng.chance(2, 5) };
        let loc: Vec<f64> = if at_default { def_loc.clone() } else {
            let m = rng.below(d.masters.len());
            d.masters[m].loc.clone()
        };
        let style = if i == 0 { if k == 0 { "Regular".to_string() } else { "Other".to_string() } } else {
            match rng.below(7) {
                0 => d.family.clone(),
                1 | 2 => default_style.clone(),
                3 => d.axes[0].name.clone(),
                4 if !d.instances.is_empty() => d.instances[rng.below(d.instances.len())].style.clone(),
                _ => rng.pick(&["Regular", "Bold", "Light", "Black", "Thin Italic"]).to_string(),
            }
        };
        let postscript = if i != 0 && rng.chance(1, 3) { Some(format!("{}-{}", d.family.replace(' ', ""), style.replace(' ', ""))) } else { None };
        d.instances.push(design::Instance { family: d.family.clone(), style, postscript, loc });
    }
    if i == 0 { kind = "f2"; }
    // names supplied through feature code: stylistic-set feature names (needs two glyphs)
    let names = d.glyph_names();
    if i != 0 && names.len() >= 2 && rng.chance(1, 3) {
        let label = rng.pick(&["Alt a", "Regular", "Weight", "Bold"]).to_string();
        d.features = Some(format!(
            "feature ss01 {{\n  featureNames {{\n    name \"{label}\";\n  }};\n  sub {} by {};\n}} ss01;\n",
            names[0], names[1]
        ));
        kind = "fea";
    }
    (d, kind)
}

/// canonical text of everything naming-related in a font (name records, fvar, STAT, feature params)
fn naming_dump(bytes: &[u8]) -> String {
    let Ok(font) = write_fonts::read::FontRef::new(bytes) else { return "unreadable".into() };
    let mut v = dump::dump_axes(&font);
    v.extend(dump::dump_os2_post(&font).into_iter().filter(|s| matches!(s, S::L(xs) if xs.first() == Some(&S::atom("name")))));
    v.extend(dump_stat(bytes));
    S::list(v).to_line()
}

pub fn run_e2e(args: &Args) {
    let seed = args.seed;
    // head.created/modified must not make two builds differ
    unsafe { std::env::set_var("SOURCE_DATE_EPOCH", "1700000000") };
    crate::run_cases("c18e2e", args, move |i| {
        let mut rng = Rng::for_case(seed, "c18e2e", i);
        let (d, kind) = gen_e2e(&mut rng, i);
        let tmp = build::tmpdir("c18e2e");
        let ds = write::write_design(tmp.path(), &d);
        let mut f = vec![d.to_sexp()];
        // what Design::to_sexp does not carry: family, master styles, instance postscript names, feature-name labels
        f.push(S::kv("naming", [
            S::k1("kind", S::atom(kind)),
            S::k1("family", S::str(&d.family)),
            S::k1("style", S::str(&d.masters[d.default_master].style)),
            S::k1("instps", S::list(d.instances.iter().map(|x| S::opt(x.postscript.as_ref().map(|p| S::str(p)))))),
            S::k1("fealabel", S::opt(d.features.as_ref().and_then(|t| t.split('"').nth(1).map(S::str)))),
        ]));
        // several builds of the same source: names / fvar / STAT may depend on nothing but the source
        let n_builds = if i == 0 { 6 } else { 2 };
        let results: Vec<Result<Vec<u8>, String>> = (0..n_builds).map(|_| build::compile(&ds, &build::BuildOpts::default())).collect();
        let r1 = results[0].clone();
        let mut distinct: Vec<(String, &Vec<u8>)> = vec![];
        for r in &results {
            if let Ok(b) = r {
                let nd = naming_dump(b);
                if !distinct.iter().any(|(x, _)| *x == nd) { distinct.push((nd, b)); }
            }
        }
        f.push(S::k1("builds", S::list([S::usize(n_builds), S::usize(distinct.len())])));
        match &r1 {
            Ok(bytes) => {
                f.push(S::k1("result", S::atom("ok")));
                f.push(dump::dump_all(bytes));
                f.push(S::kv("extra", dump_stat(bytes)));
                if let Some((_, b2)) = distinct.get(1) {
                    // the other build's name + fvar, so the oracle can show what differs
                    f.push(S::kv("font2", { let mut v = dump::dump_axes(&write_fonts::read::FontRef::new(b2).unwrap()); v.extend(dump::dump_os2_post(&write_fonts::read::FontRef::new(b2).unwrap())); v }));
                }
            }
            Err(e) => f.push(S::kv("result", [S::atom("err"), S::str(e)])),
        }
        f
    });
}

// ------------------------------------------------------------------ c18fea: names supplied through feature code

#[derive(Clone, Debug)]
pub struct NameSrc {
    pub platform: u16,
    pub enc: u16,
    pub lang: u16,
    pub text: String,
}

impl NameSrc {
    fn en(t: &str) -> NameSrc { NameSrc { platform: 3, enc: 1, lang: 0x409, text: t.to_string() } }
    fn lang(t: &str, lang: u16) -> NameSrc { NameSrc { platform: 3, enc: 1, lang, text: t.to_string() } }
    /// `name "…";` / `name 3 1 0x407 "…";` (keyword given by the caller)
    fn fea(&self, kw: &str) -> String {
        if self.lang == 0x409 { format!("{kw} \"{}\";", self.text) } else { format!("{kw} {} {} 0x{:X} \"{}\";", self.platform, self.enc, self.lang, self.text) }
    }
    fn sexp(&self) -> S {
        S::list([S::usize(self.platform as usize), S::usize(self.enc as usize), S::usize(self.lang as usize), S::str(&self.text)])
    }
}

fn names_s(v: &[NameSrc]) -> S { S::list(v.iter().map(|n| n.sexp())) }

#[derive(Clone, Debug)]
pub enum Elided { Id(u16), Names(Vec<NameSrc>) }

#[derive(Clone, Debug, Default)]
pub struct FeaSrc {
    /// `table name { nameid N …; }` records in file order
    pub explicit: Vec<(u16, NameSrc)>,
    pub order_kind: &'static str,
    pub stat: Option<StatSrc>,
    /// (tag, featureNames)
    pub ss: Vec<(String, Vec<NameSrc>)>,
    /// (tag, label, tooltip, sample, params)
    pub cv: Option<(String, Vec<NameSrc>, Vec<NameSrc>, Vec<NameSrc>, Vec<Vec<NameSrc>>)>,
    pub size: Option<Vec<NameSrc>>,
    /// where in the file the `table name` block goes: before or after the features that allocate anonymous names
    pub name_table_last: bool,
}

#[derive(Clone, Debug)]
pub struct StatSrc {
    pub elided: Elided,
    /// DesignAxis records in file order: (tag, ordering, names)
    pub axes: Vec<(String, usize, Vec<NameSrc>)>,
    /// AxisValue records in file order: (axis tag, value, names, elidable)
    pub values: Vec<(String, f64, Vec<NameSrc>, bool)>,
}

const FEA_LABELS: [&str; 8] = ["Alt a", "Regular", "Weight", "Bold", "Roman", "Custom", "Light", "Wide"];

fn gen_names(rng: &mut Rng, base: &str) -> Vec<NameSrc> {
    let mut v = vec![NameSrc::en(base)];
    if rng.chance(1, 3) { v.push(NameSrc::lang(&format!("{base} de"), 0x407)); }
    if rng.chance(1, 6) { v.push(NameSrc::lang(&format!("{base} fr"), 0x40C)); }
    if rng.chance(1, 4) { v.reverse(); }
    v
}

pub fn gen_fea(rng: &mut Rng, d: &design::Design, risky: bool, with_size: bool) -> FeaSrc {
    let mut f = FeaSrc::default();
    // explicit records: distinct (id, language) keys
    let id_pool: [u16; 8] = [256, 257, 258, 260, 263, 9, 7, 13];
    let n_ids = 1 + rng.below(4);
    let mut ids: Vec<u16> = vec![];
    while ids.len() < n_ids { let id = *rng.pick(&id_pool); if !ids.contains(&id) { ids.push(id); } }
    if !ids.iter().any(|i| *i >= 256) { ids.push(256); }
    let mut recs: Vec<(u16, NameSrc)> = vec![];
    for id in &ids {
        let base = format!("{} {}", rng.pick(&FEA_LABELS), id);
        recs.push((*id, NameSrc::en(&base)));
        if rng.chance(1, 2) { recs.push((*id, NameSrc::lang(&format!("{base} de"), 0x407))); }
        if rng.chance(1, 5) { recs.push((*id, NameSrc::lang(&format!("{base} fr"), 0x40C))); }
    }
    f.order_kind = match rng.below(5) {
        0 => { recs.sort_by_key(|r| (r.0, r.1.lang)); "ascending" }
        1 => { recs.sort_by_key(|r| (r.0, r.1.lang)); recs.reverse(); "descending" }
        2 => { recs.sort_by_key(|r| (r.1.lang, r.0)); "by-language" }
        3 => { recs.sort_by_key(|r| (std::cmp::Reverse(r.1.lang), std::cmp::Reverse(r.0))); "by-language-descending" }
        _ => { rng.shuffle(&mut recs); "shuffled" }
    };
    f.explicit = recs;
    f.name_table_last = rng.chance(1, 3);
    // STAT
    if rng.chance(5, 6) {
        let english_font_specific: Vec<u16> = f.explicit.iter().filter(|(id, n)| *id >= 256 && n.lang == 0x409).map(|(id, _)| *id).collect();
        let elided = match rng.below(if risky { 4 } else { 3 }) {
            0 | 1 => Elided::Id(*rng.pick(&english_font_specific)),
            2 => Elided::Names(gen_names(rng, "Regular")),
            // risky: a reserved id that only fontc's own name table has (feaLib accepts this)
            _ => Elided::Id(2),
        };
        let mut axes = vec![];
        for (i, a) in d.axes.iter().enumerate() {
            axes.push((a.tag.clone(), i, gen_names(rng, &a.name)));
        }
        if rng.chance(1, 3) { axes.reverse(); }
        let mut values = vec![];
        for a in d.axes.iter() {
            let mut vals = vec![a.default];
            if a.min != a.default && rng.chance(2, 3) { vals.push(a.min); }
            if a.max != a.default && rng.chance(2, 3) { vals.push(a.max); }
            for v in vals {
                let label = if v == a.default { "Regular".to_string() } else { format!("{} {}", rng.pick(&FEA_LABELS), v as i64) };
                values.push((a.tag.clone(), v, gen_names(rng, &label), v == a.default));
            }
        }
        if rng.chance(1, 2) { rng.shuffle(&mut values); }
        f.stat = Some(StatSrc { elided, axes, values });
    }
    let glyphs = d.glyph_names();
    if glyphs.len() >= 2 {
        let n_ss = rng.below(3);
        let mut tags = vec!["ss01", "ss02", "ss07"];
        rng.shuffle(&mut tags);
        for t in tags.iter().take(n_ss) {
            let base = format!("{} {}", rng.pick(&FEA_LABELS), t);
            f.ss.push((t.to_string(), gen_names(rng, &base)));
        }
        if rng.chance(1, 3) {
            let n_params = rng.below(3);
            f.cv = Some(("cv01".to_string(), gen_names(rng, "CV label"),
                if rng.chance(1, 2) { gen_names(rng, "CV tooltip") } else { vec![] },
                if rng.chance(1, 2) { gen_names(rng, "CV sample") } else { vec![] },
                (0..n_params).map(|k| gen_names(rng, &format!("CV param {k}"))).collect()));
        }
        let want_size = rng.chance(1, 4);
        if want_size && with_size { f.size = Some(gen_names(rng, "Size menu")); }
    }
    if risky && rng.chance(1, 3) {
        // FEA overrides a reserved record that fvar may reuse (the default instance's subfamily name)
        f.explicit.push((2, NameSrc::en("Roman")));
    }
    f
}

impl FeaSrc {
    pub fn text(&self, d: &design::Design) -> String {
        let mut name_tbl = String::from("table name {\n");
        for (id, n) in &self.explicit { name_tbl.push_str(&format!("  {}\n", n.fea(&format!("nameid {id}")))); }
        name_tbl.push_str("} name;\n");
        let mut s = String::new();
        if !self.name_table_last { s.push_str(&name_tbl); }
        let g = d.glyph_names();
        for (tag, names) in &self.ss {
            s.push_str(&format!("feature {tag} {{\n  featureNames {{\n"));
            for n in names { s.push_str(&format!("    {}\n", n.fea("name"))); }
            s.push_str(&format!("  }};\n  sub {} by {};\n}} {tag};\n", g[0], g[1]));
        }
        if let Some((tag, label, tip, sample, params)) = &self.cv {
            s.push_str(&format!("feature {tag} {{\n  cvParameters {{\n"));
            let mut block = |kw: &str, names: &Vec<NameSrc>| {
                if names.is_empty() { return; }
                s.push_str(&format!("    {kw} {{\n"));
                for n in names { s.push_str(&format!("      {}\n", n.fea("name"))); }
                s.push_str("    };\n");
            };
            block("FeatUILabelNameID", label);
            block("FeatUITooltipTextNameID", tip);
            block("SampleTextNameID", sample);
            for p in params { block("ParamUILabelNameID", p); }
            s.push_str(&format!("    Character 0x61;\n  }};\n  sub {} by {};\n}} {tag};\n", g[0], g[1]));
        }
        if let Some(names) = &self.size {
            s.push_str("feature size {\n  parameters 10.0 3 80 139;\n");
            for n in names { s.push_str(&format!("  {}\n", n.fea("sizemenuname"))); }
            s.push_str("} size;\n");
        }
        if let Some(st) = &self.stat {
            s.push_str("table STAT {\n");
            match &st.elided {
                Elided::Id(id) => s.push_str(&format!("  ElidedFallbackNameID {id};\n")),
                Elided::Names(ns) => {
                    s.push_str("  ElidedFallbackName {\n");
                    for n in ns { s.push_str(&format!("    {}\n", n.fea("name"))); }
                    s.push_str("  };\n");
                }
            }
            for (tag, ord, names) in &st.axes {
                s.push_str(&format!("  DesignAxis {tag} {ord} {{\n"));
                for n in names { s.push_str(&format!("    {}\n", n.fea("name"))); }
                s.push_str("  };\n");
            }
            for (tag, v, names, elidable) in &st.values {
                s.push_str(&format!("  AxisValue {{\n    location {tag} {};\n", write::num(*v)));
                for n in names { s.push_str(&format!("    {}\n", n.fea("name"))); }
                if *elidable { s.push_str("    flag ElidableAxisValueName;\n"); }
                s.push_str("  };\n");
            }
            s.push_str("} STAT;\n");
        }
        if self.name_table_last { s.push_str(&name_tbl); }
        s
    }

    pub fn sexp(&self) -> S {
        let stat = match &self.stat {
            None => S::atom("none"),
            Some(st) => S::list([
                S::k1("elided", match &st.elided { Elided::Id(i) => S::list([S::atom("id"), S::usize(*i as usize)]), Elided::Names(n) => S::list([S::atom("names"), names_s(n)]) }),
                S::k1("axes", S::list(st.axes.iter().map(|(t, o, n)| S::list([S::str(t), S::usize(*o), names_s(n)])))),
                S::k1("values", S::list(st.values.iter().map(|(t, v, n, _)| S::list([S::str(t), S::f64(*v), names_s(n)])))),
            ]),
        };
        S::kv("fea", [
            S::k1("order", S::atom(self.order_kind)),
            S::k1("nametablelast", S::bool(self.name_table_last)),
            S::k1("explicit", S::list(self.explicit.iter().map(|(id, n)| S::list([S::usize(*id as usize), n.sexp()])))),
            S::k1("stat", stat),
            S::k1("ss", S::list(self.ss.iter().map(|(t, n)| S::list([S::str(t), names_s(n)])))),
            S::k1("cv", S::opt(self.cv.as_ref().map(|(t, a, b, c, p)| S::list([S::str(t), names_s(a), names_s(b), names_s(c), S::list(p.iter().map(|x| names_s(x)))])))),
            S::k1("size", S::opt(self.size.as_ref().map(|n| names_s(n)))),
        ])
    }
}

/// every name id a compiled font's STAT and GSUB/GPOS feature parameters refer to
pub fn dump_fea_refs(bytes: &[u8]) -> S {
    use write_fonts::read::{FontRef, TableProvider};
    use write_fonts::read::tables::layout::FeatureParams;
    use write_fonts::read::tables::stat::AxisValue;
    let Ok(font) = FontRef::new(bytes) else { return S::kv("refs", [S::atom("unreadable")]) };
    let mut out = vec![];
    if let Ok(stat) = font.stat() {
        let axes: Vec<S> = stat.design_axes().map(|a| a.iter().map(|r| {
            S::list([S::str(&r.axis_tag().to_string()), S::usize(r.axis_name_id().to_u16() as usize), S::usize(r.axis_ordering() as usize)])
        }).collect()).unwrap_or_default();
        let mut values: Vec<S> = vec![];
        if let Some(Ok(arr)) = stat.offset_to_axis_values() {
            for v in arr.axis_values().iter().filter_map(|v| v.ok()) {
                let (fmt, ax, val, id) = match &v {
                    AxisValue::Format1(t) => (1, t.axis_index() as usize, t.value().to_f64(), t.value_name_id()),
                    AxisValue::Format2(t) => (2, t.axis_index() as usize, t.nominal_value().to_f64(), t.value_name_id()),
                    AxisValue::Format3(t) => (3, t.axis_index() as usize, t.value().to_f64(), t.value_name_id()),
                    AxisValue::Format4(t) => (4, 0, 0.0, t.value_name_id()),
                };
                values.push(S::list([S::usize(fmt), S::usize(ax), S::f64(val), S::usize(id.to_u16() as usize)]));
            }
        }
        out.push(S::kv("STAT", [
            S::k1("axes", S::list(axes)),
            S::k1("values", S::list(values)),
            S::k1("elided", S::opt(stat.elided_fallback_name_id().map(|x| S::usize(x.to_u16() as usize)))),
        ]));
    }
    let mut params: Vec<S> = vec![];
    let mut collect = |tag: String, p: Option<Result<FeatureParams, write_fonts::read::ReadError>>| {
        match p {
            Some(Ok(FeatureParams::StylisticSet(p))) => params.push(S::list([S::str(&tag), S::atom("ss"), S::usize(p.ui_name_id().to_u16() as usize)])),
            Some(Ok(FeatureParams::CharacterVariant(p))) => params.push(S::list([S::str(&tag), S::atom("cv"),
                S::usize(p.feat_ui_label_name_id().to_u16() as usize), S::usize(p.feat_ui_tooltip_text_name_id().to_u16() as usize),
                S::usize(p.sample_text_name_id().to_u16() as usize), S::usize(p.num_named_parameters() as usize),
                S::usize(p.first_param_ui_label_name_id().to_u16() as usize)])),
            Some(Ok(FeatureParams::Size(p))) => params.push(S::list([S::str(&tag), S::atom("size"), S::usize(p.name_entry() as usize)])),
            _ => {}
        }
    };
    if let Ok(gsub) = font.gsub() {
        if let Ok(fl) = gsub.feature_list() {
            for rec in fl.feature_records() {
                if let Ok(feat) = rec.feature(fl.offset_data()) { collect(rec.feature_tag().to_string(), feat.feature_params()); }
            }
        }
    }
    if let Ok(gpos) = font.gpos() {
        if let Ok(fl) = gpos.feature_list() {
            for rec in fl.feature_records() {
                if let Ok(feat) = rec.feature(fl.offset_data()) { collect(rec.feature_tag().to_string(), feat.feature_params()); }
            }
        }
    }
    out.push(S::k1("featparams", S::list(params)));
    S::kv("refs", out)
}

/// `c18fea`: the configurations the current tree handles. `--size` additionally generates `size` features with a
/// `sizemenuname` in variable fonts (finding: the menu name id is not remapped; enable once fixes/C18-fea-remap.patch lands).
/// `c18feax`: everything, including the configurations recorded as findings (`sizemenuname`; ElidedFallbackNameID naming a
/// reserved id that only the compiler's own name table has; `nameid 2` overridden in FEA while fvar reuses id 2).
pub fn run_fea(stream: &'static str, args: &Args) {
    let seed = args.seed;
    let risky = stream == "c18feax";
    let size_flag = risky || args.rest.iter().any(|a| a == "--size");
    unsafe { std::env::set_var("SOURCE_DATE_EPOCH", "1700000000") };
    crate::run_cases(stream, args, move |i| {
        let mut rng = Rng::for_case(seed, stream, i);
        let mut o = design::GenOpts::default();
        o.max_glyphs = 3; o.sparse = false; o.composites = false; o.max_axes = 2; o.quads = false; o.intermediate = false; o.corner = false;
        let mut d = design::gen_design(&mut rng, &o);
        // one case in five is a static font (no names of the compiler's own above 255: the FEA ids are not shifted)
        let is_static = rng.chance(1, 5);
        if is_static {
            let dm = d.default_master;
            let m = d.masters[dm].clone();
            d.masters = vec![m];
            d.default_master = 0;
            for (k, a) in d.axes.iter_mut().enumerate() { let v = d.masters[0].loc[k]; a.min = v; a.default = v; a.max = v; }
        } else if rng.chance(1, 2) {
            // a default-located instance that reuses name id 2, and another one that gets a fresh id
            let loc = d.masters[d.default_master].loc.clone();
            d.instances.push(design::Instance { family: d.family.clone(), style: "Regular".into(), postscript: None, loc: loc.clone() });
            let other = d.masters[d.masters.len() - 1].loc.clone();
            d.instances.push(design::Instance { family: d.family.clone(), style: "Heavy".into(), postscript: None, loc: other });
        }
        // a static font has no shift, so `size` is always fine there
        let fea = gen_fea(&mut rng, &d, risky, size_flag || is_static);
        d.features = Some(fea.text(&d));
        let tmp = build::tmpdir(stream);
        let ds = write::write_design(tmp.path(), &d);
        let mut f = vec![d.to_sexp(), fea.sexp(), S::k1("static", S::bool(is_static)), S::k1("family", S::str(&d.family)), S::k1("style", S::str(&d.masters[d.default_master].style))];
        match build::compile(&ds, &build::BuildOpts::default()) {
            Ok(bytes) => {
                f.push(S::k1("result", S::atom("ok")));
                f.push(dump::dump_all(&bytes));
                f.push(dump_fea_refs(&bytes));
            }
            Err(e) => f.push(S::kv("result", [S::atom("err"), S::str(&e)])),
        }
        f
    });
}
