/-
  C03 — Outlines at every master location reproduce that master's drawing.

  Model.  For one glyph, fontc (fontbe/src/glyphs.rs) builds a variation model on the glyph's *own* set of
  master locations (`locs`: all masters for a dense glyph, the sub-model of the masters that draw it for a
  sparse one), feeds every coordinate of every point (and of the four phantom points, and every component
  offset) as one value per master, already rounded to integers, and stores `deltas_with_rounding(TiesEven)`.
  The end-to-end stream `c03e2e` checks on every generated font that the gvar tuples of the real font ARE
  `Model.deltas` of this model (Driver/C03.lean `modelDeltasAgree`), so the theorems below speak about the
  numbers that are in the font.  `interpolate` is the OpenType tuple interpolation (Σ scalar·delta); the
  independent spec evaluator used by the oracle is FontcModel/Ivs.lean.

  `vals[j]` = the coordinate's value at `M.locations[j]`.
-/
import FontcModel.VarModel
import FontcProofs.Rounding
import FontcProofs.VarModelAlg
import FontcProofs.VarModelSort
import FontcProofs.VarModelTri
import FontcProofs.Gvar
import FontcProps.C07
import FontcProofs.IvsBridge

namespace Fontc.C03
open Fontc Fontc.VarModel

/-- Explicit deltas: at every master location of the glyph, every coordinate is within 1/2 of the master's. -/
theorem gvar_master_reproduced (n : Nat) (locs : List Loc)
    (hlen : ∀ l ∈ locs, l.length = n) (hnd : locs.Pairwise (· ≠ ·))
    (M : Model) (hM : M = Model.new n locs)
    (vals : Values) (hvals : vals.length = M.locations.length)
    (m : Nat) (loc : Loc) (v : Rat)
    (hloc : M.locations[m]? = some loc) (hv : vals[m]? = some (some v)) :
    ratAbs (interpolate M.influence (M.deltas Rounding.tiesEven.apply vals) loc - v) ≤ 1/2 := by
  subst hM
  exact VarModel.deltas_reproduce_rounded _ _ _ vals (Model.new_triangular n locs hlen hnd) hvals
    (Rounding.apply_abs_le _) m loc v hloc hv

/-- With IUP optimisation: if the deltas actually applied (`D'`, inferred for omitted points) are within the
    optimiser's tolerance 1/2 of the full deltas, every coordinate at a master location is within
    1/2 + 1/2 · Σ (scalars of the active regions) of the master's — the bound stated by the property. -/
theorem gvar_master_reproduced_iup (n : Nat) (locs : List Loc)
    (hlen : ∀ l ∈ locs, l.length = n) (hnd : locs.Pairwise (· ≠ ·))
    (M : Model) (hM : M = Model.new n locs)
    (vals : Values) (hvals : vals.length = M.locations.length)
    (D' : List (Option Rat)) (hD' : Close (1/2) (M.deltas Rounding.tiesEven.apply vals) D')
    (m : Nat) (loc : Loc) (v : Rat)
    (hloc : M.locations[m]? = some loc) (hv : vals[m]? = some (some v)) :
    ratAbs (interpolate M.influence D' loc - v) ≤
      1/2 + 1/2 * scalarSum M.influence (M.deltas Rounding.tiesEven.apply vals) loc := by
  have h1 := gvar_master_reproduced n locs hlen hnd M hM vals hvals m loc v hloc hv
  have h2 := dot_perturb (1/2) M.influence _ D' loc hD'
  rw [interpolate_eq_dot] at h1 ⊢
  have a := (ratAbs_le_iff _ _).1 h1
  have b := (ratAbs_le_iff _ _).1 h2
  apply (ratAbs_le_iff _ _).2
  constructor <;> grind

/-- At the default location the interpolated value is exactly the (integer) default master's coordinate:
    outline points and component offsets of the default instance equal the rounded default master. -/
theorem gvar_default_exact (n : Nat) (locs : List Loc)
    (hlen : ∀ l ∈ locs, l.length = n) (hnd : locs.Pairwise (· ≠ ·))
    (hz : List.replicate n 0 ∈ locs)
    (M : Model) (hM : M = Model.new n locs)
    (vals : Values) (hvals : vals.length = M.locations.length)
    (k : Int) (hv : vals[0]? = some (some (k : Rat))) :
    M.locations[0]? = some (List.replicate n 0) ∧
    interpolate M.influence (M.deltas Rounding.tiesEven.apply vals) (List.replicate n 0) = (k : Rat) := by
  exact ⟨(C07.default_exact n locs hlen hnd hz M hM Rounding.tiesEven.apply vals hvals k hv).1,
    C07.default_exact_int n locs hlen hnd hz M hM Rounding.tiesEven vals hvals k hv⟩

/-- The independent spec evaluator used by the end-to-end oracle (FontcModel/Ivs.lean `regionScalar`, written from
    the OpenType specification) computes, on every region of the model, the same scalar as the model of fontc's
    `scalar_at` — so `interpolate` above is what an OpenType rasteriser computes from the stored tuples. -/
theorem spec_evaluator_agrees (n : Nat) (locs : List Loc)
    (hlen : ∀ l ∈ locs, l.length = n) (hnd : locs.Pairwise (· ≠ ·))
    (M : Model) (hM : M = Model.new n locs) (r : Region) (hr : r ∈ M.influence) (loc : Loc) :
    Ivs.regionScalar (r.map tentTriple) loc = scalarAt r loc := by
  subst hM
  rw [Model.new_eq n locs hlen hnd] at hr
  have hperm := sortLocs_perm locs
  exact spec_scalar_eq_model (n := n) (fun l hl => hlen l (hperm.mem_iff.1 hl)) r hr loc

/-- Non-vacuity: a sparse glyph drawn at the default, at the intermediate wght = 1/2 and at wght = 1 of a
    2-axis space; the intermediate master's coordinate 131 is reproduced within 1/2. -/
def exLocs : List Loc := [[0,0],[1/2,0],[1,0]]
theorem exLocs_model : (Model.new 2 exLocs).locations = exLocs := by
  rw [Model.new_locations 2 exLocs (by decide +kernel) (by decide +kernel)]
  exact sortLocs_of_pairwise exLocs (by decide +kernel)
example : ratAbs (interpolate (Model.new 2 exLocs).influence
      ((Model.new 2 exLocs).deltas Rounding.tiesEven.apply [some 100, some 131, some 160]) [1/2,0] - 131) ≤ 1/2 :=
  gvar_master_reproduced 2 exLocs (by decide +kernel) (by decide +kernel) _ rfl
    [some 100, some 131, some 160] (by rw [exLocs_model]; decide +kernel) 1 [1/2,0] 131
    (by rw [exLocs_model]; decide +kernel) (by decide +kernel)

end Fontc.C03
