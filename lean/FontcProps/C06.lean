/-
  C06 — The glyph set, glyph order and cmap are exactly what the source declares.
  Property theorems only; helper lemmas live in FontcProofs/GlyphOrder{Basic,Names,Table,Final,Cmap,Source}.lean.

  Setting (model: FontcModel/GlyphOrder.lean).
  * `ufoGlyphOrder declared names` models ufo2fontir `glyph_order`: `declared` is the `public.glyphOrder` value
    (`none` = absent / not an array, an entry `none` = a non-string element), `names` the glyph set.
    `glyphsMakeOrder custom file` models glyphs-reader `make_glyph_order`.
  * `s : Source` = all IR glyphs (`s.glyphs`, names pairwise distinct: they are keys of a map), the preliminary
    glyph order `s.prelim` (duplicate-free: an IndexSet) and the prefer-simple-glyphs flag.
    `finalOrder s = some f` models `GlyphOrderWork::exec`: `f.order` is the final glyph order, `f.table` the final
    IR glyphs (name, export flag, codepoints, component names, has-contours). `none` = the real code panics
    (a preliminary name without a glyph) or does not terminate (component cycle).
    `s.kept` = `s.prelim` restricted to glyphs whose source says `export = true`.
  * `buildCmap f` models `CmapWork::exec` + the contract of write-fonts `Cmap::from_mappings`; the result is the
    set of `(codepoint, glyph id)` pairs of the table, `none` = build error `CmapConflict`.
  * `postNames rename order` models `PostWork::exec`: the glyph names written to `post`.
  * `allCompiled s f` models which final glyphs get a glyf fragment (fontc/src/workload.rs).

  Hypotheses the proofs forced, and what the real code does outside them (each replayed on the real code by the
  `c06e2e` / `c06probe` streams, see checks/C06.json):
    duplicate names in public.glyphOrder      — no hypothesis: first occurrence wins (`firstOcc`)
    names in public.glyphOrder without glyph  — no hypothesis: ignored
    `.notdef` declared non-export             — GENUINE DEFECT: build panics (`all_glyphs_compiled_counterexample`)
    a derived `name.N` equal to a non-export glyph's name (prefer-simple-glyphs off) — same defect
    one codepoint on two exported glyphs      — `buildCmap = none`: the build is refused (`cmap_built_iff`)
    a non-export glyph with a codepoint       — no hypothesis: never in cmap (`cmap_exact`)
-/
import FontcModel.GlyphOrder
import FontcProofs.GlyphOrderBasic
import FontcProofs.GlyphOrderNames
import FontcProofs.GlyphOrderTable
import FontcProofs.GlyphOrderFinal
import FontcProofs.GlyphOrderCmap
import FontcProofs.GlyphOrderSource

namespace Fontc.C06
open Fontc Fontc.GlyphOrder

/-! ## 1. The order the source declares -/

/-- UFO: the names of `public.glyphOrder` that exist, first occurrences in declared order, then every other glyph
    in ascending name order. For every declared list (duplicates, unknown names, non-strings) and every glyph set. -/
theorem ufo_glyph_order_spec (declared : Option (List (Option String))) (names : List String) (hn : names.Nodup) :
    ufoGlyphOrder declared names =
      firstOcc ((declaredNames declared).filter (· ∈ names)) ++
      sortNames (names.filter (· ∉ declaredNames declared)) :=
  ufoGlyphOrder_eq declared names hn

/-- No glyph is lost or repeated. -/
theorem ufo_glyph_order_perm (declared : Option (List (Option String))) (names : List String) (hn : names.Nodup) :
    (ufoGlyphOrder declared names).Perm names :=
  ufoGlyphOrder_perm declared names hn

/-- The undeclared glyphs come in one fixed order: strictly ascending by name (code point order). -/
theorem ufo_glyph_order_rest_sorted (declared : Option (List (Option String))) (names : List String)
    (hn : names.Nodup) :
    (sortNames (names.filter (· ∉ declaredNames declared))).Pairwise (· < ·) :=
  sortNames_sorted_lt (hn.sublist List.filter_sublist)

/-- The hash-order branch of `glyph_order` (source.rs:565-576) is dead: it runs only for an empty glyph set. -/
theorem ufo_glyph_order_fallback_dead (declared : Option (List (Option String))) (names : List String)
    (hn : names.Nodup) : ufoGlyphOrder declared names = [] ↔ names = [] :=
  ufoGlyphOrder_empty_iff declared names hn

/-- Glyphs: the `glyphOrder` custom parameter's existing names (first occurrences), then the rest in file order. -/
theorem glyphs_glyph_order_spec (custom : Option (List String)) (file : List String) (hn : file.Nodup) :
    glyphsGlyphOrder custom file =
      firstOcc ((custom.getD []).filter (· ∈ file)) ++ file.filter (· ∉ custom.getD []) := by
  rw [glyphsGlyphOrder_eq custom file hn, glyphsMakeOrder_eq]

theorem glyphs_glyph_order_perm (custom : Option (List String)) (file : List String) (hn : file.Nodup) :
    (glyphsGlyphOrder custom file).Perm file := by
  rw [glyphsGlyphOrder_eq custom file hn]; exact glyphsMakeOrder_perm custom file hn

/-! ## 2. The final glyph order -/

/-- `final_order_spec`: the final order is `.notdef`, then the exported glyphs of the preliminary order in that
    order (minus `.notdef`), then the glyphs the compiler derived by splitting, each named `base.N` after an
    exported glyph, none of them `.notdef`, all of them new and pairwise distinct (`derived_names_fresh`). -/
theorem final_order_spec (s : Source) (f : Final) (hnd : s.prelim.Nodup) (h : finalOrder s = some f) :
    ∃ derived : List String,
      f.order = notdef :: (s.kept.erase notdef ++ derived) ∧
      (s.kept ++ derived).Nodup ∧
      (∀ x ∈ derived, x ≠ notdef ∧ ∃ b k, b ∈ s.kept ∧ x = suffixed b k) :=
  (finalOrder_shape s f hnd h).order_eq

/-- `derived_names_fresh`: the glyphs made by splitting have pairwise distinct names, none of which is the name of a
    glyph of the exported order (it may be the name of a *non-exported* source glyph: see
    `all_glyphs_compiled_counterexample_derived`). -/
theorem derived_names_fresh (s : Source) (f : Final) (hnd : s.prelim.Nodup) (h : finalOrder s = some f) :
    ∃ derived : List String, f.order = notdef :: (s.kept.erase notdef ++ derived) ∧
      derived.Nodup ∧ ∀ x ∈ derived, x ∉ s.kept := by
  obtain ⟨derived, hord, hnd2, _⟩ := final_order_spec s f hnd h
  rw [List.nodup_append] at hnd2
  exact ⟨derived, hord, hnd2.2.1, fun x hx hk => hnd2.2.2 x hk x hx rfl⟩

/-- `.notdef` is glyph 0, whatever the source says about it (absent, misplaced, first, non-export). -/
theorem notdef_first (s : Source) (f : Final) (hnd : s.prelim.Nodup) (h : finalOrder s = some f) :
    f.order[0]? = some notdef := by
  obtain ⟨derived, hord, _⟩ := final_order_spec s f hnd h
  rw [hord]; rfl

/-- No loss, no duplicates, nothing else: every exported glyph of the preliminary order is in the final order, no
    name occurs twice, and every name in it is `.notdef`, an exported source glyph, or a derived `base.N`. -/
theorem order_is_permutation_of_exported (s : Source) (f : Final) (hnd : s.prelim.Nodup)
    (h : finalOrder s = some f) :
    f.order.Nodup ∧ (∀ n ∈ s.kept, n ∈ f.order) ∧
    (∀ n ∈ f.order, n = notdef ∨ n ∈ s.kept ∨ (n ∉ s.kept ∧ ∃ b k, b ∈ s.kept ∧ n = suffixed b k)) := by
  have hs := finalOrder_shape s f hnd h
  refine ⟨hs.order_nodup, fun n hn => (hs.mem_order n).mpr (Or.inr (Or.inl hn)), ?_⟩
  intro n hn
  rcases (hs.mem_order n).mp hn with e | e | e
  · exact Or.inl e
  · exact Or.inr (Or.inl e)
  · exact Or.inr (Or.inr ⟨e.2.1, e.2.2⟩)

/-- What `s.kept` is, against the source: in the preliminary order and exported. -/
theorem kept_iff (s : Source) (hnames : (s.glyphs.map (·.name)).Nodup) (n : String) :
    n ∈ s.kept ↔ n ∈ s.prelim ∧ ∃ g ∈ s.glyphs, g.name = n ∧ g.exported = true :=
  mem_kept hnames

/-- `no_nonexport_anywhere`, order clause, as far as it is true: the name of a non-exported source glyph can occur
    in the final order only as the name of a glyph the compiler made itself (`.notdef` or a derived `base.N`), and
    then the final glyph under that name is the made one (exported, no codepoints), not the source's. -/
theorem no_nonexport_in_order_partial (s : Source) (f : Final) (hnd : s.prelim.Nodup)
    (hnames : (s.glyphs.map (·.name)).Nodup) (h : finalOrder s = some f)
    (g : Glyph) (hg : g ∈ s.glyphs) (hne : g.exported = false) (hin : g.name ∈ f.order) :
    (g.name = notdef ∨ ∃ b k, b ∈ s.kept ∧ g.name = suffixed b k) ∧
    (f.table.get g.name).map Glyph.meta = some (g.name, true, []) := by
  have hs := finalOrder_shape s f hnd h
  have hnk : g.name ∉ s.kept := by
    intro hk
    obtain ⟨_, g', hg', hname, hexp⟩ := (mem_kept hnames).mp hk
    have e1 := Table.get_ofList_of_mem hnames hg'
    have e2 := Table.get_ofList_of_mem hnames hg
    rw [hname, e2] at e1
    injection e1 with e1
    rw [e1] at hne
    rw [hne] at hexp
    exact absurd hexp (by decide)
  obtain ⟨_, _, _, _, _, hmade⟩ := hs.shape
  refine ⟨?_, hmade _ hin hnk⟩
  rcases (hs.mem_order g.name).mp hin with e | e | e
  · exact Or.inl e
  · exact absurd e hnk
  · exact Or.inr e.2.2

/-- The unrestricted statement: a non-exported glyph's name is nowhere in the glyph order. -/
def NoNonexportNameFull : Prop :=
  ∀ (s : Source) (f : Final), s.prelim.Nodup → (s.glyphs.map (·.name)).Nodup → finalOrder s = some f →
    ∀ g ∈ s.glyphs, g.exported = false → g.name ∉ f.order

/-- Every glyph of the final order is compiled (has a glyf fragment), the unrestricted statement. -/
def AllGlyphsCompiledFull : Prop :=
  ∀ (s : Source) (f : Final), s.prelim.Nodup → (s.glyphs.map (·.name)).Nodup → finalOrder s = some f →
    allCompiled s f = true

/-- Witness 1: a UFO with glyphs `.notdef` and `a`, `public.skipExportGlyphs = [".notdef"]`. -/
def witnessNotdefSkipped : Source :=
  { glyphs := [{ name := ".notdef", exported := false, hasContours := true }, { name := "a", hasContours := true }],
    prelim := [".notdef", "a"] }

/-- Witness 2: glyph `e` has a contour and a component `a`; `e.0` exists and is not exported;
    prefer-simple-glyphs is off, so `e` is split and the new glyph is named `e.0`. -/
def witnessDerivedShadows : Source :=
  { glyphs := [{ name := "a", hasContours := true },
               { name := "e", hasContours := true, components := ["a"] },
               { name := "e.0", exported := false, hasContours := true }],
    prelim := ["a", "e", "e.0"], preferSimple := false }

theorem no_nonexport_name_counterexample : ¬ NoNonexportNameFull := by
  intro H
  have h : finalOrder witnessNotdefSkipped ≠ none := by decide
  cases hf : finalOrder witnessNotdefSkipped with
  | none => exact h hf
  | some f =>
    have := H witnessNotdefSkipped f (by decide) (by decide) hf
      { name := ".notdef", exported := false, hasContours := true } (by decide) rfl
    have hmem : (match finalOrder witnessNotdefSkipped with
      | some f => decide (".notdef" ∈ f.order) | none => false) = true := by decide
    rw [hf] at hmem
    exact this (by simpa using hmem)

/-- GENUINE DEFECT. The made glyph takes the name of a non-exported source glyph, which is in the preliminary
    order; back-end glyph jobs are added only for `final \ preliminary` and the source glyph's own job was skipped:
    no glyf fragment exists and the build panics (`Be(GlyfFragment(.notdef)) is not available`). -/
theorem all_glyphs_compiled_counterexample : ¬ AllGlyphsCompiledFull := by
  intro H
  have h : (match finalOrder witnessNotdefSkipped with
    | some f => allCompiled witnessNotdefSkipped f | none => true) = false := by decide
  cases hf : finalOrder witnessNotdefSkipped with
  | none => rw [hf] at h; exact absurd h (by decide)
  | some f =>
    rw [hf] at h
    have := H witnessNotdefSkipped f (by decide) (by decide) hf
    simp only at h
    rw [this] at h
    exact absurd h (by decide)

/-- The same failure through a derived glyph. -/
theorem all_glyphs_compiled_counterexample_derived :
    (match finalOrder witnessDerivedShadows with
     | some f => (f.order, allCompiled witnessDerivedShadows f) | none => ([], true)) =
    ([".notdef", "a", "e", "e.0"], false) := by decide

/-- With the hypothesis the defect violates spelled out — no non-exported source glyph is named like a glyph of
    the final order — every final glyph is compiled. -/
theorem all_glyphs_compiled_partial (s : Source) (f : Final) (hnd : s.prelim.Nodup) (h : finalOrder s = some f)
    (hyp : ∀ g ∈ s.glyphs, g.exported = false → g.name ∉ f.order) : allCompiled s f = true :=
  allCompiled_of_no_shadow s f (finalOrder_shape s f hnd h) hyp

/-! ## 3. cmap -/

/-- `cmap_exact`: when a cmap is built, it maps `cp ↦ gid` iff `gid` is the glyph id of an exported source glyph
    (of the preliminary order) that lists `cp`. Codepoints of non-exported glyphs, of `.notdef` when it is
    synthesised, and of derived glyphs map nowhere. -/
theorem cmap_exact (s : Source) (f : Final) (m : List (Nat × Nat)) (hnd : s.prelim.Nodup)
    (hnames : (s.glyphs.map (·.name)).Nodup) (h : finalOrder s = some f) (hm : buildCmap f = some m)
    (cp gid : Nat) :
    (cp, gid) ∈ m ↔
      ∃ g ∈ s.glyphs, g.exported = true ∧ g.name ∈ s.prelim ∧ f.order[gid]? = some g.name ∧ cp ∈ g.codepoints := by
  have hs := finalOrder_shape s f hnd h
  unfold buildCmap at hm
  rw [(fromMappings_eq_some hm).1]
  exact mem_mappings_source hs hnames cp gid

/-- … and nothing else: one glyph per codepoint. -/
theorem cmap_functional (f : Final) (m : List (Nat × Nat)) (hm : buildCmap f = some m)
    (cp g1 g2 : Nat) (h1 : (cp, g1) ∈ m) (h2 : (cp, g2) ∈ m) : g1 = g2 := by
  unfold buildCmap at hm
  obtain ⟨e, hf⟩ := fromMappings_eq_some hm
  rw [e] at h1 h2
  exact hf _ h1 _ h2 rfl

/-- A cmap is built exactly when the source's codepoint assignment is functional on the exported glyphs; otherwise
    the build is refused (`CmapConflict`). -/
theorem cmap_built_iff (s : Source) (f : Final) (hnd : s.prelim.Nodup)
    (hnames : (s.glyphs.map (·.name)).Nodup) (h : finalOrder s = some f) :
    (buildCmap f).isSome = true ↔
      ∀ g1 ∈ s.glyphs, ∀ g2 ∈ s.glyphs, g1.exported = true → g2.exported = true →
        g1.name ∈ s.prelim → g2.name ∈ s.prelim → ∀ cp, cp ∈ g1.codepoints → cp ∈ g2.codepoints → g1 = g2 := by
  have hs := finalOrder_shape s f hnd h
  have hond := hs.order_nodup
  -- an exported glyph of the preliminary order has a glyph id
  have hgid : ∀ g ∈ s.glyphs, g.exported = true → g.name ∈ s.prelim → ∃ gid : Nat, f.order[gid]? = some g.name := by
    intro g hg hexp hp
    have hk : g.name ∈ s.kept := (mem_kept hnames).mpr ⟨hp, g, hg, rfl, hexp⟩
    have := (hs.mem_order g.name).mpr (Or.inr (Or.inl hk))
    obtain ⟨i, hi, hget⟩ := List.mem_iff_getElem.mp this
    exact ⟨i, by rw [List.getElem?_eq_getElem hi, hget]⟩
  constructor
  · intro hsome g1 hg1 g2 hg2 he1 he2 hp1 hp2 cp hc1 hc2
    cases hm : buildCmap f with
    | none => rw [hm] at hsome; simp at hsome
    | some m =>
      obtain ⟨i1, hi1⟩ := hgid g1 hg1 he1 hp1
      obtain ⟨i2, hi2⟩ := hgid g2 hg2 he2 hp2
      have m1 := (cmap_exact s f m hnd hnames h hm cp i1).mpr ⟨g1, hg1, he1, hp1, hi1, hc1⟩
      have m2 := (cmap_exact s f m hnd hnames h hm cp i2).mpr ⟨g2, hg2, he2, hp2, hi2, hc2⟩
      have e := cmap_functional f m hm cp i1 i2 m1 m2
      subst e
      rw [hi1] at hi2
      injection hi2 with hname
      -- equal names, distinct-name list: the same glyph
      have e1 := Table.get_ofList_of_mem hnames hg1
      have e2 := Table.get_ofList_of_mem hnames hg2
      rw [hname, e2] at e1
      injection e1 with e1
      exact e1.symm
  · intro hfun
    cases hm : buildCmap f with
    | some m => rfl
    | none =>
      exfalso
      unfold buildCmap at hm
      obtain ⟨a, ha, b, hb, hab, hne⟩ := fromMappings_eq_none hm
      obtain ⟨g1, hg1, he1, hp1, hi1, hc1⟩ := (mem_mappings_source hs hnames a.1 a.2).mp ha
      obtain ⟨g2, hg2, he2, hp2, hi2, hc2⟩ := (mem_mappings_source hs hnames b.1 b.2).mp hb
      have e := hfun g1 hg1 g2 hg2 he1 he2 hp1 hp2 a.1 hc1 (hab ▸ hc2)
      subst e
      exact hne (getElem?_inj_of_nodup hond hi1 hi2)

/-- `no_nonexport_anywhere`, cmap clause: every cmap target is an exported source glyph. -/
theorem no_nonexport_cmap_target (s : Source) (f : Final) (m : List (Nat × Nat)) (hnd : s.prelim.Nodup)
    (hnames : (s.glyphs.map (·.name)).Nodup) (h : finalOrder s = some f) (hm : buildCmap f = some m)
    (cp gid : Nat) (hmem : (cp, gid) ∈ m) :
    ∃ g ∈ s.glyphs, g.exported = true ∧ f.order[gid]? = some g.name := by
  obtain ⟨g, hg, hexp, _, hget, _⟩ := (cmap_exact s f m hnd hnames h hm cp gid).mp hmem
  exact ⟨g, hg, hexp, hget⟩

/-! ## 4. components -/

/-- `no_nonexport_anywhere`, component clause: after `flatten_all_non_export_components` has run over a processing
    order that is topological for non-export references (`TopoOk`; the depth-sorted order of an acyclic component
    graph), no processed glyph refers to a non-exported glyph any more. -/
theorem inlined_components_exported (t : Table) (order : List String) (htopo : TopoOk t [] order) :
    ∀ n ∈ order, ∀ c ∈ (flattenAll order t).comps n, t.isExport c = true := by
  have := foldl_flattenOne_inv t order [] t ⟨by simp, fun _ _ => rfl⟩ htopo
  intro n hn c hc
  exact this.done n (by simpa using hn) c hc

/-! ## 5. post names -/

/-- `post_bijective`: one name per glyph, names pairwise distinct — for the plain names and for every rename map
    (collisions, characters dropped by sanitising, names colliding with existing glyph names). -/
theorem post_bijective (rename : Option (List (String × String))) (order : List String) (hnd : order.Nodup) :
    (postNames rename order).Nodup ∧ (postNames rename order).length = order.length := by
  cases rename with
  | none => exact ⟨hnd, rfl⟩
  | some r =>
    unfold postNames
    have hinv := foldl_postStep_inv r order {} ⟨by simp, by simp⟩
    have hlen := foldl_postStep_length r order {}
    exact ⟨hinv.1, by simpa using hlen⟩

/-- The two fresh-name searches (`name_for_derivative`, the `.N` suffix loop of post.rs) return a free name, the
    first one at or after the start index — the unbounded Rust loops terminate and the model's bound is never hit. -/
theorem fresh_name_search (used : List String) (name : String) (n : Nat) :
    suffixed name (firstFree used name n) ∉ used ∧ n ≤ firstFree used name n ∧
    ∀ k, n ≤ k → k < firstFree used name n → suffixed name k ∈ used :=
  ⟨firstFree_not_mem used name n, firstFree_ge used name n, fun k h1 h2 => firstFree_min used name n k h1 h2⟩

/-! ## Non-vacuity -/

/-- declared order with a duplicate, an unknown name, a non-string entry and a misplaced `.notdef` -/
example : ufoGlyphOrder (some [some "b", some ".notdef", none, some "nosuch", some "b", some "a"])
    ["a", "b", "z", "c", ".notdef"] = ["b", ".notdef", "a", "c", "z"] := by
  simp [ufoGlyphOrder, ixExtend, ixInsert, sortNames, List.mergeSort, List.MergeSort.Internal.splitInTwo]

example : glyphsGlyphOrder (some ["b", "nosuch", "b"]) ["a", "b", "c"] = ["b", "a", "c"] := by decide

/-- a source with a non-export glyph `x` (with a codepoint) used as a component, a misplaced `.notdef`, a mixed glyph -/
def exSource : Source :=
  { glyphs := [{ name := "b", codepoints := [0x62, 0x1F600], hasContours := true },
               { name := ".notdef", hasContours := true },
               { name := "x", exported := false, codepoints := [0x78], hasContours := true },
               { name := "a", codepoints := [0x61], components := ["x", "b"] }],
    prelim := ["b", ".notdef", "x", "a"], preferSimple := false }

example : exSource.prelim.Nodup ∧ (exSource.glyphs.map (·.name)).Nodup := by decide

example : (finalOrder exSource).map (·.order) = some [".notdef", "b", "a", "a.0"] := by decide

example : (finalOrder exSource).bind buildCmap = some [(0x62, 1), (0x1F600, 1), (0x61, 2)] := by decide

example : (finalOrder exSource).map (fun f => f.table.comps "a") = some ["b", "a.0"] := by decide

example : (finalOrder exSource).map (allCompiled exSource) = some true := by decide

example : postNames (some [("b", "dup"), ("a", "dup"), ("a.0", "x-y")]) [".notdef", "b", "a", "a.0"] =
    [".notdef", "dup", "dup.1", "xy"] := by decide

example : TopoOk (Table.ofList exSource.glyphs) [] ["b", ".notdef", "x", "a"] := by
  simp [TopoOk, Table.comps, Table.get, Table.ofList, Table.isExport, exSource]

end Fontc.C06
