/-
  C18 — "Names referenced from other tables exist and say what the source says".

  Model: FontcModel/Names.lean — literal transcription of `NameBuilder::build`, `StaticMetadata::new`'s name-id
  allocation (the `HashMap` iteration order is the explicit parameter `order`), fvar's `reusable_name_id`, STAT's axis
  name lookup, FEA name-id shifting, **as of /repo 6370354**, i.e. with the three fixes this check produced:
    c4dd162  the default instance's reuse decision looks at the smallest matching id (was: first match in hash order, F2)
    ba69b97  allocation starts after the largest id the source already uses (was: always from 256)
    6370354  fvar reuses the smallest id only if it is 2 / 17, else the first id ≥ 256 (was: the smallest id whatever it is)
  Every theorem is for all naming configurations, no bounds; the headline theorems are unconditional.
  The code before the fixes is kept as `allocOld` / `reusableNameIdOld` with the three kernel-checked counterexamples
  (section "History"), whose witnesses are the directed cases 0, 1, 2 of stream `c18`.
-/
import FontcProofs.NamesMain
import FontcProofs.NamesPerm
import FontcProofs.NamesMisc
import FontcProofs.NamesFea

namespace Fontc.C18
open Fontc.Names

/-! ## 1. the result depends on nothing but the source (cited by C01) -/

/-- **Order independence of the name-id allocation, full strength.** For every input and every two iteration orders of
    the `names` map that are permutations of each other, `StaticMetadata::new` produces the same name table. -/
theorem alloc_perm_invariant (x : Input) (order₁ order₂ : List NameKey) (h : order₁.Perm order₂) :
    alloc order₁ x = alloc order₂ x :=
  alloc_perm x order₁ order₂ h

/-- The second hash iteration in the same function (`reusable_names.into_iter()` feeding `names.extend`) does not
    matter either: inserting the allocated entries in any other order gives the same map. -/
theorem extend_order_irrelevant (order : List NameKey) (x : Input) (r' : List (Str × NameKey))
    (h : r'.Perm (allocState order x).reusable) (k : NameKey) :
    alookup k (extend x.names r') = alookup k (alloc order x) :=
  extend_perm_lookup (allocState_inv order x).inj h k

/-- For C01: the allocation as a function of the *set* of iteration orders — any two permutations of the key list agree. -/
theorem name_allocation_order_independent (x : Input) (order₁ order₂ : List NameKey)
    (p₁ : order₁.Perm (akeys x.names)) (p₂ : order₂.Perm (akeys x.names)) : alloc order₁ x = alloc order₂ x :=
  alloc_perm_invariant x order₁ order₂ (p₁.trans p₂.symm)

/-! ## 2. referenced ids exist and carry the source's string -/

/-- What has to hold of the table `T` the allocation produces: every lookup fvar / STAT make (axis label; instance
    subfamily name; instance PostScript name) succeeds — the Rust `unwrap()`s do not panic — and returns the id of a
    record whose string is exactly the source's label. -/
def RefsResolve (x : Input) (T : Table) : Prop :=
  (∀ l ∈ x.labels, ∃ id k, reusableNameId T l false = some id ∧ statAxisId T l = some id ∧ (k, l) ∈ T ∧ k.id = id) ∧
  (∀ ni ∈ effInsts x, ∃ id k, reusableNameId T ni.name ni.atDefault = some id ∧ (k, ni.name) ∈ T ∧ k.id = id) ∧
  (∀ ni ∈ effInsts x, ∀ p, ni.ps = some p → ∃ id k, reusableNameId T p false = some id ∧ (k, p) ∈ T ∧ k.id = id)

/-- `names` is a `HashMap` (unique keys) and `order` is an iteration of it (visits every key): representation
    invariants of the data structure, not restrictions on the source. -/
def IsIteration (order : List NameKey) (x : Input) : Prop :=
  (akeys x.names).Nodup ∧ ∀ k ∈ akeys x.names, k ∈ order

theorem referenced_ids_exist (order : List NameKey) (x : Input) (hit : IsIteration order x) :
    RefsResolve x (alloc order x) := by
  refine ⟨?_, ?_, ?_⟩
  · intro l hl
    obtain ⟨id, k, h1, h2, h3, h4, _⟩ := exist_label order hl
    exact ⟨id, k, h1, h2, h3, h4⟩
  · intro ni hni
    exact exist_inst order hit.1 hit.2 hni
  · intro ni hni p hp
    obtain ⟨id, k, h1, h2, h3, _⟩ := exist_ps order hni hp
    exact ⟨id, k, h1, h2, h3⟩

/-- The source's labels are not empty strings. -/
def LabelsNonempty (x : Input) : Prop :=
  (∀ l ∈ x.labels, l ≠ []) ∧ (∀ ni ∈ x.insts, ni.name ≠ [] ∧ ∀ p, ni.ps = some p → p ≠ [])

/-- … and the records are non-empty, because they carry the source's (non-empty) labels. The hypothesis is the
    property's own domain: a record cannot both "say what the source says" and be non-empty when the source's label
    is the empty string (directed case 9 of stream `c18`: the real code then writes an empty record, no failure). -/
theorem referenced_ids_exist_nonempty (order : List NameKey) (x : Input) (hit : IsIteration order x)
    (hne : LabelsNonempty x) :
    RefsResolve x (alloc order x) ∧
    (∀ l ∈ x.labels, l ≠ []) ∧ (∀ ni ∈ effInsts x, ni.name ≠ [] ∧ ∀ p, ni.ps = some p → p ≠ []) := by
  refine ⟨referenced_ids_exist order x hit, hne.1, ?_⟩
  intro ni h
  apply hne.2
  unfold effInsts at h; split at h
  · simp at h
  · exact h

/-- Source records survive the allocation unchanged (nothing the source says is overwritten). -/
theorem source_records_survive (order : List NameKey) (x : Input)
    (k : NameKey) (v : Str) (h : alookup k x.names = some v) : alookup k (alloc order x) = some v :=
  alloc_source_survives order h

/-! ## 3. reserved ids only where the specification allows -/

/-- OpenType fvar: "values of 2 or 17 can be used [for the default instance]; otherwise values must be greater than
    255". Holds of every table `T` whatsoever: it is a property of fvar's lookup rule. -/
theorem reserved_ids_only_where_allowed (T : Table) (s : Str) (atDefault : Bool) (id : Nat)
    (h : reusableNameId T s atDefault = some id) : 256 ≤ id ∨ (atDefault = true ∧ isSub id = true) :=
  (reusableNameId_some h).2

/-- Axis names (fvar and STAT) and instance PostScript names never use an id below 256. -/
theorem axis_and_psname_ids_font_specific (T : Table) (s : Str) (id : Nat) :
    (reusableNameId T s false = some id → 256 ≤ id) ∧ (statAxisId T s = some id → 256 ≤ id) := by
  constructor
  · intro h
    rcases (reusableNameId_some h).2 with h | ⟨h, _⟩
    · exact h
    · cases h
  · intro h
    rw [statAxisId_eq] at h
    rcases (reusableNameId_some h).2 with h | ⟨h, _⟩
    · exact h
    · cases h

/-- Everything the allocator adds has an id ≥ 256, and records with an id below 256 are exactly the source's. -/
theorem allocated_ids_font_specific (order : List NameKey) (x : Input) (k : NameKey) (s : Str)
    (h : (k, s) ∈ alloc order x) : (k, s) ∈ x.names ∨ 256 ≤ k.id := by
  by_cases hid : k.id ≤ 255
  · exact Or.inl (alloc_reserved_from_source order h hid)
  · exact Or.inr (by omega)

/-! ## 4. one id per string -/

/-- Two allocated records never carry the same string, and no string is allocated that a source record with a
    font-specific id already carries. -/
theorem same_string_same_id (order : List NameKey) (x : Input) (hit : IsIteration order x) (k₁ : NameKey) (s : Str)
    (h₁ : (k₁, s) ∈ alloc order x) (n₁ : k₁ ∉ akeys x.names) :
    (∀ k₂, (k₂, s) ∈ alloc order x → k₂ ∉ akeys x.names → k₁ = k₂) ∧
    (∀ k', (k', s) ∈ x.names → k'.id ≤ 255) :=
  ⟨fun _ h₂ n₂ => fresh_same_string order h₁ h₂ n₁ n₂, fun _ hs => fresh_not_in_source order hit.1 hit.2 h₁ n₁ hs⟩

/-! ## 5. the fallback chain -/

/-- `NameBuilder::build`, statement by statement, computes the declarative fallback rules: for every name id the final
    record is what `fallbackSpec` says (`none` = no record). `src` is what the source supplied. -/
theorem fallback_chain_spec (b : Builder) (vendor : Str) (hn : (akeys b.names).Nodup) (id : Nat) :
    alookup id (b.build vendor) = (fallbackSpec b.get b.major b.minor vendor).get b.get id :=
  build_lookup b vendor hn id

/-- the hypothesis of `fallback_chain_spec` holds for whatever sequence of `add` calls a front end makes -/
theorem front_end_ids_unique (adds : List (Nat × Str)) (major : Int) (minor : Nat) :
    (akeys (Builder.ofAdds adds major minor).names).Nodup := ofAdds_nodup adds major minor

/-! ## 6. names from feature code -/

/-- FEA-declared font-specific ids are moved above every existing id; reserved ids stay; the shift is injective. -/
theorem fea_ids_disjoint_after_shift (T : Table) (id : Nat) :
    (256 ≤ id → ∀ p ∈ T, p.1.id < feaShift T id) ∧ (id ≤ 255 → feaShift T id = id) ∧
    (∀ id', feaShift T id = feaShift T id' → id = id') := by
  have hmax := maxId_ge T
  refine ⟨?_, ?_, ?_⟩
  · intro hid p hp
    have := le_maxId hp
    unfold feaShift; split
    · omega
    · split <;> omega
  · intro hid; unfold feaShift; split
    · rfl
    · simp
  · intro id' h
    unfold feaShift at h
    split at h
    · exact h
    · split at h <;> split at h <;> omega

/-! ## 7. names supplied through feature code (fea-rs `NameBuilder`, fontbe `merge_name_records`) -/

/-- every anonymous name block (featureNames, cvParameters entries, sizemenuname, STAT names) has a non-empty name -/
def GroupsNonempty (groups : List (List FeaSpec)) : Prop := ∀ g ∈ groups, ∃ e ∈ g, e.str ≠ []

theorem nonEmptySpecs_ne {groups : List (List FeaSpec)} (h : GroupsNonempty groups) :
    ∀ g ∈ groups, nonEmptySpecs g ≠ [] := by
  intro g hg hnil
  obtain ⟨e, he, hs⟩ := h g hg
  have : e ∈ nonEmptySpecs g := by
    simp only [nonEmptySpecs, List.mem_filter]
    exact ⟨he, by cases h' : e.str <;> simp_all⟩
  rw [hnil] at this; simp at this

/-- Anonymous ids never collide with explicit `nameid N` records — for EVERY order of the explicit records, ascending or
    not — nor with each other: there is one id per group, each is ≥ 256 and larger than every explicit id, and they are
    strictly increasing in build order. -/
theorem fea_anon_ids_fresh (expl : List (Nat × FeaSpec)) (groups : List (List FeaSpec)) (hne : GroupsNonempty groups) :
    (feaCompile expl groups).2.length = groups.length ∧
    (∀ id ∈ (feaCompile expl groups).2, 256 ≤ id ∧ ∀ e ∈ expl, e.1 < id) ∧
    (feaCompile expl groups).2.Pairwise (· < ·) := by
  obtain ⟨h255, hle, _⟩ := feaExplicit_last expl
  refine ⟨addGroups_length _ _, ?_, addGroups_ids_increasing _ _ (nonEmptySpecs_ne hne)⟩
  intro id hid
  have := addGroups_ids_gt groups (feaExplicit expl) id hid
  refine ⟨by omega, fun e he => ?_⟩
  have := hle e he; omega

/-- … and the ids do not depend on the order in which the explicit records are written. -/
theorem fea_anon_ids_order_independent (expl₁ expl₂ : List (Nat × FeaSpec)) (groups : List (List FeaSpec))
    (h : expl₁.Perm expl₂) : (feaCompile expl₁ groups).2 = (feaCompile expl₂ groups).2 :=
  addGroups_ids_congr groups _ _ (feaExplicit_last_perm h)

/-- Every id handed to STAT / featureNames / cvParameters / sizemenuname carries exactly the source's strings: under the
    id of a group there are the group's non-empty entries and nothing else. -/
theorem fea_referenced_ids_exact (expl : List (Nat × FeaSpec)) (groups : List (List FeaSpec)) (hne : GroupsNonempty groups)
    (g : List FeaSpec) (id : Nat) (hz : (g, id) ∈ groups.zip (feaCompile expl groups).2) (sp : FeaSpec) :
    (id, sp) ∈ (feaCompile expl groups).1.records ↔ (sp ∈ g ∧ sp.str ≠ []) := by
  have hold : ∀ r ∈ (feaExplicit expl).records, r.1 ≤ (feaExplicit expl).last := by
    intro r hr; rw [feaExplicit_records] at hr; exact (feaExplicit_last expl).2.1 r hr
  rw [show (feaCompile expl groups).1 = ((feaExplicit expl).addGroups groups).1 from rfl,
    addGroups_exact groups (feaExplicit expl) hold (nonEmptySpecs_ne hne) g id hz sp]
  simp only [nonEmptySpecs, List.mem_filter]
  constructor
  · rintro ⟨h1, h2⟩; exact ⟨h1, by cases h' : sp.str <;> simp_all⟩
  · rintro ⟨h1, h2⟩; exact ⟨h1, by cases h' : sp.str <;> simp_all⟩

/-- No explicit record is lost by the anonymous allocation. -/
theorem fea_explicit_records_kept (expl : List (Nat × FeaSpec)) (groups : List (List FeaSpec)) :
    ∀ e ∈ expl, e ∈ (feaCompile expl groups).1.records := by
  intro e he
  rw [show (feaCompile expl groups).1 = ((feaExplicit expl).addGroups groups).1 from rfl, addGroups_records,
    feaExplicit_records]
  exact List.mem_append_left _ he

/-- The merge with the compiler's own names loses nothing that is referenced: every FEA record is in the merged table;
    every record of the compiler's own with a font-specific id (all of fvar's and STAT's references except a reused
    id 2 / 17) survives; a reserved record survives unless the feature code says something for exactly that key. -/
theorem fea_merge_loses_nothing (own : Table) (b : FeaBuilder) (ho : (akeys own).Nodup)
    (hf : (akeys (feaRecordsShifted own b)).Nodup) :
    (∀ p ∈ feaRecordsShifted own b, alookup p.1 (mergeNames own (feaRecordsShifted own b)) = some p.2) ∧
    (∀ k v, alookup k own = some v → 256 ≤ k.id → alookup k (mergeNames own (feaRecordsShifted own b)) = some v) ∧
    (∀ k v, alookup k own = some v → alookup k (feaRecordsShifted own b) = none →
      alookup k (mergeNames own (feaRecordsShifted own b)) = some v) := by
  refine ⟨?_, ?_, ?_⟩
  · intro p hp
    rw [alookup_mergeNames ho hf, alookup_of_mem_nodup hf hp]; rfl
  · intro k v hk hid
    have hnone : alookup k (feaRecordsShifted own b) = none := by
      rw [alookup_eq_none_iff]
      intro v' hv'
      simp only [feaRecordsShifted, List.mem_map] at hv'
      obtain ⟨r, _, hr⟩ := hv'
      have hkid : k.id = feaShift own r.1 := by
        have := congrArg (fun q => q.1.id) hr; simpa using this.symm
      have hmax := le_maxId (mem_of_alookup hk)
      simp only at hmax
      unfold feaShift at hkid
      split at hkid
      · omega
      · split at hkid <;> omega
    rw [alookup_mergeNames ho hf, hnone, hk]; rfl
  · intro k v hk hnone
    rw [alookup_mergeNames ho hf, hnone, hk]; rfl

/-- non-vacuity: explicit records in descending order with two languages, three groups -/
example :
    let en (s : Str) : FeaSpec := ⟨3, 1, 0x409, s⟩
    let de (s : Str) : FeaSpec := ⟨3, 1, 0x407, s⟩
    let expl := [(258, en [65]), (256, en [66]), (256, de [67]), (9, en [68])]
    let groups := [[en [69], de [70]], [en [71]], [en [], en [72]]]
    GroupsNonempty groups ∧ (feaCompile expl groups).2 = [259, 260, 261] ∧
    (feaCompile expl.reverse groups).2 = [259, 260, 261] ∧
    ((feaCompile expl groups).1.records.filter fun r => r.1 == 261) = [(261, en [72])] := by
  refine ⟨?_, by decide, by decide, by decide⟩
  intro g hg
  simp only [List.mem_cons, List.mem_nil_iff, or_false] at hg
  rcases hg with rfl | rfl | rfl
  · exact ⟨_, List.mem_cons_self, by decide⟩
  · exact ⟨_, List.mem_cons_self, by decide⟩
  · exact ⟨_, List.mem_cons_of_mem _ List.mem_cons_self, by decide⟩

/-! ## History: the three statements that were false before the fixes (old model `allocOld` / `reusableNameIdOld`) -/

/-- F2 witness (directed case 0 of stream `c18`; exactly the `names` the real `NameBuilder` produces for
    familyName = styleName = "Regular"): one variable axis "Weight", default instance "Regular". -/
def f2Witness : Input :=
  { names :=
  [(⟨1, 3, 1, 0x409⟩, [82, 101, 103, 117, 108, 97, 114]),
   (⟨2, 3, 1, 0x409⟩, [82, 101, 103, 117, 108, 97, 114]),
   (⟨3, 3, 1, 0x409⟩, [48, 46, 48, 48, 48, 59, 78, 79, 78, 69, 59, 82, 101, 103, 117, 108, 97, 114, 45, 82, 101, 103, 117, 108, 97, 114]),
   (⟨4, 3, 1, 0x409⟩, [82, 101, 103, 117, 108, 97, 114, 32, 82, 101, 103, 117, 108, 97, 114]),
   (⟨5, 3, 1, 0x409⟩, [86, 101, 114, 115, 105, 111, 110, 32, 48, 46, 48, 48, 48]),
   (⟨6, 3, 1, 0x409⟩, [82, 101, 103, 117, 108, 97, 114, 45, 82, 101, 103, 117, 108, 97, 114])],
    labels := [[87, 101, 105, 103, 104, 116]],
    insts := [⟨[82, 101, 103, 117, 108, 97, 114], none, true⟩, ⟨[66, 111, 108, 100], none, false⟩] }

def f2Order₁ : List NameKey := [⟨1, 3, 1, 0x409⟩, ⟨2, 3, 1, 0x409⟩, ⟨3, 3, 1, 0x409⟩, ⟨4, 3, 1, 0x409⟩, ⟨5, 3, 1, 0x409⟩, ⟨6, 3, 1, 0x409⟩]
def f2Order₂ : List NameKey := [⟨2, 3, 1, 0x409⟩, ⟨1, 3, 1, 0x409⟩, ⟨3, 3, 1, 0x409⟩, ⟨4, 3, 1, 0x409⟩, ⟨5, 3, 1, 0x409⟩, ⟨6, 3, 1, 0x409⟩]

/-- before c4dd162: iterating id 1 first allocated 257 = "Regular" and 258 = "Bold"; iterating id 2 first allocated only
    257 = "Bold" — two different fonts from one source -/
theorem f2_two_results :
    (allocOld f2Order₁ f2Witness).map (fun p => (p.1.id, p.2)) ≠ (allocOld f2Order₂ f2Witness).map (fun p => (p.1.id, p.2)) ∧
    (allocOld f2Order₁ f2Witness).length = 9 ∧ (allocOld f2Order₂ f2Witness).length = 8 := by decide

/-- the old allocation was not order independent … -/
theorem allocOld_perm_invariant_counterexample :
    ¬ ∀ (x : Input) (order₁ order₂ : List NameKey), (akeys x.names).Nodup →
        order₁.Perm (akeys x.names) → order₂.Perm (akeys x.names) → allocOld order₁ x = allocOld order₂ x := by
  intro h
  have := h f2Witness f2Order₁ f2Order₂ (by decide) (List.Perm.refl _) (List.Perm.swap _ _ _)
  have hl := congrArg List.length this
  revert hl; decide

/-- … and the current one gives one answer on the same witness: 256 "Weight", 257 "Regular", 258 "Bold" -/
theorem f2_one_result :
    alloc f2Order₁ f2Witness = alloc f2Order₂ f2Witness ∧
    (alloc f2Order₁ f2Witness).map (fun p => p.1.id) = [1, 2, 3, 4, 5, 6, 256, 257, 258] ∧
    fvar (alloc f2Order₂ f2Witness) f2Witness matches .table ⟨[256], [(257, none), (258, none)]⟩ := by decide

/-- Witness (directed case 1 of stream `c18`): family "Fam", style "Regular", default instance named "Fam". -/
def reservedWitness : Input :=
  { names := [(⟨1, 3, 1, 0x409⟩, [70, 97, 109]), (⟨2, 3, 1, 0x409⟩, [82, 101, 103, 117, 108, 97, 114])],
    labels := [[87, 101, 105, 103, 104, 116]], insts := [⟨[70, 97, 109], none, true⟩] }

/-- before 6370354 the default instance's subfamilyNameID was 1 (the family name); now it is the allocated 257 -/
theorem reserved_id_old_and_new :
    reusableNameIdOld (allocOld [⟨1, 3, 1, 0x409⟩, ⟨2, 3, 1, 0x409⟩] reservedWitness) [70, 97, 109] true = some 1 ∧
    reusableNameId (alloc [⟨1, 3, 1, 0x409⟩, ⟨2, 3, 1, 0x409⟩] reservedWitness) [70, 97, 109] true = some 257 := by decide

/-- Witness (directed case 2 of stream `c18`): the source supplies name id 256 = "Weight"; axes Weight and Width. -/
def clashWitness : Input :=
  { names := [(⟨256, 3, 1, 0x409⟩, [87, 101, 105, 103, 104, 116])],
    labels := [[87, 101, 105, 103, 104, 116], [87, 105, 100, 116, 104]], insts := [] }

/-- before ba69b97 "Width" was allocated id 256 again and replaced the source's record: the first axis' name no longer
    resolved (fvar panicked); now "Width" gets 257 and both resolve -/
theorem source_id_clash_old_and_new :
    reusableNameIdOld (allocOld [⟨256, 3, 1, 0x409⟩] clashWitness) [87, 101, 105, 103, 104, 116] false = none ∧
    reusableNameId (alloc [⟨256, 3, 1, 0x409⟩] clashWitness) [87, 101, 105, 103, 104, 116] false = some 256 ∧
    reusableNameId (alloc [⟨256, 3, 1, 0x409⟩] clashWitness) [87, 105, 100, 116, 104] false = some 257 := by decide

/-! ## non-vacuity -/

/-- a configuration with every kind of collision: default instance named like the style (reuses 2), another default
    instance named like the family (must not use 1), repeated strings, a source-supplied font-specific id -/
def okWitness : Input :=
  { names := [(⟨1, 3, 1, 0x409⟩, [70, 97, 109]), (⟨2, 3, 1, 0x409⟩, [82, 101, 103, 117, 108, 97, 114]), (⟨300, 3, 1, 0x409⟩, [66, 108, 97, 99, 107])],
    labels := [[87, 101, 105, 103, 104, 116], [87, 105, 100, 116, 104]],
    insts := [⟨[82, 101, 103, 117, 108, 97, 114], some [70, 97, 109, 45, 82, 101, 103, 117, 108, 97, 114], true⟩, ⟨[66, 111, 108, 100], none, false⟩,
              ⟨[66, 111, 108, 100], some [70, 97, 109, 45, 66, 111, 108, 100], false⟩, ⟨[87, 105, 100, 116, 104], none, false⟩, ⟨[66, 108, 97, 99, 107], none, false⟩,
              ⟨[70, 97, 109], none, true⟩] }

def okOrder : List NameKey := [⟨300, 3, 1, 0x409⟩, ⟨2, 3, 1, 0x409⟩, ⟨1, 3, 1, 0x409⟩]

example : IsIteration okOrder okWitness ∧ LabelsNonempty okWitness := by
  refine ⟨⟨by decide, by decide⟩, ?_⟩
  simp [LabelsNonempty, okWitness]

/-- the model on that configuration: allocation starts after the source's 300; "Black" reuses 300; the first default
    instance reuses 2; both "Bold" share 303; the instance "Width" shares the axis' 302; the default instance "Fam"
    gets 306, not 1 -/
example : (alloc okOrder okWitness).map (fun p => p.1.id) = [1, 2, 300, 301, 302, 303, 304, 305, 306] ∧
    fvar (alloc okOrder okWitness) okWitness matches
      .table ⟨[301, 302], [(2, some 303), (304, some 0xFFFF), (304, some 305), (302, some 0xFFFF), (300, some 0xFFFF), (306, some 0xFFFF)]⟩ := by
  decide

/-- non-RIBBI style without legacy names (directed case 5): "Fam" + "Condensed Thin" → family "Fam Condensed Thin",
    subfamily "Regular", typographic names kept -/
example :
    let b := Builder.ofAdds [(16, [70, 97, 109]), (17, [67, 111, 110, 100, 101, 110, 115, 101, 100, 32, 84, 104, 105, 110])] 0 0
    let s := fallbackSpec b.get 0 0 [78, 79, 78, 69]
    s.id1 = [70, 97, 109, 32, 67, 111, 110, 100, 101, 110, 115, 101, 100, 32, 84, 104, 105, 110] ∧ s.id2 = [82, 101, 103, 117, 108, 97, 114] ∧ s.id16 = [70, 97, 109] ∧ s.dropTypo = false := by
  decide

#print axioms alloc_perm_invariant
#print axioms extend_order_irrelevant
#print axioms name_allocation_order_independent
#print axioms referenced_ids_exist
#print axioms referenced_ids_exist_nonempty
#print axioms source_records_survive
#print axioms reserved_ids_only_where_allowed
#print axioms axis_and_psname_ids_font_specific
#print axioms allocated_ids_font_specific
#print axioms same_string_same_id
#print axioms fallback_chain_spec
#print axioms front_end_ids_unique
#print axioms fea_ids_disjoint_after_shift
#print axioms fea_anon_ids_fresh
#print axioms fea_anon_ids_order_independent
#print axioms fea_referenced_ids_exact
#print axioms fea_explicit_records_kept
#print axioms fea_merge_loses_nothing
#print axioms f2_two_results
#print axioms allocOld_perm_invariant_counterexample
#print axioms f2_one_result
#print axioms reserved_id_old_and_new
#print axioms source_id_clash_old_and_new

end Fontc.C18
