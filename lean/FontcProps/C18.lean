/-
  C18 — "Names referenced from other tables exist and say what the source says".

  Model: FontcModel/Names.lean (literal transcription of `NameBuilder::build`, `StaticMetadata::new`'s name-id
  allocation with the `HashMap` iteration order as the explicit parameter `order`, fvar's `reusable_name_id`, STAT's
  axis name lookup, FEA name-id shifting). Every theorem is for all naming configurations, no bounds.

  Three statements are FALSE of the unchanged tree at full strength; for each the full statement is kept as a `def`,
  a `…_partial` theorem is proved under the precise extra hypothesis, and `¬ FullStatement` is proved from a concrete
  witness that the harness replays on the real code (stream `c18`, directed cases 0, 1, 2):
    * `AllocPermInvariant`      (F2: hash-order dependence)                → `Unambiguous`
    * `ReservedOnlyWhereAllowed` (fvar hands out id 1/4/16/… for a default instance) → `DefaultNamesClean`
    * `ReferencedIdsExist`       (source-supplied id inside the allocator's range)   → `SourceIdsClear`
-/
import FontcProofs.NamesMain
import FontcProofs.NamesPerm
import FontcProofs.NamesMisc

namespace Fontc.C18
open Fontc.Names

/-! ## hypotheses, spelled out -/

/-- Font-specific ids (≥ 256) that the *source* supplies lie above everything the allocator can hand out
    (it starts at 256 and makes at most one request per axis and two per instance). -/
def SourceIdsClear (x : Input) : Prop :=
  ∀ k v, (k, v) ∈ x.names → k.id ≤ 255 ∨ 256 + x.labels.length + 2 * x.insts.length ≤ k.id

/-- The source's labels are not empty strings. -/
def LabelsNonempty (x : Input) : Prop :=
  (∀ l ∈ x.labels, l ≠ []) ∧ (∀ ni ∈ x.insts, ni.name ≠ [] ∧ ∀ p, ni.ps = some p → p ≠ [])

/-- A default-located instance's name is not also the string of a reserved name id other than 2 / 17
    (family, full, PostScript, version … name). -/
def DefaultNamesClean (x : Input) : Prop :=
  ∀ ni ∈ effInsts x, ni.atDefault = true → ∀ k, (k, ni.name) ∈ x.names → k.id ≤ 255 → isSub k.id = true

/-- For every default-located instance name: a source record with a font-specific id carries it, or every source
    record carrying it has id 2 / 17, or none has. (Then the first match in *any* iteration order decides the same.) -/
def Unambiguous (x : Input) : Prop :=
  ∀ ni ∈ effInsts x, ni.atDefault = true →
    (∃ k, (k, ni.name) ∈ x.names ∧ 255 < k.id) ∨
    (∀ k, (k, ni.name) ∈ x.names → isSub k.id = true) ∨
    (∀ k, (k, ni.name) ∈ x.names → isSub k.id = false)

/-! ## 1. referenced ids exist, carry the source's string, and are non-empty -/

/-- What has to hold of the table `T` the allocation produces: every lookup fvar / STAT make (axis label; instance
    subfamily name; instance PostScript name) succeeds — the Rust `unwrap()`s do not panic — and returns the id of a
    record whose string is exactly the source's label. -/
def RefsResolve (x : Input) (T : Table) : Prop :=
  (∀ l ∈ x.labels, ∃ id k, reusableNameId T l false = some id ∧ statAxisId T l = some id ∧ (k, l) ∈ T ∧ k.id = id ∧ l ≠ []) ∧
  (∀ ni ∈ effInsts x, ∃ id k, reusableNameId T ni.name ni.atDefault = some id ∧ (k, ni.name) ∈ T ∧ k.id = id ∧ ni.name ≠ []) ∧
  (∀ ni ∈ effInsts x, ∀ p, ni.ps = some p →
     ∃ id k, reusableNameId T p false = some id ∧ (k, p) ∈ T ∧ k.id = id ∧ p ≠ [])

def ReferencedIdsExist : Prop :=
  ∀ (order : List NameKey) (x : Input), LabelsNonempty x → RefsResolve x (alloc order x)

theorem referenced_ids_exist_nonempty (order : List NameKey) (x : Input)
    (hclear : SourceIdsClear x) (hne : LabelsNonempty x) : RefsResolve x (alloc order x) := by
  have hc := clear_of_mem hclear
  have hsub : ∀ ni ∈ effInsts x, ni ∈ x.insts := by
    intro ni h; unfold effInsts at h; split at h
    · simp at h
    · exact h
  refine ⟨?_, ?_, ?_⟩
  · intro l hl
    obtain ⟨id, k, h1, h2, h3, h4, _⟩ := exist_label order hc hl
    exact ⟨id, k, h1, h2, h3, h4, hne.1 l hl⟩
  · intro ni hni
    obtain ⟨id, k, h1, h2, h3⟩ := exist_inst order hc hni
    exact ⟨id, k, h1, h2, h3, (hne.2 ni (hsub ni hni)).1⟩
  · intro ni hni p hp
    obtain ⟨id, k, h1, h2, h3, _⟩ := exist_ps order hc hni hp
    exact ⟨id, k, h1, h2, h3, (hne.2 ni (hsub ni hni)).2 p hp⟩

/-- Witness (directed case 2 of stream `c18`): the source supplies name id 256 = "Weight"; the second axis label is
    allocated id 256 again and replaces it, so the first axis' name no longer resolves (fvar's `unwrap()` panics). -/
def clashWitness : Input :=
  { names := [(⟨256, 3, 1, 0x409⟩, [87, 101, 105, 103, 104, 116])],
    labels := [[87, 101, 105, 103, 104, 116], [87, 105, 100, 116, 104]], insts := [] }

theorem referenced_ids_exist_counterexample : ¬ ReferencedIdsExist := by
  intro h
  have := (h [⟨256, 3, 1, 0x409⟩] clashWitness (by simp [LabelsNonempty, clashWitness])).1 [87, 101, 105, 103, 104, 116] (by decide)
  obtain ⟨id, _, h1, _⟩ := this
  revert h1
  have : reusableNameId (alloc [⟨256, 3, 1, 0x409⟩] clashWitness) [87, 101, 105, 103, 104, 116] false = none := by decide
  rw [this]; simp

/-- Source records survive the allocation unchanged. -/
theorem source_records_survive (order : List NameKey) (x : Input) (hclear : SourceIdsClear x)
    (k : NameKey) (v : Str) (h : alookup k x.names = some v) : alookup k (alloc order x) = some v :=
  alloc_source_survives order (clear_of_mem hclear) h

/-! ## 2. reserved ids only where the specification allows -/

/-- Axis names (fvar and STAT) and instance PostScript names never use an id below 256. -/
theorem axis_and_psname_ids_font_specific (T : Table) (s : Str) (id : Nat) :
    (reusableNameId T s false = some id → 256 ≤ id) ∧ (statAxisId T s = some id → 256 ≤ id) := by
  constructor
  · intro h
    rcases (reusableNameId_some h).2 with h | h
    · cases h
    · exact h
  · intro h
    rw [statAxisId_eq] at h
    rcases (reusableNameId_some h).2 with h | h
    · cases h
    · exact h

/-- Everything the allocator adds has an id ≥ 256, and records with an id below 256 are exactly the source's. -/
theorem allocated_ids_font_specific (order : List NameKey) (x : Input) (k : NameKey) (s : Str)
    (h : (k, s) ∈ alloc order x) : (k, s) ∈ x.names ∨ 256 ≤ k.id := by
  by_cases hid : k.id ≤ 255
  · exact Or.inl (alloc_reserved_from_source order h hid)
  · exact Or.inr (by omega)

/-- OpenType fvar: "values of 2 or 17 can be used [for the default instance]; otherwise values must be greater than 255". -/
def ReservedOnlyWhereAllowed : Prop :=
  ∀ (order : List NameKey) (x : Input), ∀ ni ∈ effInsts x, ∀ id,
    reusableNameId (alloc order x) ni.name ni.atDefault = some id → 256 ≤ id ∨ (ni.atDefault = true ∧ isSub id = true)

theorem reserved_ids_only_where_allowed_partial (order : List NameKey) (x : Input) (hclean : DefaultNamesClean x) :
    ∀ ni ∈ effInsts x, ∀ id,
      reusableNameId (alloc order x) ni.name ni.atDefault = some id → 256 ≤ id ∨ (ni.atDefault = true ∧ isSub id = true) :=
  fun ni hni _ h => inst_id_allowed order (hclean ni hni) h

/-- Witness (directed case 1 of stream `c18`): family "Fam", style "Regular", default instance named "Fam":
    the instance's subfamilyNameID is 1. -/
def reservedWitness : Input :=
  { names := [(⟨1, 3, 1, 0x409⟩, [70, 97, 109]), (⟨2, 3, 1, 0x409⟩, [82, 101, 103, 117, 108, 97, 114])],
    labels := [[87, 101, 105, 103, 104, 116]], insts := [⟨[70, 97, 109], none, true⟩] }

theorem reserved_ids_counterexample : ¬ ReservedOnlyWhereAllowed := by
  intro h
  have h1 : reusableNameId (alloc [⟨1, 3, 1, 0x409⟩, ⟨2, 3, 1, 0x409⟩] reservedWitness) [70, 97, 109] true = some 1 := by decide
  have := h [⟨1, 3, 1, 0x409⟩, ⟨2, 3, 1, 0x409⟩] reservedWitness ⟨[70, 97, 109], none, true⟩ (by decide) 1 h1
  revert this; decide

/-! ## 3. one id per string -/

/-- Two allocated records never carry the same string, and no string is allocated that a source record with a
    font-specific id already carries. -/
theorem same_string_same_id (order : List NameKey) (x : Input) (hn : (akeys x.names).Nodup)
    (hcover : ∀ k ∈ akeys x.names, k ∈ order) (k₁ : NameKey) (s : Str)
    (h₁ : (k₁, s) ∈ alloc order x) (n₁ : k₁ ∉ akeys x.names) :
    (∀ k₂, (k₂, s) ∈ alloc order x → k₂ ∉ akeys x.names → k₁ = k₂) ∧
    (∀ k', (k', s) ∈ x.names → k'.id ≤ 255) :=
  ⟨fun _ h₂ n₂ => fresh_same_string order h₁ h₂ n₁ n₂, fun _ hs => fresh_not_in_source order hn hcover h₁ n₁ hs⟩

/-! ## 4. the fallback chain -/

/-- `NameBuilder::build`, statement by statement, computes the declarative fallback rules: for every name id the final
    record is what `fallbackSpec` says (`none` = no record). `src` is what the source supplied. -/
theorem fallback_chain_spec (b : Builder) (vendor : Str) (hn : (akeys b.names).Nodup) (id : Nat) :
    alookup id (b.build vendor) = (fallbackSpec b.get b.major b.minor vendor).get b.get id :=
  build_lookup b vendor hn id

/-- the hypothesis of `fallback_chain_spec` holds for whatever sequence of `add` calls a front end makes -/
theorem front_end_ids_unique (adds : List (Nat × Str)) (major : Int) (minor : Nat) :
    (akeys (Builder.ofAdds adds major minor).names).Nodup := ofAdds_nodup adds major minor

/-! ## 5. the result depends on nothing but the source (C01 for this core) -/

def AllocPermInvariant : Prop :=
  ∀ (x : Input) (order₁ order₂ : List NameKey), (akeys x.names).Nodup →
    order₁.Perm (akeys x.names) → order₂.Perm (akeys x.names) → alloc order₁ x = alloc order₂ x

theorem alloc_perm_invariant_partial (x : Input) (order₁ order₂ : List NameKey) (hn : (akeys x.names).Nodup)
    (p₁ : order₁.Perm (akeys x.names)) (p₂ : order₂.Perm (akeys x.names)) (hun : Unambiguous x) :
    alloc order₁ x = alloc order₂ x :=
  alloc_perm_invariant_of_unambiguous x order₁ order₂ hn p₁ p₂ hun

/-- F2 witness (directed case 0 of stream `c18`; exactly the `names` the real `NameBuilder` produces for
    familyName = styleName = "Regular"): one variable axis "Weight", default instance "Regular". -/
def f2Witness : Input :=
  { names :=
  [(⟨1, 3, 1, 0x409⟩, [82, 101, 103, 117, 108, 97, 114]),
   (⟨2, 3, 1, 0x409⟩, [82, 101, 103, 117, 108, 97, 114]),
   (⟨3, 3, 1, 0x409⟩, [48, 46, 48, 48, 48, 59, 78, 79, 78, 69, 59, 82, 101, 103, 117, 108, 97, 114, 45, 82, 101, 103, 117, 108, 97, 114]),
   (⟨4, 3, 1, 0x409⟩, [82, 101, 103, 117, 108, 97, 114, 32, 82, 101, 103, 117, 108, 97, 114]),
   (⟨5, 3, 1, 0x409⟩, [86, 101, 114, 115, 105, 111, 110, 32, 48, 46, 48, 48, 48]),
   (⟨6, 3, 1, 0x409⟩, [82, 101, 103, 117, 108, 97, 114, 45, 82, 101, 103, 117, 108, 97, 114])],
    labels := [[87, 101, 105, 103, 104, 116]],
    insts := [⟨[82, 101, 103, 117, 108, 97, 114], none, true⟩, ⟨[66, 111, 108, 100], none, false⟩] }

def f2Order₁ : List NameKey := [⟨1, 3, 1, 0x409⟩, ⟨2, 3, 1, 0x409⟩, ⟨3, 3, 1, 0x409⟩, ⟨4, 3, 1, 0x409⟩, ⟨5, 3, 1, 0x409⟩, ⟨6, 3, 1, 0x409⟩]
def f2Order₂ : List NameKey := [⟨2, 3, 1, 0x409⟩, ⟨1, 3, 1, 0x409⟩, ⟨3, 3, 1, 0x409⟩, ⟨4, 3, 1, 0x409⟩, ⟨5, 3, 1, 0x409⟩, ⟨6, 3, 1, 0x409⟩]

/-- iterating id 1 first allocates 257 = "Regular" and 258 = "Bold"; iterating id 2 first allocates only 257 = "Bold" -/
theorem f2_two_results :
    (alloc f2Order₁ f2Witness).map (fun p => (p.1.id, p.2)) ≠ (alloc f2Order₂ f2Witness).map (fun p => (p.1.id, p.2)) ∧
    (alloc f2Order₁ f2Witness).length = 9 ∧ (alloc f2Order₂ f2Witness).length = 8 := by decide

theorem alloc_perm_invariant_counterexample : ¬ AllocPermInvariant := by
  intro h
  have := h f2Witness f2Order₁ f2Order₂ (by decide) (List.Perm.refl _) (List.Perm.swap _ _ _)
  have hl := congrArg List.length this
  revert hl; decide

/-! ## 6. names from feature code -/

/-- FEA-declared font-specific ids are moved above every existing id; reserved ids stay; the shift is injective. -/
theorem fea_ids_disjoint_after_shift (T : Table) (id : Nat) :
    (256 ≤ id → ∀ p ∈ T, p.1.id < feaShift T id) ∧ (id ≤ 255 → feaShift T id = id) ∧
    (∀ id', feaShift T id = feaShift T id' → id = id') := by
  have hmax := maxId_ge T
  refine ⟨?_, ?_, ?_⟩
  · intro hid p hp
    have := le_maxId hp
    unfold feaShift; split
    · omega
    · split <;> omega
  · intro hid; unfold feaShift; split
    · rfl
    · simp
  · intro id' h
    unfold feaShift at h
    split at h
    · exact h
    · split at h <;> split at h <;> omega

/-! ## non-vacuity -/

/-- a well-behaved configuration (directed case 4): family "Fam", style "Regular", axes Weight / Width, the default
    instance reuses id 2, repeated strings share ids -/
def okWitness : Input :=
  { names := [(⟨1, 3, 1, 0x409⟩, [70, 97, 109]), (⟨2, 3, 1, 0x409⟩, [82, 101, 103, 117, 108, 97, 114]), (⟨300, 3, 1, 0x409⟩, [66, 108, 97, 99, 107])],
    labels := [[87, 101, 105, 103, 104, 116], [87, 105, 100, 116, 104]],
    insts := [⟨[82, 101, 103, 117, 108, 97, 114], some [70, 97, 109, 45, 82, 101, 103, 117, 108, 97, 114], true⟩, ⟨[66, 111, 108, 100], none, false⟩,
              ⟨[66, 111, 108, 100], some [70, 97, 109, 45, 66, 111, 108, 100], false⟩, ⟨[87, 105, 100, 116, 104], none, false⟩, ⟨[66, 108, 97, 99, 107], none, false⟩] }

def okOrder : List NameKey := [⟨300, 3, 1, 0x409⟩, ⟨2, 3, 1, 0x409⟩, ⟨1, 3, 1, 0x409⟩]

example : SourceIdsClear okWitness ∧ LabelsNonempty okWitness ∧ DefaultNamesClean okWitness ∧ Unambiguous okWitness := by
  refine ⟨?_, ?_, ?_, ?_⟩
  · intro k v h
    simp only [okWitness, List.mem_cons, List.mem_nil_iff, or_false, Prod.mk.injEq] at h
    rcases h with ⟨rfl, _⟩ | ⟨rfl, _⟩ | ⟨rfl, _⟩ <;> simp [okWitness]
  · simp [LabelsNonempty, okWitness]
  · intro ni hni hd k hk _
    have hni' : ni = ⟨[82, 101, 103, 117, 108, 97, 114], some [70, 97, 109, 45, 82, 101, 103, 117, 108, 97, 114], true⟩ := by
      simp only [effInsts, okWitness] at hni
      simp at hni
      rcases hni with rfl | rfl | rfl | rfl | rfl <;> first | rfl | (simp at hd)
    subst hni'
    simp only [okWitness, List.mem_cons, List.mem_nil_iff, or_false, Prod.mk.injEq] at hk
    rcases hk with ⟨rfl, h⟩ | ⟨rfl, h⟩ | ⟨rfl, h⟩ <;> first | rfl | (revert h; decide)
  · intro ni hni hd
    have hni' : ni = ⟨[82, 101, 103, 117, 108, 97, 114], some [70, 97, 109, 45, 82, 101, 103, 117, 108, 97, 114], true⟩ := by
      simp only [effInsts, okWitness] at hni
      simp at hni
      rcases hni with rfl | rfl | rfl | rfl | rfl <;> first | rfl | (simp at hd)
    subst hni'
    right; left
    intro k hk
    simp only [okWitness, List.mem_cons, List.mem_nil_iff, or_false, Prod.mk.injEq] at hk
    rcases hk with ⟨rfl, h⟩ | ⟨rfl, h⟩ | ⟨rfl, h⟩ <;> first | rfl | (revert h; decide)

/-- the model on that configuration: ids 256-261 are allocated, "Black" reuses the source's 300, the default instance
    reuses 2, both "Bold" instances share 258, the instance "Width" shares the axis' 257 -/
example : (alloc okOrder okWitness).map (fun p => p.1.id) = [1, 2, 300, 256, 257, 258, 259, 260] ∧
    fvar (alloc okOrder okWitness) okWitness matches .table ⟨[256, 257], [(2, some 258), (259, some 0xFFFF), (259, some 260), (257, some 0xFFFF), (300, some 0xFFFF)]⟩ := by
  decide

/-- non-RIBBI style without legacy names (directed case 5): "Fam" + "Condensed Thin" → family "Fam Condensed Thin",
    subfamily "Regular", typographic names kept -/
example :
    let b := Builder.ofAdds [(16, [70, 97, 109]), (17, [67, 111, 110, 100, 101, 110, 115, 101, 100, 32, 84, 104, 105, 110])] 0 0
    let s := fallbackSpec b.get 0 0 [78, 79, 78, 69]
    s.id1 = [70, 97, 109, 32, 67, 111, 110, 100, 101, 110, 115, 101, 100, 32, 84, 104, 105, 110] ∧ s.id2 = [82, 101, 103, 117, 108, 97, 114] ∧ s.id16 = [70, 97, 109] ∧ s.dropTypo = false := by
  decide

#print axioms referenced_ids_exist_nonempty
#print axioms referenced_ids_exist_counterexample
#print axioms source_records_survive
#print axioms axis_and_psname_ids_font_specific
#print axioms allocated_ids_font_specific
#print axioms reserved_ids_only_where_allowed_partial
#print axioms reserved_ids_counterexample
#print axioms same_string_same_id
#print axioms fallback_chain_spec
#print axioms front_end_ids_unique
#print axioms alloc_perm_invariant_partial
#print axioms f2_two_results
#print axioms alloc_perm_invariant_counterexample
#print axioms fea_ids_disjoint_after_shift

end Fontc.C18
