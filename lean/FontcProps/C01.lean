/-
  C01 — Repeatable builds: same source and options give a byte-identical font.

  The bytes are a function of (source, options, SOURCE_DATE_EPOCH) iff
   (i)  the task graph is confluent — the final context does not depend on the schedule — and
   (ii) every computation that iterates a HashMap/HashSet is invariant under the iteration order.
  (ii) is proved core by core, with the iteration order an explicit argument of the model (a permutation /
  an arbitrary list with the same members); (i) is the scheduler model of C02.  The cores that are not modelled
  are covered only by the `c01` differential stream (r builds in separate processes with different hash seeds,
  thread counts and seeded scheduling jitter must be byte-identical), which is monitoring, not proof.
-/
import FontcProps.C07

namespace Fontc.C01
open Fontc Fontc.VarModel

/-- Variation model (fontdrasil `VariationModel::new` takes a `HashSet`): the model — locations order, regions,
    hence every delta computed with it (gvar, HVAR, MVAR, kerning and anchor deltas) — depends only on the *set*
    of locations, not on the order in which the hash set yields them. -/
theorem variation_model_order_independent (n : Nat) (locs₁ locs₂ : List Loc)
    (hset : ∀ l, l ∈ locs₁ ↔ l ∈ locs₂) : Model.new n locs₁ = Model.new n locs₂ :=
  C07.model_set_invariant n locs₁ locs₂ hset

/-- Non-vacuity: two different enumeration orders (with a repeat) of one location set. -/
example : Model.new 1 [[0], [1], [1/2]] = Model.new 1 [[1/2], [0], [1], [0]] :=
  variation_model_order_independent 1 _ _ (by intro l; simp; grind)

end Fontc.C01
