/-
  C01 — Repeatable builds: same source and options give a byte-identical font.

  The bytes are a function of (source, options, SOURCE_DATE_EPOCH) iff
   (i)  the task graph is confluent — the final context does not depend on the schedule — and
   (ii) every computation that iterates a HashMap/HashSet is invariant under the iteration order.
  (ii) is proved core by core, with the iteration order an explicit argument of the model (a permutation /
  an arbitrary list with the same members); (i) is the scheduler model of C02.  The cores that are not modelled
  are covered only by the `c01` differential stream (r builds in separate processes with different hash seeds,
  thread counts and seeded scheduling jitter must be byte-identical), which is monitoring, not proof.
-/
import FontcProps.C07
import FontcProofs.Confluence
import FontcProps.C18
import FontcProps.C06

namespace Fontc.C01
open Fontc Fontc.VarModel

/-- Variation model (fontdrasil `VariationModel::new` takes a `HashSet`): the model — locations order, regions,
    hence every delta computed with it (gvar, HVAR, MVAR, kerning and anchor deltas) — depends only on the *set*
    of locations, not on the order in which the hash set yields them. -/
theorem variation_model_order_independent (n : Nat) (locs₁ locs₂ : List Loc)
    (hset : ∀ l, l ∈ locs₁ ↔ l ∈ locs₂) : Model.new n locs₁ = Model.new n locs₂ :=
  C07.model_set_invariant n locs₁ locs₂ hset

/-- Non-vacuity: two different enumeration orders (with a repeat) of one location set. -/
example : Model.new 1 [[0], [1], [1/2]] = Model.new 1 [[1/2], [0], [1], [0]] :=
  variation_model_order_independent 1 _ _ (by intro l; simp; grind)

end Fontc.C01

/-! ## (i) Confluence: the final build context does not depend on the schedule

  Setting (FontcModel/Confluence.lean): the build context is a `Store` (item ↦ optional value); a `Job` has an id, a
  declared read set and write set, and `run`, the list of `Context::set` calls it makes as a function of the store.
  `WF j`: what it writes depends only on the items of its read set, and it writes only items of its write set (this is
  what the `Access` checks of the context enforce by panicking).  `exec j s` runs one job, `execAll l s` runs the
  schedule `l` in order.  `conflict j k`: one may write an item the other may read or write.  `Before l j k`: `j`'s id
  occurs before `k`'s id in `l`.  All theorems are for every list of jobs, every value type and every initial store.

  Tie to C02.  The hypothesis of `final_store_schedule_independent` — a must-precede order that decides every
  conflicting pair and that every admitted schedule respects — is what Driver/C02 checks on the recorded accesses of
  every real build (oracle clause (c): every pair of accesses to one context entry by two different jobs, one of them
  a write, is ordered in the recorded trace — finish of one before launch of the other — and that order is forced by
  the verified static relation `mustPrecede` of the extracted script) and what
  `Fontc.C02.every_read_after_producer` / `Fontc.C02.mustPrecede_sound` give for checked scripts: the facts of the
  must-precede table hold in EVERY interleaving the scheduler model admits.  Given that, this section is the classical
  consequence (Mazurkiewicz trace equivalence): all such schedules end in the same context.
  What stays outside the proof (trusted / monitored, not proved here): that the real jobs are `WF` for the accesses
  that were recorded (the context's `Access` checks and the c02 stream), that the recorded accesses of the sampled
  runs cover those of every run, and that a parallel run equals the sequential run of one of its linearisations
  (conflicting jobs never overlap in time: one finishes before the other is launched, clause (c)).
-/

namespace Fontc.C01
open Fontc.Confluence

/-- **Independent jobs commute.** -/
theorem exec_comm {Val : Type} {j k : Job Val} (wj : WF j) (wk : WF k) (h : indep j k) (s : Store Val) :
    exec k (exec j s) = exec j (exec k s) :=
  Confluence.exec_comm wj wk h s

/-- Swapping two adjacent independent jobs anywhere in a schedule does not change the final store. -/
theorem execAll_swap {Val : Type} {j k : Job Val} (wj : WF j) (wk : WF k) (h : indep j k)
    (pre post : List (Job Val)) (s : Store Val) :
    execAll (pre ++ j :: k :: post) s = execAll (pre ++ k :: j :: post) s :=
  Confluence.execAll_swap wj wk h pre post s

/-- **Schedule independence.**  Two schedules of the same well-formed jobs (a permutation, pairwise distinct ids) in
    which every conflicting pair appears in the same relative order end in the same store. -/
theorem schedule_independent {Val : Type} (l₁ l₂ : List (Job Val)) (wf : ∀ j ∈ l₁, WF j) (perm : l₁.Perm l₂)
    (nd : (ids l₁).Nodup)
    (same : ∀ j ∈ l₁, ∀ k ∈ l₁, conflict j k = true → (Before l₁ j k ↔ Before l₂ j k)) (s : Store Val) :
    execAll l₁ s = execAll l₂ s :=
  Confluence.schedule_independent l₁ l₂ wf perm nd same s

/-- **The final store is schedule independent.**  If a relation `mustPrecede` orders every conflicting pair of distinct
    jobs one way or the other, then any two linearisations of the job set that respect `mustPrecede` end in the same
    store.  (`mustPrecede` need not be assumed irreflexive or asymmetric: a relation that is not has no respecting
    linearisation with distinct ids.) -/
theorem final_store_schedule_independent {Val : Type} (mustPrecede : Job Val → Job Val → Prop)
    (l₁ l₂ : List (Job Val)) (wf : ∀ j ∈ l₁, WF j) (perm : l₁.Perm l₂) (nd : (ids l₁).Nodup)
    (total : ∀ j ∈ l₁, ∀ k ∈ l₁, j.id ≠ k.id → conflict j k = true → mustPrecede j k ∨ mustPrecede k j)
    (r₁ : ∀ j ∈ l₁, ∀ k ∈ l₁, mustPrecede j k → Before l₁ j k)
    (r₂ : ∀ j ∈ l₂, ∀ k ∈ l₂, mustPrecede j k → Before l₂ j k) (s : Store Val) :
    execAll l₁ s = execAll l₂ s :=
  Confluence.final_store_schedule_independent mustPrecede l₁ l₂ wf perm nd total r₁ r₂ s

/-! ### Non-vacuity: a diamond  `src → {incr, dbl} → sum` -/

namespace Diamond

def get (s : Store Nat) (i : Item) : Nat := (s i).getD 0

/-- writes item 0 -/
def src : Job Nat := { id := 0, reads := [], writes := [0], run := fun _ => [(0, 5)] }
/-- item 1 := item 0 + 1 -/
def incr : Job Nat := { id := 1, reads := [0], writes := [1], run := fun s => [(1, get s 0 + 1)] }
/-- item 2 := item 0 * 2 -/
def dbl : Job Nat := { id := 2, reads := [0], writes := [2], run := fun s => [(2, get s 0 * 2)] }
/-- item 3 := item 1 + item 2 -/
def sum : Job Nat := { id := 3, reads := [1, 2], writes := [3], run := fun s => [(3, get s 1 + get s 2)] }

theorem wf_src : WF src := ⟨fun _ _ _ => rfl, fun s p hp => by simp [src] at hp; simp [hp, src]⟩
theorem wf_incr : WF incr :=
  ⟨fun s s' h => by have := h 0 (by simp [incr]); simp [incr, get, this],
   fun s p hp => by simp [incr] at hp; simp [hp, incr]⟩
theorem wf_dbl : WF dbl :=
  ⟨fun s s' h => by have := h 0 (by simp [dbl]); simp [dbl, get, this],
   fun s p hp => by simp [dbl] at hp; simp [hp, dbl]⟩
theorem wf_sum : WF sum :=
  ⟨fun s s' h => by
     have h1 := h 1 (by simp [sum]); have h2 := h 2 (by simp [sum]); simp [sum, get, h1, h2],
   fun s p hp => by simp [sum] at hp; simp [hp, sum]⟩

/-- the two middle jobs are independent; each conflicts with the source and with the sink -/
example : indep incr dbl ∧ conflict src incr = true ∧ conflict src dbl = true ∧
    conflict incr sum = true ∧ conflict dbl sum = true := by decide

/-- the dependency order of the diamond, on ids -/
def mustPrecede (j k : Job Nat) : Prop := (j.id, k.id) ∈ [(0, 1), (0, 2), (1, 3), (2, 3)]

instance (j k : Job Nat) : Decidable (mustPrecede j k) := by unfold mustPrecede; infer_instance

def l₁ : List (Job Nat) := [src, incr, dbl, sum]
def l₂ : List (Job Nat) := [src, dbl, incr, sum]

theorem all_wf : ∀ j ∈ l₁, WF j := by
  intro j hj
  simp only [l₁, List.mem_cons, List.not_mem_nil, or_false] at hj
  rcases hj with rfl | rfl | rfl | rfl
  · exact wf_src
  · exact wf_incr
  · exact wf_dbl
  · exact wf_sum

theorem perm : l₁.Perm l₂ := (List.Perm.swap dbl incr [sum]).cons src

theorem total : ∀ j ∈ l₁, ∀ k ∈ l₁, j.id ≠ k.id → conflict j k = true → mustPrecede j k ∨ mustPrecede k j := by
  intro j hj k hk
  simp only [l₁, List.mem_cons, List.not_mem_nil, or_false] at hj hk
  rcases hj with rfl | rfl | rfl | rfl <;> rcases hk with rfl | rfl | rfl | rfl <;> decide

theorem respects₁ : ∀ j ∈ l₁, ∀ k ∈ l₁, mustPrecede j k → Before l₁ j k := by
  intro j hj k hk
  simp only [l₁, List.mem_cons, List.not_mem_nil, or_false] at hj hk
  rcases hj with rfl | rfl | rfl | rfl <;> rcases hk with rfl | rfl | rfl | rfl <;> decide

theorem respects₂ : ∀ j ∈ l₂, ∀ k ∈ l₂, mustPrecede j k → Before l₂ j k := by
  intro j hj k hk
  simp only [l₂, List.mem_cons, List.not_mem_nil, or_false] at hj hk
  rcases hj with rfl | rfl | rfl | rfl <;> rcases hk with rfl | rfl | rfl | rfl <;> decide

/-- all hypotheses of `final_store_schedule_independent` hold for the two linearisations of the diamond … -/
example (s : Store Nat) : execAll l₁ s = execAll l₂ s :=
  final_store_schedule_independent mustPrecede l₁ l₂ all_wf perm (by decide) total respects₁ respects₂ s

/-- … and the common final store is the expected one: item 3 = (5 + 1) + (5 * 2). -/
example : (execAll l₁ (fun _ => none)) 3 = some 16 ∧ (execAll l₂ (fun _ => none)) 3 = some 16 := by decide

/-- `execAll_swap` on the middle of the diamond -/
example (s : Store Nat) : execAll ([src] ++ incr :: dbl :: [sum]) s = execAll ([src] ++ dbl :: incr :: [sum]) s :=
  execAll_swap wf_incr wf_dbl (by decide) [src] [sum] s

end Diamond

/-! ### The hypothesis is needed: two conflicting writers in different orders -/

namespace Race

def w₁ : Job Nat := { id := 0, reads := [], writes := [0], run := fun _ => [(0, 1)] }
def w₂ : Job Nat := { id := 1, reads := [], writes := [0], run := fun _ => [(0, 2)] }

theorem wf₁ : WF w₁ := ⟨fun _ _ _ => rfl, fun s p hp => by simp [w₁] at hp; simp [hp, w₁]⟩
theorem wf₂ : WF w₂ := ⟨fun _ _ _ => rfl, fun s p hp => by simp [w₂] at hp; simp [hp, w₂]⟩

/-- Without "conflicting pairs are ordered identically" the conclusion fails: `[w₁, w₂]` and `[w₂, w₁]` are
    permutations of the same well-formed jobs with distinct ids, the pair conflicts, it is ordered differently —
    and the final stores differ (last writer wins). -/
theorem conflict_order_needed :
    (∀ j ∈ [w₁, w₂], WF j) ∧ [w₁, w₂].Perm [w₂, w₁] ∧ (ids [w₁, w₂]).Nodup ∧ conflict w₁ w₂ = true ∧
    Before [w₁, w₂] w₁ w₂ ∧ ¬ Before [w₂, w₁] w₁ w₂ ∧
    execAll [w₁, w₂] (fun _ => none) ≠ execAll [w₂, w₁] (fun _ => none) := by
  refine ⟨?_, List.Perm.swap w₂ w₁ [], by decide, by decide, by decide, by decide, ?_⟩
  · intro j hj
    simp only [List.mem_cons, List.not_mem_nil, or_false] at hj
    rcases hj with rfl | rfl
    · exact wf₁
    · exact wf₂
  · intro h
    have : (some 2 : Option Nat) = some 1 := congrFun h 0
    exact absurd this (by decide)

end Race

end Fontc.C01

/-! ### (ii) more hash-ordered cores whose result is proved independent of the iteration order -/

namespace Fontc.C01

/-- Name-id allocation (`StaticMetadata::new`, fontir/src/ir/static_metadata.rs, as repaired by c4dd162 / ba69b97):
    the `names` HashMap may be iterated in any order. -/
theorem name_allocation_order_independent (x : Fontc.Names.Input) (order₁ order₂ : List Fontc.Names.NameKey)
    (h : order₁.Perm order₂) : Fontc.Names.alloc order₁ x = Fontc.Names.alloc order₂ x :=
  Fontc.C18.alloc_perm_invariant x order₁ order₂ h

end Fontc.C01
