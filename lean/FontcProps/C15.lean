/-
  C15 — Bad input ends in a reported error, never a crash, hang or bogus font.
  Property theorems only; helper lemmas live in FontcProofs/CompGraph{Basic,Inv,Gate,Walk,Spec}.lean,
  the model in FontcModel/CompGraph.lean.

  What a theorem can say about this property is its logical core: the component graph walks.
  * `depth_sorted_composite_glyphs` (fontdrasil/src/util.rs:18), the one walk that is written as rounds, always
    terminates, after at most (number of glyphs + 1) rounds (`depthSort_terminates`), what it places is a topological
    order with `depth` a rank function (`depthSort_sound`), and what it leaves over is exactly "the pruned graph is not
    acyclic" (`gate_sound`, `gate_complete`) — so it is a sound and complete cycle gate (the fix
    fixes/C15-component-cycle.patch turns the leftover into an error instead of a warning).
  * every recursive descent through components returns when a rank function exists (`walk_terminates_of_acyclic`,
    uniform bound `gate_makes_walks_total`) and NEVER returns from a glyph on a cycle, whatever the fuel
    (`cycle_makes_walk_diverge`) — the formal counterpart of defect F1: on the unchanged tree no gate exists, so
    `FullStatement` (all walks return on every pruned graph) is false (`fullStatement_false`, witness: two glyphs
    referring to each other), and true under the gate (`walks_total_partial`).
  * `main`: an `Err` anywhere (source, a job's error, a caught panic, nothing launchable, file I/O) gives exit code 1,
    a diagnostic and no font written; exit code 0 iff the font was written (`no_font_on_error`).
  Stack depth, wall time, memory, the three source parsers and the FEA parser are outside any model: they are
  monitored by the child-process streams `c15graph` / `c15mut` (lean/Driver/C15.lean).
-/
import FontcModel.CompGraph
import FontcProofs.CompGraphBasic
import FontcProofs.CompGraphInv
import FontcProofs.CompGraphGate
import FontcProofs.CompGraphWalk
import FontcProofs.CompGraphSpec

namespace Fontc.C15
open Fontc Fontc.CompGraph

variable {α : Type} [DecidableEq α]

/-- **Termination of the round loop.** Any fuel ≥ (number of glyphs + 1) is enough for the `while progress > 0` loop
    of `depth_sorted_composite_glyphs` to stop, and the result does not depend on the fuel: it is the `depthCore g`
    that `depthSort` and `rejectCycles` use. (Progress measure: every round but the last shrinks `indeterminate_depth`.) -/
theorem depthSort_terminates (g : Graph α) (fuel : Nat) (h : g.length + 1 ≤ fuel) :
    depthCoreFuel fuel g = some (depthCore g) :=
  loop_mono_le _ _ _ _ _ _ h (depthCoreFuel_eq g)

/-- **Soundness of the depth sort.** Every glyph reported as placed is a glyph of the graph, each of its components
    is placed too, with a strictly smaller depth, and stands earlier in the output (topological order); every glyph
    is either placed or left over, never both. -/
theorem depthSort_sound (nlt : α → α → Bool) (g : Graph α) (hnd : (names g).Nodup) :
    (∀ n d, (n, d) ∈ (depthSort nlt g).placed →
        n ∈ names g ∧ n ∉ (depthSort nlt g).leftover ∧
        ∀ c ∈ compsOf g n, ∃ dc, (c, dc) ∈ (depthSort nlt g).placed ∧ dc < d ∧
          ∃ pre post, (depthSort nlt g).placed = pre ++ (n, d) :: post ∧ (c, dc) ∈ pre) ∧
    (∀ n ∈ names g, n ∈ (depthSort nlt g).leftover ∨ ∃ d, (n, d) ∈ (depthSort nlt g).placed) := by
  have hI := depthCore_inv g hnd
  constructor
  · intro n d hn
    have hd := (mem_placed_iff nlt g hnd n d).mp hn
    refine ⟨hI.known n d hd, ?_, ?_⟩
    · intro hl
      obtain ⟨e, he, heq⟩ := (mem_leftover_iff nlt g n).mp hl
      have := hI.fresh e he
      rw [heq, hd] at this; cases this
    · intro c hc
      obtain ⟨dc, h1, h2⟩ := hI.rank n d hd c hc
      have hc' := (mem_placed_iff nlt g hnd c dc).mpr h1
      refine ⟨dc, hc', h2, ?_⟩
      have hs : (depthSort nlt g).placed.Pairwise fun a b => a.2 ≤ b.2 := by
        simp only [depthSort]; exact pairwise_sortByDepth nlt _
      exact before_of_sorted _ hs n c d dc hn hc' h2
  · intro n hn
    obtain ⟨e, he, heq⟩ := List.mem_map.mp hn
    rcases hI.cover e he with h | h
    · right
      obtain ⟨d, hd⟩ := Option.isSome_iff_exists.mp h
      exact ⟨d, (mem_placed_iff nlt g hnd n d).mpr (heq ▸ hd)⟩
    · left; exact (mem_leftover_iff nlt g n).mpr ⟨e, h, heq⟩

/-- **The gate is sound**: if the gate lets a graph through, the graph every later walk sees (dangling references
    pruned) is acyclic — there is a rank that strictly decreases along every component edge — and has no dangling
    reference. -/
theorem gate_sound (g : Graph α) (hnd : (names g).Nodup) (h : rejectCycles g = false) :
    Acyclic (prune g) ∧ NoDangling (prune g) := by
  refine ⟨?_, prune_noDangling g⟩
  apply acyclic_of_leftover_nil (prune g) (by rw [names_prune]; exact hnd)
  simpa [rejectCycles] using h

/-- **The gate is complete**: it rejects nothing but cycles. If the pruned graph is acyclic the gate lets it through;
    in particular (`gate_complete'`) an acyclic graph without dangling references passes. -/
theorem gate_complete (g : Graph α) (hnd : (names g).Nodup) (h : Acyclic (prune g)) : rejectCycles g = false := by
  have := leftover_nil_of_acyclic (prune g) (by rw [names_prune]; exact hnd) h (prune_noDangling g)
  simp [rejectCycles, this]

theorem gate_complete' (g : Graph α) (hnd : (names g).Nodup) (hac : Acyclic g) (hdg : NoDangling g) :
    rejectCycles g = false := by
  apply gate_complete g hnd
  rw [prune_eq_self g hnd hdg]; exact hac

/-- **Walks return on ranked graphs.** With a rank function (for instance the depths computed by the depth sort),
    the recursive descent from `n` returns with fuel `rank n + 1`, and more fuel does not change what it returns.
    Holds for every walk of this shape, in particular `flatten`, `resolveDepth`, `compositeLimits`. -/
theorem walk_terminates_of_acyclic {β : Type} (leaf : α → β) (node : α → List β → β) (g : Graph α)
    (rank : α → Nat) (hrank : ∀ n c, c ∈ compsOf g n → rank c < rank n) (n : α) :
    ∃ r, ∀ fuel, rank n < fuel → walk leaf node fuel g n = some r := by
  obtain ⟨r, hr⟩ := Option.isSome_iff_exists.mp (walk_isSome_of_rank leaf node g rank hrank (rank n + 1) n (Nat.lt_succ_self _))
  exact ⟨r, fun fuel hf => walk_mono_le leaf node g _ _ hf n r hr⟩

theorem flatten_terminates_of_acyclic (g : Graph α) (rank : α → Nat)
    (hrank : ∀ n c, c ∈ compsOf g n → rank c < rank n) (n : α) :
    ∃ r, ∀ fuel, rank n < fuel → flatten fuel g n = some r :=
  walk_terminates_of_acyclic _ _ g rank hrank n

theorem resolveDepth_terminates_of_acyclic (g : Graph α) (rank : α → Nat)
    (hrank : ∀ n c, c ∈ compsOf g n → rank c < rank n) (n : α) :
    ∃ r, ∀ fuel, rank n < fuel → resolveDepth fuel g n = some r :=
  walk_terminates_of_acyclic _ _ g rank hrank n

theorem compositeLimits_terminates_of_acyclic (own : α → Nat × Nat) (g : Graph α) (rank : α → Nat)
    (hrank : ∀ n c, c ∈ compsOf g n → rank c < rank n) (n : α) :
    ∃ r, ∀ fuel, rank n < fuel → compositeLimits own fuel g n = some r :=
  walk_terminates_of_acyclic _ _ g rank hrank n

/-- **The gate makes every later walk total**, with one recursion bound for the whole font. -/
theorem gate_makes_walks_total {β : Type} (leaf : α → β) (node : α → List β → β) (g : Graph α)
    (hnd : (names g).Nodup) (h : rejectCycles g = false) :
    ∃ B, ∀ n, (walk leaf node B (prune g) n).isSome :=
  acyclic_walk_bounded leaf node (prune g) (gate_sound g hnd h).1

/-- **A cycle makes every walk diverge**: two glyphs referring to each other (defect F1: `bar → plus → bar`).
    No amount of fuel lets a walk from either glyph return — in the implementation: unbounded recursion / an endless
    work list. Pruning does not help (both glyphs exist), and the gate rejects exactly this graph. -/
theorem cycle_makes_walk_diverge {β : Type} (leaf : α → β) (node : α → List β → β) (a b : α) (hab : a ≠ b) (fuel : Nat) :
    walk leaf node fuel (prune [(a, [b]), (b, [a])]) a = none ∧
    walk leaf node fuel (prune [(a, [b]), (b, [a])]) b = none ∧
    rejectCycles [(a, [b]), (b, [a])] = true := by
  have hba : b ≠ a := fun e => hab e.symm
  have hp : prune [(a, [b]), (b, [a])] = [(a, [b]), (b, [a])] := by
    simp [prune, names, List.filter]
  rw [hp]
  have hclosed : ∀ n, (n = a ∨ n = b) → ∃ c ∈ compsOf [(a, [b]), (b, [a])] n, (c = a ∨ c = b) := by
    intro n hn
    rcases hn with hn | hn
    · subst hn; exact ⟨b, by simp [compsOf], Or.inr rfl⟩
    · subst hn; exact ⟨a, by simp [compsOf, hab], Or.inl rfl⟩
  refine ⟨walk_none_of_closed leaf node _ _ hclosed fuel a (Or.inl rfl),
          walk_none_of_closed leaf node _ _ hclosed fuel b (Or.inr rfl), ?_⟩
  simp [rejectCycles, hp, depthCore, depthCoreFuel, simples, composites, List.filter, loop]

/-- the same for any closed set of glyphs (every member has a component in the set): self loops, long cycles,
    glyphs that merely lead into a cycle are NOT in such a set but their walk does not return either (`walkAll`) -/
theorem closed_set_makes_walk_diverge {β : Type} (leaf : α → β) (node : α → List β → β) (g : Graph α) (P : α → Prop)
    (hP : ∀ n, P n → ∃ c ∈ compsOf g n, P c) (fuel : Nat) (n : α) (hn : P n) :
    walk leaf node fuel g n = none :=
  walk_none_of_closed leaf node g P hP fuel n hn

/-- The statement one would like of the unchanged tree (no cycle check anywhere): whatever the source's component
    graph, once missing components are pruned every recursive walk returns. -/
def FullStatement : Prop :=
  ∀ (g : Graph Nat), (names g).Nodup → ∀ n, ∃ fuel, (resolveDepth fuel (prune g) n).isSome

/-- … it holds for the graphs the gate lets through … -/
theorem walks_total_partial (g : Graph Nat) (hnd : (names g).Nodup) (hgate : rejectCycles g = false) (n : Nat) :
    ∃ fuel, (resolveDepth fuel (prune g) n).isSome := by
  obtain ⟨B, hB⟩ := gate_makes_walks_total (fun _ => 0) (fun _ rs => 1 + rs.foldl max 0) g hnd hgate
  exact ⟨B, hB n⟩

/-- … and is false without the gate: witness glyph 0 ↔ glyph 1 (replayed on the real compiler by stream `c15graph`:
    stack overflow, SIGABRT). -/
theorem fullStatement_false : ¬ FullStatement := by
  intro h
  obtain ⟨fuel, hf⟩ := h [(0, [1]), (1, [0])] (by decide) 0
  have := (cycle_makes_walk_diverge (fun _ : Nat => 0) (fun _ rs => 1 + rs.foldl max 0) 0 1 (by decide) fuel).1
  unfold resolveDepth at hf
  rw [this] at hf; cases hf

/-- **No font on error.** The process exits with 0 or 1. Exit 1 ⇒ nothing was written and a diagnostic was printed;
    exit 0 ⇒ the source loaded, every job succeeded, nothing was stuck, and exactly the font was written.
    A job that panicked (caught by the workload, `Error::Panic`) or a stuck workload always gives exit 1. -/
theorem no_font_on_error (i : RunInput) :
    ((mainModel i).exitCode = 0 ∨ (mainModel i).exitCode = 1) ∧
    ((mainModel i).exitCode ≠ 0 → (mainModel i).written = none ∧ (mainModel i).diagnostic = true) ∧
    ((mainModel i).exitCode = 0 → (mainModel i).written = some i.font ∧ i.source = .ok () ∧
        (∀ j ∈ i.jobs, j = JobResult.ok) ∧ i.pending = 0 ∧ i.writable = true) ∧
    (∀ m, JobResult.panic m ∈ i.jobs → (mainModel i).exitCode = 1) ∧
    (0 < i.pending → (mainModel i).exitCode = 1) := by
  unfold mainModel run
  cases hs : i.source with
  | error m => simp
  | ok u =>
    cases hw : workload i.jobs i.pending with
    | error e => simp
    | ok u' =>
      obtain ⟨h1, h2⟩ := workload_ok i.jobs i.pending hw
      cases hwr : i.writable with
      | false => simp
      | true =>
        simp only [if_true, true_and, ne_eq, not_true_eq_false, false_implies, forall_const, true_or, and_true]
        refine ⟨⟨h2, h1⟩, ?_, ?_⟩
        · intro m hm
          obtain ⟨e, he⟩ := workload_panic i.jobs i.pending m hm
          rw [he] at hw; cases hw
        · intro hp; omega

/-! ### Non-vacuity: the hypotheses are satisfiable and the conclusions are not trivially true -/

/-- a concrete graph: `3 → 2 → {0, 1}`, a dangling reference in `2`, a 2-cycle `4 ↔ 5`, and `6` leading into the cycle -/
def exG : Graph Nat := [(0, []), (1, []), (2, [0, 1, 9]), (3, [2]), (4, [5]), (5, [4]), (6, [4, 0])]
def exAcyclic : Graph Nat := [(0, []), (1, []), (2, [0, 1, 9]), (3, [2, 0])]

example : (names exG).Nodup := by decide
example : depthCoreFuel (exG.length + 1) (prune exG) = some (depthCore (prune exG)) := depthSort_terminates _ _ (Nat.le_refl _)
-- placed with depths (sorted by depth, then name), and what is left over: the cycle and what leads into it
example : (depthSort (fun a b => decide (a < b)) (prune exG)).placed = [(0, 0), (1, 0), (2, 1), (3, 2)] := by decide
example : (depthSort (fun a b => decide (a < b)) (prune exG)).leftover = [4, 5, 6] := by decide
-- without pruning, the dangling reference keeps `2` and `3` indeterminate too ("cycles or bad refs")
example : (depthSort (fun a b => decide (a < b)) exG).leftover = [2, 3, 4, 5, 6] := by decide
example : rejectCycles exG = true := by decide
example : rejectCycles exAcyclic = false := by decide
example : Acyclic (prune exAcyclic) := (gate_sound exAcyclic (by decide) (by decide)).1
-- walks: return on the acyclic part, never from the cycle or from what leads into it
example : flatten 3 (prune exG) 3 = some [0, 1] := by decide
example : resolveDepth 3 (prune exG) 3 = some 2 := by decide
example : resolveDepth 2 (prune exG) 3 = none := by decide
example : compositeLimits (fun n => (n + 3, 1)) 3 (prune exG) 3 = some ⟨7, 2, 2⟩ := by decide
example : resolveDepth 50 (prune exG) 6 = none := by decide
-- the model of main
example : mainModel ⟨.ok (), [.ok, .panic "boom", .ok], 0, [1, 2], true⟩ = ⟨1, none, true⟩ := by decide
example : mainModel ⟨.ok (), [.ok, .ok], 0, [1, 2], true⟩ = ⟨0, some [1, 2], false⟩ := by decide
example : mainModel ⟨.ok (), [.ok], 2, [1, 2], true⟩ = ⟨1, none, true⟩ := by decide

end Fontc.C15
