/-
  C02 — Task-graph safety: every read is ordered after its producer in all schedules.
  Property theorems only; helper lemmas live in FontcProofs/Sched*.lean.

  Setting (FontcModel/Sched.lean).  A `State` mirrors `Workload` (workload.rs): `pending` = `jobs_pending`,
  `counters` = `count_pending`, `success`, `also`, `jobCount`, plus `inflight` = completion messages sent by
  workers and not yet handled.  Events: `insert` (bookkeeping), `launch` (guard = `can_run`), `finish` (the WORKER
  decrements counters, before sending), `deliver` (`handle_success`: `complete_one`, `mark_also_completed`, then the
  script's effects for that id: jobs added, read-access rewrites, BE-glyph skips).  `step … = none` = the scheduler
  would not do this, or the real code panics.  A `Script` is the source-dependent data: initial jobs and the effects
  of every delivery; it is *extracted from the running compiler* on every check (stream c02).

  `Reach sc s`     : `s` is reachable from the empty workload by any admitted events (inserts anywhere).
  `ReachInit sc s` : `s` is reachable from the state after `Workload::new` (all `sc.init` inserted) by
                     launch / finish / deliver events — i.e. along any interleaving the scheduler admits.
  History variables of `State` (`inserted`, `launched`, `finished`, `delivered`, `skipped`) are written by `step`
  and never read by it; they let the theorems speak about the past.

  All theorems quantify over every script, every state reachable by every trace: no bound on jobs or steps.
-/
import FontcModel.Sched
import FontcModel.SchedCheck
import FontcProofs.SchedBasic
import FontcProofs.SchedInv
import FontcProofs.SchedSafety
import FontcProofs.SchedScript
import FontcProofs.SchedCheckSound
import FontcProofs.SchedFresh
import FontcProofs.SchedProgress
import FontcProofs.SchedProgressStatic

namespace Fontc.C02
open Fontc Fontc.Sched

/-! ## 1. The counters -/

/-- **counter_inv.**  In every reachable state in which no id has been inserted twice, the counter of discriminant `d`
    equals the number of *slots* of discriminant `d` owned by jobs whose worker has not finished: one slot for the id of
    every pending real/nop job that is not in flight, and one for each of its also-completes ids
    (`State.slots`; placeholder entries and skipped jobs contribute nothing). -/
theorem counter_inv {sc : Script} {s : State} (r : Reach sc s) (fresh : s.inserted.Nodup) (d : String) :
    ctrGet s.counters d = s.slots.count d :=
  (r.wf fresh).counters d

/-- The same for every interleaving of a script whose ids are statically distinct (`freshIds`, decidable on the script). -/
theorem counter_inv_static {sc : Script} (hf : freshIds sc = true) {s : State} (r : ReachInit sc s) (d : String) :
    ctrGet s.counters d = s.slots.count d :=
  (r.reach.wf (fresh_sound hf r).1).counters d

/-- What a zero counter means for pending entries (placeholders included): the worker of the owning job has finished. -/
theorem counter_zero {sc : Script} {s : State} (r : Reach sc s) (fresh : s.inserted.Nodup) (d : String)
    (h0 : ctrGet s.counters d = 0) : ∀ e ∈ s.pending, e.id.disc = d → e.owner ∈ s.inflight := by
  have w := r.wf fresh
  -- use the `variant` lemma with a fictitious entry whose access is `{variant d}`
  have := variant_dep_ok (s := s) (e := { id := ⟨"", ""⟩, kind := .real, reads := .set [.variant d], writes := .none, running := false, owner := ⟨"", ""⟩ })
    (ds := [.variant d]) (d := d) w (by simp [State.canRun, State.depFulfilled, h0]) rfl (by simp)
  exact this

/-! ## 2. No panics in `complete_one`, no counter underflow -/

/-- **no_double_completion.**  Under the static well-formedness condition `freshIds`, in every interleaving, handling the
    completion message of a job that was launched and whose worker finished never hits "completed but isn't pending",
    "Multiple completions" or "Repeat signals" (the bookkeeping half of `handle_success` succeeds). -/
theorem no_double_completion {sc : Script} (hf : freshIds sc = true) {s : State} (r : ReachInit sc s) {id : Id}
    (hin : id ∈ s.inflight) : ∃ s', s.receive id = some s' :=
  receive_isSome (r.reach.wf (fresh_sound hf r).1) hin

/-- The worker's decrements never miss a counter or underflow: a running job can always finish. -/
theorem finish_admitted {sc : Script} (hf : freshIds sc = true) {s : State} (r : ReachInit sc s) {e : Entry}
    (he : e ∈ s.pending) (hrun : e.running = true) (hni : e.id ∉ s.inflight) : ∃ s', s.finish e.id = some s' :=
  finish_isSome (r.reach.wf (fresh_sound hf r).1) he hrun hni

/-- `freshIds` really is a static guarantee: in every interleaving no id is inserted twice. -/
theorem fresh_in_every_schedule {sc : Script} (hf : freshIds sc = true) {s : State} (r : ReachInit sc s) :
    s.inserted.Nodup :=
  (fresh_sound hf r).1

/-! ## 3. What `can_run` guarantees at a launch -/

/-- **specific_dep_safe.**  If `launch j` is admitted and `SpecificInstanceOfVariant(k)` is in `j`'s read access, then `k` is
    complete — some job `o` that completes `k` (`k = o` or `k` is an also-completes id of `o`) has been *delivered*, i.e. its
    `handle_success` effects have been applied, or was skipped — **or `k` was never inserted**: `!jobs_pending.contains_key`
    is also true for an id that will only be inserted later.  That second disjunct is the "late producer" hole. -/
theorem specific_dep_safe {sc : Script} {s s' : State} (r : Reach sc s) (fresh : s.inserted.Nodup) {j : Id}
    (hl : s.launch j = some s') :
    ∃ e ∈ s.pending, e.id = j ∧ ∀ ds, e.reads = .set ds → ∀ k, Dep.specific k ∈ ds →
      (∃ o, (o ∈ s.delivered ∨ o ∈ s.skipped) ∧ (k = o ∨ k ∈ s.alsoOf o)) ∨ k ∉ s.inserted := by
  obtain ⟨e, he, hid, _, _, hcan, _⟩ := launch_canRun hl
  refine ⟨e, he, hid, ?_⟩
  intro ds hr k hk
  rcases specific_dep_ok (r.wf fresh) hcan hr hk with h | h
  · exact Or.inl ((r.hist fresh).succ_char k h)
  · exact Or.inr h

/-- **variant_dep_safe.**  If `launch j` is admitted and `Variant(d)` is in `j`'s read access, then every id of discriminant
    `d` inserted SO FAR is complete or is pending with the worker of its owning job finished.  Nothing is said about ids of
    discriminant `d` inserted later: see `variant_dep_race` below. -/
theorem variant_dep_safe {sc : Script} {s s' : State} (r : Reach sc s) (fresh : s.inserted.Nodup) {j : Id}
    (hl : s.launch j = some s') :
    ∃ e ∈ s.pending, e.id = j ∧ ∀ ds, e.reads = .set ds → ∀ d, Dep.variant d ∈ ds →
      ∀ k ∈ s.inserted, k.disc = d → k ∈ s.success ∨ ∃ x ∈ s.pending, x.id = k ∧ x.owner ∈ s.finished := by
  obtain ⟨e, he, hid, _, _, hcan, _⟩ := launch_canRun hl
  refine ⟨e, he, hid, ?_⟩
  intro ds hr d hd k hk hkd
  have w := r.wf fresh
  rcases w.inserted_cases k hk with hp | hs
  · obtain ⟨x, hx, rfl⟩ := isPending_iff.1 hp
    exact Or.inr ⟨x, hx, rfl, (r.hist fresh).inflight_fin _ (variant_dep_ok w hcan hr hd x hx hkd)⟩
  · exact Or.inl hs

/-- A concrete script and admitted trace in which a job with a `Variant(d)` dependency is launched and an id of discriminant
    `d` is inserted (and would run) afterwards: the counter of `d` hits 0 when the worker of `P` finishes, the reader `R` is
    launched, and only then `handle_success(P)` spawns `K` of discriminant `d` (fontc issues 647 / 655 / 1436 in miniature). -/
def raceP : Id := ⟨"d", "p"⟩
def raceK : Id := ⟨"d", "k"⟩
def raceR : Id := ⟨"r", "r"⟩
def variantRaceScript : Script :=
  { init := [{ id := raceP, reads := .none, writes := .none, also := [], kind := .real },
             { id := raceR, reads := .set [.variant "d"], writes := .none, also := [], kind := .real }],
    onDeliver := [(raceP, [.add { id := raceK, reads := .none, writes := .none, also := [], kind := .real }])] }

def endState (sc : Script) (evs : List Event) : Option State := (initState sc).bind (run sc · evs)

theorem variant_dep_race :
    ∃ s, endState variantRaceScript [.launch raceP, .finish raceP, .launch raceR, .deliver raceP] = some s ∧
      (raceR, Access.set [.variant "d"]) ∈ s.launched ∧ s.isPending raceK = true ∧ raceK ∉ s.finished := by
  refine ⟨_, rfl, ?_⟩
  decide

/-! ## 4. The verified static checker -/

/-- Soundness of `checkTable` (the engine behind `checkScript` and the must-precede relation): every fact of a locally
    justified table is true in every interleaving: whenever `f.job` has been launched under access `f.acc`,
    `f.ev` (a delivery, or the end of a job) had already happened. -/
theorem mustPrecede_sound {sc : Script} {t : Table} (hc : checkTable sc t = true) (hf : freshIds sc = true)
    {s : State} (r : ReachInit sc s) {f : Fact} (hmem : f ∈ t) (hl : (f.job, f.acc) ∈ s.launched) :
    happened s f.ev :=
  checkTable_sound hc r (fresh_sound hf r).1 f hmem hl

/-- **No late producer.**  If the checker accepts the script then in every interleaving: when a job has been launched under
    access `a`, every delivery that spawns a job producing an id `a` can read has already been handled — the producer is
    already inserted. -/
theorem no_late_producer {sc : Script} {t : Table} (hc : checkScriptWith sc t = true) (hf : freshIds sc = true)
    {s : State} (r : ReachInit sc s) {j : Id} {a : Access} (hl : (j, a) ∈ s.launched)
    {q : Id} {k : Job} (hk : Effect.add k ∈ sc.effects q) {w : Id} (hw : w ∈ k.ids) (hcheck : a.check w = true) :
    q ∈ s.delivered := by
  simp only [checkScriptWith, Bool.and_eq_true, List.all_eq_true, List.contains_iff_mem] at hc
  have fresh := (fresh_sound hf r).1
  have hs := r.scr fresh
  have hneed : (⟨.del q, j, a⟩ : Fact) ∈ sc.needs := by
    simp only [Script.needs, List.mem_flatMap, List.mem_map, List.mem_filter]
    refine ⟨(q, k), add_mem_spawns hk, ?_⟩
    have hjob : ∃ job ∈ sc.jobs, job.id = j := by
      rcases hs.launched_job _ hl with h | ⟨q', _, hq'⟩
      · simp only [List.any_eq_true, decide_eq_true_eq] at h
        obtain ⟨job, hjob, hid⟩ := h
        exact ⟨job, init_mem_jobs hjob, hid⟩
      · simp only [Script.creators, List.mem_map, List.mem_filter] at hq'
        obtain ⟨⟨q0, k0⟩, ⟨hp, hpid⟩, _⟩ := hq'
        exact ⟨k0, spawns_mem_jobs hp, by simpa using hpid⟩
    obtain ⟨job, hjob, rfl⟩ := hjob
    refine ⟨job, hjob, a, ⟨(hs.launched_acc _ hl).version, ?_⟩, rfl⟩
    simp only [List.any_eq_true]
    exact ⟨w, hw, hcheck⟩
  exact checkTable_sound hc.1 r fresh _ (hc.2 _ hneed) hl

/-- the job that produces `w` is over: `w` is complete, or it is pending and the worker of its owning job has finished -/
def ProducerDone (s : State) (w : Id) : Prop :=
  w ∈ s.success ∨ ∃ x ∈ s.pending, x.id = w ∧ x.owner ∈ s.finished

/-- **Every read is after its producer.**  If `checkScript` accepts the script (and its ids are distinct), then for every
    interleaving and every admitted `launch j`: every id `w ≠ j` that `j`'s read access allows it to read and that is
    inserted in ANY reachable state of the script (earlier, later, or on another branch) (i) is already inserted now, and
    (ii) its producer is done: completed, or its worker has finished. -/
theorem every_read_after_producer {sc : Script} (hc : checkScript sc = true) (hf : freshIds sc = true)
    {s s' : State} (r : ReachInit sc s) {j : Id} (hl : s.launch j = some s') :
    ∃ e ∈ s.pending, e.id = j ∧ (j, e.reads) ∈ s'.launched ∧
      ∀ w, e.reads.check w = true → w ≠ j →
        (∀ s'', ReachInit sc s'' → w ∈ s''.inserted → w ∈ s.inserted) ∧ (w ∈ s.inserted → ProducerDone s w) := by
  have hcw : checkScriptWith sc (checkScriptFull sc).table = true := by
    simpa [checkScript, checkScriptFull] using hc
  obtain ⟨e, he, hid, hkind, hrun, hcan, hlaunched⟩ := launch_canRun hl
  have fresh := (fresh_sound hf r).1
  have w0 := r.reach.wf fresh
  have hh := r.reach.hist fresh
  have hmem' : (j, e.reads) ∈ s'.launched := by rw [hlaunched]; simp
  refine ⟨e, he, hid, hmem', ?_⟩
  intro w hcheck hne
  have r' : ReachInit sc s' := ReachInit.launch j r hl
  constructor
  · intro s'' r'' hw
    have fresh'' := (fresh_sound hf r'').1
    rcases (r''.scr fresh'').ins_origin w hw with h | ⟨q, _, hq⟩
    · exact r.init_inserted w h
    · -- `w` is inserted by `Deliver(q)`: that delivery precedes the launch
      simp only [Script.addedIds, List.mem_flatMap] at hq
      obtain ⟨eff, heff, hweff⟩ := hq
      cases eff with
      | add k =>
        have hq' : q ∈ s'.delivered := no_late_producer hcw hf r' hmem' heff hweff hcheck
        have : s'.delivered = s.delivered := by
          obtain ⟨_, _, _, _, rfl⟩ := launch_spec hl; rfl
        rw [this] at hq'
        exact r.added_inserted q hq' w (by
          simp only [Script.addedIds, List.mem_flatMap]; exact ⟨.add k, heff, hweff⟩)
      | rewrite _ _ _ => simp at hweff
      | skip _ => simp at hweff
      | guard _ _ => simp at hweff
  · intro hw
    cases hr : e.reads with
    | none => simp [hr, Access.check] at hcheck
    | unknown => simp [hr, Access.check] at hcheck
    | all =>
      rcases all_dep_ok w0 hcan hr w hw with h | h
      · exact absurd (h.trans hid) hne
      · exact Or.inl h
    | set ds =>
      simp only [hr, Access.check, List.any_eq_true] at hcheck
      obtain ⟨d, hd, hdw⟩ := hcheck
      cases d with
      | specific k =>
        simp only [Dep.check, decide_eq_true_eq] at hdw
        subst hdw
        rcases specific_dep_ok w0 hcan hr hd with h | h
        · exact Or.inl h
        · exact absurd hw h
      | variant dd =>
        simp only [Dep.check, decide_eq_true_eq] at hdw
        rcases w0.inserted_cases w hw with hp | hs
        · obtain ⟨x, hx, rfl⟩ := isPending_iff.1 hp
          exact Or.inr ⟨x, hx, rfl, hh.inflight_fin _ (variant_dep_ok w0 hcan hr hd x hx hdw.symm)⟩
        · exact Or.inl hs

/-! ## 5. The defect found by this check (finding F9) and why the repaired scheduler is safe

  `update_be_glyph_work`, called from `handle_success(Glyph X)` on the main thread, re-reads IR glyph `X` from the context
  to decide the dependencies of the BE job `GlyfFragment(X)`.  `GlyphOrder` (which rewrites glyphs) is launchable as soon as
  the IrGlyph *counter* is 0, i.e. before those completion messages are handled.  If the main thread sees the glyph
  already rewritten to a component-less one it installs an access without `GlyphOrder`, and the BE job is launched while
  `GlyphOrder` is still running.  In miniature: -/

def fG : Id := ⟨"IrGlyph", "x"⟩
def fGO : Id := ⟨"IrGlyphOrder", "go"⟩
def fBE : Id := ⟨"BeGlyf", "x"⟩
def fJobs : List Job :=
  [{ id := fG, reads := .none, writes := .none, also := [], kind := .real },
   { id := fGO, reads := .set [.variant "IrGlyph"], writes := .none, also := [], kind := .real },
   { id := fBE, reads := .unknown, writes := .none, also := [], kind := .real }]

/-- the script of a run of the UNFIXED scheduler in which `handle_success(Glyph x)` saw the rewritten glyph -/
def racyScript : Script := { init := fJobs, onDeliver := [(fG, [.rewrite fBE (.set []) false])] }

/-- the script of the REPAIRED scheduler in the same situation: the refinement is deferred to `handle_success(GlyphOrder)` -/
def fixedScript : Script :=
  { init := fJobs, onDeliver := [(fG, [.guard fGO .running]), (fGO, [.rewrite fBE (.set []) false])] }

/-- the claim "the BE job is launched only after GlyphOrder is over" -/
def beAfterGlyphOrder : Fact := ⟨.fin fGO, fBE, .set []⟩

/-- In the racy script the claim is FALSE: an admitted interleaving launches the BE glyph job while GlyphOrder is running. -/
theorem racy_script_unsafe :
    ∃ s, endState racyScript [.launch fG, .finish fG, .launch fGO, .deliver fG, .launch fBE] = some s ∧
      (beAfterGlyphOrder.job, beAfterGlyphOrder.acc) ∈ s.launched ∧ fGO ∉ s.finished ∧ fGO ∉ s.skipped := by
  refine ⟨_, rfl, ?_⟩
  decide

/-- … and accordingly no table containing the claim is justified for the racy script (here: the singleton table). -/
theorem racy_script_rejected : checkTable racyScript [beAfterGlyphOrder] = false := by decide

/-- In the repaired script the claim is justified, hence TRUE in every interleaving. -/
theorem fixed_script_safe {s : State} (r : ReachInit fixedScript s)
    (hl : (fBE, Access.set []) ∈ s.launched) : fGO ∈ s.finished ∨ fGO ∈ s.skipped :=
  mustPrecede_sound (t := [beAfterGlyphOrder]) (f := beAfterGlyphOrder) (by decide) (by decide) r (by simp) hl

/-! ## 6. Progress: `Error::UnableToProceed` never happens for scripts the progress checker accepts

  `checkProgress sc cert` (decidable; the certificate = a rank per job and a resolver per job that starts `Unknown` is found
  by an unverified search and only checked) verifies: `onDeliver` keys distinct; no rewrite installs `Unknown`; every job
  added with `Unknown` is resolved later in the same `handle_success` and by no other; also-completes ids are not job ids;
  the creator of a spawned job is a never-skipped job of lower rank; in every access version every dependency
  (`Specific`: the owners of the id; `Variant(d)`: the owners of every id of discriminant `d`; `All`: every other job) has lower
  rank; every job that starts `Unknown` has a never-skipped resolver of lower rank. -/

/-- **no_unable_to_proceed.**  For every script accepted by `checkProgress` (any certificate) with distinct ids, and every
    interleaving: the scheduler's give-up condition (not done, nothing launchable, nothing running) is never true. -/
theorem no_unable_to_proceed {sc : Script} {cert : ProgCert} (hc : checkProgress sc cert = true) (hf : freshIds sc = true)
    {s : State} (r : ReachInit sc s) : s.unableToProceed = false :=
  no_unable_to_proceed_aux hc hf r

/-- non-vacuity: the miniature repaired script is accepted -/
example : checkProgress fixedScript { rk := [(fG, 0), (fGO, 1), (fBE, 2)], res := [(fBE, fGO)] } = true := by decide

/-- For ANY script with distinct ids (accepted or not): `job_count = |success| + |pending|`, and a stuck scheduler always has a
    pending job, each of which has an unresolved `Unknown` access or waits (`WaitsFor`) for a pending job — a deadlock is always a
    dependency cycle among pending jobs or an `Unknown` that nobody resolved, never a lost completion or a counter that fails to
    reach zero. -/
theorem unable_to_proceed_cases {sc : Script} (hf : freshIds sc = true) {s : State} (r : ReachInit sc s)
    (hstuck : s.unableToProceed = true) :
    (∃ e ∈ s.pending, e.kind ≠ .alsoComplete) ∧
    ∀ e ∈ s.pending, e.kind ≠ .alsoComplete →
      e.reads = .unknown ∨ ∃ p ∈ s.pending, p.kind ≠ .alsoComplete ∧ WaitsFor s e p :=
  Sched.unable_to_proceed_cases r.reach (fresh_sound hf r).1 hstuck

/-- `job_count` bookkeeping is exact in every interleaving. -/
theorem job_count_exact {sc : Script} (hf : freshIds sc = true) {s : State} (r : ReachInit sc s) :
    s.jobCount = s.success.length + s.pending.length :=
  r.reach.ci (fresh_sound hf r).1

/-! ## non-vacuity -/

/-- the hypotheses of `every_read_after_producer` are satisfiable and its conclusion is about a real launch -/
example : checkScript fixedScript = true ∧ freshIds fixedScript = true ∧
    ∃ s s', endState fixedScript [.launch fG, .finish fG, .launch fGO, .finish fGO, .deliver fGO] = some s ∧
      s.launch fBE = some s' := by
  refine ⟨by decide, by decide, _, _, rfl, rfl⟩

end Fontc.C02
