/-
  C11 — Compiled GSUB/GPOS behave as the feature file says.

  Model: `FontcModel/FeaCompile.lean`.
    `interp p script lang feats alt s`   the feature-file semantics of program `p` (lookups in
                                         declaration order, first matching rule per position, …)
    `compile p`                          the tables fea-rs builds (`Cmp.*` mirrors compile_ctx.rs,
                                         lookups.rs, contextual.rs, features.rs and the write-fonts
                                         builders)
    `shape t script lang feats alt s`    OpenType application of the tables `t`
  Full statement: `FullStatement` below.  It was FALSE of fea-rs as found: the anonymous lookups of
  contextual rules were shared between rules in ways that change what a rule does (three defects,
  `not_FullStatement` about `compileOld`, found by stream `c11x` on the real compiler and repaired by
  three `fix:` commits; `compile` is the repaired compiler).  What is proved:
    * `compile_correct`: for every program of a decidable fragment (`Fragment.ok`: language systems,
      named lookup blocks, lookup references, `script` / `language` statements with `exclude_dflt`,
      lookup flags, all substitution types incl. contextual rules with in-line single / multiple
      replacements, single positioning), every feature set and EVERY glyph string,
      `shape (compile p) = interp p`;
    * per lookup type, the subtables fea-rs builds act at every position of every string like the
      first matching source rule (`compile_correct_lookup_*`), lookup flags included
      (`lookup_flags_correct`);
    * the glue from lookups to whole strings (`shape_eq_interp_of_correspondence`).
  Helper lemmas: FontcProofs/Fea*.lean.
-/
import FontcModel.FeaCompile
import FontcProofs.FeaMap
import FontcProofs.FeaSubst
import FontcProofs.FeaFlags
import FontcProofs.FeaGlue
import FontcProofs.FeaCorrectFlat
import FontcProofs.FeaChainCorrect
import FontcProofs.FeaFragment

namespace Fontc.C11
open Fontc.FeaCompile

/-- The property at full strength: for every program of the modelled language (`Wf.okUpToAnon`: no
    violation of the modelled subset other than, possibly, the three sharing patterns of inline
    contextual rules that fea-rs compiles wrongly), every declared language system, every feature set
    and *every* glyph string. -/
def FullStatementOf (comp : Program → OT.Tables) : Prop :=
  ∀ (p : Program) (script lang : Tag) (feats : List Tag) (alt : Nat) (s : List Glyph),
    Wf.okUpToAnon p = true →
    (script, lang) ∈ Src.langsysOf p.tops →
    shape (comp p) script lang feats alt s = interp p script lang feats alt s

/-- the full statement for fea-rs as it is (not proved at this strength: `compile_correct` proves it for
    the fragment `Fragment.ok`; refuted for the code before the three repairs, `not_FullStatement`) -/
def FullStatement : Prop := FullStatementOf compile

/-- **Lookup flags.**  `cf` is the compiled form of the source flag `f` (`FlagCode`: bits, mark
    attachment class id and mark filtering set id resolved through the id tables `aIds`, `fIds` that
    also give the GDEF tables).  Then the same glyphs are skipped.  Needs distinct GDEF entries and
    pairwise disjoint mark attachment classes. -/
theorem lookup_flags_correct (gdefSrc : List (Glyph × Nat)) (aIds fIds : List (List Glyph)) (cf : Cmp.CFlag) (f : Flag)
    (hg : (gdefSrc.map (·.1)).Nodup) (ha : (aIds.flatMap id).Nodup) (hc : FlagCode aIds fIds cf f) (g : Glyph) :
    OT.ignored (gdefOf gdefSrc aIds fIds) cf.1 cf.2 g = Src.ignored gdefSrc f g :=
  ignored_correct gdefSrc aIds fIds cf f hg ha hc g

example : FlagCode [[13, 14]] [[14]] (8 + 256 + 16, some 0) { im := true, attach := some [14, 13], filter := some [14] } :=
  ⟨1, 1, by decide, ⟨0, rfl, by decide⟩, rfl, 0, rfl, by decide⟩

/-- **Single substitution lookups** (`sub a by b; sub [a b] by [c d]; sub [a b] by c;`): the
    `SingleSubst` subtable built from the rules `rs`, applied at any position of any string,
    substitutes like the first matching rule — provided no glyph is targeted twice. -/
theorem compile_correct_lookup_single (fx : Cmp.Fixes) (root : Nat) (named : String → Cmp.LookupId) (rs : List Rule)
    (hk : ∀ r ∈ rs, r.kind = .single) (hnd : (rs.flatMap Wf.targets).Nodup)
    (ign : Glyph → Bool) (alt : Nat) (rev : List Glyph) (g : Glyph) (suf : List Glyph) :
    (Cmp.buildSubtables (rs.foldl (Cmp.Builder.add fx root named) (.single []))).findSome?
        (fun st => OT.simpleSubtableStep ign alt st rev g suf)
      = Src.substStep rs rev g suf :=
  single_lookup_correct fx root named rs hk hnd ign alt rev g suf

example : (∀ r ∈ [Rule.single (.g 1) (.g 2), .single (.c [3, 4]) (.c [5, 6])], r.kind = .single)
    ∧ (([Rule.single (.g 1) (.g 2), .single (.c [3, 4]) (.c [5, 6])]).flatMap Wf.targets).Nodup := by decide

/-- **Multiple substitution lookups**, single substitution rules in them promoted
    (`lookup L { sub a by b; sub c by d e; } L;`, `sub a by NULL;`). -/
theorem compile_correct_lookup_multiple (fx : Cmp.Fixes) (root : Nat) (named : String → Cmp.LookupId) (rs : List Rule)
    (hk : ∀ r ∈ rs, r.kind = .single ∨ r.kind = .multiple) (hnd : (rs.flatMap Wf.targets).Nodup)
    (ign : Glyph → Bool) (alt : Nat) (rev : List Glyph) (g : Glyph) (suf : List Glyph) :
    (Cmp.buildSubtables (rs.foldl (Cmp.Builder.add fx root named) (.multiple []))).findSome?
        (fun st => OT.simpleSubtableStep ign alt st rev g suf)
      = Src.substStep rs rev g suf :=
  multiple_lookup_correct fx root named rs hk hnd ign alt rev g suf

example : (∀ r ∈ [Rule.single (.g 1) (.g 2), .multiple 3 [5, 6], .multiple 4 []], r.kind = .single ∨ r.kind = .multiple)
    ∧ (([Rule.single (.g 1) (.g 2), .multiple 3 [5, 6], .multiple 4 []]).flatMap Wf.targets).Nodup := by decide

/-- **Alternate substitution lookups**: for every selector `alt` the same alternate. -/
theorem compile_correct_lookup_alternate (fx : Cmp.Fixes) (root : Nat) (named : String → Cmp.LookupId) (rs : List Rule)
    (hk : ∀ r ∈ rs, r.kind = .alternate) (hnd : (rs.flatMap Wf.targets).Nodup)
    (ign : Glyph → Bool) (alt : Nat) (rev : List Glyph) (g : Glyph) (suf : List Glyph) :
    (Cmp.buildSubtables (rs.foldl (Cmp.Builder.add fx root named) (.alternate []))).findSome?
        (fun st => OT.simpleSubtableStep ign alt st rev g suf)
      = Src.altStep alt rs rev g suf :=
  alternate_lookup_correct fx root named rs hk hnd ign alt rev g suf

example : (∀ r ∈ [Rule.alternate 1 [2, 3], .alternate 4 [5]], r.kind = .alternate)
    ∧ (([Rule.alternate 1 [2, 3], .alternate 4 [5]]).flatMap Wf.targets).Nodup := by decide

/-- **Ligature substitution lookups** (`sub a [b c] by d;`, class components enumerated): tried at
    any position under any ignore set, the `LigatureSubst` subtable (ligature sets sorted longest
    first) does what the longest matching rule says — provided no component sequence is given
    twice and every rule has components. -/
theorem compile_correct_lookup_ligature (fx : Cmp.Fixes) (root : Nat) (named : String → Cmp.LookupId) (rs : List Rule)
    (hk : ∀ r ∈ rs, r.kind = .ligature) (hnd : (rs.flatMap Wf.ligSeqs).Nodup)
    (hne : ∀ r ∈ rs, ∀ ts x, r = Rule.ligature ts x → ts ≠ [])
    (ign : Glyph → Bool) (alt : Nat) (rev : List Glyph) (g : Glyph) (suf : List Glyph) :
    (Cmp.buildSubtables (rs.foldl (Cmp.Builder.add fx root named) (.ligature []))).findSome?
        (fun st => OT.simpleSubtableStep ign alt st rev g suf)
      = Src.ligStep ign rs rev g suf :=
  lig_lookup_correct fx root named rs hk hnd hne ign alt rev g suf

example : (∀ r ∈ [Rule.ligature [.g 1, .c [3, 4]] 11, .ligature [.g 1, .g 3, .g 5] 12], r.kind = .ligature)
    ∧ (([Rule.ligature [.g 1, .c [3, 4]] 11, .ligature [.g 1, .g 3, .g 5] 12]).flatMap Wf.ligSeqs).Nodup := by decide

/-- **Contextual substitution lookups** (`sub x a' y by b;`, `sub x a' by b c;`, rules without
    replacement, `ignore sub …`; no inline ligatures and no explicit lookup references yet): the
    compiled lookup — one format 3 subtable per rule after `try_merge`, the inline replacements pooled
    in the anonymous lookups `anonOf fx [] rs` that sit right after it (`hplaced`) — does at every
    position what the first matching source rule says: the inline replacement at the marked glyph,
    nothing for `ignore`.  `SingleOk`: the pairs of one inline substitution are consistent, and a
    class → glyph inline substitution agrees with every earlier inline substitution of the lookup on
    shared glyphs (fea-rs checks only its first glyph — defect F-C11-1). -/
theorem compile_correct_lookup_chain (fx : Cmp.Fixes) (root : Nat) (named : String → Cmp.LookupId)
    (gdefSrc : List (Glyph × Nat)) (gdef : OT.Gdef) (cf : Cmp.CFlag) (f : Flag) (alt : Nat) (env : String → Option Src.Lookup)
    (lookups : List OT.Lookup) (d : Nat) (rs : List Rule) (hne : rs ≠ []) (hk : ∀ r ∈ rs, r.kind = .chain)
    (hshape : ∀ r ∈ rs, inlineShapeOk r) (hok : SingleOk rs [])
    (hign : ∀ y, OT.ignored gdef cf.1 cf.2 y = Src.ignored gdefSrc f y)
    (hplaced : ∀ j a, (anonOf fx [] rs)[j]? = some a → lookups[root + j + 1]? = some (Cmp.buildAnonLookup cf a))
    (name : Option String) (rev : List Glyph) (g : Glyph) (suf : List Glyph) :
    OT.lookupStep gdef alt lookups (d + 1)
        (Cmp.buildLookup cf (rs.foldl (Cmp.Builder.add fx root named) (Cmp.Builder.new .chain))) rev g suf
      = Src.lookupStep gdefSrc alt env ⟨name, f, rs⟩ rev g suf :=
  chain_lookup_correct fx root named gdefSrc gdef cf f alt env lookups d rs hne hk hshape hok hign hplaced name rev g suf

/-- **Single positioning lookups.** -/
theorem compile_correct_lookup_spos (fx : Cmp.Fixes) (root : Nat) (named : String → Cmp.LookupId) (rs : List Rule)
    (hk : ∀ r ∈ rs, r.kind = .spos) (hnd : (rs.flatMap Wf.targets).Nodup)
    (ign : Glyph → Bool) (rev : List PGlyph) (x : PGlyph) (suf : List PGlyph) :
    (Cmp.buildSubtables (rs.foldl (Cmp.Builder.add fx root named) (.spos []))).findSome?
        (fun st => OT.posSubtableStep ign st rev x suf)
      = Src.sposStep rs rev x suf :=
  spos_lookup_correct fx root named rs hk hnd ign rev x suf

example : (∀ r ∈ [Rule.spos (.c [1, 2]) ⟨0, 0, 10, 0⟩, .spos (.g 3) ⟨1, 2, 3, 4⟩], r.kind = .spos)
    ∧ (([Rule.spos (.c [1, 2]) ⟨0, 0, 10, 0⟩, .spos (.g 3) ⟨1, 2, 3, 4⟩]).flatMap Wf.targets).Nodup := by decide

/-- The left-to-right pass of the OpenType side is the pass of the source side. -/
theorem pass_agrees (ign : Glyph → Bool) (st : Step) (rev suf : List Glyph) :
    OT.pass ign st rev suf = Src.pass ign st rev suf := OT.pass_eq_src ign st rev suf

/-- **From lookups to strings** (induction over the lookups; every lookup is a pass over all
    positions of the string, whatever its length): if the substitution / positioning lookups of the
    source that are active for the request correspond, in order, to the active lookup indices of the
    tables, and corresponding lookups do the same to every string, then `shape` and `interp` agree on
    every string. -/
theorem shape_eq_interp_of_correspondence (p : Program) (t : OT.Tables) (script lang : Tag) (feats : List Tag) (alt : Nat)
    (gs ps : List (Src.Entry × Nat))
    (hgs : gs.map (·.1) = ((Src.entries p).filter (·.active script lang feats)).filter (!·.lookup.isPos))
    (hps : ps.map (·.1) = ((Src.entries p).filter (·.active script lang feats)).filter (·.lookup.isPos))
    (hga : OT.activeLookups t.gsub script lang feats = gs.map (·.2))
    (hpa : OT.activeLookups t.gpos script lang feats = ps.map (·.2))
    (hg : ∀ x ∈ gs, ∃ l, t.gsub.lookups[x.2]? = some l ∧
      ∀ s, OT.applyGsub t alt l s = Src.applyGsub p.gdef alt (Src.envOf (Src.entries p)) x.1.lookup s)
    (hp : ∀ x ∈ ps, ∃ l, t.gpos.lookups[x.2]? = some l ∧
      ∀ s, OT.applyGpos t l s = Src.applyGpos p.gdef x.1.lookup s)
    (s : List Glyph) :
    shape t script lang feats alt s = interp p script lang feats alt s :=
  shape_eq_interp_of p t script lang feats alt gs ps hgs hps hga hpa hg hp s

/-- **`compile_correct`, fragment `flat`** — the whole pipeline, every string.

    Programs: `languagesystem` statements (`lsTops ls`) followed by feature blocks (`featTops fs`)
    whose statements are `lookupflag` and rule statements (`FlatBody`); every lookup of the program —
    a run of rules of one type under one flag, `Src.entries p` — is a single, multiple or alternate
    substitution or a single positioning lookup in which no glyph is targeted twice, or a ligature
    substitution lookup in which no component sequence is given twice, or a contextual lookup whose
    rules carry inline single / multiple replacements or none (`ignore`), class → glyph inline
    replacements agreeing with earlier ones on shared glyphs (`runOkB`, decidable); no
    single rule stands next to a multiple rule within a run (`NoMixFrom`, fea-rs would merge them);
    `lookupflag` classes are sorted sets, mark attachment classes come from a family `U` of
    pairwise disjoint classes (`FlagsOk`, `hU1`, `hU2`); GDEF entries are distinct.
    Covers: grouping of rules into lookups (new lookup on type or flag change), lookup flags with
    their GDEF tables, lookup ids in both tables, registration of every lookup under every
    declared language system, the feature / script / LangSys records and the OpenType selection
    back from them, and the application of every lookup at every position of `str`.
    `fx = Cmp.Fixes.all` is fea-rs as it is (`compile p = compileWith Cmp.Fixes.all p`), `{}` the code
    before the repairs. -/
theorem compile_correct_flat (fx : Cmp.Fixes) (p : Program) (ls : List (Tag × Tag)) (fs : List (Tag × List Stmt))
    (U : List (List Glyph))
    (htops : p.tops = lsTops ls ++ featTops fs)
    (hbodies : ∀ x ∈ fs, FlatBody x.2 ∧ FlagsOk U x.2 ∧ NoMixFrom {} x.2)
    (hents : ∀ e ∈ Src.entries p, runOkB e.lookup.rules = true)
    (hgdef : (p.gdef.map (·.1)).Nodup)
    (hU1 : ∀ c ∈ U, c.Nodup) (hU2 : ∀ c ∈ U, ∀ c' ∈ U, c ≠ c' → ∀ g ∈ c, g ∉ c')
    (script lang : Tag) (hreg : (script, lang) ∈ Src.langsysOf p.tops)
    (feats : List Tag) (alt : Nat) (str : List Glyph) :
    shape (compileWith fx p) script lang feats alt str = interp p script lang feats alt str :=
  Fontc.FeaCompile.compile_correct_flat fx p ls fs U htops hbodies
    (fun e he => runOk_of_runOkB _ (hents e he)) hgdef hU1 hU2 script lang hreg feats alt str

/-! non-vacuity: a program with two language systems, GDEF classes, a `liga` feature with three
    lookups (single and ligature under IgnoreMarks + MarkAttachmentType, multiple, alternate), a `calt`
    feature with a contextual lookup (inline single and multiple replacements, `ignore`) and a `kern`
    feature -/

def exLs : List (Tag × Tag) := [("DFLT", "dflt"), ("latn", "dflt")]
def exFs : List (Tag × List Stmt) :=
  [("liga", [.flag { im := true, attach := some [13] }, .rule (.single (.g 1) (.g 2)), .rule (.single (.c [3, 4]) (.g 5)),
             .flag { il := true }, .rule (.ligature [.g 1, .c [3, 4]] 11), .rule (.ligature [.g 1, .g 3, .g 5] 12),
             .flag {}, .rule (.multiple 6 [7, 8]), .rule (.alternate 2 [9, 10])]),
   ("calt", [.rule (.chain [] [(.g 4, [])] [.g 3] (.single (.g 5))), .rule (.chain [.g 3] [(.c [1, 6], [])] [] (.single (.g 7))),
             .rule (.ignore [([], [.g 2], [.g 2])]), .rule (.chain [] [(.g 8, [])] [] (.multi [9, 10]))]),
   ("kern", [.rule (.spos (.c [1, 2]) ⟨0, 0, 10, 0⟩)])]
def exProg : Program := { gdef := [(1, 1), (2, 1), (13, 3), (14, 3)], tops := lsTops exLs ++ featTops exFs }

theorem exProg_bodies : ∀ x ∈ exFs, FlatBody x.2 ∧ FlagsOk [[13]] x.2 ∧ NoMixFrom {} x.2 := by
  intro x hx
  simp only [exFs, List.mem_cons, List.not_mem_nil, or_false] at hx
  rcases hx with rfl | rfl | rfl
  · refine ⟨?_, ?_, ?_⟩
    · intro st hst; simp at hst; rcases hst with rfl | rfl | rfl | rfl | rfl | rfl | rfl | rfl | rfl <;> simp
    · intro f hf
      simp at hf
      rcases hf with rfl | rfl | rfl
      · exact ⟨⟨by intro c h; cases h; decide, by simp⟩, by intro c h; cases h; decide⟩
      · exact ⟨⟨by simp, by simp⟩, by simp⟩
      · exact ⟨⟨by simp, by simp⟩, by simp⟩
    · simp [NoMixFrom, Src.walkStmt, Src.Walk.flush, headKind, Wf.mixes, Rule.kind]
  · refine ⟨?_, ?_, ?_⟩
    · intro st hst; simp at hst; rcases hst with rfl | rfl | rfl | rfl <;> simp
    · intro f hf; simp at hf
    · simp [NoMixFrom, Src.walkStmt, Src.Walk.flush, headKind, Wf.mixes, Rule.kind]
  · refine ⟨?_, ?_, ?_⟩
    · intro st hst; simp at hst; subst hst; simp
    · intro f hf; simp at hf
    · simp [NoMixFrom]

theorem exProg_entries : ∀ e ∈ Src.entries exProg, runOkB e.lookup.rules = true := by decide

/-- the flat fragment applies to `exProg`, for latn/dflt, any feature set, any string -/
example (feats : List Tag) (alt : Nat) (str : List Glyph) :
    shape (compile exProg) "latn" "dflt" feats alt str = interp exProg "latn" "dflt" feats alt str :=
  compile_correct_flat Cmp.Fixes.all exProg exLs exFs [[13]] rfl exProg_bodies exProg_entries (by decide) (by decide) (by decide)
    "latn" "dflt" (by decide) feats alt str

/-- **`compile_correct`** — the whole pipeline, every string, for every program of the fragment.

    `Fragment.ok p` (a computation on the program, `FontcProofs/FeaFragment.lean`) asks:
    * top level: `languagesystem` statements first, then named lookup blocks and feature blocks;
    * a lookup block is `lookupflag` statements followed by rules of one type; names are defined once
      and before they are referenced;
    * inside a feature block: `lookupflag`, rules, lookup blocks, `lookup NAME;` references,
      `script S;` (each script once), `language L [exclude_dflt];` (after a `script` statement, each
      language of a script once, not `dflt`), every language system entered being a declared one;
      no single-substitution rule next to a multiple / ligature rule under one flag outside a lookup
      block (fea-rs merges those);
    * `lookupflag` classes are sorted sets, mark attachment classes pairwise disjoint, GDEF entries
      distinct;
    * every lookup (`Src.entries p`) is of a type whose lookup-level theorem is proved (`runOkB`):
      single / multiple / alternate substitution and single positioning without a glyph targeted twice,
      ligature substitution without a sequence given twice, contextual substitution whose rules carry
      an in-line single or multiple replacement, or none, or are `ignore` rules, class → glyph in-line
      replacements agreeing with earlier ones of the lookup (otherwise: defect F-C11-1).
    `Fragment.langOkB`: the request names the default language of a script, or a language for which
    each table either has a record or has none for the script's default either (an OpenType client
    falls back to the default language system when the record is missing; see "assumptions").
    Outside the fragment (not proved, checked by the streams only): pair positioning, in-line ligature
    replacements and explicit `lookup` references in contextual rules, `mixed-run` merging.
    `fx = Cmp.Fixes.all` is fea-rs as it is (`compile p = compileWith Cmp.Fixes.all p`); the theorem
    holds for every combination of the repairs, so also of the code before them. -/
theorem compile_correct (fx : Cmp.Fixes) (p : Program) (hok : Fragment.ok p = true)
    (script lang : Tag) (hlang : Fragment.langOkB (Src.entries p) script lang = true)
    (feats : List Tag) (alt : Nat) (str : List Glyph) :
    shape (compileWith fx p) script lang feats alt str = interp p script lang feats alt str :=
  compile_correct_of_fragment fx p hok script lang hlang feats alt str

/-! non-vacuity: three language systems, a top-level lookup block under `lookupflag IgnoreMarks`,
    a `liga` feature that has a rule and a reference before `script latn;`, a lookup block, then
    `language TRK exclude_dflt;` with a second reference and a multiple substitution, and a `kern`
    feature with positioning before and after `script latn; language TRK;` -/

def exLs2 : List (Tag × Tag) := [("DFLT", "dflt"), ("latn", "dflt"), ("latn", "TRK")]
def exProg2 : Program :=
  { gdef := [(1, 1), (13, 3)],
    tops := lsTops exLs2 ++ [
      .lookup "L1" [.flag { im := true }, .rule (.single (.g 1) (.g 2)), .rule (.single (.g 3) (.g 4))],
      .feature "liga" [.rule (.single (.c [3, 4]) (.g 5)), .ref "L1", .script "latn",
        .lookup "L2" [.rule (.ligature [.g 1, .g 3] 11)], .language "TRK" true, .ref "L1",
        .rule (.multiple 6 [7, 8])],
      .feature "kern" [.rule (.spos (.g 1) ⟨0, 0, 10, 0⟩), .script "latn", .language "TRK" false,
        .rule (.spos (.g 2) ⟨0, 0, 5, 0⟩)]] }

theorem exProg2_ok : Fragment.ok exProg2 = true := by decide
theorem exProg2_lang : Fragment.langOkB (Src.entries exProg2) "latn" "TRK" = true := by decide

/-- `compile_correct` applies to `exProg2`, for latn/TRK, any feature set, any string -/
example (feats : List Tag) (alt : Nat) (str : List Glyph) :
    shape (compile exProg2) "latn" "TRK" feats alt str = interp exProg2 "latn" "TRK" feats alt str :=
  compile_correct Cmp.Fixes.all exProg2 exProg2_ok "latn" "TRK" exProg2_lang feats alt str

/-- what the source semantics registers in `exProg2`: `L1` for DFLT/dflt, latn/dflt and (second
    reference) latn/TRK; the root rule not for latn/TRK (`exclude_dflt`); … -/
theorem exProg2_regs : (Src.entries exProg2).map (fun e => (e.lookup.name, e.regs)) =
    [(some "L1", [("liga", "DFLT", "dflt"), ("liga", "latn", "dflt"), ("liga", "latn", "TRK")]),
     (none, [("liga", "DFLT", "dflt"), ("liga", "latn", "dflt")]),
     (some "L2", [("liga", "latn", "dflt")]),
     (none, [("liga", "latn", "TRK")]),
     (none, [("kern", "DFLT", "dflt"), ("kern", "latn", "dflt"), ("kern", "latn", "TRK")]),
     (none, [("kern", "latn", "TRK")])] := by decide

/-! ### the full statement was false of fea-rs before the repairs (defect F-C11-1, `compileOld`) -/

/-- `feature test { sub d' c by e;  sub c [a d]' by f; } test;`
    (glyph ids: a = 1, c = 3, d = 4, e = 5, f = 6) -/
def cexProg : Program :=
  { gdef := [],
    tops := [.feature "test" [
      .rule (.chain [] [(.g 4, [])] [.g 3] (.single (.g 5))),
      .rule (.chain [.g 3] [(.c [1, 4], [])] [] (.single (.g 6)))]] }

def cexLookup : Src.Lookup :=
  ⟨none, {}, [.chain [] [(.g 4, [])] [.g 3] (.single (.g 5)), .chain [.g 3] [(.c [1, 4], [])] [] (.single (.g 6))]⟩

theorem pass_two (ign : Glyph → Bool) (st : Step) (g1 g2 o : Glyph) (h1 : ign g1 = false)
    (h2 : st [] g1 [g2] = some ([o], [g2])) (h3 : ign g2 = false) (h4 : st [o] g2 [] = none) :
    Src.pass ign st [] [g1, g2] = [o, g2] := by
  rw [Src.pass]; simp only [h1, h2]; simp
  rw [Src.pass]; simp only [h3, h4]; simp
  rw [Src.pass]; simp

theorem cex_entries : Src.entries cexProg = [⟨cexLookup, [("test", "DFLT", "dflt")]⟩] := by decide

theorem cex_interp : interp cexProg "DFLT" "dflt" ["test"] 0 [4, 3] = [(5, Value.zero), (3, Value.zero)] := by
  simp only [interp, cex_entries]
  have hact : ([⟨cexLookup, [("test", "DFLT", "dflt")]⟩] : List Src.Entry).filter (·.active "DFLT" "dflt" ["test"])
      = [⟨cexLookup, [("test", "DFLT", "dflt")]⟩] := by decide
  rw [hact]
  have hg : ([⟨cexLookup, [("test", "DFLT", "dflt")]⟩] : List Src.Entry).filter (!·.lookup.isPos)
      = [⟨cexLookup, [("test", "DFLT", "dflt")]⟩] := by decide
  have hp : ([⟨cexLookup, [("test", "DFLT", "dflt")]⟩] : List Src.Entry).filter (·.lookup.isPos) = [] := by decide
  rw [hg, hp]
  simp only [List.foldl_cons, List.foldl_nil, Src.applyGsub]
  rw [pass_two _ _ 4 3 5 (by decide) (by decide) (by decide) (by decide)]
  rfl
theorem pass_two_ot (ign : Glyph → Bool) (st : Step) (g1 g2 o : Glyph) (h1 : ign g1 = false)
    (h2 : st [] g1 [g2] = some ([o], [g2])) (h3 : ign g2 = false) (h4 : st [o] g2 [] = none) :
    OT.pass ign st [] [g1, g2] = [o, g2] := by
  rw [OT.pass]; simp only [h1, h2]; simp
  rw [OT.pass]; simp only [h3, h4]; simp
  rw [OT.pass]; simp

theorem cex_gdef : (compileOld cexProg).gdef = {} := by
  have ha : (cexProg.tops.foldl (Cmp.St.top {}) {}).attachIds = [] := by decide
  have hf : (cexProg.tops.foldl (Cmp.St.top {}) {}).filterIds = [] := by decide
  simp only [compileOld, compileWith, Cmp.buildGdef, ha, hf]
  simp [cexProg]

theorem cex_shape : shape (compileOld cexProg) "DFLT" "dflt" ["test"] 0 [4, 3] = [(6, Value.zero), (3, Value.zero)] := by
  have h1 : OT.activeLookups (compileOld cexProg).gsub "DFLT" "dflt" ["test"] = [0] := by decide
  have h2 : OT.activeLookups (compileOld cexProg).gpos "DFLT" "dflt" ["test"] = [] := by decide
  simp only [shape, h1, h2, List.foldl_cons, List.foldl_nil, OT.applyAtIdx]
  have hL : (compileOld cexProg).gsub.lookups = [
      ⟨6, 0, none, [.chain3 [] [[4]] [[3]] [(0, 1)], .chain3 [[3]] [[1, 4]] [] [(0, 1)]]⟩,
      ⟨1, 0, none, [.single [(1, 6), (4, 6)]]⟩] := by decide
  simp only [hL, List.getElem?_cons_zero, OT.applyGsub, cex_gdef]
  rw [pass_two_ot _ _ 4 3 6 (by decide) (by decide) (by decide) (by decide)]
  rfl

/-- the full statement failed on fea-rs before the repairs -/
theorem not_FullStatement_witness :
    shape (compileOld cexProg) "DFLT" "dflt" ["test"] 0 [4, 3] ≠ interp cexProg "DFLT" "dflt" ["test"] 0 [4, 3] := by
  rw [cex_shape, cex_interp]; decide

theorem cex_okUpToAnon : Wf.okUpToAnon cexProg = true := by decide

/-- **The full statement failed before the repair**: on the string `d c` the source says `e c`, the compiled tables give
    `f c` — the class → glyph inline substitution of the second rule overwrote `d → e` in the shared
    anonymous lookup.  (The same input is replayed on the real compiler: stream `c11x`, class
    `anon-single-clobber`, on the code before fix 97654e0; with the repair the model agrees with the source:
    `cex_repaired`.) -/
theorem not_FullStatement : ¬ FullStatementOf compileOld := by
  intro h
  exact not_FullStatement_witness (h cexProg "DFLT" "dflt" ["test"] 0 [4, 3] cex_okUpToAnon (by decide))

theorem cex_gdef_repaired : (compile cexProg).gdef = {} := by
  have ha : (cexProg.tops.foldl (Cmp.St.top Cmp.Fixes.all) {}).attachIds = [] := by decide
  have hf : (cexProg.tops.foldl (Cmp.St.top Cmp.Fixes.all) {}).filterIds = [] := by decide
  simp only [compile, compileWith, Cmp.buildGdef, ha, hf]
  simp [cexProg]

/-- … and the repaired compiler (fea-rs as it is now) does what the source says on the same input:
    `d → e` and `[a d] → f` now live in two anonymous lookups -/
theorem cex_repaired :
    shape (compile cexProg) "DFLT" "dflt" ["test"] 0 [4, 3] = interp cexProg "DFLT" "dflt" ["test"] 0 [4, 3] := by
  rw [cex_interp]
  have h1 : OT.activeLookups (compile cexProg).gsub "DFLT" "dflt" ["test"] = [0] := by decide
  have h2 : OT.activeLookups (compile cexProg).gpos "DFLT" "dflt" ["test"] = [] := by decide
  simp only [shape, h1, h2, List.foldl_cons, List.foldl_nil, OT.applyAtIdx]
  have hL : (compile cexProg).gsub.lookups = [
      ⟨6, 0, none, [.chain3 [] [[4]] [[3]] [(0, 1)], .chain3 [[3]] [[1, 4]] [] [(0, 2)]]⟩,
      ⟨1, 0, none, [.single [(4, 5)]]⟩,
      ⟨1, 0, none, [.single [(1, 6), (4, 6)]]⟩] := by decide
  simp only [hL, List.getElem?_cons_zero, OT.applyGsub, cex_gdef_repaired]
  rw [pass_two_ot _ _ 4 3 5 (by decide) (by decide) (by decide) (by decide)]
  rfl

end Fontc.C11
