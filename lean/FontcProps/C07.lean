/-
  C07 — Variation model reproduces its masters exactly and builds valid regions.
  Property theorems only; helper lemmas live in FontcProofs/
  (Rounding, VarModelAlg, VarModelSort, VarModelGeom*, VarModelTri).

  Setting.  `M := Model.new n locs` is the model of `VariationModel::new` (fontdrasil/src/variations.rs)
  for `n` axes.  Master values are given in *model order*: `vals[j]` is the value at `M.locations[j]`
  (`none` = this master is not supplied, as for sparse layers).  `M.deltas round vals` models
  `deltas_with_rounding` (one scalar per master), `interpolate M.influence D at` models
  `interpolate_from_deltas`.  Positions are addressed by `l[j]? = some x`, so every index condition
  is explicit.  Hypotheses on the input: all locations have `n` coordinates (`hlen`), they are pairwise
  distinct (`hnd`; the Rust input is a `HashSet`), and -- where the default master matters -- the
  all-zero location is among them (`hz`).  (Coordinates in [-1,1] are not needed by these theorems.)
-/
import FontcModel.VarModel
import FontcProofs.Rounding
import FontcProofs.VarModelAlg
import FontcProofs.VarModelSort
import FontcProofs.VarModelTri
import FontcProofs.VarModelGeom

namespace Fontc.C07
open Fontc Fontc.VarModel

/-- `Tent::new` never produces a tent spanning zero. -/
theorem tent_new_not_spanning (mn pk mx : Rat) :
    ¬ ((Tent.new mn pk mx).min < 0 ∧ 0 < (Tent.new mn pk mx).max) := by
  unfold Tent.new
  split <;> simp <;> intro h <;> exact Rat.lt_irrefl _

/-- Without rounding (`RoundingBehaviour::None`), interpolating the computed deltas at any master
    location that was given a value returns exactly that value. -/
theorem deltas_reproduce_exact (n : Nat) (locs : List Loc)
    (hlen : ∀ l ∈ locs, l.length = n) (hnd : locs.Pairwise (· ≠ ·))
    (M : Model) (hM : M = Model.new n locs)
    (vals : Values) (hvals : vals.length = M.locations.length)
    (m : Nat) (loc : Loc) (v : Rat)
    (hloc : M.locations[m]? = some loc) (hv : vals[m]? = some (some v)) :
    interpolate M.influence (M.deltas Rounding.none.apply vals) loc = v := by
  subst hM
  exact VarModel.deltas_reproduce_exact _ _ _ vals (Model.new_triangular n locs hlen hnd) hvals
    (fun _ => rfl) m loc v hloc hv

/-- With any rounding function that moves a value by at most 1/2 (applied to each delta as it is
    computed), the value reproduced at a master is within 1/2 of the given one: rounding errors do
    not accumulate. -/
theorem deltas_reproduce_rounded (n : Nat) (locs : List Loc)
    (hlen : ∀ l ∈ locs, l.length = n) (hnd : locs.Pairwise (· ≠ ·))
    (M : Model) (hM : M = Model.new n locs)
    (round : Rat → Rat) (hround : ∀ x, ratAbs (round x - x) ≤ 1/2)
    (vals : Values) (hvals : vals.length = M.locations.length)
    (m : Nat) (loc : Loc) (v : Rat)
    (hloc : M.locations[m]? = some loc) (hv : vals[m]? = some (some v)) :
    ratAbs (interpolate M.influence (M.deltas round vals) loc - v) ≤ 1/2 := by
  subst hM
  exact VarModel.deltas_reproduce_rounded _ _ _ vals (Model.new_triangular n locs hlen hnd) hvals
    hround m loc v hloc hv

/-- Instance for the two `RoundingBehaviour`s of fontc (`None`, `TiesEven` = `f64::round_ties_even`). -/
theorem deltas_reproduce_rounding (n : Nat) (locs : List Loc)
    (hlen : ∀ l ∈ locs, l.length = n) (hnd : locs.Pairwise (· ≠ ·))
    (M : Model) (hM : M = Model.new n locs) (rb : Rounding)
    (vals : Values) (hvals : vals.length = M.locations.length)
    (m : Nat) (loc : Loc) (v : Rat)
    (hloc : M.locations[m]? = some loc) (hv : vals[m]? = some (some v)) :
    ratAbs (interpolate M.influence (M.deltas rb.apply vals) loc - v) ≤ 1/2 :=
  deltas_reproduce_rounded n locs hlen hnd M hM rb.apply (Rounding.apply_abs_le rb) vals hvals
    m loc v hloc hv

/-- Every region of the model is well-formed: min ≤ peak ≤ max, inside [-1,1] (given that the master
    coordinates are), and never spans zero. -/
theorem regions_valid (n : Nat) (locs : List Loc)
    (hlen : ∀ l ∈ locs, l.length = n) (hnd : locs.Pairwise (· ≠ ·))
    (hrange : ∀ l ∈ locs, ∀ x ∈ l, -1 ≤ x ∧ x ≤ 1)
    (M : Model) (hM : M = Model.new n locs) :
    ∀ r ∈ M.influence, ∀ t ∈ r, t.wellFormed = true := by
  subst hM
  rw [Model.new_eq n locs hlen hnd]
  intro r hr t ht
  have hperm := sortLocs_perm locs
  have hlen' : ∀ l ∈ sortLocs locs, l.length = n := fun l hl => hlen l (hperm.mem_iff.1 hl)
  have hrange' : ∀ l ∈ sortLocs locs, ∀ x ∈ l, -1 ≤ x ∧ x ≤ 1 := fun l hl => hrange l (hperm.mem_iff.1 hl)
  exact (masterInfluence_tents_valid hlen' r hr t ht).2 hrange'

/-- Every region scalar lies in [0,1], at every location whatsoever. -/
theorem scalars_in_unit_interval (n : Nat) (locs : List Loc) (M : Model) (hM : M = Model.new n locs)
    (r : Region) (hr : r ∈ M.influence) (p : Loc) : 0 ≤ scalarAt r p ∧ scalarAt r p ≤ 1 := by
  subst hM
  exact masterInfluence_scalar_unit _ r hr p

/-- The default (all-zero) location is the first location of the model, and the value reproduced
    there is exactly `round v₀`, whatever the other masters are. -/
theorem default_exact (n : Nat) (locs : List Loc)
    (hlen : ∀ l ∈ locs, l.length = n) (hnd : locs.Pairwise (· ≠ ·))
    (hz : List.replicate n 0 ∈ locs)
    (M : Model) (hM : M = Model.new n locs)
    (round : Rat → Rat)
    (vals : Values) (hvals : vals.length = M.locations.length)
    (v₀ : Rat) (hv : vals[0]? = some (some v₀)) :
    M.locations[0]? = some (List.replicate n 0) ∧
    interpolate M.influence (M.deltas round vals) (List.replicate n 0) = round v₀ := by
  subst hM
  have h0 : (Model.new n locs).locations[0]? = some (List.replicate n 0) := by
    rw [Model.new_locations n locs hlen hnd, ← List.head?_eq_getElem?]
    exact sortLocs_head_default n locs hlen hz
  exact ⟨h0, VarModel.default_exact _ _ _ vals (Model.new_triangular n locs hlen hnd) hvals
    _ v₀ h0 hv⟩

/-- In particular the default master is reproduced exactly when its value is an integer (font
    units), for both rounding behaviours. -/
theorem default_exact_int (n : Nat) (locs : List Loc)
    (hlen : ∀ l ∈ locs, l.length = n) (hnd : locs.Pairwise (· ≠ ·))
    (hz : List.replicate n 0 ∈ locs)
    (M : Model) (hM : M = Model.new n locs) (rb : Rounding)
    (vals : Values) (hvals : vals.length = M.locations.length)
    (k : Int) (hv : vals[0]? = some (some (k : Rat))) :
    interpolate M.influence (M.deltas rb.apply vals) (List.replicate n 0) = (k : Rat) := by
  rw [(default_exact n locs hlen hnd hz M hM rb.apply vals hvals k hv).2, Rounding.apply_intCast]

/-- The model does not depend on the order in which the masters were supplied. -/
theorem model_perm_invariant (n : Nat) (locs₁ locs₂ : List Loc)
    (hlen : ∀ l ∈ locs₁, l.length = n) (hnd : locs₁.Pairwise (· ≠ ·))
    (hperm : locs₁.Perm locs₂) :
    Model.new n locs₁ = Model.new n locs₂ :=
  Model.new_perm_invariant n locs₁ locs₂ hlen hnd hperm

/-- Stronger: the model depends only on the *set* of supplied locations (no side conditions;
    `Model.new` itself expands to `n` axes and removes duplicates). -/
theorem model_set_invariant (n : Nat) (locs₁ locs₂ : List Loc)
    (hset : ∀ l, l ∈ locs₁ ↔ l ∈ locs₂) :
    Model.new n locs₁ = Model.new n locs₂ :=
  Model.new_set_invariant n locs₁ locs₂ hset


/-! ### Non-vacuity: a concrete 2-axis model with an off-axis and an intermediate master -/

/-- Five masters, listed in model order. -/
def exLocs : List Loc := [[0, 0], [1, 0], [0, 1], [1, 1], [1/2, 1/2]]
/-- The same masters in another order. -/
def exShuffled : List Loc := [[1, 1], [0, 1], [1/2, 1/2], [1, 0], [0, 0]]
/-- Values at `exLocs` (the master at `[0,1]` is not supplied; `71/2` forces a rounding tie). -/
def exVals : Values := [some 10, some 20, none, some (71/2), some 17]

-- the hypotheses of the theorems hold for this input
theorem exLocs_len : ∀ l ∈ exLocs, l.length = 2 := by decide +kernel
theorem exLocs_nodup : exLocs.Pairwise (· ≠ ·) := by decide +kernel
theorem exLocs_zero : List.replicate 2 0 ∈ exLocs := by decide +kernel
example : ∀ l ∈ exLocs, ∀ x ∈ l, -1 ≤ x ∧ x ≤ 1 := by decide +kernel
theorem exShuffled_perm : exShuffled.Perm exLocs := by decide +kernel

/-- The model of the example, computed: locations keep the listed order … -/
theorem exModel_locations : (Model.new 2 exLocs).locations = exLocs := by
  rw [Model.new_locations 2 exLocs exLocs_len exLocs_nodup]
  exact sortLocs_of_pairwise exLocs (by decide +kernel)

/-- … and the influence regions are these (the last one is the intermediate master's). -/
theorem exModel_influence : (Model.new 2 exLocs).influence =
    [[⟨0, 0, 0⟩, ⟨0, 0, 0⟩], [⟨0, 1, 1⟩, ⟨0, 0, 0⟩], [⟨0, 0, 0⟩, ⟨0, 1, 1⟩], [⟨0, 1, 1⟩, ⟨0, 1, 1⟩],
     [⟨0, 1/2, 1⟩, ⟨0, 1/2, 1⟩]] := by
  rw [Model.new_influence 2 exLocs exLocs_len exLocs_nodup,
    sortLocs_of_pairwise exLocs (by decide +kernel)]
  decide +kernel

/-- `deltas_reproduce_exact` applies (master 4 = `[1/2,1/2]`, value 17) … -/
example : interpolate (Model.new 2 exLocs).influence
    ((Model.new 2 exLocs).deltas Rounding.none.apply exVals) [1/2, 1/2] = 17 :=
  deltas_reproduce_exact 2 exLocs exLocs_len exLocs_nodup _ rfl exVals
    (by rw [exModel_locations]; decide +kernel) 4 _ _
    (by rw [exModel_locations]; decide +kernel) (by decide +kernel)

/-- … and agrees with direct evaluation of the model: deltas and all reproduced values. -/
example : (Model.new 2 exLocs).deltas Rounding.none.apply exVals
    = [some 10, some 10, none, some (31/2), some (-15/8)] := by
  unfold Model.deltas; rw [exModel_locations, exModel_influence]; decide +kernel
example : exLocs.map (interpolate (Model.new 2 exLocs).influence
    ((Model.new 2 exLocs).deltas Rounding.none.apply exVals)) = [10, 20, 10, 71/2, 17] := by
  unfold Model.deltas; rw [exModel_locations, exModel_influence]; decide +kernel

/-- `deltas_reproduce_rounding` applies (master 3 = `[1,1]`, value 71/2, ties-even) … -/
example : ratAbs (interpolate (Model.new 2 exLocs).influence
    ((Model.new 2 exLocs).deltas Rounding.tiesEven.apply exVals) [1, 1] - 71/2) ≤ 1/2 :=
  deltas_reproduce_rounding 2 exLocs exLocs_len exLocs_nodup _ rfl .tiesEven exVals
    (by rw [exModel_locations]; decide +kernel) 3 _ _
    (by rw [exModel_locations]; decide +kernel) (by decide +kernel)

/-- … the bound 1/2 is attained here (36 vs 71/2), so it cannot be improved. -/
example : (Model.new 2 exLocs).deltas Rounding.tiesEven.apply exVals
    = [some 10, some 10, none, some 16, some (-2)] := by
  unfold Model.deltas; rw [exModel_locations, exModel_influence]; decide +kernel
example : exLocs.map (interpolate (Model.new 2 exLocs).influence
    ((Model.new 2 exLocs).deltas Rounding.tiesEven.apply exVals)) = [10, 20, 10, 36, 17] := by
  unfold Model.deltas; rw [exModel_locations, exModel_influence]; decide +kernel

/-- `deltas_reproduce_rounded` with another admissible rounding (`otRound`). -/
example : ratAbs (interpolate (Model.new 2 exLocs).influence
    ((Model.new 2 exLocs).deltas (fun x => (otRound x : Rat)) exVals) [1/2, 1/2] - 17) ≤ 1/2 :=
  deltas_reproduce_rounded 2 exLocs exLocs_len exLocs_nodup _ rfl _ otRound_abs_le exVals
    (by rw [exModel_locations]; decide +kernel) 4 _ _
    (by rw [exModel_locations]; decide +kernel) (by decide +kernel)

/-- `default_exact` / `default_exact_int` apply: the default is first and reproduced exactly. -/
example : (Model.new 2 exLocs).locations[0]? = some [0, 0] ∧
    interpolate (Model.new 2 exLocs).influence
      ((Model.new 2 exLocs).deltas Rounding.tiesEven.apply exVals) [0, 0]
      = Rounding.tiesEven.apply 10 :=
  default_exact 2 exLocs exLocs_len exLocs_nodup exLocs_zero _ rfl _ exVals
    (by rw [exModel_locations]; decide +kernel) 10 (by decide +kernel)
example : interpolate (Model.new 2 exLocs).influence
    ((Model.new 2 exLocs).deltas Rounding.tiesEven.apply exVals) [0, 0] = ((10 : Int) : Rat) :=
  default_exact_int 2 exLocs exLocs_len exLocs_nodup exLocs_zero _ rfl .tiesEven exVals
    (by rw [exModel_locations]; decide +kernel) 10 (by decide +kernel)

/-- `model_perm_invariant` applies: the shuffled input gives the same model, whose locations are
    in the canonical order. -/
example : Model.new 2 exShuffled = Model.new 2 exLocs :=
  model_perm_invariant 2 exShuffled exLocs (by decide +kernel) (by decide +kernel) exShuffled_perm
example : (Model.new 2 exShuffled).locations = [[0, 0], [1, 0], [0, 1], [1, 1], [1/2, 1/2]] := by
  rw [model_perm_invariant 2 exShuffled exLocs (by decide +kernel) (by decide +kernel) exShuffled_perm]
  exact exModel_locations
/-- `model_set_invariant`: duplicates and order are irrelevant. -/
example : Model.new 2 ([0, 0] :: exShuffled) = Model.new 2 exLocs :=
  model_set_invariant 2 _ _ (fun l =>
    ⟨(by decide +kernel : ∀ l ∈ [0, 0] :: exShuffled, l ∈ exLocs) l,
     (by decide +kernel : ∀ l ∈ exLocs, l ∈ [0, 0] :: exShuffled) l⟩)

end Fontc.C07
