/-
  C07 — Variation model reproduces its masters exactly and builds valid regions.
  Property theorems only; helper lemmas live in FontcProofs/.
-/
import FontcModel.VarModel

namespace Fontc.C07
open Fontc Fontc.VarModel

/-- `Tent::new` never produces a tent spanning zero. -/
theorem tent_new_not_spanning (mn pk mx : Rat) :
    ¬ ((Tent.new mn pk mx).min < 0 ∧ 0 < (Tent.new mn pk mx).max) := by
  unfold Tent.new
  split <;> simp <;> intro h <;> exact Rat.lt_irrefl _

end Fontc.C07
