/-
  C16 — Conditional substitutions fire exactly where the source rules say.
  Property theorems only; the model is FontcModel/FeatVars.lean (fontir/src/feature_variations.rs),
  helper lemmas live in FontcProofs/FeatVars*.lean.

  Reading guide.  `overlayCore ops n cs` is `overlay_feature_variations` after its two merge passes, run on
  the rule list `cs` over `n` axes with the rank representation `ops` (`natOps` = the Python int of fontTools,
  `wordOps` = the `SmallVec<[u64;4]>` emulation in the code).  `firstMatch out p` is what a font built from the
  output does at `p` (first record whose condition set holds).  `activeSubs cs p` is the specification `T(p)`:
  the substitution maps of the rules whose region contains `p`, in rule order.
-/
import FontcProofs.FeatVarsWitness
import FontcProofs.FeatVarsWitness2
import FontcProofs.FeatVarsWordVal
import FontcProofs.FeatVarsWordFixed

namespace Fontc.C16
open Fontc Fontc.FeatVars

/-! ## 1. `NBox::overlay_onto` -/

/-- **`overlay_onto` is sound.**  For boxes as `NBox::insert` builds them (ranges inside [-1,1]) over the same
    axes, and every point `p`:
    * the intersection box is exactly the set intersection;
    * "no intersection" is only answered when the common points (if any) lie on a face where the two boxes
      touch or one of them has zero width;
    * the remainder lies inside `other` and covers `other ∖ self` (also when the difference is not a box: then
      it is `other` itself);
    * "no remainder" is only answered when `self` covers `other`. -/
theorem overlay_onto_sound (self other : NBox) (p : Point) (hs : BoxOk self) (ho : BoxOk other)
    (hl : self.length = other.length) (hp : p.length = other.length) :
    (∀ i, (overlayOnto self other).1 = some i →
        (contains i p = true ↔ contains self p = true ∧ contains other p = true)) ∧
    ((overlayOnto self other).1 = none → contains self p = true → contains other p = true →
        OnTouchingBoundary [self, other] p) ∧
    (∀ r, (overlayOnto self other).2 = some r →
        (contains r p = true → contains other p = true) ∧
        (contains other p = true → contains self p = false → contains r p = true)) ∧
    ((overlayOnto self other).2 = none → contains other p = true → contains self p = true) := by
  refine ⟨?_, ?_, ?_, ?_⟩
  · intro i hi
    obtain ⟨_, _, rfl⟩ := overlayOnto_inter_shape hs ho hl hi
    rw [contains_inter self other p hs ho hl hp, Bool.and_eq_true]
  · intro hnone hcs hco
    rw [overlayOnto_fst] at hnone
    split at hnone
    · rename_i hany
      obtain ⟨k, x, lo, hi, lo', hi', h1, h2, h3, h4, h5⟩ := commonEmpty_touch self other p hany hcs hco
      refine ⟨k, x, h1, ?_, ?_⟩
      · rcases ratMax_cases lo lo' with ⟨e, _⟩ | ⟨e, _⟩
        · exact ⟨self, by simp, hi, by rw [h2, h4, e]⟩
        · exact ⟨other, by simp, hi', by rw [h3, h4, e]⟩
      · rcases ratMin_cases hi hi' with ⟨e, _⟩ | ⟨e, _⟩
        · exact ⟨self, by simp, lo, by rw [h2, h5, e]⟩
        · exact ⟨other, by simp, lo', by rw [h3, h5, e]⟩
    · cases hnone
  · intro r hr
    obtain ⟨_, _, hsub⟩ := overlayOnto_rem_shape hs ho hl hr
    refine ⟨hsub p, fun hco hcs => ?_⟩
    obtain ⟨r', hr', hg⟩ := step_rem (L := fun _ _ => True) (H := fun _ _ => True) self other p
      (good_of_contains hco) hcs hs ho hl hp
    rw [hr] at hr'; cases hr'
    exact hg.contains
  · exact fun hnone hco => overlayOnto_rem_none p hs ho hl hp hnone hco

/-! ## 2. The overlay loop, with the rank as a natural number -/

/-- **The overlay invariant.**  After all rules have been overlaid, for every point `p` that is not on a
    degenerate touching boundary: every box that contains `p` carries only rules that are active at `p`, and
    some box that contains `p` carries exactly the active rules. -/
theorem overlay_invariant (n : Nat) (cs : List Rule) (hok : RulesOk n cs) (p : Point) (hp : p.length = n)
    (hnt : ¬ OnTouchingBoundary (cs.flatMap (·.1)) p) :
    let boxmap := overlayLoop natOps n (cs.map (·.1)) 0 (initMap natOps n)
    (∀ e ∈ boxmap, contains e.1 p = true →
        ∀ j, e.2.testBit j = true → ∃ h : j < cs.length, regionContains cs[j].1 p = true) ∧
    (∃ e ∈ boxmap, contains e.1 p = true ∧
        ∀ j, e.2.testBit j = true ↔ ∃ h : j < cs.length, regionContains cs[j].1 p = true) := by
  intro boxmap
  let boxes := cs.flatMap (·.1)
  let R := cs.map (·.1)
  have hRlen : R.length = cs.length := by simp [R]
  have hntL : NoTouch (loSet boxes) (hiSet boxes) p := noTouch_of_forall p fun k x hk hboth =>
    hnt ⟨k, x, hk, hboth.1, hboth.2⟩
  have hall : ∀ reg ∈ R, reg ≠ [] ∧ ∀ c ∈ reg, c.length = n ∧ BoxOk c ∧ InB (loSet boxes) (hiSet boxes) c := by
    intro reg hreg
    obtain ⟨r, hr, rfl⟩ := List.mem_map.1 hreg
    refine ⟨hok.nonempty r hr, fun c hc => ?_⟩
    obtain ⟨h1, h2⟩ := hok.shape r hr c hc
    have hcb : c ∈ boxes := List.mem_flatMap.2 ⟨r, hr, hc⟩
    exact ⟨h1, h2, inB_of_forall c fun k lo hi hk => ⟨⟨c, hcb, hi, hk⟩, ⟨c, hcb, lo, hk⟩⟩⟩
  obtain ⟨_, hSound, w, hwmem, hwgood, hwbits⟩ :=
    overlay_loop_final (natLaw cs.length) (L := loSet boxes) (H := hiSet boxes) R (by simp [hRlen]) hp hntL hall
  have hAct : ∀ j, Act R p R.length j ↔ ∃ h : j < cs.length, regionContains cs[j].1 p = true := by
    intro j
    unfold Act
    constructor
    · rintro ⟨hj, reg, h1, h2⟩
      have hj' : j < cs.length := by omega
      refine ⟨hj', ?_⟩
      have : R[j]? = some cs[j].1 := by simp [R, hj']
      rw [this] at h1; cases h1; exact h2
    · rintro ⟨hj, h2⟩
      exact ⟨by omega, cs[j].1, by simp [R, hj], h2⟩
  refine ⟨fun e he hc j hj => (hAct j).1 (hSound e he hc j hj), w, hwmem, hwgood.contains, fun j => ?_⟩
  exact (hwbits j).trans (hAct j)

/-- **`first_match_is_T`.**  For every rule list whose regions are non-empty (boxes over `n` axes, ranges
    inside [-1,1]) the function returns normally, and at every point that is not on a degenerate touching
    boundary the first box of the output that contains the point carries exactly the substitutions of the
    rules active there, in rule order (no box at all when no rule is active). -/
theorem first_match_is_T (n : Nat) (cs : List Rule) (hok : RulesOk n cs) :
    ∃ out, overlayCore natOps n cs = some out ∧
      ∀ p : Point, p.length = n → ¬ OnTouchingBoundary (cs.flatMap (·.1)) p →
        (firstMatch out p).getD [] = activeSubs cs p :=
  first_match_generic n cs (natLaw cs.length) hok

/-- The hypothesis about touching boundaries cannot be dropped (inherited from fontTools): two rules whose
    boxes share the face `x = 1/2` are both active on that face, the first matching box has only one. -/
theorem boundary_counterexample :
    RulesOk 1 touchRules ∧ OnTouchingBoundary (touchRules.flatMap (·.1)) [1/2] ∧
    activeSubs touchRules [1/2] = [[(1, 11)], [(2, 12)]] ∧
    (firstMatch ((overlayCore natOps 1 touchRules).getD []) [1/2]).getD [] = [[(2, 12)]] :=
  ⟨touchRules_ok, touch_on_boundary, touch_first_match.1, touch_first_match.2⟩

/-! ## 3. The word-vector rank of the code against the natural-number rank -/

/-- The word-vector operations implement the natural-number ones (`val` = the number a vector denotes). -/
def RankOpsRefine (a b : WRank) : Prop :=
  (WRank.bitor a b).val = a.val ||| b.val ∧
  (WRank.bitorAssign a b).val = a.val ||| b.val ∧
  (wordOps.le a b = natOps.le a.val b.val)

/-- `rank_words_refine_nat`, full statement: for all word vectors. **False** (see below). -/
def FullStatement : Prop := ∀ a b : WRank, RankOpsRefine a b

/-- `&a | &b` is right for all lengths; `a |= &b` is right when `a` is not longer than `b`; the sort key
    `count_zeros` orders like the number of set bits when both vectors have the same number of words. -/
theorem rank_words_refine_nat_partial (a b : WRank) (hlen : a.length = b.length) : RankOpsRefine a b := by
  refine ⟨val_bitor a b, val_bitorAssign_of_le a b (by omega), ?_⟩
  have ha := countZeros_add_popcount a
  have hb := countZeros_add_popcount b
  show decide (a.countZeros ≤ b.countZeros) = decide (popcount b.val ≤ popcount a.val)
  rw [hlen] at ha
  congr 1
  apply propext
  constructor <;> intro h <;> omega

/-- `&a | &b` alone needs no hypothesis. -/
theorem rank_bitor_refines (a b : WRank) : (WRank.bitor a b).val = a.val ||| b.val := val_bitor a b

/-- `count_zeros` depends on the number of allocated words: a one-word rank with one bit sorts before a
    two-word rank with two bits. -/
theorem rank_count_zeros_counterexample :
    wordOps.le [1] [1, 1] = true ∧ natOps.le (WRank.val [1]) (WRank.val [1, 1]) = false := by
  decide +kernel

/-- `|=` aligns at the high end: or-ing the one-word rank {0} into the two-word rank {0, 65} sets bit 64. -/
theorem rank_bitor_assign_counterexample :
    WRank.bitorAssign [2, 1] [1] = [3, 1] ∧
    (WRank.bitorAssign [2, 1] [1]).val ≠ WRank.val [2, 1] ||| WRank.val [1] := by
  decide +kernel

theorem rank_words_refine_nat_counterexample : ¬ FullStatement := by
  intro h
  have := (h [1] [1, 1]).2.2
  have hc := rank_count_zeros_counterexample
  rw [hc.1, hc.2] at this
  cases this

/-- **With at most 64 rules the code's word vectors give the same guarantee** as the natural-number rank. -/
theorem first_match_is_T_words_partial (n : Nat) (cs : List Rule) (hok : RulesOk n cs) (h64 : cs.length ≤ 64) :
    ∃ out, overlayCore wordOps n cs = some out ∧
      ∀ p : Point, p.length = n → ¬ OnTouchingBoundary (cs.flatMap (·.1)) p →
        (firstMatch out p).getD [] = activeSubs cs p :=
  first_match_generic n cs (wordLaw64 cs.length h64) hok

/-- the same statement without the bound on the number of rules -/
def WordsFullStatement : Prop :=
  ∀ (n : Nat) (cs : List Rule), RulesOk n cs →
    ∃ out, overlayCore wordOps n cs = some out ∧
      ∀ p : Point, p.length = n → ¬ OnTouchingBoundary (cs.flatMap (·.1)) p →
        (firstMatch out p).getD [] = activeSubs cs p

/-- **65 rules break it** (genuine defect, replayed on the real code by `vharness c16 directed --from 5 --n 1`):
    rule 0 box wght∈[1/2,1], 63 filler rules far away, rule 64 box wdth∈[1/2,1] × wght∈[1/4,3/4];
    at wdth 0.7, wght 0.6 rules 0 and 64 are active, the first matching box carries rule 0 only. -/
theorem first_match_words_counterexample : ¬ WordsFullStatement := by
  intro h
  obtain ⟨out, hout, hall⟩ := h 2 (manyRules 63) manyRules_ok
  have := hall probe (by decide) probe_off_boundary
  rw [manyRules_spec] at this
  have hw := manyRules_words.2
  rw [hout] at hw
  simp only [Option.getD_some] at hw
  rw [hw] at this
  revert this
  decide

/-! ## 4. The whole function `overlay_feature_variations` (merge passes included) against the source rules -/

/-- **The property for the whole function**, for source rules whose substitution maps are maps (unique keys):
    the function returns normally, and at every point `p` of the cube that is not on a degenerate touching
    boundary and where the active rules do not substitute the same glyph differently, the glyph map applied by
    the first matching box (earlier map wins) equals the glyph map of the rules whose region contains `p`,
    combined in rule order with earlier rules taking precedence. -/
theorem overlay_effective (n : Nat) (rules : List Rule) (hok : RulesOk n rules) (hu : ∀ r ∈ rules, SubsUniq r.2) :
    ∃ out, overlayFeatureVariations natOps n rules = some out ∧
      ∀ p : Point, p.length = n → InCube p → ¬ OnTouchingBoundary (rules.flatMap (·.1)) p → NoConflict rules p →
        ∀ g, effective ((firstMatch out p).getD []) g = effective (activeSubs rules p) g :=
  overlay_effective_generic n rules hok hu (natLaw _)

/-- the same with the code's word-vector rank, when at most 64 rules remain after the two merge passes -/
theorem overlay_effective_words_partial (n : Nat) (rules : List Rule) (hok : RulesOk n rules)
    (hu : ∀ r ∈ rules, SubsUniq r.2) (h64 : (mergedRules rules).length ≤ 64) :
    ∃ out, overlayFeatureVariations wordOps n rules = some out ∧
      ∀ p : Point, p.length = n → InCube p → ¬ OnTouchingBoundary (rules.flatMap (·.1)) p → NoConflict rules p →
        ∀ g, effective ((firstMatch out p).getD []) g = effective (activeSubs rules p) g :=
  overlay_effective_generic n rules hok hu (wordLaw64 _ h64)

/-- The `NoConflict` hypothesis cannot be dropped: "earlier rules take precedence" is **not** kept when two
    simultaneously active rules substitute the same glyph (genuine, inherited from fontTools):
    rules A: 1→11 on [0,1], B: 1→12 on [-1/2,1/2], C: 2→13 on [0,1].  `merge_same_region_rules` files A+C at C's
    position, after B, so at 1/4 the first matching box lists B before A and glyph 1 becomes 12, not 11. -/
theorem precedence_counterexample :
    RulesOk 1 precRules ∧ ¬ OnTouchingBoundary (precRules.flatMap (·.1)) [1/4] ∧
    effective (activeSubs precRules [1/4]) 1 = some 11 ∧
    effective ((firstMatch ((overlayFeatureVariations natOps 1 precRules).getD []) [1/4]).getD []) 1 = some 12 :=
  ⟨precRules_ok, prec_off_boundary, prec_first_match.1, prec_first_match.2.2⟩

/-- The hypothesis "every region has at least one box" (`RulesOk.nonempty`) cannot be dropped either: a rule
    without any condition set makes the function forget every rule before it (genuine, inherited from
    fontTools): here rule 0 is active at 1/2 but the output is empty. -/
theorem empty_region_counterexample :
    activeSubs emptyRegionRules [1/2] = [[(1, 11)]] ∧
    (overlayFeatureVariations natOps 1 emptyRegionRules).map List.length = some 0 :=
  emptyRegion_first_match

/-! ## 5. The proposed fix (`/verif/fixes/C16-rank.patch`: `count_ones` sort key, `|=` aligned at the low end) -/

/-- with the patched operations the refinement of §3 holds for **all** word vectors -/
theorem rank_fixed_refines (a b : WRank) :
    (WRank.bitor a b).val = a.val ||| b.val ∧
    (WRank.bitorAssignFixed a b).val = a.val ||| b.val ∧
    (wordOpsFixed.le a b = natOps.le a.val b.val) := by
  refine ⟨val_bitor a b, val_bitorAssignFixed a b, ?_⟩
  show decide (b.countOnes ≤ a.countOnes) = decide (popcount b.val ≤ popcount a.val)
  rw [countOnes_eq_popcount, countOnes_eq_popcount]

/-- … and `first_match_is_T` holds for the patched word-vector rank for every number of rules. -/
theorem first_match_is_T_words_fixed (n : Nat) (cs : List Rule) (hok : RulesOk n cs) :
    ∃ out, overlayCore wordOpsFixed n cs = some out ∧
      ∀ p : Point, p.length = n → ¬ OnTouchingBoundary (cs.flatMap (·.1)) p →
        (firstMatch out p).getD [] = activeSubs cs p :=
  first_match_generic n cs (wordLawFixed cs.length) hok

/-- the whole function with the patched rank, no bound on the number of rules -/
theorem overlay_effective_words_fixed (n : Nat) (rules : List Rule) (hok : RulesOk n rules)
    (hu : ∀ r ∈ rules, SubsUniq r.2) :
    ∃ out, overlayFeatureVariations wordOpsFixed n rules = some out ∧
      ∀ p : Point, p.length = n → InCube p → ¬ OnTouchingBoundary (rules.flatMap (·.1)) p → NoConflict rules p →
        ∀ g, effective ((firstMatch out p).getD []) g = effective (activeSubs rules p) g :=
  overlay_effective_generic n rules hok hu (wordLawFixed _)

/-! ## Non-vacuity: the hypotheses of each theorem are satisfiable -/

example : BoxOk [some (0, 1/2)] ∧ BoxOk [none] ∧ [some ((0 : Rat), (1/2 : Rat))].length = [(none : Option Range)].length :=
  ⟨boxOkB_sound (by decide +kernel), boxOkB_sound (by decide +kernel), rfl⟩
example : RulesOk 1 touchRules ∧ ([1/4] : Point).length = 1 ∧ ¬ OnTouchingBoundary (touchRules.flatMap (·.1)) [1/4] :=
  ⟨touchRules_ok, rfl, touch_off_boundary⟩
example : RulesOk 1 touchRules ∧ touchRules.length ≤ 64 := ⟨touchRules_ok, by decide⟩
example : ([1] : WRank).length = ([2] : WRank).length := rfl

example : RulesOk 1 touchRules ∧ (∀ r ∈ touchRules, SubsUniq r.2) ∧ InCube [1/4] ∧
    ¬ OnTouchingBoundary (touchRules.flatMap (·.1)) [1/4] ∧ NoConflict touchRules [1/4] := by
  refine ⟨touchRules_ok, ?_, ?_, touch_off_boundary, ?_⟩
  · intro r hr
    simp [touchRules] at hr
    rcases hr with rfl | rfl <;> simp [SubsUniq]
  · intro x hx
    have : x = 1/4 := by simpa using hx
    subst this
    constructor <;> decide +kernel
  · rintro g x y ⟨r, hr, ha, hx⟩ ⟨r', hr', ha', hy⟩
    simp [touchRules] at hr hr'
    have e2 : regionContains [[some ((1/2 : Rat), (1 : Rat))]] [1/4] = false := by decide +kernel
    rcases hr with rfl | rfl <;> rcases hr' with rfl | rfl
    · rw [hx] at hy; cases hy; rfl
    · rw [e2] at ha'; cases ha'
    · rw [e2] at ha; cases ha
    · rw [hx] at hy; cases hy; rfl

end Fontc.C16
