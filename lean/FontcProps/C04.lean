/-
  C04 — Advances and global metrics at each master location equal the master's.

  Model.  HVAR/VVAR (fontbe/src/metric_variations.rs, hvar.rs, vvar.rs) and MVAR (mvar.rs, GlobalMetrics deltas in
  fontir/src/ir.rs) feed one value per master — the advance (or metric) of that master, first rounded with
  `OtRound` — to the same variation model as gvar and store the ties-even rounded deltas in an
  ItemVariationStore; the font value at a location is `default + Σ scalar·delta` = `interpolate`.
  `vals[j] = (otRound a_j : Rat)` where `a_j` is the source value at `M.locations[j]`.
  The bookkeeping around the model — one cached variation model per distinct set of glyph locations, the dense leading
  `.notdef`, "no deltas" for glyphs drawn at the default only — is `FontcModel/Metric.lean` (`AdvanceDeltas`); the
  theorems `advance_cache_transparent` and `advances_reproduced_for_every_glyph` say that the cache never makes a glyph
  use anything but its own model on its own values, for every glyph order and every mix of location sets.
  The e2e streams `c04e2e` / `c04adv` evaluate hmtx+HVAR / vmtx+VVAR / MVAR of real fonts at every master with the
  independent spec evaluator (FontcModel/Ivs.lean).
-/
import FontcModel.VarModel
import FontcProofs.Rounding
import FontcProofs.VarModelAlg
import FontcProofs.VarModelTri
import FontcProps.C07
import FontcModel.Metric
import FontcProofs.Metric

namespace Fontc.C04
open Fontc Fontc.VarModel

/-- The value the font gives at a master location is within 1/2 of that master's *rounded* source value … -/
theorem metric_master_reproduced (n : Nat) (locs : List Loc)
    (hlen : ∀ l ∈ locs, l.length = n) (hnd : locs.Pairwise (· ≠ ·))
    (M : Model) (hM : M = Model.new n locs)
    (src : List (Option Rat)) (hsrc : src.length = M.locations.length)
    (m : Nat) (loc : Loc) (a : Rat)
    (hloc : M.locations[m]? = some loc) (ha : src[m]? = some (some a)) :
    ratAbs (interpolate M.influence
      (M.deltas Rounding.tiesEven.apply (src.map (Option.map fun x => (otRound x : Rat)))) loc
        - (otRound a : Rat)) ≤ 1/2 := by
  apply C07.deltas_reproduce_rounding n locs hlen hnd M hM .tiesEven _ (by simpa using hsrc) m loc _ hloc
  simp [ha]

/-- … hence within 1 unit of the source advance / metric itself (the bound the property states). -/
theorem metric_within_one_unit (n : Nat) (locs : List Loc)
    (hlen : ∀ l ∈ locs, l.length = n) (hnd : locs.Pairwise (· ≠ ·))
    (M : Model) (hM : M = Model.new n locs)
    (src : List (Option Rat)) (hsrc : src.length = M.locations.length)
    (m : Nat) (loc : Loc) (a : Rat)
    (hloc : M.locations[m]? = some loc) (ha : src[m]? = some (some a)) :
    ratAbs (interpolate M.influence
      (M.deltas Rounding.tiesEven.apply (src.map (Option.map fun x => (otRound x : Rat)))) loc - a) ≤ 1 := by
  have h1 := metric_master_reproduced n locs hlen hnd M hM src hsrc m loc a hloc ha
  have h2 := otRound_abs_le a
  have a1 := (ratAbs_le_iff _ _).1 h1
  have a2 := (ratAbs_le_iff _ _).1 h2
  apply (ratAbs_le_iff _ _).2
  constructor <;> grind

/-- The default-location value (hmtx / vmtx / OS/2, hhea, post fields) is exactly the rounded default master's. -/
theorem default_metric_exact (n : Nat) (locs : List Loc)
    (hlen : ∀ l ∈ locs, l.length = n) (hnd : locs.Pairwise (· ≠ ·))
    (hz : List.replicate n 0 ∈ locs)
    (M : Model) (hM : M = Model.new n locs)
    (src : List (Option Rat)) (hsrc : src.length = M.locations.length)
    (a₀ : Rat) (ha : src[0]? = some (some a₀)) :
    interpolate M.influence
      (M.deltas Rounding.tiesEven.apply (src.map (Option.map fun x => (otRound x : Rat))))
      (List.replicate n 0) = (otRound a₀ : Rat) := by
  apply C07.default_exact_int n locs hlen hnd hz M hM .tiesEven _ (by simpa using hsrc)
  simp [ha]

/-! ### the per-glyph bookkeeping of HVAR / VVAR (`AdvanceDeltas`, fontbe/src/metric_variations.rs) -/

open Fontc.Metric in
/-- **The model cache is transparent.** Walking any glyph order from a state whose cache is sound (`State.init` is,
    `init_sound`), the entry pushed for glyph `i` is `specOf` of that glyph: its own model (`Model.new` of its own
    location list) applied to its own rounded advances — a function of the glyph, of "is it the first glyph" and of
    the font's glyph locations only. No glyph ever receives deltas computed for another glyph's location set. -/
theorem advance_cache_transparent (s : State) (gs : List GlyphSrc) (h : s.Inv) :
    (s.addAll gs).deltas =
      s.deltas ++ gs.zipIdx.map fun (g, i) => specOf s.n s.glyphLocs (s.deltas.length + i == 0) g :=
  addAll_deltas s gs h

open Fontc.Metric in
theorem init_sound (n : Nat) (globalLocs glyphLocs : List Loc) : (State.init n globalLocs glyphLocs).Inv :=
  init_inv n globalLocs glyphLocs

open Fontc.Metric in
/-- **Every glyph, sparse or not.** After the whole glyph order has been walked, for every glyph that has at least
    two masters (pairwise different locations of `n` coordinates) and every one of *its* masters `(loc, a)`:
    hmtx + HVAR (vmtx + VVAR) at `loc` is within 1/2 of the rounded advance `otRound a`, hence within 1 unit of `a`. -/
theorem advances_reproduced_for_every_glyph (n : Nat) (globalLocs glyphLocs : List Loc) (gs : List GlyphSrc)
    (i : Nat) (g : GlyphSrc) (hg : gs[i]? = some g)
    (hmany : 2 ≤ g.masters.length)
    (hlen : ∀ p ∈ g.masters, p.1.length = n) (hnd : (g.masters.map (·.1)).Pairwise (· ≠ ·))
    (loc : Loc) (a : Rat) (hmem : (loc, a) ∈ g.masters) :
    ∃ e, ((State.init n globalLocs glyphLocs).addAll gs).deltas[i]? = some (some e) ∧
      ratAbs (e.valueAt loc - (otRound a : Rat)) ≤ 1/2 ∧ ratAbs (e.valueAt loc - a) ≤ 1 := by
  have hall := addAll_deltas (State.init n globalLocs glyphLocs) gs (init_inv n globalLocs glyphLocs)
  have heff : ∀ s : State, effectiveMasters s g = some g.masters := by
    intro s
    unfold effectiveMasters
    match hm : g.masters with
    | [] => simp [hm] at hmany
    | [_] => simp [hm] at hmany
    | _ :: _ :: _ => rfl
  refine ⟨specEntry n g.masters, ?_, ?_, ?_⟩
  · rw [hall]
    simp only [State.init, List.nil_append, List.length_nil, Nat.zero_add, List.getElem?_map, List.getElem?_zipIdx, hg,
      Option.map_some]
    simp [specOf, heff]
  · exact specEntry_master_reproduced n g.masters hlen hnd loc a hmem
  · have h1 := specEntry_master_reproduced n g.masters hlen hnd loc a hmem
    have h2 := otRound_abs_le a
    have a1 := (ratAbs_le_iff _ _).1 h1
    have a2 := (ratAbs_le_iff _ _).1 h2
    apply (ratAbs_le_iff _ _).2
    constructor <;> grind

/-! non-vacuity: glyph order `.notdef, A, T` over wght; the global masters are at 0 and 1, `A` has an extra master at
    1/3 and `T` one at 2/3 with the *same* advances 580 / 650 / 700 at their own masters (the input on which a cache
    keyed by the values alone hands `T` the deltas of `A`) -/

open Fontc.Metric in
def exGlyphs : List GlyphSrc :=
  [⟨".notdef", [([0], 500)]⟩,
   ⟨"A", [([0], 580), ([1/3], 650), ([1], 700)]⟩,
   ⟨"T", [([0], 580), ([2/3], 650), ([1], 700)]⟩]

open Fontc.Metric in
example : ∃ e, ((State.init 1 [[0], [1]] [[0], [1/3], [2/3], [1]]).addAll exGlyphs).deltas[2]? = some (some e) ∧
    ratAbs (e.valueAt [2/3] - (otRound (650 : Rat) : Rat)) ≤ 1/2 ∧ ratAbs (e.valueAt [2/3] - 650) ≤ 1 :=
  advances_reproduced_for_every_glyph 1 [[0], [1]] [[0], [1/3], [2/3], [1]] exGlyphs 2
    ⟨"T", [([0], 580), ([2/3], 650), ([1], 700)]⟩ rfl (by decide) (by simp) (by simp; grind) [2/3] 650 (by simp)

end Fontc.C04
