/-
  C04 — Advances and global metrics at each master location equal the master's.

  Model.  HVAR/VVAR (fontbe/src/metric_variations.rs, hvar.rs, vvar.rs) and MVAR (mvar.rs, GlobalMetrics deltas in
  fontir/src/ir.rs) feed one value per master — the advance (or metric) of that master, first rounded with
  `OtRound` — to the same variation model as gvar and store the ties-even rounded deltas in an
  ItemVariationStore; the font value at a location is `default + Σ scalar·delta` = `interpolate`.
  `vals[j] = (otRound a_j : Rat)` where `a_j` is the source value at `M.locations[j]`.
  The e2e stream `c04e2e` evaluates hmtx+HVAR / vmtx+VVAR / MVAR of real fonts at every master with the
  independent spec evaluator (FontcModel/Ivs.lean).
-/
import FontcModel.VarModel
import FontcProofs.Rounding
import FontcProofs.VarModelAlg
import FontcProofs.VarModelTri
import FontcProps.C07

namespace Fontc.C04
open Fontc Fontc.VarModel

/-- The value the font gives at a master location is within 1/2 of that master's *rounded* source value … -/
theorem metric_master_reproduced (n : Nat) (locs : List Loc)
    (hlen : ∀ l ∈ locs, l.length = n) (hnd : locs.Pairwise (· ≠ ·))
    (M : Model) (hM : M = Model.new n locs)
    (src : List (Option Rat)) (hsrc : src.length = M.locations.length)
    (m : Nat) (loc : Loc) (a : Rat)
    (hloc : M.locations[m]? = some loc) (ha : src[m]? = some (some a)) :
    ratAbs (interpolate M.influence
      (M.deltas Rounding.tiesEven.apply (src.map (Option.map fun x => (otRound x : Rat)))) loc
        - (otRound a : Rat)) ≤ 1/2 := by
  apply C07.deltas_reproduce_rounding n locs hlen hnd M hM .tiesEven _ (by simpa using hsrc) m loc _ hloc
  simp [ha]

/-- … hence within 1 unit of the source advance / metric itself (the bound the property states). -/
theorem metric_within_one_unit (n : Nat) (locs : List Loc)
    (hlen : ∀ l ∈ locs, l.length = n) (hnd : locs.Pairwise (· ≠ ·))
    (M : Model) (hM : M = Model.new n locs)
    (src : List (Option Rat)) (hsrc : src.length = M.locations.length)
    (m : Nat) (loc : Loc) (a : Rat)
    (hloc : M.locations[m]? = some loc) (ha : src[m]? = some (some a)) :
    ratAbs (interpolate M.influence
      (M.deltas Rounding.tiesEven.apply (src.map (Option.map fun x => (otRound x : Rat)))) loc - a) ≤ 1 := by
  have h1 := metric_master_reproduced n locs hlen hnd M hM src hsrc m loc a hloc ha
  have h2 := otRound_abs_le a
  have a1 := (ratAbs_le_iff _ _).1 h1
  have a2 := (ratAbs_le_iff _ _).1 h2
  apply (ratAbs_le_iff _ _).2
  constructor <;> grind

/-- The default-location value (hmtx / vmtx / OS/2, hhea, post fields) is exactly the rounded default master's. -/
theorem default_metric_exact (n : Nat) (locs : List Loc)
    (hlen : ∀ l ∈ locs, l.length = n) (hnd : locs.Pairwise (· ≠ ·))
    (hz : List.replicate n 0 ∈ locs)
    (M : Model) (hM : M = Model.new n locs)
    (src : List (Option Rat)) (hsrc : src.length = M.locations.length)
    (a₀ : Rat) (ha : src[0]? = some (some a₀)) :
    interpolate M.influence
      (M.deltas Rounding.tiesEven.apply (src.map (Option.map fun x => (otRound x : Rat))))
      (List.replicate n 0) = (otRound a₀ : Rat) := by
  apply C07.default_exact_int n locs hlen hnd hz M hM .tiesEven _ (by simpa using hsrc)
  simp [ha]

end Fontc.C04
