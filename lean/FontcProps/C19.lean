/-
  C19 — Values that do not fit the binary format are rejected, never wrapped.

  Model: FontcModel/Casts.lean
    `fieldPipeline    : Field → Rat → Profile → Outcome`   the CURRENT code (after the fixes d8817db glyf-outline,
                                                            944e88e advance-maxp, f8fa190 kern-anchor),
    `fieldPipelineOld : Field → Rat → Profile → Outcome`   the code before them (fontc 61b7940), kept for history.
  Helper lemmas: FontcProofs/Casts*.lean.

  What is proved about the current code (all source values `v : Rat`, both profiles, no bounds):
    * `rejects_or_exact`  (HEADLINE)   on the 16 closed fields (`closed_fields`) the build fails, or the emitted value is
                                       exactly the ideal (format-rounded) one — every value, both profiles, no overflow
                                       hypothesis; `out_of_range_rejected`: outside `Representable` the build fails;
    * `inrange_exact`                  inside `Representable` every one of the 22 fields carries exactly the ideal value;
    * `outcome_profile_independent`, `profile_agreement_iff`, `profile_sensitive_fields`
                                       the profiles agree except where the one remaining unchecked subtraction
                                       (top side bearing) overflows;
    * `boundary_<field>`               exact boundary of every field and what happens beyond it;
    * `clamp_is_violation`, `emitted_out_of_range_differs`
                                       a font emitted for a non-representable value carries a different value, and that
                                       can only happen on an open field;
    * the property at full strength (`FullStatement`) is still FALSE, and `full_statement_fails_only_on_open_fields`
      says exactly where: the 6 open fields `.metricI16`, `.metricU16` (fontinfo numbers, saturating `ot_round()`),
      `.compositeBbox` (saturating), `.rsbExtent` (explicit clamp of hhea/vhea minimum second side bearing and maximum
      extent), `.tsb` (unchecked i16 subtraction: debug panics, release wraps — the only profile disagreement left),
      `.comp2x2` (saturation of [2−2⁻¹⁵, 2] to 0x7fff, at most 2⁻¹⁴ off: `boundary_comp2x2`);
      `open_fields_witnesses` gives a violating value for each.
      (Builds with ≥ 65535 glyphs fail in both profiles in write-fonts' post table: a rejection, not modelled.)
  History (section 7): `old_full_statement_counterexample` (F7: x = 40000 ↦ 32767), `old_profiles_disagree_counterexample`
  (F8), `old_unsafe_fields_witnesses`; `fix_preserves_inrange`: the fixes changed nothing for representable values.
-/
import FontcModel.Casts
import FontcProofs.CastsFixed

namespace Fontc.C19
open Fontc Fontc.Casts

/-! ## 1. Inside the representable range nothing is lost -/

/-- Under `Representable f v` the pipeline of every field returns exactly the ideal value, in both profiles. -/
theorem inrange_exact (f : Field) (v : Rat) (p : Profile) (h : Representable f v) :
    fieldPipeline f v p = .ok (ideal f v) :=
  Casts.inrange_exact f v p h

example : fieldPipeline .outlineCoord 32767 .debug = .ok 32767 ∧ Representable .outlineCoord 32767 := by decide +kernel
example : Representable .comp2x2 (-2) ∧ Representable .advance 65535 ∧ Representable .endPt 65535 := by decide +kernel

/-- For the rounding fields "ideal" is the OpenType rounding of the source value, at most ½ away from it. -/
theorem ideal_is_rounding (f : Field) (v : Rat) (h : isI16Round f = true ∨ isU16Round f = true) :
    ideal f v = (otRound v : Int) ∧ ratAbs (ideal f v - v) ≤ 1/2 := by
  have e : ideal f v = (otRound v : Int) := by
    rcases h with h | h
    · exact (i16Round_pipeline_old f h v .debug).2.1
    · exact (u16Round_pipeline_old f h v .debug).2.1
  exact ⟨e, by rw [e]; exact otRound_abs_le v⟩

example : ideal .kernValue (5/2) = 3 := by decide +kernel

/-! ## 2. The property on the closed fields (headline) -/

/-- The 16 fields on which the property holds unconditionally: the 13 covered by the fixes and the 3 that were
    already guarded by a checked conversion or an assert. -/
theorem closed_fields (f : Field) :
    isOpen f = false ↔
      f ∈ [Field.outlineCoord, .pointDelta, .compOffset, .advance, .lsb, .kernValue, .anchorCoord, .valueDelta, .gvarDelta,
           .hvarDelta, .countU16, .endPt, .compositeTotal, .glyphCount, .longMetricCount, .numContours] := by
  cases f <;> simp [isOpen]

/-- HEADLINE. On every closed field, for every source value and both build profiles: the build fails, or the value
    a reader decodes is exactly the ideal one. -/
theorem rejects_or_exact (f : Field) (hf : isOpen f = false) (v : Rat) (p : Profile) : RejectsOrExact f v p :=
  Casts.rejects_or_exact f hf v p

/-- … and a value that is not representable always makes the build fail there. -/
theorem out_of_range_rejected (f : Field) (hf : isOpen f = false) (v : Rat) (p : Profile) (h : ¬ Representable f v) :
    (fieldPipeline f v p).fails = true :=
  closed_out_of_range_fails f hf v p h

example : isOpen .outlineCoord = false ∧ ¬ Representable .outlineCoord 40000 ∧
    fieldPipeline .outlineCoord 40000 .release = .err := by decide +kernel
example : fieldPipeline .kernValue 32768 .debug = .err ∧ fieldPipeline .pointDelta 40000 .release = .err ∧
    fieldPipeline .compositeTotal 80000 .release = .err ∧ fieldPipeline .endPt 65536 .release = .err := by decide +kernel

/-! ## 3. The two build profiles -/

/-- The only field whose pipeline still contains an unchecked fixed-width subtraction. -/
theorem profile_sensitive_fields (f : Field) : profileSensitive f = true ↔ f = .tsb := by
  cases f <;> simp [profileSensitive]

/-- Debug and release agree on the outcome (Ok/fail AND the value) on every field but the top side bearing, and
    there too unless the subtraction overflows. -/
theorem outcome_profile_independent (f : Field) (v : Rat)
    (h : profileSensitive f = false ∨ ¬ Overflows f v) :
    fieldPipeline f v .debug = fieldPipeline f v .release := by
  rcases h with h | h
  · exact profile_independent f v h
  · exact (profile_agree_iff f v).2 h

/-- … and they differ in every other case: the profiles agree exactly when nothing overflows. -/
theorem profile_agreement_iff (f : Field) (v : Rat) :
    fieldPipeline f v .debug = fieldPipeline f v .release ↔ ¬ Overflows f v :=
  profile_agree_iff f v

/-- Inside `Representable` the profiles agree (corollary of `inrange_exact`). -/
theorem representable_profile_independent (f : Field) (v : Rat) (h : Representable f v) :
    fieldPipeline f v .debug = fieldPipeline f v .release := by
  rw [inrange_exact f v .debug h, inrange_exact f v .release h]

example : Overflows .tsb 40000 ∧ ¬ Overflows .tsb 32767 ∧ ¬ Overflows .pointDelta 40000 ∧ profileSensitive .pointDelta = false := by
  decide +kernel

/-! ## 4. A clamped or wrapped value is a different value -/

/-- Saturating or wrapping a value outside the target range always changes it. -/
theorem clamp_is_violation (v : Int) :
    (¬ inI16 v → satI16 v ≠ v ∧ wrapI16 v ≠ v) ∧ (¬ inU16 v → satU16 v ≠ v ∧ wrapU16 v ≠ v) :=
  ⟨fun h => ⟨satI16_ne h, wrapI16_ne h⟩, fun h => ⟨satU16_ne h, wrapU16_ne h⟩⟩

example : ¬ inI16 40000 ∧ satI16 40000 = 32767 ∧ ¬ inU16 (-1) ∧ satU16 (-1) = 0 ∧ wrapU16 65536 = 0 := by decide

/-- Pipeline level: if the current code emits a font for a value that is not `Representable`, a reader decodes a
    value different from the ideal one, and the field is one of the open ones. -/
theorem emitted_out_of_range_differs (f : Field) (v : Rat) (p : Profile) (w : Rat)
    (hr : ¬ Representable f v) (hw : fieldPipeline f v p = .ok w) : w ≠ ideal f v ∧ isOpen f = true :=
  Casts.emitted_out_of_range_differs f v p w hr hw

example : ¬ Representable .metricI16 40000 ∧ fieldPipeline .metricI16 40000 .debug = .ok 32767 := by decide +kernel

/-! ## 5. The boundary of every field -/

/-- Fields narrowed by `ot_round()` into an i16 behind a range check: representable exactly on [−32768.5, 32767.5);
    the extreme integers pass; everything beyond is REJECTED (`Error::OutOfBounds` / `DeltaError::OutOfRange`). -/
def CheckedI16Boundary (f : Field) : Prop := ∀ (v : Rat) (p : Profile),
    (Representable f v ↔ (-32768 - 1/2 : Rat) ≤ v ∧ v < 32767 + 1/2) ∧
    fieldPipeline f 32767 p = .ok 32767 ∧ fieldPipeline f (-32768) p = .ok (-32768) ∧
    ((32767 + 1/2 : Rat) ≤ v ∨ v < (-32768 - 1/2 : Rat) → fieldPipeline f v p = .err)

theorem boundary_outlineCoord : CheckedI16Boundary .outlineCoord := fun v p => boundary_checkedI16 _ rfl v p
theorem boundary_compOffset : CheckedI16Boundary .compOffset := fun v p => boundary_checkedI16 _ rfl v p
theorem boundary_lsb : CheckedI16Boundary .lsb := fun v p => boundary_checkedI16 _ rfl v p
theorem boundary_kernValue : CheckedI16Boundary .kernValue := fun v p => boundary_checkedI16 _ rfl v p
theorem boundary_anchorCoord : CheckedI16Boundary .anchorCoord := fun v p => boundary_checkedI16 _ rfl v p
theorem boundary_valueDelta : CheckedI16Boundary .valueDelta := fun v p => boundary_checkedI16 _ rfl v p
theorem boundary_gvarDelta : CheckedI16Boundary .gvarDelta := fun v p => boundary_checkedI16 _ rfl v p
theorem boundary_hvarDelta : CheckedI16Boundary .hvarDelta := fun v p => boundary_checkedI16 _ rfl v p

/-- Advance width / height: representable exactly on [−0.5, 65535.5); beyond: rejected. -/
theorem boundary_advance (v : Rat) (p : Profile) :
    (Representable .advance v ↔ (-1/2 : Rat) ≤ v ∧ v < 65535 + 1/2) ∧
    fieldPipeline .advance 65535 p = .ok 65535 ∧ fieldPipeline .advance 0 p = .ok 0 ∧
    ((65535 + 1/2 : Rat) ≤ v ∨ v < (-1/2 : Rat) → fieldPipeline .advance v p = .err) :=
  boundary_checkedAdvance v p

example : fieldPipeline .advance 70000 .release = .err ∧ fieldPipeline .advance (-100) .debug = .err := by decide +kernel

/-- OPEN. Fields still narrowed by a bare saturating `ot_round()` into an i16 (fontinfo metrics, composite bounding
    boxes): beyond [−32768.5, 32767.5) the value is CLAMPED and emitted. -/
def I16ClampBoundary (f : Field) : Prop := ∀ (v : Rat) (p : Profile),
    (Representable f v ↔ (-32768 - 1/2 : Rat) ≤ v ∧ v < 32767 + 1/2) ∧
    fieldPipeline f 32767 p = .ok 32767 ∧ fieldPipeline f (-32768) p = .ok (-32768) ∧
    ((32767 + 1/2 : Rat) ≤ v → fieldPipeline f v p = .ok 32767) ∧
    (v < (-32768 - 1/2 : Rat) → fieldPipeline f v p = .ok (-32768))

theorem boundary_metricI16 : I16ClampBoundary .metricI16 := fun v p => boundary_i16Round_old .metricI16 rfl v p
theorem boundary_compositeBbox : I16ClampBoundary .compositeBbox := fun v p => boundary_i16Round_old .compositeBbox rfl v p

/-- OPEN. usWinAscent / usWinDescent: beyond [−0.5, 65535.5) clamped to 65535 / 0 and emitted. -/
theorem boundary_metricU16 (v : Rat) (p : Profile) :
    (Representable .metricU16 v ↔ (-1/2 : Rat) ≤ v ∧ v < 65535 + 1/2) ∧
    fieldPipeline .metricU16 65535 p = .ok 65535 ∧ fieldPipeline .metricU16 0 p = .ok 0 ∧
    ((65535 + 1/2 : Rat) ≤ v → fieldPipeline .metricU16 v p = .ok 65535) ∧
    (v < (-1/2 : Rat) → fieldPipeline .metricU16 v p = .ok 0) :=
  boundary_u16Round_old .metricU16 rfl v p

/-- Successive glyf point differences: representable iff in [−32768, 32767]; beyond: rejected in BOTH profiles. -/
theorem boundary_pointDelta (v : Rat) (p : Profile) :
    (Representable .pointDelta v ↔ inI16 v.floor) ∧
    fieldPipeline .pointDelta 32767 p = .ok 32767 ∧ fieldPipeline .pointDelta (-32768) p = .ok (-32768) ∧
    (¬ inI16 v.floor → fieldPipeline .pointDelta v p = .err) := by
  refine ⟨Iff.rfl, by cases p <;> decide +kernel, by cases p <;> decide +kernel, fun h => ?_⟩
  simp only [fieldPipeline, checkedI16_out h]

/-- OPEN. Top side bearing (vertical origin − yMax, an unchecked i16 subtraction): beyond i16 the DEBUG build panics and
    the RELEASE build stores the difference modulo 2¹⁶. -/
theorem boundary_tsb (v : Rat) :
    (Representable .tsb v ↔ inI16 v.floor) ∧
    fieldPipeline .tsb 32767 .debug = .ok 32767 ∧ fieldPipeline .tsb (-32768) .release = .ok (-32768) ∧
    fieldPipeline .tsb 32768 .debug = .panic ∧ fieldPipeline .tsb 32768 .release = .ok (-32768) ∧
    (¬ inI16 v.floor → fieldPipeline .tsb v .debug = .panic ∧
                        fieldPipeline .tsb v .release = .ok (wrapI16 v.floor : Int)) := by
  refine ⟨Iff.rfl, by decide +kernel, by decide +kernel, by decide +kernel, by decide +kernel, ?_⟩
  intro h
  simp only [fieldPipeline, subI16, Int.sub_zero, if_neg h, and_self]

/-- OPEN. hhea/vhea minimum second side bearing and maximum extent: an explicit clamp to i16 in both profiles. -/
theorem boundary_rsbExtent (v : Rat) (p : Profile) :
    fieldPipeline .rsbExtent v p = .ok (satI16 v.floor : Int) ∧
    (Representable .rsbExtent v ↔ inI16 v.floor) ∧
    (32767 < v.floor → fieldPipeline .rsbExtent v p = .ok 32767) ∧
    (v.floor < -32768 → fieldPipeline .rsbExtent v p = .ok (-32768)) := by
  refine ⟨rfl, Iff.rfl, ?_, ?_⟩
  · intro h; simp only [fieldPipeline, satI16_above h]; rfl
  · intro h; simp only [fieldPipeline, satI16_below h]; rfl

/-- OPEN (deliberate). Component 2×2 entries: representable exactly on [−2, 2 − 2⁻¹⁵); on [2 − 2⁻¹⁵, 2] the entry
    SATURATES to 0x7fff = 1.99993896484375 (at most 2⁻¹⁴ off, as fonttools does); outside [−2, 2] the glyph is
    DECOMPOSED (shape-preserving fallback). Whatever is stored is within one 2.14 step of the source value. -/
theorem boundary_comp2x2 (v : Rat) (p : Profile) :
    (Representable .comp2x2 v ↔ -2 ≤ v ∧ v < 2 - 1/32768) ∧
    fieldPipeline .comp2x2 (-2) p = .ok (-2) ∧
    (2 - 1/32768 ≤ v → v ≤ 2 → fieldPipeline .comp2x2 v p = .ok (32767 / 16384)) ∧
    (v < -2 ∨ 2 < v → fieldPipeline .comp2x2 v p = .fallback) ∧
    (∀ w, fieldPipeline .comp2x2 v p = .ok w → ratAbs (w - v) ≤ 1 / 16384) :=
  ⟨representable_comp2x2_iff v, by cases p <;> decide +kernel, comp2x2_saturates_old v p,
   comp2x2_fallback_old v p, fun w hw => comp2x2_within_ulp_old v p w hw⟩

example : fieldPipeline .comp2x2 2 .debug = .ok (32767 / 16384) ∧ fieldPipeline .comp2x2 (5/2) .debug = .fallback := by
  decide +kernel

/-- maxp.numGlyphs: `try_into().unwrap()` — up to 65535 exact, beyond: panic (build fails) in both profiles. -/
theorem boundary_glyphCount (v : Rat) (p : Profile) :
    (cnt v ≤ 65535 → fieldPipeline .glyphCount v p = .ok (cnt v : Int)) ∧
    (65535 < cnt v → fieldPipeline .glyphCount v p = .panic) := by
  constructor <;> intro h
  · simp only [fieldPipeline, if_pos h]
  · simp only [fieldPipeline, if_neg (by omega : ¬ cnt v ≤ 65535)]

/-- hhea.numberOfHMetrics: checked conversion — beyond 65535 an `OutOfBounds` error in both profiles. -/
theorem boundary_longMetricCount (v : Rat) (p : Profile) :
    (cnt v ≤ 65535 → fieldPipeline .longMetricCount v p = .ok (cnt v : Int)) ∧
    (65535 < cnt v → fieldPipeline .longMetricCount v p = .err) := by
  constructor <;> intro h
  · simp only [fieldPipeline, if_pos h]
  · simp only [fieldPipeline, if_neg (by omega : ¬ cnt v ≤ 65535)]

/-- maxp.maxPoints / maxContours / maxComponentElements: `u16::try_from` — beyond 65535 rejected. -/
theorem boundary_countU16 (v : Rat) (p : Profile) :
    (cnt v ≤ 65535 → fieldPipeline .countU16 v p = .ok (cnt v : Int)) ∧
    (65535 < cnt v → fieldPipeline .countU16 v p = .err) := by
  constructor <;> intro h
  · simp only [fieldPipeline, checkedU16_in ⟨cnt_nonneg v, h⟩]
  · simp only [fieldPipeline, checkedU16_out (fun x : inU16 (cnt v) => by have := x.2; omega)]

/-- endPtsOfContours: up to 65535 points exact; more are rejected (`check_encodable`) in both profiles. -/
theorem boundary_endPt (p : Profile) :
    fieldPipeline .endPt 65535 p = .ok 65534 ∧ fieldPipeline .endPt 65536 p = .err ∧
    fieldPipeline .endPt 65537 p = .err := by
  refine ⟨?_, ?_, ?_⟩ <;> cases p <;> decide +kernel

/-- numberOfContours: `assert!(len < i16::MAX)` — 32766 is the largest accepted count; 32767 (which the format
    could hold) and beyond panic in both profiles. -/
theorem boundary_numContours (v : Rat) (p : Profile) :
    (cnt v ≤ 32766 → fieldPipeline .numContours v p = .ok (cnt v : Int)) ∧
    (32767 ≤ cnt v → fieldPipeline .numContours v p = .panic) := by
  constructor <;> intro h
  · simp only [fieldPipeline, if_pos h]
  · simp only [fieldPipeline, if_neg (by omega : ¬ cnt v ≤ 32766)]

/-- maxp.maxCompositePoints / maxCompositeContours: `checked_add` — up to 65535 exact; beyond rejected in both profiles. -/
theorem boundary_compositeTotal (v : Rat) (p : Profile) :
    (cnt v ≤ 65535 → fieldPipeline .compositeTotal v p = .ok (cnt v : Int)) ∧
    (65535 < cnt v → fieldPipeline .compositeTotal v p = .err) := by
  constructor <;> intro h
  · simp only [fieldPipeline, checkedU16_in ⟨cnt_nonneg v, h⟩]
  · simp only [fieldPipeline, checkedU16_out (fun x : inU16 (cnt v) => by have := x.2; omega)]

/-! ## 6. The multi-value stages behind `pointDelta` and `compositeTotal` -/

/-- If every successive coordinate difference fits an i16, the stored deltas decode (running sum, as the spec and
    rasterisers do) to exactly the coordinates, in both profiles. -/
theorem glyf_deltas_roundtrip (p : Profile) (xs : List Int) (h : DiffsFit 0 xs) :
    ∃ ds, encodeDeltas p 0 xs = some ds ∧ decodeDeltas 0 ds = xs :=
  encode_decode_exact p 0 xs h

/-- The encoder behind `check_encodable` (current code): rejected exactly when some difference does not fit, the
    same in both profiles, and exact otherwise. -/
theorem glyf_deltas_checked (p : Profile) (xs : List Int) :
    (encodeDeltasChecked p xs = none ↔ ¬ DiffsFit 0 xs) ∧
    (∀ ds, encodeDeltasChecked p xs = some ds → decodeDeltas 0 ds = xs) ∧
    encodeDeltasChecked .debug xs = encodeDeltasChecked .release xs := by
  by_cases h : DiffsFit 0 xs
  · obtain ⟨ds, e1, e2⟩ := encode_decode_exact p 0 xs h
    obtain ⟨dd, d1, d2⟩ := encode_decode_exact .debug 0 xs h
    obtain ⟨dr, r1, r2⟩ := encode_decode_exact .release 0 xs h
    refine ⟨?_, ?_, ?_⟩
    · simp only [encodeDeltasChecked, if_pos h, e1]; simp [h]
    · intro ds' hds; simp only [encodeDeltasChecked, if_pos h, e1] at hds; injection hds with hds; rw [← hds]; exact e2
    · simp only [encodeDeltasChecked, if_pos h, d1, r1]
      -- both decode to xs and have the same length: equal because decoding is injective
      have : dd = dr := by
        have inj : ∀ (acc : Int) (a b : List Int), decodeDeltas acc a = decodeDeltas acc b → a = b := by
          intro acc a
          induction a generalizing acc with
          | nil => intro b hb; cases b with
            | nil => rfl
            | cons y ys => simp [decodeDeltas] at hb
          | cons x xs ih => intro b hb; cases b with
            | nil => simp [decodeDeltas] at hb
            | cons y ys =>
              simp only [decodeDeltas, List.cons.injEq] at hb
              have hxy : x = y := by omega
              subst hxy
              rw [ih (acc + x) ys hb.2]
        exact inj 0 dd dr (by rw [d2, r2])
      rw [this]
  · refine ⟨?_, ?_, ?_⟩
    · simp only [encodeDeltasChecked, if_neg h]; simp [h]
    · intro ds hds; simp only [encodeDeltasChecked, if_neg h] at hds; cases hds
    · simp only [encodeDeltasChecked, if_neg h]

example : DiffsFit 0 [100, -200, 32000] ∧ ¬ DiffsFit 0 [-20000, 20000] ∧
    encodeDeltasChecked .release [-20000, 20000] = none := by decide

/-- Folding `checked_add` over a composite's component counts rejects exactly when the true total exceeds 65535. -/
theorem composite_fold_checked (xs : List Int) (h : ∀ x ∈ xs, 0 ≤ x) :
    foldCheckedAdd 0 false xs = if 65535 < listSum xs then .err else .ok ((listSum xs : Int) : Rat) := by
  have := foldCheckedAdd_eq 0 false xs (by omega) (by omega) h
  simpa using this

example : foldCheckedAdd 0 false [40000, 40000] = .err ∧ foldCheckedAdd 0 false [30000, 30000] = .ok 60000 := by
  decide +kernel

/-! ## 7. The property itself -/

/-- C19 as stated: for every field, value and profile the build fails / falls back or emits the ideal value,
    and the two profiles agree on the outcome. -/
def FullStatement : Prop :=
  (∀ f v p, RejectsOrExact f v p) ∧ (∀ f v, fieldPipeline f v .debug = fieldPipeline f v .release)

/-- The property holds under the explicit range hypothesis (all 22 fields). -/
theorem rejects_or_exact_partial (f : Field) (v : Rat) (p : Profile) (h : Representable f v) :
    RejectsOrExact f v p ∧ fieldPipeline f v .debug = fieldPipeline f v .release := by
  refine ⟨?_, representable_profile_independent f v h⟩
  unfold RejectsOrExact
  rw [inrange_exact f v p h]

/-- Still false: a fontinfo metric of 40000 (e.g. openTypeOS2TypoAscender) is emitted as 32767. -/
theorem full_statement_counterexample : ¬ FullStatement := by
  intro ⟨h, _⟩
  exact absurd (h .metricI16 40000 .debug) (by decide +kernel)

/-- Exactly where: a differing value can only be emitted on one of the six open fields, and the profiles can only
    disagree on the top side bearing. -/
theorem full_statement_fails_only_on_open_fields (f : Field) (v : Rat) :
    (∀ p, ¬ RejectsOrExact f v p → f ∈ [Field.tsb, .rsbExtent, .compositeBbox, .metricI16, .metricU16, .comp2x2]) ∧
    (fieldPipeline f v .debug ≠ fieldPipeline f v .release → f = .tsb) := by
  constructor
  · intro p hn
    have : isOpen f = true := by
      cases ho : isOpen f
      · exact absurd (rejects_or_exact f ho v p) hn
      · rfl
    cases f <;> simp_all [isOpen]
  · intro hne
    cases hs : profileSensitive f
    · exact absurd (profile_independent f v hs) hne
    · exact (profile_sensitive_fields f).1 hs

/-- Every open field really has a value on which a font with a different value is emitted. -/
theorem open_fields_witnesses :
    ¬ RejectsOrExact .metricI16 32768 .debug ∧ ¬ RejectsOrExact .metricU16 65536 .debug ∧
    ¬ RejectsOrExact .compositeBbox 32900 .debug ∧ ¬ RejectsOrExact .rsbExtent (-36000) .debug ∧
    ¬ RejectsOrExact .tsb 35000 .release ∧ ¬ RejectsOrExact .comp2x2 2 .debug ∧
    fieldPipeline .tsb 35000 .debug = .panic ∧ fieldPipeline .tsb 35000 .release = .ok (-30536) := by
  refine ⟨?_, ?_, ?_, ?_, ?_, ?_, ?_, ?_⟩ <;> decide +kernel

/-! ## 8. History: the code before the fixes (`fieldPipelineOld`, fontc 61b7940) -/

/-- The fixes changed nothing for representable values. -/
theorem fix_preserves_inrange (f : Field) (v : Rat) (p : Profile) (h : Representable f v) :
    fieldPipeline f v p = fieldPipelineOld f v p :=
  Casts.fix_preserves_inrange f v p h

/-- The confirmed defect F7 (fixed by d8817db): outline coordinate 40000 was emitted as 32767. -/
theorem old_full_statement_counterexample :
    ¬ RejectsOrExactOld .outlineCoord 40000 .debug ∧ fieldPipelineOld .outlineCoord 40000 .debug = .ok 32767 ∧
    RejectsOrExact .outlineCoord 40000 .debug := by
  refine ⟨?_, ?_, ?_⟩ <;> decide +kernel

/-- F8 (fixed by d8817db / 944e88e): two points 40000 apart — the debug build panicked, the release build emitted
    −25536; composite totals beyond 65535 — debug panicked, release wrapped. Now both are rejected in both profiles. -/
theorem old_profiles_disagree_counterexample :
    fieldPipelineOld .pointDelta 40000 .debug = .panic ∧ fieldPipelineOld .pointDelta 40000 .release = .ok (-25536) ∧
    fieldPipelineOld .compositeTotal 80000 .debug = .panic ∧ fieldPipelineOld .compositeTotal 80000 .release = .ok 14464 ∧
    fieldPipeline .pointDelta 40000 .debug = .err ∧ fieldPipeline .pointDelta 40000 .release = .err ∧
    fieldPipeline .compositeTotal 80000 .debug = .err ∧ fieldPipeline .compositeTotal 80000 .release = .err := by
  refine ⟨?_, ?_, ?_, ?_, ?_, ?_, ?_, ?_⟩ <;> decide +kernel

/-- Before the fixes every one of these emitted a font with a different value. -/
theorem old_unsafe_fields_witnesses :
    ¬ RejectsOrExactOld .outlineCoord 40000 .debug ∧ ¬ RejectsOrExactOld .pointDelta 40000 .release ∧
    ¬ RejectsOrExactOld .compOffset 40000 .debug ∧ ¬ RejectsOrExactOld .advance 65536 .debug ∧
    ¬ RejectsOrExactOld .advance (-1) .debug ∧ ¬ RejectsOrExactOld .lsb 40000 .debug ∧
    ¬ RejectsOrExactOld .kernValue 32768 .debug ∧ ¬ RejectsOrExactOld .anchorCoord (-32769) .debug ∧
    ¬ RejectsOrExactOld .valueDelta 60000 .debug ∧ ¬ RejectsOrExactOld .gvarDelta 60000 .debug ∧
    ¬ RejectsOrExactOld .hvarDelta 40000 .debug ∧ ¬ RejectsOrExactOld .countU16 65536 .debug ∧
    ¬ RejectsOrExactOld .endPt 65537 .debug ∧ ¬ RejectsOrExactOld .compositeTotal 80000 .release := by
  refine ⟨?_, ?_, ?_, ?_, ?_, ?_, ?_, ?_, ?_, ?_, ?_, ?_, ?_, ?_⟩ <;> decide +kernel

end Fontc.C19
