/-
  C19 — Values that do not fit the binary format are rejected, never wrapped.

  Model: FontcModel/Casts.lean (`fieldPipeline : Field → Rat → Profile → Outcome`, every narrowing with its real
  Rust semantics, both build profiles).  Helper lemmas: FontcProofs/Casts*.lean.

  What is proved (all source values `v : Rat`, both profiles, no bounds):
    * `inrange_exact`                 inside the explicit decidable `Representable f v` every field carries exactly
                                      the ideal (format-rounded) value, in both profiles;
    * `outcome_profile_independent`   debug and release agree whenever no unchecked fixed-width add/sub overflows;
                                      `profile_agreement_iff` says this is exact, `profile_sensitive_fields` lists the
                                      four fields that can differ;
    * `boundary_<field>`              for every field: the exact largest / smallest representable source value and what
                                      happens just beyond it (clamp / wrap / panic / error / decomposition);
    * `clamp_is_violation`, `emitted_out_of_range_differs`
                                      whenever a font is emitted for a non-representable value, the value a reader
                                      decodes differs from the source's (one exception, spelled out);
    * the property itself (`FullStatement`) is FALSE of the code as it is: `full_statement_counterexample`
      (outline x = 40000 ↦ 32767, the confirmed defect F7) and `profiles_disagree_counterexample`
      (two points 40000 apart: debug build fails, release build emits a wrapped delta);
      `rejects_or_exact_partial` is the property under the explicit hypothesis `Representable`;
      `safe_fields` lists the fields on which the property holds unconditionally,
      `unsafe_fields_witnesses` gives a violating value for every other field.
-/
import FontcModel.Casts
import FontcProofs.CastsStages

namespace Fontc.C19
open Fontc Fontc.Casts

/-! ## 1. Inside the representable range nothing is lost -/

/-- Under `Representable f v` the pipeline of every field returns exactly the ideal value, in both profiles. -/
theorem inrange_exact (f : Field) (v : Rat) (p : Profile) (h : Representable f v) :
    fieldPipeline f v p = .ok (ideal f v) :=
  Casts.inrange_exact f v p h

example : fieldPipeline .outlineCoord 32767 .debug = .ok 32767 ∧ Representable .outlineCoord 32767 := by decide +kernel
example : Representable .comp2x2 (-2) ∧ Representable .advance 65535 ∧ Representable .endPt 65535 := by decide +kernel

/-- For the rounding fields "ideal" is the OpenType rounding of the source value, at most ½ away from it. -/
theorem ideal_is_rounding (f : Field) (v : Rat) (h : isI16Round f = true ∨ isU16Round f = true) :
    ideal f v = (otRound v : Int) ∧ ratAbs (ideal f v - v) ≤ 1/2 := by
  have e : ideal f v = (otRound v : Int) := by
    rcases h with h | h
    · exact (i16Round_pipeline f h v .debug).2.1
    · exact (u16Round_pipeline f h v .debug).2.1
  exact ⟨e, by rw [e]; exact otRound_abs_le v⟩

example : ideal .kernValue (5/2) = 3 := by decide +kernel

/-! ## 2. The two build profiles -/

/-- The only fields whose pipeline contains an unchecked fixed-width `+` / `-`. -/
theorem profile_sensitive_fields (f : Field) :
    profileSensitive f = true ↔ f ∈ [Field.pointDelta, .tsb, .endPt, .compositeTotal] := by
  cases f <;> simp [profileSensitive]

/-- Debug and release agree on the outcome (Ok/fail AND the value) whenever the field has no unchecked
    arithmetic, or that arithmetic does not overflow on this value. -/
theorem outcome_profile_independent (f : Field) (v : Rat)
    (h : profileSensitive f = false ∨ ¬ Overflows f v) :
    fieldPipeline f v .debug = fieldPipeline f v .release := by
  rcases h with h | h
  · exact profile_independent f v h
  · exact (profile_agree_iff f v).2 h

/-- … and they differ in every other case: the profiles agree exactly when nothing overflows. -/
theorem profile_agreement_iff (f : Field) (v : Rat) :
    fieldPipeline f v .debug = fieldPipeline f v .release ↔ ¬ Overflows f v :=
  profile_agree_iff f v

/-- Inside `Representable` the profiles agree (corollary of `inrange_exact`). -/
theorem representable_profile_independent (f : Field) (v : Rat) (h : Representable f v) :
    fieldPipeline f v .debug = fieldPipeline f v .release := by
  rw [inrange_exact f v .debug h, inrange_exact f v .release h]

example : Overflows .pointDelta 40000 ∧ ¬ Overflows .pointDelta 32767 ∧ profileSensitive .kernValue = false := by
  decide +kernel

/-! ## 3. A clamped or wrapped value is a different value -/

/-- Saturating or wrapping a value outside the target range always changes it. -/
theorem clamp_is_violation (v : Int) :
    (¬ inI16 v → satI16 v ≠ v ∧ wrapI16 v ≠ v) ∧ (¬ inU16 v → satU16 v ≠ v ∧ wrapU16 v ≠ v) :=
  ⟨fun h => ⟨satI16_ne h, wrapI16_ne h⟩, fun h => ⟨satU16_ne h, wrapU16_ne h⟩⟩

example : ¬ inI16 40000 ∧ satI16 40000 = 32767 ∧ ¬ inU16 (-1) ∧ satU16 (-1) = 0 ∧ wrapU16 65536 = 0 := by decide

/-- Pipeline level: if a font is emitted for a value that is not `Representable`, a reader decodes a value
    different from the ideal one — except a contour that ends exactly at point index 65535 in a release build. -/
theorem emitted_out_of_range_differs (f : Field) (v : Rat) (p : Profile) (w : Rat)
    (hr : ¬ Representable f v) (hw : fieldPipeline f v p = .ok w) :
    w ≠ ideal f v ∨ (f = .endPt ∧ cnt v = 65536 ∧ p = .release) :=
  Casts.emitted_out_of_range_differs f v p w hr hw

example : ¬ Representable .outlineCoord 40000 ∧ fieldPipeline .outlineCoord 40000 .debug = .ok 32767 := by
  decide +kernel

/-! ## 4. The boundary of every field -/

/-- The shape shared by the nine fields narrowed by `ot_round()` into an i16: representable exactly on
    [−32768.5, 32767.5); the extreme integers pass; everything beyond is CLAMPED to ±limit and emitted. -/
def I16Boundary (f : Field) : Prop := ∀ (v : Rat) (p : Profile),
    (Representable f v ↔ (-32768 - 1/2 : Rat) ≤ v ∧ v < 32767 + 1/2) ∧
    fieldPipeline f 32767 p = .ok 32767 ∧ fieldPipeline f (-32768) p = .ok (-32768) ∧
    ((32767 + 1/2 : Rat) ≤ v → fieldPipeline f v p = .ok 32767) ∧
    (v < (-32768 - 1/2 : Rat) → fieldPipeline f v p = .ok (-32768))

/-- Same for an unsigned 16-bit field: representable exactly on [−0.5, 65535.5); beyond: clamped to 65535 / 0. -/
def U16Boundary (f : Field) : Prop := ∀ (v : Rat) (p : Profile),
    (Representable f v ↔ (-1/2 : Rat) ≤ v ∧ v < 65535 + 1/2) ∧
    fieldPipeline f 65535 p = .ok 65535 ∧ fieldPipeline f 0 p = .ok 0 ∧
    ((65535 + 1/2 : Rat) ≤ v → fieldPipeline f v p = .ok 65535) ∧
    (v < (-1/2 : Rat) → fieldPipeline f v p = .ok 0)

theorem boundary_outlineCoord : I16Boundary .outlineCoord := fun v p => boundary_i16Round _ rfl v p
theorem boundary_compOffset : I16Boundary .compOffset := fun v p => boundary_i16Round _ rfl v p
theorem boundary_lsb : I16Boundary .lsb := fun v p => boundary_i16Round _ rfl v p
theorem boundary_kernValue : I16Boundary .kernValue := fun v p => boundary_i16Round _ rfl v p
theorem boundary_anchorCoord : I16Boundary .anchorCoord := fun v p => boundary_i16Round _ rfl v p
theorem boundary_valueDelta : I16Boundary .valueDelta := fun v p => boundary_i16Round _ rfl v p
theorem boundary_gvarDelta : I16Boundary .gvarDelta := fun v p => boundary_i16Round _ rfl v p
theorem boundary_hvarDelta : I16Boundary .hvarDelta := fun v p => boundary_i16Round _ rfl v p
theorem boundary_metricI16 : I16Boundary .metricI16 := fun v p => boundary_i16Round _ rfl v p
theorem boundary_advance : U16Boundary .advance := fun v p => boundary_u16Round _ rfl v p
theorem boundary_metricU16 : U16Boundary .metricU16 := fun v p => boundary_u16Round _ rfl v p

example : fieldPipeline .advance 70000 .release = .ok 65535 ∧ fieldPipeline .advance (-100) .debug = .ok 0 := by
  decide +kernel

/-- The fields that are an unchecked i16 subtraction (glyf point delta, top side bearing): representable iff
    the difference is in [−32768, 32767]; beyond, the DEBUG build panics and the RELEASE build stores the
    difference modulo 2¹⁶. -/
def I16SubBoundary (f : Field) : Prop := ∀ (v : Rat),
    (Representable f v ↔ inI16 v.floor) ∧
    fieldPipeline f 32767 .debug = .ok 32767 ∧ fieldPipeline f (-32768) .release = .ok (-32768) ∧
    fieldPipeline f 32768 .debug = .panic ∧ fieldPipeline f 32768 .release = .ok (-32768) ∧
    (¬ inI16 v.floor → fieldPipeline f v .debug = .panic ∧
                        fieldPipeline f v .release = .ok (wrapI16 v.floor : Int))

theorem boundary_pointDelta : I16SubBoundary .pointDelta := by
  intro v
  refine ⟨Iff.rfl, by decide +kernel, by decide +kernel, by decide +kernel, by decide +kernel, ?_⟩
  intro h
  simp only [fieldPipeline, subI16, Int.sub_zero, if_neg h, and_self]

theorem boundary_tsb : I16SubBoundary .tsb := by
  intro v
  refine ⟨Iff.rfl, by decide +kernel, by decide +kernel, by decide +kernel, by decide +kernel, ?_⟩
  intro h
  simp only [fieldPipeline, subI16, Int.sub_zero, if_neg h, and_self]

/-- hhea.minRightSideBearing / xMaxExtent: an explicit clamp to i16 in both profiles. -/
theorem boundary_rsbExtent (v : Rat) (p : Profile) :
    fieldPipeline .rsbExtent v p = .ok (satI16 v.floor : Int) ∧
    (Representable .rsbExtent v ↔ inI16 v.floor) ∧
    (32767 < v.floor → fieldPipeline .rsbExtent v p = .ok 32767) ∧
    (v.floor < -32768 → fieldPipeline .rsbExtent v p = .ok (-32768)) := by
  refine ⟨rfl, Iff.rfl, ?_, ?_⟩
  · intro h; simp only [fieldPipeline, satI16_above h]; rfl
  · intro h; simp only [fieldPipeline, satI16_below h]; rfl

/-- Component 2×2 entries: representable exactly on [−2, 2 − 2⁻¹⁵); on [2 − 2⁻¹⁵, 2] the entry SATURATES to
    0x7fff = 1.99993896484375 (at most 2⁻¹⁴ off); outside [−2, 2] the glyph is DECOMPOSED (shape-preserving
    fallback). Whatever is stored is within one 2.14 step of the source value. -/
theorem boundary_comp2x2 (v : Rat) (p : Profile) :
    (Representable .comp2x2 v ↔ -2 ≤ v ∧ v < 2 - 1/32768) ∧
    fieldPipeline .comp2x2 (-2) p = .ok (-2) ∧
    (2 - 1/32768 ≤ v → v ≤ 2 → fieldPipeline .comp2x2 v p = .ok (32767 / 16384)) ∧
    (v < -2 ∨ 2 < v → fieldPipeline .comp2x2 v p = .fallback) ∧
    (∀ w, fieldPipeline .comp2x2 v p = .ok w → ratAbs (w - v) ≤ 1 / 16384) :=
  ⟨representable_comp2x2_iff v, by cases p <;> decide +kernel, comp2x2_saturates v p,
   comp2x2_fallback v p, fun w hw => comp2x2_within_ulp v p w hw⟩

example : fieldPipeline .comp2x2 2 .debug = .ok (32767 / 16384) ∧ fieldPipeline .comp2x2 (5/2) .debug = .fallback := by
  decide +kernel

/-- maxp.numGlyphs: `try_into().unwrap()` — up to 65535 exact, beyond: panic (build fails) in both profiles. -/
theorem boundary_glyphCount (v : Rat) (p : Profile) :
    (cnt v ≤ 65535 → fieldPipeline .glyphCount v p = .ok (cnt v : Int)) ∧
    (65535 < cnt v → fieldPipeline .glyphCount v p = .panic) := by
  constructor <;> intro h
  · simp only [fieldPipeline, if_pos h]
  · simp only [fieldPipeline, if_neg (by omega : ¬ cnt v ≤ 65535)]

/-- hhea.numberOfHMetrics: checked conversion — beyond 65535 an `OutOfBounds` error in both profiles. -/
theorem boundary_longMetricCount (v : Rat) (p : Profile) :
    (cnt v ≤ 65535 → fieldPipeline .longMetricCount v p = .ok (cnt v : Int)) ∧
    (65535 < cnt v → fieldPipeline .longMetricCount v p = .err) := by
  constructor <;> intro h
  · simp only [fieldPipeline, if_pos h]
  · simp only [fieldPipeline, if_neg (by omega : ¬ cnt v ≤ 65535)]

/-- maxp.maxPoints / maxContours / maxComponentElements: `usize as u16` — WRAPS modulo 65536, in both profiles. -/
theorem boundary_countU16 (v : Rat) (p : Profile) :
    fieldPipeline .countU16 v p = .ok (cnt v % 65536 : Int) ∧
    fieldPipeline .countU16 65535 p = .ok 65535 ∧ fieldPipeline .countU16 65536 p = .ok 0 := by
  refine ⟨rfl, ?_, ?_⟩ <;> cases p <;> decide +kernel

/-- endPtsOfContours: `(cur as u16 - 1)` — up to 65535 points exact; exactly 65536 points: debug panics, release
    happens to store the right 65535; more: wraps in both profiles. -/
theorem boundary_endPt :
    (∀ p, fieldPipeline .endPt 65535 p = .ok 65534) ∧
    fieldPipeline .endPt 65536 .debug = .panic ∧ fieldPipeline .endPt 65536 .release = .ok 65535 ∧
    (∀ p, fieldPipeline .endPt 65537 p = .ok 0) := by
  refine ⟨fun p => ?_, by decide +kernel, by decide +kernel, fun p => ?_⟩ <;> cases p <;> decide +kernel

/-- numberOfContours: `assert!(len < i16::MAX)` — 32766 is the largest accepted count; 32767 (which the format
    could hold) and beyond panic in both profiles. -/
theorem boundary_numContours (v : Rat) (p : Profile) :
    (cnt v ≤ 32766 → fieldPipeline .numContours v p = .ok (cnt v : Int)) ∧
    (32767 ≤ cnt v → fieldPipeline .numContours v p = .panic) := by
  constructor <;> intro h
  · simp only [fieldPipeline, if_pos h]
  · simp only [fieldPipeline, if_neg (by omega : ¬ cnt v ≤ 32766)]

/-- maxp.maxCompositePoints / maxCompositeContours: unchecked u16 `+` — up to 65535 exact; beyond: the debug
    build panics, the release build stores the total modulo 65536. -/
theorem boundary_compositeTotal (v : Rat) :
    (∀ p, cnt v ≤ 65535 → fieldPipeline .compositeTotal v p = .ok (cnt v : Int)) ∧
    (65535 < cnt v → fieldPipeline .compositeTotal v .debug = .panic ∧
                      fieldPipeline .compositeTotal v .release = .ok (cnt v % 65536 : Int)) := by
  constructor
  · intro p h; simp only [fieldPipeline, addU16, Int.zero_add, if_pos h]
  · intro h
    simp only [fieldPipeline, addU16, Int.zero_add, if_neg (by omega : ¬ cnt v ≤ 65535), wrapU16, and_self]

example : fieldPipeline .compositeTotal 80000 .release = .ok 14464 ∧ fieldPipeline .compositeTotal 80000 .debug = .panic := by
  decide +kernel

/-! ## 5. The multi-value stages behind `pointDelta` and `compositeTotal` -/

/-- If every successive coordinate difference fits an i16, the stored deltas decode (running sum, as the spec and
    rasterisers do) to exactly the coordinates, in both profiles. -/
theorem glyf_deltas_roundtrip (p : Profile) (xs : List Int) (h : DiffsFit 0 xs) :
    ∃ ds, encodeDeltas p 0 xs = some ds ∧ decodeDeltas 0 ds = xs :=
  encode_decode_exact p 0 xs h

/-- The debug build fails exactly when some successive difference does not fit; the release build never fails. -/
theorem glyf_deltas_profiles (xs : List Int) :
    (encodeDeltas .debug 0 xs = none ↔ ¬ DiffsFit 0 xs) ∧
    (∃ ds, encodeDeltas .release 0 xs = some ds ∧ ds.length = xs.length) :=
  ⟨encode_debug_none_iff 0 xs, encode_release_some 0 xs⟩

example : DiffsFit 0 [100, -200, 32000] ∧ ¬ DiffsFit 0 [-20000, 20000] := by decide

/-- Folding `acc + e` over a composite's component counts is the `.compositeTotal` pipeline on their sum. -/
theorem composite_fold_is_pipeline (p : Profile) (xs : List Int) (h : ∀ x ∈ xs, 0 ≤ x) :
    foldAddU16 p 0 xs = addU16 p 0 (listSum xs) :=
  foldAddU16_eq p xs h

example : foldAddU16 .debug 0 [40000, 40000] = .panic ∧ foldAddU16 .release 0 [40000, 40000] = .ok 14464 := by
  decide +kernel

/-! ## 6. The property itself -/

/-- C19 as stated: for every field, value and profile the build fails / falls back or emits the ideal value,
    and the two profiles agree on the outcome. -/
def FullStatement : Prop :=
  (∀ f v p, RejectsOrExact f v p) ∧ (∀ f v, fieldPipeline f v .debug = fieldPipeline f v .release)

/-- The property holds under the explicit range hypothesis. -/
theorem rejects_or_exact_partial (f : Field) (v : Rat) (p : Profile) (h : Representable f v) :
    RejectsOrExact f v p ∧ fieldPipeline f v .debug = fieldPipeline f v .release := by
  refine ⟨?_, representable_profile_independent f v h⟩
  unfold RejectsOrExact
  rw [inrange_exact f v p h]

/-- The confirmed defect F7: outline coordinate 40000 is emitted as 32767. -/
theorem full_statement_counterexample : ¬ FullStatement := by
  intro ⟨h, _⟩
  exact absurd (h .outlineCoord 40000 .debug) (by decide +kernel)

/-- Two points 40000 apart (each representable): the debug build panics, the release build emits −25536. -/
theorem profiles_disagree_counterexample :
    fieldPipeline .pointDelta 40000 .debug = .panic ∧ fieldPipeline .pointDelta 40000 .release = .ok (-25536) ∧
    ¬ (∀ f v, fieldPipeline f v .debug = fieldPipeline f v .release) := by
  refine ⟨by decide +kernel, by decide +kernel, fun h => ?_⟩
  exact absurd (h .pointDelta 40000) (by decide +kernel)

/-- The fields on which the property holds for EVERY value: a checked conversion or an assert guards them. -/
theorem safe_fields (f : Field) (hf : f ∈ [Field.glyphCount, .longMetricCount, .numContours]) (v : Rat) (p : Profile) :
    RejectsOrExact f v p := by
  simp only [List.mem_cons, List.mem_nil_iff, or_false] at hf
  rcases hf with rfl | rfl | rfl
  · by_cases h : cnt v ≤ 65535
    · have e : fieldPipeline .glyphCount v p = .ok (cnt v : Int) := by simp only [fieldPipeline, if_pos h]
      simp only [RejectsOrExact, e, ideal]
    · have e : fieldPipeline .glyphCount v p = .panic := by simp only [fieldPipeline, if_neg h]
      simp only [RejectsOrExact, e]
  · by_cases h : cnt v ≤ 65535
    · have e : fieldPipeline .longMetricCount v p = .ok (cnt v : Int) := by simp only [fieldPipeline, if_pos h]
      simp only [RejectsOrExact, e, ideal]
    · have e : fieldPipeline .longMetricCount v p = .err := by simp only [fieldPipeline, if_neg h]
      simp only [RejectsOrExact, e]
  · by_cases h : cnt v ≤ 32766
    · have e : fieldPipeline .numContours v p = .ok (cnt v : Int) := by simp only [fieldPipeline, if_pos h]
      simp only [RejectsOrExact, e, ideal]
    · have e : fieldPipeline .numContours v p = .panic := by simp only [fieldPipeline, if_neg h]
      simp only [RejectsOrExact, e]

/-- Every other field has a value on which a font with a different value is emitted (the map of where the
    property is at risk). 2×2 entries differ by at most 2⁻¹⁴ (`boundary_comp2x2`); all the others by ≥ 1 unit. -/
theorem unsafe_fields_witnesses :
    ¬ RejectsOrExact .outlineCoord 40000 .debug ∧ ¬ RejectsOrExact .pointDelta 40000 .release ∧
    ¬ RejectsOrExact .compOffset 40000 .debug ∧ ¬ RejectsOrExact .comp2x2 2 .debug ∧
    ¬ RejectsOrExact .advance 65536 .debug ∧ ¬ RejectsOrExact .advance (-1) .debug ∧
    ¬ RejectsOrExact .lsb 40000 .debug ∧ ¬ RejectsOrExact .tsb 40000 .release ∧
    ¬ RejectsOrExact .rsbExtent 65435 .debug ∧ ¬ RejectsOrExact .kernValue 32768 .debug ∧
    ¬ RejectsOrExact .anchorCoord (-32769) .debug ∧ ¬ RejectsOrExact .valueDelta 60000 .debug ∧
    ¬ RejectsOrExact .gvarDelta 60000 .debug ∧ ¬ RejectsOrExact .hvarDelta 40000 .debug ∧
    ¬ RejectsOrExact .metricI16 40000 .debug ∧ ¬ RejectsOrExact .metricU16 70000 .debug ∧
    ¬ RejectsOrExact .countU16 65536 .debug ∧ ¬ RejectsOrExact .endPt 65537 .debug ∧
    ¬ RejectsOrExact .compositeTotal 80000 .release := by
  refine ⟨?_, ?_, ?_, ?_, ?_, ?_, ?_, ?_, ?_, ?_, ?_, ?_, ?_, ?_, ?_, ?_, ?_, ?_, ?_⟩ <;> decide +kernel

end Fontc.C19
